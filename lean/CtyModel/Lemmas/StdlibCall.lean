/-
Lemmas: a stdlib function end to end — `XFunc.Call(args)` as the call protocol
(`Fn.call`, C10) around its `Type` and `Impl` callbacks.
-/
import CtyModel.Lemmas.StdlibFlatten
import CtyModel.Lemmas.FnCall
namespace CtyModel
namespace Stdlib
open Value

/-- `ElementFunc.Call(list, index)` end to end, through the call protocol -/
theorem element_call_list (e : Ty) (vs : List Payload) (x : Num)
    (hc : Ty.conformErrs e e = 0)
    (hlen : (vs.length : Int) ≤ maxInt) (hm : ∀ p ∈ vs, p.isMarked = false) :
    (Fn.call elementSpec elementType elementImpl [⟨.list e, .seq vs⟩, numVal x]).1 =
      match Gocty.int64Exact x with
      | none => .err (.callback "invalid index")
      | some i =>
        match Spec.element? vs i with
        | none => .err (.callback "cannot use element function with an empty list")
        | some p => .ok ⟨e, p⟩ := by
  have hnn : (numVal x).isNull = false := rfl
  have hnl : (⟨.list e, .seq vs⟩ : Value).isNull = false := rfl
  have hkn : (numVal x).isKnown = true := rfl
  have hkl : (⟨.list e, .seq vs⟩ : Value).isKnown = true := rfl
  have hcm : (numVal x).containsMarked = false := rfl
  have hmd : (numVal x).marksDeep = [] := rfl
  have htn : (numVal x).ty = .number := rfl
  have hty : elementType [⟨.list e, .seq vs⟩, numVal x] = .ok e := rfl
  have himpl := elementImpl_list e vs x e hlen hm
  have hcn : Ty.conformErrs .number .number = 0 := by decide
  have hcd : ∀ t, Ty.conformErrs .dyn t = 0 := fun t => by simp [Ty.conformErrs]
  simp only [Fn.call, Fn.returnTypeForValues, Fn.pass1, elementSpec, List.length_cons, List.length_nil,
    bne_self_eq_false, Bool.false_eq_true, if_false, Fn.checkLoop, Fn.Param.check, hnn, hnl, Bool.false_and,
    Ty.isDyn, htn, hcn, Fn.Param.typeArg, hcm, Bool.and_false, Bool.not_true, hty, Fn.callBody, List.take,
    List.drop, Fn.pass2, Fn.Param.callArg, hmd, Fn.Param.blocksUnknown, hkn, hkl, Bool.or_self, himpl,
    List.append_nil, List.nil_append, Bool.not_false, Nat.lt_irrefl, decide_false, hcd]
  cases hx : Gocty.int64Exact x with
  | none => simp only [hx] at himpl; simp [himpl]
  | some i =>
    cases hel : Spec.element? vs i with
    | none => simp only [hx, hel] at himpl; simp [himpl, hel]
    | some p => simp only [hx, hel] at himpl; simp [himpl, hc, hel]


theorem refineNN_bool (b : Bool) : refineNN (boolVal b) = some (.b b) := by cases b <;> rfl

/-- `HasIndexFunc.Call(list, i)` on a known mark-free list and a known whole number -/
theorem hasIndex_call_list (e : Ty) (vs : List Payload) (i : Nat) (hi : (i : Int) ≤ maxInt)
    (hm : Payload.containsMarkedL vs = false) :
    (Fn.call hasIndexSpec hasIndexType hasIndexImpl [⟨.list e, .seq vs⟩, intVal i]).1 =
      .ok (boolVal (decide (i < vs.length))) := by
  have hnn : (intVal i).isNull = false := rfl
  have hnl : (⟨.list e, .seq vs⟩ : Value).isNull = false := rfl
  have hkn : (intVal i).isKnown = true := rfl
  have hkl : (⟨.list e, .seq vs⟩ : Value).isKnown = true := rfl
  have hcm : (intVal i).containsMarked = false := rfl
  have hmd : (intVal i).marksDeep = [] := rfl
  have hcl : (⟨.list e, .seq vs⟩ : Value).containsMarked = false := by
    simp [Value.containsMarked, Payload.containsMarked, hm]
  have hml : (⟨.list e, .seq vs⟩ : Value).marksDeep = [] := by
    simp [Value.marksDeep, Payload.marksDeep, Payload.marksDeepL_of_not_containsMarkedL vs hm]
  have hty : hasIndexType [⟨.list e, .seq vs⟩, intVal i] = .ok .bool := rfl
  have himpl : hasIndexImpl [⟨.list e, .seq vs⟩, intVal i] .bool = .ok (boolVal (decide (i < vs.length))) :=
    (C02.index_list e vs i hi).2
  have hcd : ∀ t, Ty.conformErrs .dyn t = 0 := fun t => by simp [Ty.conformErrs]
  have hcb : Ty.conformErrs .bool .bool = 0 := by decide
  have htd : ∀ (t : Ty), (Ty.list t).isDyn = false := fun _ => rfl
  have hti : (intVal i).ty.isDyn = false := rfl
  simp only [Fn.call, Fn.returnTypeForValues, Fn.pass1, hasIndexSpec, List.length_cons, List.length_nil,
    bne_self_eq_false, Bool.false_eq_true, if_false, Fn.checkLoop, Fn.Param.check, hnn, hnl, Bool.false_and,
    htd, hti, hcd, Fn.Param.typeArg, hcm, hcl, hty, Fn.callBody, List.take, List.drop, Fn.pass2, Fn.Param.callArg,
    hmd, hml, Fn.Param.blocksUnknown, hkn, hkl, himpl, List.append_nil, List.nil_append, Bool.not_false,
    Bool.not_true, Bool.or_self, Nat.lt_irrefl, decide_false, List.length_nil, Fn.deferredRefine,
    Fn.refineWith, bne_iff_ne, ne_eq, not_true_eq_false, if_true, ite_self, List.cons_append, gt_iff_lt]
  have hbt : ∀ b, (boolVal b).ty = .bool := fun _ => rfl
  have hbk : ∀ b, (boolVal b).isKnown = true := fun _ => rfl
  have hbu : ∀ b, (boolVal b).unmark = boolVal b := fun _ => rfl
  have hbm : ∀ b, (boolVal b).marks = [] := fun _ => rfl
  simp only [hbt, hcb, not_true_eq_false, if_false, hbk, Bool.true_or, if_true, hbu, hbm, refineNN_bool]
  simp [boolVal, hcb, Value.isKnown, Payload.isKnown, Payload.unmark1, Value.unmark, Value.marks, Payload.marks1,
    Value.withMarks, Payload.withMarks, unionMarks]



/-- **index(list, i)** for a whole `i ≥ 0`: the member at `i` when `i < len`,
otherwise the "invalid index" error (the nested `hasindex` call answers false) -/
theorem indexImpl_list (e : Ty) (vs : List Payload) (i : Nat) (hi : (i : Int) ≤ maxInt)
    (hm : Payload.containsMarkedL vs = false) (retTy : Ty) :
    indexImpl [⟨.list e, .seq vs⟩, intVal i] retTy =
      match vs[i]? with
      | some p => .ok ⟨e, p⟩
      | none => .err "invalid index" := by
  simp only [indexImpl, hasIndex_call_list e vs i hi hm]
  by_cases hlt : i < vs.length
  · simp [hlt, boolTrue, boolVal, Value.isMarked, Payload.isMarked, Ty.isBool, index_list_nat e vs i hi]
  · have : vs[i]? = none := by simp; omega
    simp [hlt, boolTrue, boolVal, Value.isMarked, Payload.isMarked, Ty.isBool, this]

/-- the key rules of `index`'s `Type` callback: a number (or a key of unknown type)
for lists and tuples, a string for maps; the list's / map's element type; for a
tuple the type at the key, which must be a whole number inside the tuple -/
theorem indexType_rules (e : Ty) (ts : List Ty) (p : Payload) (key : Value) (x : Num) :
    indexType [⟨.list e, p⟩, key] =
      (if !key.ty.isNumber && !key.ty.isDyn then .err "key for list must be number" else .ok e) ∧
    indexType [⟨.map e, p⟩, key] =
      (if !key.ty.isString && !key.ty.isDyn then .err "key for map must be string" else .ok e) ∧
    indexType [⟨.tuple ts, p⟩, numVal x] =
      (match Gocty.int64Exact x with
       | none => .err "invalid key for tuple"
       | some i =>
         if i ≥ ts.length || i < 0 then .err "key must be between 0 and len inclusive"
         else (match ts[i.toNat]? with
           | some t => .ok t
           | none => oob)) := by
  refine ⟨rfl, rfl, ?_⟩
  have hk : (numVal x).isKnown = true := rfl
  have ht : (numVal x).ty = .number := rfl
  simp only [indexType, ht, Ty.isNumber, Ty.isDyn, Bool.not_true, Bool.false_and, Bool.false_eq_true, if_false,
    hk, fromCtyInt_num, fromNumInt_64]
  cases Gocty.int64Exact x <;> rfl

/-! ### `zipmap` with a tuple of values: an object -/

theorem amInsert_mapSnd {α β} (f : α → β) (k : String) (v : α) (m : List (String × α)) :
    (amInsert k v m).map (fun p => (p.1, f p.2)) = amInsert k (f v) (m.map fun p => (p.1, f p.2)) := by
  induction m with
  | nil => rfl
  | cons p rest ih =>
    obtain ⟨k', v'⟩ := p
    simp only [amInsert, List.map_cons]
    split
    · rfl
    · split
      · rfl
      · simp [ih]

theorem zipmapTypeLoop_strs (ks : List String) (ts : List Ty) (atys : List (String × Ty)) :
    zipmapTypeLoop (ks.map strVal) ts atys = .ok (amInsertAll ks ts atys) := by
  induction ks generalizing ts atys with
  | nil => cases ts <;> rfl
  | cons k ks ih =>
    cases ts with
    | nil => rfl
    | cons t ts =>
      have hs : asString (strVal k).unmark = .ok k := rfl
      have hn : (strVal k).unmark.isNull = false := rfl
      simp only [List.map_cons, zipmapTypeLoop, hn, Bool.false_eq_true, if_false, hs, ih, amInsertAll]

/-- result type for a tuple of values: the object type binding every key to the
type at its position (last binding wins, names ascending) -/
theorem zipmapType_tuple (E : Env) (ks : List String) (ts : List Ty) (p : Payload) (hl : ks.length = ts.length) :
    ∃ atys, zipmapType E [⟨.list .string, .seq (ks.map Payload.s)⟩, ⟨.tuple ts, p⟩] =
        .ok (.object (atys.map (·.1)) (atys.map (·.2)) (atys.map fun _ => false)) ∧
      Spec.IsMapOf (ks.zip ts) atys := by
  have hk : (⟨.list .string, .seq (ks.map Payload.s)⟩ : Value).whollyKnown = true := by
    simp [Value.whollyKnown, Payload.whollyKnown, whollyKnownL_strs]
  have hu : (⟨.list .string, .seq (ks.map Payload.s)⟩ : Value).unmark = ⟨.list .string, .seq (ks.map Payload.s)⟩ := rfl
  have hmap : (ks.map Payload.s).map (fun x => (⟨.string, x⟩ : Value)) = ks.map strVal := by simp [strVal]
  refine ⟨amInsertAll ks ts [], ?_, by simpa using isMapOf_amInsertAll ks ts [] [] isMapOf_nil⟩
  simp only [zipmapType, hk, Bool.not_true, Bool.false_eq_true, if_false, hu, asValueSlice_list, hmap,
    List.length_map, zipmapTypeLoop_strs]
  simp [hl]

theorem zipmapLoop_tuple_spec (ts : List Ty) (vs : List Payload) (hlen : (vs.length : Int) ≤ maxInt)
    (htv : ts.length = vs.length) :
    ∀ (ks : List String) (i : Nat) (pairs out : List (String × Value)),
      i + ks.length = vs.length → Spec.IsMapOf pairs out →
      ∃ out', zipmapLoop ⟨.tuple ts, .seq vs⟩ (ks.map strVal) i out [] = .ok (out', []) ∧
        Spec.IsMapOf (pairs ++ ks.zip ((zipTV ts vs).drop i)) out' := by
  intro ks
  induction ks with
  | nil =>
    intro i pairs out _ hmo
    exact ⟨out, rfl, by simpa using hmo⟩
  | cons k ks ih =>
    intro i pairs out hi hmo
    have hlt : i < vs.length := by simp at hi; omega
    have hlt' : i < ts.length := by omega
    have hs : asString (strVal k).unmark = .ok k := rfl
    have hmk : (strVal k).marks = [] := rfl
    have hn : (strVal k).unmark.isNull = false := rfl
    simp only [List.map_cons, zipmapLoop, hn, Bool.false_eq_true, if_false]
    rw [index_tuple_nat ts vs i (by omega), List.getElem?_eq_getElem hlt', List.getElem?_eq_getElem hlt]
    simp only [hs, hmk, unionMarks, List.foldr_nil]
    have hstep : Spec.IsMapOf (pairs ++ [(k, (⟨ts[i], vs[i]⟩ : Value))]) (amInsert k ⟨ts[i], vs[i]⟩ out) := by
      have := isMapOf_foldl [(k, (⟨ts[i], vs[i]⟩ : Value))] pairs out hmo
      simpa using this
    obtain ⟨out', hrun, hspec⟩ := ih (i + 1) _ _ (by simp at hi ⊢; omega) hstep
    refine ⟨out', hrun, ?_⟩
    have hzl : i < (zipTV ts vs).length := by rw [zipTV_length]; omega
    have hd : (zipTV ts vs).drop i = (zipTV ts vs)[i] :: (zipTV ts vs).drop (i + 1) :=
      List.drop_eq_getElem_cons hzl
    have hget : (zipTV ts vs)[i] = ⟨ts[i], vs[i]⟩ := by
      have := zipTV_getElem? ts vs i
      rw [List.getElem?_eq_getElem hzl, List.getElem?_eq_getElem hlt', List.getElem?_eq_getElem hlt] at this
      simpa using this
    rw [hd, hget]
    simpa only [List.zip_cons_cons, List.append_assoc, List.singleton_append] using hspec

/-- **zipmap(keys, tuple)**: the object binding every key to the value at its
position, last binding wins; its type is the one the `Type` callback predicts -/
theorem zipmapImpl_tuple (E : Env) (ks : List String) (ts : List Ty) (vs : List Payload)
    (hl : ks.length = vs.length) (htv : ts.length = vs.length) (hlen : (vs.length : Int) ≤ maxInt)
    (ns : List String) (ats : List Ty) (os : List Bool) :
    ∃ out, zipmapImpl E [⟨.list .string, .seq (ks.map Payload.s)⟩, ⟨.tuple ts, .seq vs⟩] (.object ns ats os) =
        .ok (Gocty.objectVal (out.map (·.1)) (out.map (·.2))) ∧
      Spec.IsMapOf (ks.zip (zipTV ts vs)) out := by
  have hk : (⟨.list .string, .seq (ks.map Payload.s)⟩ : Value).whollyKnown = true := by
    simp [Value.whollyKnown, Payload.whollyKnown, whollyKnownL_strs]
  obtain ⟨out, hrun, hspec⟩ := zipmapLoop_tuple_spec ts vs hlen htv ks 0 [] [] (by simpa using hl) isMapOf_nil
  simp only [List.nil_append, List.drop_zero] at hspec
  refine ⟨out, ?_, hspec⟩
  have hmap : (ks.map Payload.s).map (fun x => (⟨.string, x⟩ : Value)) = ks.map strVal := by simp [strVal]
  simp only [zipmapImpl, Value.unmark, Payload.unmark1, Value.marks, Payload.marks1, unionMarks,
    List.foldr_nil, hk, Bool.not_true, Bool.false_eq_true, if_false, lengthInt_list, lengthInt_tuple,
    List.length_map, elems_list, hmap, hrun]
  have : (ks.length != ts.length) = false := by simp [hl, htv]
  simp [this, withMarkSets, Fn.withMarkSets, Fn.unionAll, unionMarks, Value.withMarks, Payload.withMarks,
    Payload.marks1, Gocty.objectVal]

/-! ### result type of `merge` -/

/-- the loop keeps `matching` and `first` when every argument has the type `T` -/
theorem mergeTypeLoop_same (T : Ty) (hT : (isMapTy T || isObjectTy T) = true) (heq : T.equals T = true)
    (hnd : T.equals .dyn = false) :
    ∀ (args : List Value) (i : Nat) (st : MergeTy),
      (∀ a ∈ args, a.ty = T ∧ (a.unmark.isNull = true ∨ ∃ ks, elemKeys a.unmark = .ok ks)) →
      st.matching = true → (i ≠ 0 → st.first = T) →
      ∃ st', mergeTypeLoop args i st = .ok (some st') ∧ st'.matching = true ∧
        ((args ≠ [] ∨ i ≠ 0) → st'.first = T) := by
  intro args
  induction args with
  | nil =>
    intro i st _ hmt hst
    refine ⟨st, rfl, hmt, ?_⟩
    intro h
    rcases h with h | h
    · exact absurd rfl h
    · exact hst h
  | cons a rest ih =>
    intro i st hargs hmt hst
    obtain ⟨hty, hcase⟩ := hargs a (by simp)
    have hrest := fun b hb => hargs b (List.mem_cons_of_mem _ hb)
    have hmo : (!isMapTy a.ty && !isObjectTy a.ty) = false := by
      rw [hty]; cases h1 : isMapTy T <;> cases h2 : isObjectTy T <;> simp_all
    have hut : a.unmark.ty = T := by simp [Value.unmark, hty]
    -- the per-argument step never fails
    have hstep : ∃ st1 : MergeTy, mergeTypeStep st T a.unmark = .ok st1 ∧ st1.first = st.first ∧
        st1.matching = st.matching := by
      cases T with
      | object ns ts os => simp only [mergeTypeStep]; split <;> exact ⟨_, rfl, rfl, rfl⟩
      | map ety =>
        simp only [mergeTypeStep]
        rcases hcase with hn | ⟨ks, hks⟩
        · simp only [hn, if_true]; exact ⟨_, rfl, rfl, rfl⟩
        · by_cases hn : a.unmark.isNull = true
          · simp only [hn, if_true]; exact ⟨_, rfl, rfl, rfl⟩
          · simp only [hn, Bool.false_eq_true, if_false, hks]
            split <;> exact ⟨_, rfl, rfl, rfl⟩
      | _ => exact ⟨st, rfl, rfl, rfl⟩
    obtain ⟨st1, hs1, hf1, hm1⟩ := hstep
    simp only [mergeTypeLoop, hty, hnd, Bool.false_eq_true, if_false]
    rw [hty] at hmo
    simp only [hmo, Bool.false_eq_true, if_false, hs1]
    by_cases h0 : i = 0
    · subst h0
      simp only [beq_self_eq_true, if_true, hut]
      obtain ⟨st', hrun, hm', hf'⟩ := ih 1 { st1 with first := T } hrest (by simp [hm1, hmt]) (fun _ => rfl)
      exact ⟨st', hrun, hm', fun _ => hf' (Or.inr (by simp))⟩
    · have hi : (i == 0) = false := by simpa using h0
      have hf : st.first = T := hst h0
      simp only [hi, Bool.false_eq_true, if_false]
      obtain ⟨st', hrun, hm', hf'⟩ := ih (i + 1) { st1 with matching := st1.matching && T.equals st1.first } hrest
        (by simp [hm1, hmt, hf1, hf, heq]) (fun _ => by simp [hf1, hf])
      exact ⟨st', hrun, hm', fun _ => hf' (Or.inr (by simp))⟩

/-- **result type of `merge`** when all arguments have one map or object type: that type -/
theorem mergeType_same (T : Ty) (hT : (isMapTy T || isObjectTy T) = true) (heq : T.equals T = true)
    (hnd : T.equals .dyn = false) (args : List Value) (hne : args ≠ [])
    (hargs : ∀ a ∈ args, a.ty = T ∧ (a.unmark.isNull = true ∨ ∃ ks, elemKeys a.unmark = .ok ks)) :
    mergeType args = .ok T := by
  obtain ⟨st', hrun, hm', hf'⟩ := mergeTypeLoop_same T hT heq hnd args 0 ⟨[], .dyn, true, true⟩ hargs rfl
    (fun h => absurd rfl h)
  have h0 : ¬ args.length = 0 := fun h => hne (List.eq_nil_of_length_eq_zero h)
  simp [mergeType, h0, hrun, hm', hf' (Or.inl hne)]

/-- no arguments: the empty object type -/
theorem mergeType_nil : mergeType [] = .ok (.object [] [] []) := rfl

/-! ### `slice` of a tuple -/

theorem sliceIndexes_tuple (ts : List Ty) (vs : List Payload) (a b : Num) :
    sliceIndexes [⟨.tuple ts, .seq vs⟩, numVal a, numVal b] =
      match Gocty.int64Exact a with
      | none => .err "invalid start index"
      | some s =>
        if s < 0 then .err "start index must not be less than zero"
        else if s > ts.length then .err "start index must not be greater than the length of the list"
        else
          match Gocty.int64Exact b with
          | none => .err "invalid end index"
          | some t =>
            if t < 0 then .err "end index must not be less than zero"
            else if t > ts.length then .err "end index must not be greater than the length of the list"
            else if s > t then .err "start index must not be greater than end index"
            else .ok ⟨s, t, true⟩ := by
  have hk : ∀ x, (numVal x).isKnown = true := fun _ => rfl
  simp only [sliceIndexes, Value.unmark, Payload.unmark1, isTupleTy, if_true, lengthInt_tuple, Res.map, hk,
    fromCtyInt_num, fromNumInt_64]
  cases ha : Gocty.int64Exact a with
  | none => rfl
  | some s =>
    by_cases h1 : s < 0
    · simp [h1]
    · by_cases h2 : s > ts.length
      · simp [h1, h2]
      · simp only [h1, h2, if_false, decide_false, Bool.false_eq_true]
        cases hb : Gocty.int64Exact b with
        | none => rfl
        | some t =>
          by_cases h3 : t < 0
          · simp [h3]
          · by_cases h4 : t > ts.length
            · simp [h3, h4]
            · by_cases h5 : s > t
              · simp [h3, h4, h5]
              · simp [h3, h4, h5]

theorem sliceIndexes_tuple_ok (ts : List Ty) (vs : List Payload) (a b : Num) (s t : Int)
    (h : SliceArgs ts.length a b s t) :
    sliceIndexes [⟨.tuple ts, .seq vs⟩, numVal a, numVal b] = .ok ⟨s, t, true⟩ := by
  obtain ⟨ha, hb, h0, hst, htl⟩ := h
  rw [sliceIndexes_tuple, ha, hb]
  have h1 : ¬ s < 0 := by omega
  have h2 : ¬ s > ts.length := by omega
  have h3 : ¬ t < 0 := by omega
  have h4 : ¬ t > ts.length := by omega
  have h5 : ¬ s > t := by omega
  simp [h1, h2, h3, h4, h5]

theorem slice_zipTV (ts : List Ty) (vs : List Payload) (a b : Nat) :
    Spec.slice (zipTV ts vs) a b = zipTV (Spec.slice ts a b) (Spec.slice vs a b) := by
  have hdrop : ∀ (n : Nat) (ts : List Ty) (vs : List Payload), (zipTV ts vs).drop n = zipTV (ts.drop n) (vs.drop n) := by
    intro n
    induction n with
    | zero => intro ts vs; rfl
    | succ n ih =>
      intro ts vs
      cases ts with
      | nil => simp [zipTV]
      | cons t ts =>
        cases vs with
        | nil => cases (t :: ts).drop (n + 1) <;> simp [zipTV]
        | cons v vs => simp [zipTV, ih]
  have htake : ∀ (n : Nat) (ts : List Ty) (vs : List Payload), (zipTV ts vs).take n = zipTV (ts.take n) (vs.take n) := by
    intro n
    induction n with
    | zero => intro ts vs; simp [zipTV]
    | succ n ih =>
      intro ts vs
      cases ts with
      | nil => simp [zipTV]
      | cons t ts =>
        cases vs with
        | nil => simp [zipTV]
        | cons v vs => simp [zipTV, ih]
  simp [Spec.slice, hdrop, htake]

/-- **slice(tuple, a, b)**: the tuple of the members at positions `a ≤ p < b` with the
corresponding slice of the element types; the `Type` callback predicts that type -/
theorem sliceImpl_tuple_ok (E : Env) (ts : List Ty) (vs : List Payload) (a b : Num) (s t : Int)
    (hl : ts.length = vs.length) (h : SliceArgs ts.length a b s t) :
    sliceImpl E [⟨.tuple ts, .seq vs⟩, numVal a, numVal b] (.tuple (Spec.slice ts s.toNat t.toNat)) =
        .ok ⟨.tuple (Spec.slice ts s.toNat t.toNat), .seq (Spec.slice vs s.toNat t.toNat)⟩ ∧
    sliceType [⟨.tuple ts, .seq vs⟩, numVal a, numVal b] = .ok (.tuple (Spec.slice ts s.toNat t.toNat)) := by
  have hi := sliceIndexes_tuple_ok ts vs a b s t h
  obtain ⟨ha, hb, h0, hst, htl⟩ := h
  constructor
  · simp only [sliceImpl, Ty.isDyn, Bool.false_eq_true, if_false, hi, Value.unmark, Payload.unmark1,
      Value.marks, Payload.marks1, isTupleTy, if_true, asValueSlice_tuple E ts vs hl]
    by_cases hz : t - s = 0
    · have h1 : Spec.slice ts s.toNat t.toNat = [] := by simp [Spec.slice]; omega
      have h2 : Spec.slice vs s.toNat t.toNat = [] := by simp [Spec.slice]; omega
      simp [hz, h1, h2, emptyTuple, withMarkSets, Fn.withMarkSets, Fn.unionAll, unionMarks, Value.withMarks,
        Payload.withMarks, Payload.marks1]
    · simp only [hz, beq_iff_eq, if_false]
      have hzl : (t : Int) ≤ (zipTV ts vs).length := by rw [zipTV_length]; omega
      rw [goSlice_ok _ s t h0 hst hzl, slice_zipTV]
      have hsl : (Spec.slice ts s.toNat t.toNat).length = (Spec.slice vs s.toNat t.toNat).length := by
        simp [Spec.slice]; omega
      simp [Gocty.tupleVal, tysOf_zipTV _ _ hsl, payloads_zipTV _ _ hsl, withMarkSets, Fn.withMarkSets,
        Fn.unionAll, unionMarks, Value.withMarks, Payload.withMarks, Payload.marks1]
  · simp only [sliceType, isSetTy, isListTy, isTupleTy, Bool.false_eq_true, if_false, Bool.not_false,
      Bool.not_true, Bool.and_false, hi, Res.map]
    rw [goSlice_ok _ s t h0 hst (by simpa using htl)]

theorem sliceImpl_tuple_err (E : Env) (ts : List Ty) (vs : List Payload) (a b : Num) (retTy : Ty)
    (hnd : retTy.isDyn = false) (h : ¬ ∃ s t, SliceArgs ts.length a b s t) :
    Fails (sliceImpl E [⟨.tuple ts, .seq vs⟩, numVal a, numVal b] retTy) ∧
    Fails (sliceType [⟨.tuple ts, .seq vs⟩, numVal a, numVal b]) := by
  have herr : Fails (sliceIndexes [⟨.tuple ts, .seq vs⟩, numVal a, numVal b]) := by
    rw [sliceIndexes_tuple]
    cases ha : Gocty.int64Exact a with
    | none => exact ⟨_, rfl⟩
    | some s =>
      by_cases h1 : s < 0
      · simp only [h1, if_true]; exact ⟨_, rfl⟩
      · by_cases h2 : s > ts.length
        · simp only [h1, h2, if_true, if_false]; exact ⟨_, rfl⟩
        · simp only [h1, h2, if_false]
          cases hb : Gocty.int64Exact b with
          | none => exact ⟨_, rfl⟩
          | some t =>
            by_cases h3 : t < 0
            · simp only [h3, if_true]; exact ⟨_, rfl⟩
            · by_cases h4 : t > ts.length
              · simp only [h3, h4, if_true, if_false]; exact ⟨_, rfl⟩
              · by_cases h5 : s > t
                · simp only [h3, h4, h5, if_true, if_false]; exact ⟨_, rfl⟩
                · exfalso
                  exact h ⟨s, t, ha, hb, by omega, by omega, by omega⟩
  obtain ⟨c, hc⟩ := herr
  exact ⟨⟨c, by simp [sliceImpl, hnd, hc]⟩, ⟨c, by simp [sliceType, isSetTy, isListTy, isTupleTy, hc]⟩⟩

end Stdlib
end CtyModel
