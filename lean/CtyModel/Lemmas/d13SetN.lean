/-
The set-algebra functions on ANY number of arguments (`setunion`,
`setintersection`, `setsymmetricdifference` are variadic): the left fold of the
binary operation, on the carrier of admitted members.
-/
import CtyModel.Lemmas.d13SetAlg
namespace CtyModel
namespace Stdlib
open Value SetImpl

/-- the argument loop of `setOperationImpl` on known sets of one element type -/
theorem setOpLoop_sets (E : Env) (ety : Ty) (k : SetOpKind)
    (hs : ety.equals ety.stripOpt = true) (he : ety.equals ety = true) :
    ∀ (rest : List (List Int × List Payload)) (s : SetImpl Payload),
      (∀ st ∈ rest, ∀ p ∈ st.2, (E.hash ety p).isSome = true) →
      (∀ st ∈ rest, Payload.whollyKnownL st.2 = true) →
      setOpLoop E k (.set ety) ety (setArgs ety rest) s =
        .ok (some (rest.foldl (fun acc st => k.run (setRules E ety) acc
          (SetImpl.fromList (setRules E ety) (setIter E ety st.2))) s))
  | [], s, _, _ => rfl
  | st :: rest, s, hh, hk => by
    have hc : convertTo E ⟨.set ety, .sset st.1 st.2⟩ (.set ety) = .ok ⟨.set ety, .sset st.1 st.2⟩ := by
      simp [convertTo, Ty.stripOpt, Ty.equals, hs]
    have hw : (⟨.set ety, .sset st.1 st.2⟩ : Value).whollyKnown = true := by
      simp [Value.whollyKnown, Payload.whollyKnown, hk st (by simp)]
    simp only [setArgs, List.map_cons, setOpLoop, hc, hw, Bool.not_true, Bool.and_false, Bool.false_eq_true, if_false,
      asValueSet_set E ety st.1 st.2 (hh st (by simp)), he, List.foldl_cons]
    exact setOpLoop_sets E ety k hs he rest _ (fun x hx => hh x (by simp [hx])) (fun x hx => hk x (by simp [hx]))

theorem setOpImpl_sets (E : Env) (ety : Ty) (k : SetOpKind) (first : List Int × List Payload)
    (rest : List (List Int × List Payload))
    (hs : ety.equals ety.stripOpt = true) (he : ety.equals ety = true)
    (hh : ∀ st ∈ first :: rest, ∀ p ∈ st.2, (E.hash ety p).isSome = true)
    (hk : ∀ st ∈ first :: rest, Payload.whollyKnownL st.2 = true) :
    setOpImpl E k (setArgs ety (first :: rest)) (.set ety) =
      .ok (ofSetImpl ety (SetImpl.copy (rest.foldl (fun acc st => k.run (setRules E ety) acc
        (SetImpl.fromList (setRules E ety) (setIter E ety st.2)))
        (SetImpl.fromList (setRules E ety) (setIter E ety first.2))))) := by
  have hc : convertTo E ⟨.set ety, .sset first.1 first.2⟩ (.set ety) = .ok ⟨.set ety, .sset first.1 first.2⟩ := by
    simp [convertTo, Ty.stripOpt, Ty.equals, hs]
  have hw : (⟨.set ety, .sset first.1 first.2⟩ : Value).whollyKnown = true := by
    simp [Value.whollyKnown, Payload.whollyKnown, hk first (by simp)]
  have hloop := setOpLoop_sets E ety k hs he rest (SetImpl.fromList (setRules E ety) (setIter E ety first.2))
    (fun x hx => hh x (by simp [hx])) (fun x hx => hk x (by simp [hx]))
  have hsplit : setArgs ety (first :: rest) = ⟨.set ety, .sset first.1 first.2⟩ :: setArgs ety rest := rfl
  simp only [hsplit, setOpImpl, Ty.isDyn, Bool.false_eq_true, if_false, hc, hw, Bool.not_true, Bool.and_false,
    asValueSet_set E ety first.1 first.2 (hh first (by simp)), hloop]

/-- the reference for `n` arguments: the left fold of the binary set operation over the
membership predicates of the member lists -/
def SetOpKind.specN (k : SetOpKind) (eqv : Payload → Payload → Bool) (first : List Payload)
    (rest : List (List Payload)) (y : Payload) : Prop :=
  rest.foldl (fun acc l => k.spec acc (Spec.memBy eqv l y)) (Spec.memBy eqv first y)

/-- what the fold maintains: the accumulator is the image of a set over the carrier that
satisfies the invariant, holds only allowed members, and represents `A` -/
def FoldInv (R : Rules Payload) (P Q : Payload → Prop) (s : SetImpl Payload) (A : Payload → Prop) : Prop :=
  ∃ s' : SetImpl {a // P a}, s = mapS Subtype.val s' ∧ InvB (R.pull Subtype.val) s' ∧
    (∀ m ∈ values s, Q m) ∧ ∀ y, P y → (SetImpl.abs R s y ↔ A y)

theorem foldInv_fromList (R : Rules Payload) (P Q : Payload → Prop) (hR : R.LawfulOn P) (l : List Payload)
    (hl : ∀ x ∈ l, P x) (hq : ∀ x ∈ l, Q x) :
    FoldInv R P Q (fromList R l) (fun y => ∃ x ∈ l, R.equiv y x = true) := by
  have hR' := hR.pull
  refine ⟨fromList (R.pull Subtype.val) (liftL l hl), by rw [← fromList_mapS, liftL_val], invB_fromList hR' _, ?_, ?_⟩
  · intro m hm
    have e : fromList R l = mapS Subtype.val (fromList (R.pull Subtype.val) (liftL l hl)) := by
      rw [← fromList_mapS, liftL_val]
    rw [e, values_mapS] at hm
    obtain ⟨m', hm', rfl⟩ := List.mem_map.mp hm
    exact hq _ (mem_liftL.mp (mem_values_fromList hR' _ _ hm'))
  · intro y hy
    have e : fromList R l = mapS Subtype.val (fromList (R.pull Subtype.val) (liftL l hl)) := by
      rw [← fromList_mapS, liftL_val]
    have : y = (Subtype.val : {a // P a} → Payload) ⟨y, hy⟩ := rfl
    rw [e, this, abs_mapS, abs_fromList hR']
    constructor
    · rintro ⟨x, hx, he⟩; exact ⟨x.1, mem_liftL.mp hx, he⟩
    · rintro ⟨x, hx, he⟩; exact ⟨⟨x, hl x hx⟩, mem_liftL.mpr hx, he⟩

theorem foldInv_step (R : Rules Payload) (P Q : Payload → Prop) (hR : R.LawfulOn P) (k : SetOpKind)
    (s : SetImpl Payload) (A : Payload → Prop) (h : FoldInv R P Q s A) (l : List Payload)
    (hl : ∀ x ∈ l, P x) (hq : ∀ x ∈ l, Q x) :
    FoldInv R P Q (k.run R s (fromList R l)) (fun y => k.spec (A y) (∃ x ∈ l, R.equiv y x = true)) := by
  have hR' := hR.pull
  obtain ⟨s', rfl, hinv, hQ, habs⟩ := h
  obtain ⟨l', el, hinvl, hQl, habsl⟩ := foldInv_fromList R P Q hR l hl hq
  have eres : k.run R (mapS Subtype.val s') (fromList R l) =
      mapS Subtype.val (k.runG (R.pull Subtype.val) s' l') := by
    rw [k.run_eq_runG, el, k.runG_mapS]
  refine ⟨_, eres, k.invB_runG hR' s' l', ?_, ?_⟩
  · intro m hm
    rw [eres, values_mapS] at hm
    obtain ⟨m', hm', rfl⟩ := List.mem_map.mp hm
    rcases k.mem_runG hR' _ _ m' hm' with h1 | h1
    · exact hQ _ (by rw [values_mapS]; exact List.mem_map.mpr ⟨m', h1, rfl⟩)
    · exact hQl _ (by rw [el, values_mapS]; exact List.mem_map.mpr ⟨m', h1, rfl⟩)
  · intro y hy
    have : y = (Subtype.val : {a // P a} → Payload) ⟨y, hy⟩ := rfl
    rw [eres, this, abs_mapS, k.abs_runG hR' hinv hinvl]
    apply k.spec_congr
    · rw [← abs_mapS]; exact habs y hy
    · rw [← abs_mapS, ← el]; exact habsl y hy

theorem foldInv_foldl (R : Rules Payload) (P Q : Payload → Prop) (hR : R.LawfulOn P) (k : SetOpKind) :
    ∀ (rest : List (List Payload)) (s : SetImpl Payload) (A : Payload → Prop), FoldInv R P Q s A →
      (∀ l ∈ rest, ∀ x ∈ l, P x) → (∀ l ∈ rest, ∀ x ∈ l, Q x) →
      FoldInv R P Q (rest.foldl (fun acc l => k.run R acc (fromList R l)) s)
        (fun y => rest.foldl (fun acc l => k.spec acc (∃ x ∈ l, R.equiv y x = true)) (A y))
  | [], _, _, h, _, _ => h
  | l :: rest, s, A, h, hp, hq => by
    simp only [List.foldl_cons]
    exact foldInv_foldl R P Q hR k rest _ _
      (foldInv_step R P Q hR k s A h l (hp l (by simp)) (hq l (by simp)))
      (fun l' hl' => hp l' (by simp [hl'])) (fun l' hl' => hq l' (by simp [hl']))

theorem SetOpKind.fold_congr (k : SetOpKind) {β : Type} (B B' : β → Prop) :
    ∀ (rest : List β) (a a' : Prop), (a ↔ a') → (∀ l ∈ rest, (B l ↔ B' l)) →
      (rest.foldl (fun acc l => k.spec acc (B l)) a ↔ rest.foldl (fun acc l => k.spec acc (B' l)) a')
  | [], _, _, h, _ => h
  | l :: rest, a, a', h, hb => by
    simp only [List.foldl_cons]
    exact SetOpKind.fold_congr k B B' rest _ _ (k.spec_congr h (hb l (by simp)))
      (fun l' hl' => hb l' (by simp [hl']))

theorem SetOpKind.fold_false (k : SetOpKind) {β : Type} (B : β → Prop) :
    ∀ (rest : List β) (a : Prop), ¬ a → (∀ l ∈ rest, ¬ B l) → ¬ rest.foldl (fun acc l => k.spec acc (B l)) a
  | [], _, h, _ => h
  | l :: rest, a, h, hb => by
    simp only [List.foldl_cons]
    apply SetOpKind.fold_false k B rest _ _ (fun l' hl' => hb l' (by simp [hl']))
    intro hs
    exact k.spec_false ((k.spec_congr (iff_false_intro h) (iff_false_intro (hb l (by simp)))).mp hs)

/-- **set algebra on any number of known sets of one element type** = the left fold of
the binary operation over the membership predicates of the arguments, on the carrier
of admitted members -/
theorem setOp_members_n (E : Env) (ety : Ty) (ns : List Num) (k : SetOpKind) (first : List Int × List Payload)
    (rest : List (List Int × List Payload))
    (hw : ety.wf = true) (hp : ety.plain = true) (ho : ety.hasOpt = false) (hc : HashCoherentNums ns = true)
    (hm : ∀ st ∈ first :: rest, ∀ p ∈ st.2, p.member ety ns = true)
    (hh : ∀ st ∈ first :: rest, ∀ p ∈ st.2, E.hashAgrees ety p) :
    ∃ s : SetImpl Payload,
      setOpImpl E k (setArgs ety (first :: rest)) (.set ety) = .ok (ofSetImpl ety s) ∧
      SetImpl.Inv (setRules E ety) s ∧
      (∀ m ∈ SetImpl.values s, ∃ st ∈ first :: rest, m ∈ st.2) ∧
      ∀ y, y.member ety ns = true →
        (Spec.memBy (setRules E ety).equiv (SetImpl.values s) y ↔
          k.specN (setRules E ety).equiv first.2 (rest.map (·.2)) y) := by
  let R := setRules E ety
  let P := Carrier E ety ns
  let Q : Payload → Prop := fun m => ∃ st ∈ first :: rest, m ∈ st.2
  have hR : R.LawfulOn P := setRules_lawfulOn E ety ns hw hp hc
  have heq := hasOpt_equals ety hw ho
  have hk : ∀ st ∈ first :: rest, Payload.whollyKnownL st.2 = true := fun st hst =>
    d13_whollyKnownL_of_forall _ fun p hp' => by
      have := hm st hst p hp'
      simp only [Payload.member, Bool.and_eq_true] at this
      exact this.1.1.2
  have himpl := setOpImpl_sets E ety k first rest heq.1 heq.2 (fun st hst p hp' => (hh st hst p hp').isSome) hk
  -- the fold over the iteration-ordered member lists
  have hfold : rest.foldl (fun acc st => k.run R acc (fromList R (setIter E ety st.2)))
        (fromList R (setIter E ety first.2)) =
      (rest.map fun st => setIter E ety st.2).foldl (fun acc l => k.run R acc (fromList R l))
        (fromList R (setIter E ety first.2)) := by
    rw [List.foldl_map]
  have hiterP : ∀ st ∈ first :: rest, ∀ x ∈ setIter E ety st.2, P x := fun st hst x hx =>
    have hx' := (mem_sortStable _ _ _).mp hx
    ⟨hm st hst x hx', hh st hst x hx'⟩
  have hiterQ : ∀ st ∈ first :: rest, ∀ x ∈ setIter E ety st.2, Q x := fun st hst x hx =>
    ⟨st, hst, (mem_sortStable _ _ _).mp hx⟩
  have h0 := foldInv_fromList R P Q hR (setIter E ety first.2) (hiterP first (by simp)) (hiterQ first (by simp))
  have hfin := foldInv_foldl R P Q hR k (rest.map fun st => setIter E ety st.2) _ _ h0
    (by
      intro l hl
      obtain ⟨st, hst, rfl⟩ := List.mem_map.mp hl
      exact hiterP st (by simp [hst]))
    (by
      intro l hl
      obtain ⟨st, hst, rfl⟩ := List.mem_map.mp hl
      exact hiterQ st (by simp [hst]))
  obtain ⟨s', hs', hinvB, hQ, habs⟩ := hfin
  have hinv : Inv R ((rest.map fun st => setIter E ety st.2).foldl (fun acc l => k.run R acc (fromList R l))
      (fromList R (setIter E ety first.2))) := by
    rw [hs']; exact (inv_mapS R Subtype.val s').mpr (hinvB.toInv hR.pull)
  rw [hfold, copy_eq hinv.asc] at himpl
  refine ⟨_, himpl, hinv, hQ, ?_⟩
  intro y hy
  -- members of the result and of every argument are admitted
  have hres : ∀ z ∈ SetImpl.values ((rest.map fun st => setIter E ety st.2).foldl
      (fun acc l => k.run R acc (fromList R l)) (fromList R (setIter E ety first.2))), z.member ety ns = true := by
    intro z hz
    obtain ⟨st, hst, hzst⟩ := hQ z hz
    exact hm st hst z hzst
  have iter_memBy : ∀ (v : List Payload) (q : Payload),
      (∃ x ∈ setIter E ety v, R.equiv q x = true) ↔ Spec.memBy R.equiv v q := by
    intro v q
    constructor
    · rintro ⟨x, hx, he⟩; exact ⟨x, (mem_sortStable _ _ _).mp hx, he⟩
    · rintro ⟨x, hx, he⟩; exact ⟨x, (mem_sortStable _ _ _).mpr hx, he⟩
  -- the accumulated predicate is the reference fold
  have hspec : ∀ q, ((rest.map fun st => setIter E ety st.2).foldl
        (fun acc l => k.spec acc (∃ x ∈ l, R.equiv q x = true)) (∃ x ∈ setIter E ety first.2, R.equiv q x = true)) ↔
      k.specN R.equiv first.2 (rest.map (·.2)) q := by
    intro q
    simp only [SetOpKind.specN, List.foldl_map]
    exact SetOpKind.fold_congr k (fun st : List Int × List Payload => ∃ x ∈ setIter E ety st.2, R.equiv q x = true)
      (fun st => Spec.memBy R.equiv st.2 q) rest _ _ (iter_memBy first.2 q) (fun st _ => iter_memBy st.2 q)
  by_cases hex : ∃ x, Q x ∧ R.equiv y x = true
  · obtain ⟨x, ⟨st, hst, hxst⟩, hyx⟩ := hex
    have hxm := hm st hst x hxst
    have hxc : P x := ⟨hxm, hh st hst x hxst⟩
    have hx := (habs x hxc).trans (hspec x)
    rw [memBy_congr E ety ns hw hp _ hres hxm hy hyx]
    refine Iff.trans hx ?_
    simp only [SetOpKind.specN]
    exact (SetOpKind.fold_congr k (fun l => Spec.memBy R.equiv l y) (fun l => Spec.memBy R.equiv l x)
      (rest.map (·.2)) _ _
      (memBy_congr E ety ns hw hp first.2 (hm first (by simp)) hxm hy hyx)
      (fun l hl => by
        obtain ⟨st', hst', rfl⟩ := List.mem_map.mp hl
        exact memBy_congr E ety ns hw hp st'.2 (hm st' (by simp [hst'])) hxm hy hyx)).symm
  · have nall : ∀ st ∈ first :: rest, ¬ Spec.memBy R.equiv st.2 y := fun st hst ⟨x, hx, he⟩ =>
      hex ⟨x, ⟨st, hst, hx⟩, he⟩
    constructor
    · rintro ⟨x, hx, he⟩
      exact absurd ⟨x, hQ x hx, he⟩ hex
    · intro h
      simp only [SetOpKind.specN] at h
      exact absurd h (SetOpKind.fold_false k (fun l => Spec.memBy R.equiv l y) (rest.map (·.2)) _
        (nall first (by simp)) (fun l hl => by
        obtain ⟨st', hst', rfl⟩ := List.mem_map.mp hl
        exact nall st' (by simp [hst'])))

end Stdlib
end CtyModel
