/-
d14 — `jsonencode` / `jsondecode` (cty/function/stdlib/json.go) at the level of the JSON
document tree, on top of the C15 model of cty/json (the printing / lexing of the text is
C15's oracle column):

  JSONEncodeFunc.Impl  (wholly known):  null → "null";  else  json.Marshal(val, val.Type())
  JSONDecodeFunc       Type: json.ImpliedType(buf);   Impl: json.Unmarshal(buf, retType)

`jsonDecodeTree` IS C15's `simpleUnmarshal` (the same two calls).  These definitions are not
diffed on their own: `marshal` / `impliedType` / `unmarshalTop` are the functions C15's
correspondence diffs; the stdlib wrappers are searched by harness/c14fmt.go (runC14Json).
-/
import CtyModel.Props.C15
namespace CtyModel
namespace StdNum
open JsonVal

/-- `JSONEncodeFunc.Impl` on a wholly known value -/
def jsonEncodeTree (env : JEnv) (v : Value) : Res Json :=
  if v.isNull then .ok .null else marshal env v v.ty

/-- `JSONDecodeFunc`: the implied type, then `Unmarshal` with it -/
def jsonDecodeTree (env : JEnv) (d : Json) : Res Value := simpleUnmarshal env d

/-- ENCODING INVERTS DECODING on documents: for every document of `C15.doc_roundtrip_partial`
(keys with distinct ascending normal forms, representable numbers), `jsondecode` succeeds with a
value of the document's structural type, and `jsonencode` of that value gives the document
back up to key / string normal form and number spelling. -/
theorem jsonencode_inverts_jsondecode (env : JEnv) (d : Json) (h : docOK env d = true) :
    ∃ v, jsonDecodeTree env d = .ok v ∧ v.ty = structTy env.norm d ∧
      (v.isNull = false → ∃ d', jsonEncodeTree env v = .ok d' ∧ jsonNormEq env.norm d' d = true) := by
  obtain ⟨hi, v, d', hu, hty, hm, he⟩ := C15.doc_roundtrip_partial env d h
  refine ⟨v, by simp [jsonDecodeTree, simpleUnmarshal, hi, hu], hty, ?_⟩
  intro hn
  refine ⟨d', ?_, he⟩
  simp only [jsonEncodeTree, hn, Bool.false_eq_true, if_false]
  rw [hty]; exact hm

/-- `jsonencode` followed by `json.Unmarshal` WITH THE VALUE'S OWN TYPE gives the value back
(every set-free wholly known value, nulls and empty collections at any depth included). -/
theorem unmarshal_own_type_inverts_jsonencode (env : JEnv) (v : Value) (h : rtHyps env v v.ty = true)
    (hs : setFree v.ty = true) (hn : v.isNull = false) :
    ∃ j v', jsonEncodeTree env v = .ok j ∧ unmarshalTop env j v.ty = .ok v' ∧ v'.ty = v.ty ∧
      sameP v'.v v.v = true := by
  obtain ⟨j, v', hj, hu, hty, hsame⟩ := C15.mirror env v h hs
  exact ⟨j, v', by simp [jsonEncodeTree, hn, hj], hu, hty, hsame⟩

/-- the check: encode, decode, compare the types -/
def jsonRoundTripTyped (env : JEnv) (v : Value) : Bool :=
  match jsonEncodeTree env v with
  | .ok j =>
    (match jsonDecodeTree env j with
     | .ok v' => v'.ty.equals v.ty
     | _ => false)
  | _ => false

end StdNum
end CtyModel
