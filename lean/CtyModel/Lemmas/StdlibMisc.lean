/-
Lemmas: `concat`, `contains`, `coalesce`, and the wrappers `length`, `hasindex`,
`sethaselement`.
-/
import CtyModel.Lemmas.StdlibSet
namespace CtyModel
namespace Stdlib
open Value

/-! ### `concat` -/

/-- known lists of element type `e` -/
def sameLists (e : Ty) (ls : List (List Payload)) : List Value := ls.map fun vs => ⟨.list e, .seq vs⟩

theorem concatListLoop_same (E : Env) (e : Ty) (hs : e.equals e.stripOpt = true) (ls : List (List Payload))
    (vals : List Value) :
    concatListLoop E (.list e) (sameLists e ls) vals [] = .ok (vals ++ ls.flatten.map (⟨e, ·⟩), []) := by
  induction ls generalizing vals with
  | nil => simp [sameLists, concatListLoop]
  | cons vs rest ih =>
    have hc : convertTo E ⟨.list e, .seq vs⟩ (.list e) = .ok ⟨.list e, .seq vs⟩ := by
      simp [convertTo, Ty.stripOpt, Ty.equals, hs]
    have hu : (⟨.list e, .seq vs⟩ : Value).unmark = ⟨.list e, .seq vs⟩ := rfl
    have hm : (⟨.list e, .seq vs⟩ : Value).marks = [] := rfl
    simp only [sameLists, List.map_cons, concatListLoop, hc, hu, hm, List.length_nil, Nat.lt_irrefl,
      decide_false, Bool.false_eq_true, if_false, elems_list]
    simp only [sameLists] at ih
    rw [ih]
    simp

/-- **concat of lists of one type** is the list of all their members in order -/
theorem concatImpl_lists (E : Env) (e : Ty) (he : e.equals e = true) (hs : e.equals e.stripOpt = true)
    (ls : List (List Payload)) :
    concatImpl E (sameLists e ls) (.list e) = .ok (mkList e ls.flatten) := by
  simp only [concatImpl, concatListLoop_same E e hs ls [], List.nil_append, List.length_map]
  by_cases h0 : ls.flatten.length = 0
  · have := List.eq_nil_of_length_eq_zero h0
    simp [this, listEmpty, mkList, withMarkSets_empty]
  · have hne : ls.flatten ≠ [] := fun h => h0 (by simp [h])
    simp only [h0, beq_iff_eq, if_false, listVal_map e he _ hne, Res.map, withMarkSets_empty]
    rfl

/-- result type: the lists' own type when unification of equal types answers it -/
theorem concatType_lists (E : Env) (e : Ty) (ls : List (List Payload)) (hne : ls ≠ [])
    (hu : E.unify (ls.map fun _ => .list e) = .ok (some (.list e))) :
    concatType E (sameLists e ls) = .ok (.list e) := by
  have hlt : concatListTypes (sameLists e ls) = some (ls.map fun _ => .list e) := by
    clear hu hne
    induction ls with
    | nil => rfl
    | cons vs rest ih =>
      simp only [sameLists, List.map_cons, concatListTypes, isListTy, Bool.not_true, Bool.false_eq_true,
        if_false]
      simp only [sameLists] at ih
      rw [ih]; rfl
  cases ls with
  | nil => exact absurd rfl hne
  | cons vs rest =>
    simp only [sameLists, List.map_cons] at hlt hu ⊢
    simp only [concatType, isListTy, if_true, hlt, hu]

/-- no arguments are an error -/
theorem concatType_empty (E : Env) : Fails (concatType E []) := ⟨_, rfl⟩

/-- **concat of tuples** is the tuple of all members in order, typed position by position -/
theorem concatTupleLoop_tuples (E : Env) (tups : List (List Ty × List Payload))
    (hl : ∀ t ∈ tups, t.1.length = t.2.length) (vals : List Value) :
    concatTupleLoop E (tups.map fun t => ⟨.tuple t.1, .seq t.2⟩) vals [] =
      .ok (vals ++ tups.flatMap (fun t => zipTV t.1 t.2), []) := by
  induction tups generalizing vals with
  | nil => simp [concatTupleLoop]
  | cons t rest ih =>
    have hu : (⟨.tuple t.1, .seq t.2⟩ : Value).unmark = ⟨.tuple t.1, .seq t.2⟩ := rfl
    have hm : (⟨.tuple t.1, .seq t.2⟩ : Value).marks = [] := rfl
    simp only [List.map_cons, concatTupleLoop, hu, hm, List.length_nil, Nat.lt_irrefl, decide_false,
      Bool.false_eq_true, if_false, elems_tuple]
    rw [ih (fun x hx => hl x (by simp [hx]))]
    simp

theorem tysOf_append (a b : List Value) : Gocty.tysOf (a ++ b) = Gocty.tysOf a ++ Gocty.tysOf b := by
  induction a with
  | nil => rfl
  | cons v a ih => simp [Gocty.tysOf, ih]

theorem payloads_append (a b : List Value) : Gocty.payloads (a ++ b) = Gocty.payloads a ++ Gocty.payloads b := by
  induction a with
  | nil => rfl
  | cons v a ih => simp [Gocty.payloads, ih]

theorem tysOf_flatMap_zipTV (tups : List (List Ty × List Payload)) (hl : ∀ t ∈ tups, t.1.length = t.2.length) :
    Gocty.tysOf (tups.flatMap fun t => zipTV t.1 t.2) = tups.flatMap (·.1) := by
  induction tups with
  | nil => rfl
  | cons t rest ih =>
    simp only [List.flatMap_cons, tysOf_append, tysOf_zipTV _ _ (hl t (by simp)),
      ih (fun x hx => hl x (by simp [hx]))]

theorem payloads_flatMap_zipTV (tups : List (List Ty × List Payload)) (hl : ∀ t ∈ tups, t.1.length = t.2.length) :
    Gocty.payloads (tups.flatMap fun t => zipTV t.1 t.2) = tups.flatMap (·.2) := by
  induction tups with
  | nil => rfl
  | cons t rest ih =>
    simp only [List.flatMap_cons, payloads_append, payloads_zipTV _ _ (hl t (by simp)),
      ih (fun x hx => hl x (by simp [hx]))]

theorem concatImpl_tuples (E : Env) (tups : List (List Ty × List Payload))
    (hl : ∀ t ∈ tups, t.1.length = t.2.length) :
    concatImpl E (tups.map fun t => ⟨.tuple t.1, .seq t.2⟩) (.tuple (tups.flatMap (·.1))) =
      .ok ⟨.tuple (tups.flatMap (·.1)), .seq (tups.flatMap (·.2))⟩ := by
  simp only [concatImpl, concatTupleLoop_tuples E tups hl [], List.nil_append, withMarkSets_empty,
    Gocty.tupleVal, tysOf_flatMap_zipTV tups hl, payloads_flatMap_zipTV tups hl]

/-! ### `contains`, `coalesce` -/

/-- **contains** on a known non-empty list: `true` iff some member is `Equals` to
the value (every comparison decided, as on wholly known values) -/
theorem containsImpl_list (E : Env) (e : Ty) (vs : List Payload) (x : Value) (retTy : Ty)
    (hx : x.isKnown = true) (hne : vs ≠ [])
    (hd : ∀ p ∈ vs, ∃ bv, Value.equals x ⟨e, p⟩ = .ok (boolVal bv)) :
    containsImpl E [⟨.list e, .seq vs⟩, x] retTy =
      .ok (boolVal (vs.any fun p => eqT x ⟨e, p⟩)) := by
  have hloop : ∀ (ps : List Payload), (∀ p ∈ ps, ∃ bv, Value.equals x ⟨e, p⟩ = .ok (boolVal bv)) →
      containsLoop x (ps.map (⟨e, ·⟩)) false =
        .ok (some (ps.any fun p => eqT x ⟨e, p⟩)) := by
    intro ps
    induction ps with
    | nil => intro _; rfl
    | cons p ps ih =>
      intro h
      obtain ⟨bv, hb⟩ := h p (by simp)
      have ih' := ih (fun q hq => h q (by simp [hq]))
      cases bv
      · have he : eqT x ⟨e, p⟩ = false := by simp [eqT, equalCall, hb, boolVal, Value.isTrue]
        simp [containsLoop, hb, boolVal, Value.isKnown, Payload.isKnown, Payload.unmark1, boolTrue,
          Value.isMarked, Payload.isMarked, Ty.isBool, ih', he]
      · have he : eqT x ⟨e, p⟩ = true := by simp [eqT, equalCall, hb, boolVal, Value.isTrue]
        simp [containsLoop, hb, boolVal, Value.isKnown, Payload.isKnown, Payload.unmark1, boolTrue,
          Value.isMarked, Payload.isMarked, Ty.isBool, he]
  have h0 : ¬ vs.length = 0 := fun h => hne (List.eq_nil_of_length_eq_zero h)
  have hk : (⟨.list e, .seq vs⟩ : Value).isKnown = true := rfl
  have hn : (⟨.list e, .seq vs⟩ : Value).isNull = false := rfl
  simp only [containsImpl, isListTy, Bool.not_true, Bool.false_and, Bool.false_eq_true, if_false, hn,
    lengthInt_list, beq_iff_eq, h0, hk, hx, Bool.or_self, elems_list, hloop vs hd]

/-- an empty list, tuple or set contains nothing -/
theorem containsImpl_empty (E : Env) (e : Ty) (x : Value) (retTy : Ty) :
    containsImpl E [⟨.list e, .seq []⟩, x] retTy = .ok (boolVal false) := by
  simp [containsImpl, isListTy, Value.isNull, Payload.isNull, Payload.unmark1]

/-- **coalesce** on known arguments: the first non-null one, converted to the
unified type; an error when all are null -/
theorem coalesceLoop_eq (E : Env) (retTy : Ty) (args : List Value) (hk : ∀ a ∈ args, a.isKnown = true) :
    coalesceImpl E args retTy =
      match args.find? (fun a => !a.isNull) with
      | some a => convertTo E a retTy
      | none => .err "no non-null arguments" := by
  simp only [coalesceImpl]
  induction args with
  | nil => rfl
  | cons a rest ih =>
    have ha := hk a (by simp)
    have ih' := ih (fun b hb => hk b (by simp [hb]))
    simp only [coalesceLoop, ha, Bool.not_true, Bool.false_eq_true, if_false, List.find?_cons]
    by_cases hn : a.isNull = true
    · simp [hn, ih']
    · have hn' : a.isNull = false := by simpa using hn
      simp [hn']

/-! ### `length`, `hasindex`, `index`: wrappers of the C02 operations -/

theorem lengthImpl_eq (c : Value) (retTy : Ty) : lengthImpl [c] retTy = Value.length c := rfl
theorem hasIndexImpl_eq (c k : Value) (retTy : Ty) : hasIndexImpl [c, k] retTy = Value.hasIndex c k := rfl
theorem setHasElementImpl_eq (E : Env) (s e : Value) (retTy : Ty) :
    setHasElementImpl E [s, e] retTy = Value.hasElement s e (E.hash e.ty e.v) := rfl

theorem lengthType_ok_iff (c : Value) :
    lengthType [c] = .ok .number ↔
      (isTupleTy c.ty || isListTy c.ty || isMapTy c.ty || isSetTy c.ty || c.ty.isDyn) = true := by
  cases c with
  | mk t p => cases t <;> simp [lengthType, isTupleTy, isListTy, isMapTy, isSetTy, Ty.isDyn]

theorem hasIndexType_ok_iff (c k : Value) :
    hasIndexType [c, k] = .ok .bool ↔ (isTupleTy c.ty || isListTy c.ty || isMapTy c.ty || c.ty.isDyn) = true := by
  cases c with
  | mk t p => cases t <;> simp [hasIndexType, isTupleTy, isListTy, isMapTy, Ty.isDyn]

end Stdlib
end CtyModel
