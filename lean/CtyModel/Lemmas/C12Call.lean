/-
C12, framework half: weakening the arguments of a call cannot make the CALL PROTOCOL fail.

If the concrete call got past the argument count, the per-argument checks and the `Type`
callback, so does the call on any argument list that admits the concrete one (`coversAll`)
and keeps each argument's type or replaces it by the placeholder (`TyKept` — what the
`Weaken` relation of the property's quantifier does), provided the `Type` callback is
monotone (`TypeMonoW`).  What is left is `Impl` itself.
-/
import CtyModel.Props.C11
import CtyModel.Lemmas.CoversWeaken
namespace CtyModel
namespace C12L
open Fn

/-- A `Type` callback is monotone w.r.t. weakening: on an argument list that admits the
concrete one it does not fail and its answer admits the concrete answer. -/
def TypeMonoW (tf : TypeFn) : Prop :=
  ∀ os ws t, coversAll ws os = true → tf os = .ok t → ∃ t', tf ws = .ok t' ∧ C11.Admits t' t

/-- every weakened argument keeps the type of the argument it weakens, or is typed by the
placeholder (`cty.DynamicVal`): the two constructors of `Weaken` -/
def TyKept : List Value → List Value → Prop
  | [], [] => True
  | w :: ws, o :: os => (w.ty = o.ty ∨ w.ty.isDyn = true) ∧ TyKept ws os
  | _, _ => False

theorem weaken_tyKept {o w : Value} (h : Weaken o w) : w.ty = o.ty ∨ w.ty.isDyn = true := by
  cases h with
  | inside _ => exact Or.inl rfl
  | dyn _ => exact Or.inr rfl

theorem coversAll_length : ∀ (ws os : List Value), coversAll ws os = true → ws.length = os.length
  | [], [], _ => rfl
  | [], _ :: _, h => by simp [coversAll] at h
  | _ :: _, [], h => by simp [coversAll] at h
  | _ :: ws, _ :: os, h => by
    simp only [coversAll, Bool.and_eq_true] at h
    simp [coversAll_length ws os h.2]

/-- a null weakened argument weakens a null argument (mark-free values) -/
theorem isNull_of_coversX {w o : Value} (hw : w.containsMarked = false) (ho : o.containsMarked = false)
    (h : CoversX w o = true) (hn : w.isNull = true) : o.isNull = true := by
  obtain ⟨wt, wp⟩ := w
  obtain ⟨ot, op⟩ := o
  simp only [CoversX, CoversG, Bool.and_eq_true] at h
  cases wp <;> simp [Value.isNull, Payload.isNull, Payload.unmark1, Value.containsMarked, Payload.containsMarked] at hn hw
  cases op <;> simp_all [Payload.stripMarks, Cov.coversP, Value.isNull, Payload.isNull, Payload.unmark1,
    Value.containsMarked, Payload.containsMarked]

/-- the per-argument checks of one position under weakening -/
theorem check_weaken {p : Param} {w o : Value} (hw : w.containsMarked = false) (ho : o.containsMarked = false)
    (hc : CoversX w o = true) (ht : w.ty = o.ty ∨ w.ty.isDyn = true) :
    (p.check o = none → p.check w = none ∨ p.check w = some .dynamic) ∧
    (p.check o = some .dynamic → p.check w = some .dynamic) := by
  have hnull : w.isNull = true → o.isNull = true := isNull_of_coversX hw ho hc
  unfold Param.check
  constructor
  · intro h
    by_cases h1 : (w.isNull && !p.allowNull) = true
    · exfalso
      simp only [Bool.and_eq_true] at h1
      simp [hnull h1.1, h1.2] at h
    · simp only [h1, Bool.false_eq_true, if_false]
      by_cases h2 : w.ty.isDyn = true
      · simp only [h2, if_true]
        by_cases h3 : (!p.allowDynamic) = true <;> simp [h3]
      · simp only [h2, Bool.false_eq_true, if_false]
        have hty : w.ty = o.ty := by
          rcases ht with ht | ht
          · exact ht
          · exact absurd ht h2
        rw [hty] at h2 ⊢
        left
        by_cases h0 : (o.isNull && !p.allowNull) = true
        · simp [h0] at h
        · simp only [h0, Bool.false_eq_true, if_false, h2] at h
          exact h
  · intro h
    by_cases h0 : (o.isNull && !p.allowNull) = true
    · simp [h0] at h
    · simp only [h0, Bool.false_eq_true, if_false] at h
      have hod : o.ty.isDyn = true := by
        by_cases hod : o.ty.isDyn = true
        · exact hod
        · simp only [hod, Bool.false_eq_true, if_false] at h
          split at h <;> cases h
      simp only [hod, if_true] at h
      have hwd : w.ty.isDyn = true := by
        rcases ht with ht | ht
        · rw [ht]; exact hod
        · exact ht
      by_cases h1 : (w.isNull && !p.allowNull) = true
      · exfalso
        simp only [Bool.and_eq_true] at h1
        simp [hnull h1.1, h1.2] at h0
      · simp only [h1, Bool.false_eq_true, if_false, hwd, if_true]
        exact h

/-- the argument loops under weakening: no null / non-conformance failure appears -/
theorem firstFail_weaken : ∀ (ps : List Param) (ws os : List Value),
    (∀ a ∈ ws, a.containsMarked = false) → (∀ a ∈ os, a.containsMarked = false) →
    coversAll ws os = true → TyKept ws os →
    (firstFail ps os = none → firstFail ps ws = none ∨ ∃ k, firstFail ps ws = some (k, .dynamic)) ∧
    (∀ k, firstFail ps os = some (k, .dynamic) → ∃ j, firstFail ps ws = some (j, .dynamic))
  | [], ws, os, _, _, _, _ => by
    constructor
    · intro _; left; cases ws <;> rfl
    · intro k h; cases os <;> simp [firstFail] at h
  | p :: ps, [], [], _, _, _, _ => by simp [firstFail]
  | _ :: _, [], _ :: _, _, _, h, _ => by simp [coversAll] at h
  | _ :: _, _ :: _, [], _, _, h, _ => by simp [coversAll] at h
  | p :: ps, w :: ws, o :: os, hw, ho, hc, ht => by
    simp only [coversAll, Bool.and_eq_true] at hc
    obtain ⟨ht0, ht1⟩ := ht
    obtain ⟨c1, c2⟩ := check_weaken (p := p) (hw w (by simp)) (ho o (by simp)) hc.1 ht0
    obtain ⟨ih1, ih2⟩ := firstFail_weaken ps ws os (fun a ha => hw a (by simp [ha]))
      (fun a ha => ho a (by simp [ha])) hc.2 ht1
    simp only [firstFail]
    cases hco : p.check o with
    | some f =>
      constructor
      · intro h; simp at h
      · intro k h
        simp only [Option.some.injEq, Prod.mk.injEq] at h
        obtain ⟨_, rfl⟩ := h
        rw [c2 hco]
        exact ⟨0, rfl⟩
    | none =>
      rcases c1 hco with hcw | hcw
      · simp only [hcw]
        constructor
        · intro h
          simp only [Option.map_eq_none_iff] at h
          rcases ih1 h with h' | ⟨k, h'⟩
          · left; simp [h']
          · right; exact ⟨k + 1, by simp [h']⟩
        · intro k h
          simp only [Option.map_eq_some_iff] at h
          obtain ⟨⟨k', f'⟩, hf, he⟩ := h
          simp only [Prod.mk.injEq] at he
          obtain ⟨_, rfl⟩ := he
          obtain ⟨j, hj⟩ := ih2 k' hf
          exact ⟨j + 1, by simp [hj]⟩
      · simp only [hcw]
        constructor
        · intro _; right; exact ⟨0, rfl⟩
        · intro _ _; exact ⟨0, rfl⟩

/-- `Impl` was invoked on `(as, rt)` and did not hand back a value conforming to `rt`
(it returned an error, panicked, left the modelled fragment, or returned a non-conforming value) -/
def ImplFailsAt (impl : ImplFn) (as : List Value) (rt : Ty) : Prop :=
  ∀ v, impl as rt = .ok v → Ty.conformErrs rt v.ty ≠ 0

/-- **No failure before `Impl`.**  Concrete call ok, weakened arguments admit the concrete ones,
keep their types (or take the placeholder) and carry no marks, the `Type` callback is monotone:
the weakened call (before the declared refinement) returns a value, unless `Impl` is reached on
exactly the weakened arguments and itself fails. -/
theorem no_failure_unrefined (spec : Spec) (tf : TypeFn) (impl : ImplFn) (os ws : List Value) (r : Value)
    (hm : TypeMonoW tf)
    (hmo : ∀ a ∈ os, a.containsMarked = false) (hmw : ∀ a ∈ ws, a.containsMarked = false)
    (hcov : coversAll ws os = true) (hty : TyKept ws os)
    (hr : (callUnrefined spec tf impl os).1 = .ok r) :
    (∃ r', (callUnrefined spec tf impl ws).1 = .ok r') ∨
    (∃ rt, tf ws = .ok rt ∧ Event.impl ws rt ∈ (callUnrefined spec tf impl ws).2 ∧ ImplFailsAt impl ws rt) := by
  have hlen : ws.length = os.length := coversAll_length ws os hcov
  rw [callUnrefined_eq] at hr ⊢
  by_cases hc : spec.countOK os.length = true
  · have hc' : spec.countOK ws.length = true := by rw [hlen]; exact hc
    simp only [hc, if_true] at hr
    simp only [hc', if_true]
    obtain ⟨hA, hB⟩ := firstFail_weaken (spec.expand os.length) ws os hmw hmo hcov hty
    rw [hlen]
    obtain ⟨htw, hiw, huw⟩ := unmarked_args hc' hmw
    obtain ⟨hto, _, _⟩ := unmarked_args hc hmo
    cases hfo : firstFail (spec.expand os.length) os with
    | some kf =>
      obtain ⟨k, f⟩ := kf
      rw [hfo] at hr
      cases f with
      | null => simp at hr
      | nonconforming => simp at hr
      | dynamic =>
        obtain ⟨j, hj⟩ := hB k hfo
        left
        rw [hj]
        exact ⟨_, rfl⟩
    | none =>
      rw [hfo] at hr
      rcases hA hfo with hw | ⟨k, hw⟩
      · rw [hw]
        simp only
        rw [hto] at hr
        rw [htw]
        cases hto' : tf os with
        | err c => rw [hto'] at hr; simp at hr
        | panic w => rw [hto'] at hr; simp at hr
        | unmodelled => rw [hto'] at hr; simp at hr
        | ok t0 =>
          obtain ⟨t1, ht1, _⟩ := hm os ws t0 hcov hto'
          rw [ht1]
          simp only
          rw [← hlen]
          cases hu : (pass2 (spec.expand ws.length) ws).unknown with
          | true => left; exact ⟨_, rfl⟩
          | false =>
            simp only [Bool.false_eq_true, if_false]
            rw [hiw]
            cases hi : impl ws t1 with
            | panic w => right; exact ⟨t1, rfl, by simp, fun v hv => by rw [hi] at hv; cases hv⟩
            | err c => right; exact ⟨t1, rfl, by simp, fun v hv => by rw [hi] at hv; cases hv⟩
            | unmodelled => right; exact ⟨t1, rfl, by simp, fun v hv => by rw [hi] at hv; cases hv⟩
            | ok v =>
              simp only
              by_cases hcf : (Ty.conformErrs t1 v.ty != 0) = true
              · right
                simp only [hcf, if_true]
                refine ⟨t1, rfl, by simp, fun v' hv' => ?_⟩
                rw [hi] at hv'
                cases hv'
                simpa using hcf
              · left
                simp only [hcf, Bool.false_eq_true, if_false]
                exact ⟨_, rfl⟩
      · left
        rw [hw]
        exact ⟨_, rfl⟩
  · simp [hc] at hr

end C12L
end CtyModel
