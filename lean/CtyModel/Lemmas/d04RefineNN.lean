/-
d04 (audit C04, missing theorem (b)): `refineNonNull` (`RefineResult: func(b) { return
b.NotNull() }`, the refinement callback of most stdlib functions) does not look at marks on
the values the call protocol hands it (top-level unmarked): `Fn.RefineBlindWF` holds of every
spec whose `RefineResult` is `refineNonNull` (or absent).
-/
import CtyModel.Lemmas.d04Call
import CtyModel.Lemmas.d04Refine
namespace CtyModel
namespace Fn
open Refine Convert D04R

theorem collapse_cm {ty : Ty} {r : Rfn} {v : Value} (h : collapse ty r = .ok (some v)) : v.containsMarked = false := by
  unfold collapse at h
  repeat' split at h
  all_goals (first | (simp at h; subst h; rfl) | (simp at h; done) | skip)
  all_goals
    simp at h; subst h
    simp only [Value.containsMarked, Payload.containsMarked]
    generalize Int.toNat _ = n
    induction n with
    | zero => rfl
    | succ n ih => simpa [List.replicate, Payload.containsMarkedL, Payload.containsMarked] using ih

theorem withMarks_nil_cm {x : Value} (h : x.containsMarked = false) : (x.withMarks []).containsMarked = false := by
  rw [Value.withMarks_nil_of_unmarked (Value.isMarked_of_clean h)]; exact h

theorem newValue_cm {b : Builder} {r : Value} (h : newValue b = .ok r) (hm : b.marks = [])
    (ho : b.orig.containsMarked = false) : r.containsMarked = false := by
  unfold newValue at h
  rw [hm] at h
  split at h
  · simp at h; subst h; exact withMarks_nil_cm ho
  · simp only at h
    split at h
    · simp at h
    · split at h
      · simp at h; subst h; exact withMarks_nil_cm rfl
      · simp at h; subst h; exact withMarks_nil_cm rfl
      · split at h
        · rename_i v hc
          simp at h; subst h
          exact withMarks_nil_cm (collapse_cm hc)
        · simp at h; subst h; exact withMarks_nil_cm rfl
        · simp at h
        · simp at h
        · simp at h

/-- refining a value without marks gives a value without marks -/
theorem refine_cm {v r : Value} {cs : List RefineCall} (hv : v.containsMarked = false)
    (h : Refine.refine v cs = .ok r) : r.containsMarked = false := by
  unfold Refine.refine at h
  obtain ⟨b, hb, h⟩ := Convert.Res.bind_eq_ok h
  obtain ⟨b', hb', h⟩ := Convert.Res.bind_eq_ok h
  have hnm : v.isMarked = false := Value.isMarked_of_clean hv
  apply newValue_cm h
  · rw [run_bmarks hb', (init_bmarks hb).1]; exact Value.marks_of_not_marked hnm
  · rw [run_orig hb', (init_bmarks hb).2, Value.unmark_of_not_marked hnm]; exact hv

theorem refineNN_clean {v : Value} (hv : v.containsMarked = false) :
    (Stdlib.refineNN v).map Payload.stripMarks = Stdlib.refineNN v.unmarkDeep := by
  rw [Value.unmarkDeep_of_clean hv]
  unfold Stdlib.refineNN
  cases h : Refine.refine v [.notNull] with
  | ok r =>
    simp only [Option.map_some]
    rw [Payload.stripMarks_of_clean _ (refine_cm hv h)]
  | err _ => rfl
  | panic _ => rfl
  | unmodelled => rfl

set_option linter.unusedSimpArgs false in
theorem refineNN_composite (t : Ty) (p : Payload)
    (hp : (∃ ps, p = .seq ps) ∨ (∃ ks ps, p = .smap ks ps) ∨ (∃ ids ps, p = .sset ids ps)) :
    (Stdlib.refineNN ⟨t, p⟩).map Payload.stripMarks = Stdlib.refineNN (Value.unmarkDeep ⟨t, p⟩) := by
  rcases hp with ⟨ps, rfl⟩ | ⟨ks, ps, rfl⟩ | ⟨ids, ps, rfl⟩
  all_goals
    simp only [Stdlib.refineNN, Refine.refine, Refine.init, Value.unmark, Payload.unmark1, Payload.isMarked,
      Value.unmarkDeep, Payload.stripMarks, Value.marks, Payload.marks1]
    simp only [Bool.false_eq_true, if_false, Res.bind, Refine.run, Refine.step, Builder.isDyn, isDynVal]
    cases t <;> simp [freshWip, step1, stepNotNull, Value.isKnown, Value.isNull, Payload.isKnown, Payload.isNull,
      Payload.unmark1, Res.bind, newValue, Builder.isDyn, isDynVal, setNull, Rfn.nullness, Value.withMarks,
      Payload.withMarks, unionMarks, Payload.marks1, Payload.stripMarks]

/-- **`refineNonNull` is blind on the values the protocol hands it** -/
theorem refineNN_blindWF (v : Value) (h : v.isMarked = false) :
    (Stdlib.refineNN v).map Payload.stripMarks = Stdlib.refineNN v.unmarkDeep := by
  obtain ⟨t, p⟩ := v
  cases p with
  | marked ms q => simp [Value.isMarked, Payload.isMarked] at h
  | seq ps => exact refineNN_composite t _ (.inl ⟨ps, rfl⟩)
  | smap ks ps => exact refineNN_composite t _ (.inr (.inl ⟨ks, ps, rfl⟩))
  | sset ids ps => exact refineNN_composite t _ (.inr (.inr ⟨ids, ps, rfl⟩))
  | _ => exact refineNN_clean rfl

theorem refineBlindWF_of_refineNN (spec : Spec) (h : spec.refine = some Stdlib.refineNN ∨ spec.refine = none) :
    RefineBlindWF spec := by
  intro r hr v hv
  rcases h with h | h
  · rw [h] at hr; cases hr; exact refineNN_blindWF v hv
  · rw [h] at hr; cases hr

end Fn
end CtyModel
