/-
d04 (audit C04, item 1 / missing theorem (a)): marks through the refinement builder.
`v.Refine()…NewValue()` puts exactly the marks of `v` back (`Builder.marks` is never
touched by a builder method), so a refined value carries no mark its source did not carry.
Used by `Lemmas/d04ConvNoInv.lean` for `prepareUnknownResult`.
-/
import CtyModel.Lemmas.ConvertRefine
import CtyModel.Lemmas.MarksSets
namespace CtyModel
namespace D04R
open Convert Refine

theorem stepNotNull_bmarks {b b' : Builder} (h : stepNotNull b = .ok b') : b'.marks = b.marks := by
  unfold stepNotNull at h
  split at h <;> (try split at h) <;> simp at h <;> (subst h; rfl)

theorem stepNull_bmarks {b b' : Builder} (h : stepNull b = .ok b') : b'.marks = b.marks := by
  unfold stepNull at h
  split at h <;> (try split at h) <;> simp at h <;> (subst h; rfl)

theorem stepLenLower_bmarks {b b' : Builder} {n : Int} (h : stepLenLower b n = .ok b') : b'.marks = b.marks := by
  unfold stepLenLower at h
  split at h
  · simp only at h
    repeat' split at h
    all_goals (first | (simp at h; subst h; rfl) | simp at h)
  · simp at h

theorem stepLenUpper_bmarks {b b' : Builder} {n : Int} (h : stepLenUpper b n = .ok b') : b'.marks = b.marks := by
  unfold stepLenUpper at h
  split at h
  · simp only at h
    repeat' split at h
    all_goals (first | (simp at h; subst h; rfl) | simp at h)
  · simp at h

theorem lowerCore_bmarks {b b' : Builder} {n lo hi m incl store}
    (h : lowerCore b n lo hi m incl store = .ok b') : b'.marks = b.marks := by
  unfold lowerCore at h
  split at h
  · simp at h
  · split at h
    · simp at h
    · simp at h; subst h; rfl
    · simp only at h
      split at h
      · simp at h
      · simp at h
      · simp at h; subst h; rfl
  all_goals simp at h

theorem upperCore_bmarks {b b' : Builder} {n lo hi m incl store}
    (h : upperCore b n lo hi m incl store = .ok b') : b'.marks = b.marks := by
  unfold upperCore at h
  split at h
  · simp at h
  · split at h
    · simp at h
    · simp at h; subst h; rfl
    · simp only at h
      split at h
      · simp at h
      · simp at h
      · simp at h; subst h; rfl
  all_goals simp at h

theorem stepNumLower_bmarks {b b' : Builder} {a incl} (h : stepNumLower b a incl = .ok b') : b'.marks = b.marks := by
  unfold stepNumLower at h
  split at h
  · split at h
    · simp at h; subst h; rfl
    · simp at h
    · exact lowerCore_bmarks h
    · exact lowerCore_bmarks h
    · exact lowerCore_bmarks h
  · simp at h

theorem stepNumUpper_bmarks {b b' : Builder} {a incl} (h : stepNumUpper b a incl = .ok b') : b'.marks = b.marks := by
  unfold stepNumUpper at h
  split at h
  · split at h
    · simp at h; subst h; rfl
    · simp at h
    · exact upperCore_bmarks h
    · exact upperCore_bmarks h
    · exact upperCore_bmarks h
  · simp at h

theorem stepPrefix_bmarks {b b' : Builder} {p} (h : stepPrefix b p = .ok b') : b'.marks = b.marks := by
  unfold stepPrefix at h
  split at h
  · simp only at h
    repeat' split at h
    all_goals (first | (simp at h; subst h; rfl) | simp at h)
  · simp at h

theorem step1_bmarks {b b' : Builder} {c : RefineCall} (h : step1 b c = .ok b') : b'.marks = b.marks := by
  cases c <;> simp only [step1] at h
  · exact stepNotNull_bmarks h
  · exact stepNull_bmarks h
  · exact stepNumLower_bmarks h
  · exact stepNumUpper_bmarks h
  · obtain ⟨b1, h1, h2⟩ := Res.bind_eq_ok h
    rw [stepNumUpper_bmarks h2, stepNumLower_bmarks h1]
  · exact stepLenLower_bmarks h
  · exact stepLenUpper_bmarks h
  · obtain ⟨b1, h1, h2⟩ := Res.bind_eq_ok h
    rw [stepLenUpper_bmarks h2, stepLenLower_bmarks h1]
  · exact stepPrefix_bmarks h
  · exact stepPrefix_bmarks h

theorem step_bmarks {b b' : Builder} {c : RefineCall} (h : Refine.step b c = .ok b') : b'.marks = b.marks := by
  unfold Refine.step at h
  split at h
  · simp at h; subst h; rfl
  · split at h
    · simp at h
    · exact step1_bmarks h

theorem run_bmarks : ∀ {cs : List RefineCall} {b b' : Builder}, Refine.run b cs = .ok b' → b'.marks = b.marks
  | [], b, b', h => by simp [Refine.run] at h; subst h; rfl
  | c :: cs, b, b', h => by
    simp only [Refine.run] at h
    obtain ⟨b1, h1, h2⟩ := Res.bind_eq_ok h
    rw [run_bmarks h2, step_bmarks h1]

theorem init_bmarks {v : Value} {b : Builder} (h : Refine.init v = .ok b) : b.marks = v.marks ∧ b.orig = v.unmark := by
  unfold Refine.init at h
  simp only at h
  split at h
  · simp at h
  · split at h <;> (try split at h) <;> (try split at h) <;> simp at h <;> (subst h; exact ⟨rfl, rfl⟩)

/-- the value a collapsed refinement stands for carries no mark -/
theorem collapse_clean {ty : Ty} {r : Rfn} {v : Value} (h : collapse ty r = .ok (some v)) : v.marksDeep = [] := by
  unfold collapse at h
  repeat' split at h
  all_goals (first | (simp at h; subst h; rfl) | (simp at h; done) | skip)
  all_goals
    simp at h; subst h
    apply Payload.marksDeep_of_not_containsMarked
    simp only [Payload.containsMarked]
    generalize Int.toNat _ = n
    induction n with
    | zero => rfl
    | succ n ih => simpa [List.replicate, Payload.containsMarkedL, Payload.containsMarked] using ih

theorem newValue_noinv {b : Builder} {r : Value} (h : newValue b = .ok r) (m : String) (hm : m ∈ r.marksDeep) :
    m ∈ b.marks ∨ m ∈ b.orig.marksDeep := by
  unfold newValue at h
  split at h
  · simp at h; subst h; exact Value.mem_marksDeep_withMarks.mp hm
  · simp only at h
    split at h
    · simp at h
    · split at h
      · simp at h; subst h
        rcases Value.mem_marksDeep_withMarks.mp hm with h1 | h1
        · exact .inl h1
        · simp [Value.null, Value.marksDeep, Payload.marksDeep] at h1
      · simp at h; subst h
        rcases Value.mem_marksDeep_withMarks.mp hm with h1 | h1
        · exact .inl h1
        · simp [Value.marksDeep, Payload.marksDeep] at h1
      · split at h
        · rename_i v hc
          simp at h; subst h
          rcases Value.mem_marksDeep_withMarks.mp hm with h1 | h1
          · exact .inl h1
          · rw [collapse_clean hc] at h1; simp at h1
        · simp at h; subst h
          rcases Value.mem_marksDeep_withMarks.mp hm with h1 | h1
          · exact .inl h1
          · simp [Value.marksDeep, Payload.marksDeep] at h1
        · simp at h
        · simp at h
        · simp at h

/-- **`v.Refine().<calls>.NewValue()` invents no mark** -/
theorem refine_noinv {v r : Value} {cs : List RefineCall} (h : Refine.refine v cs = .ok r) (m : String)
    (hm : m ∈ r.marksDeep) : m ∈ v.marksDeep := by
  unfold Refine.refine at h
  obtain ⟨b, hb, h⟩ := Res.bind_eq_ok h
  obtain ⟨b', hb', h⟩ := Res.bind_eq_ok h
  rcases newValue_noinv h m hm with h1 | h1
  · rw [run_bmarks hb', (init_bmarks hb).1] at h1
    exact Value.marks_subset_marksDeep h1
  · rw [run_orig hb', (init_bmarks hb).2] at h1
    exact Value.marksDeep_unmark_subset h1

/-- `prepareUnknownResult` returns a value without any mark -/
theorem prepareUnknownResult_clean {src : ValueRange} {t : Ty} {r : Value}
    (h : prepareUnknownResult src t = .ok r) : r.marksDeep = [] := by
  have key : ∀ (x y : Value) (cs : List RefineCall), x.marksDeep = [] → Refine.refine x cs = .ok y → y.marksDeep = [] := by
    intro x y cs hx hy
    apply List.eq_nil_iff_forall_not_mem.mpr
    intro m hm
    have := refine_noinv hy m hm
    rw [hx] at this; simp at this
  unfold prepareUnknownResult at h
  simp only at h
  obtain ⟨ret, hret, h⟩ := Res.bind_eq_ok h
  have hr0 : ret.marksDeep = [] := by
    split at hret
    · exact key _ _ _ rfl hret
    · simp at hret; subst hret; rfl
  repeat' split at h
  all_goals first
    | exact key _ _ _ hr0 h
    | (simp at h; subst h; exact hr0)
    | skip
  all_goals
    obtain ⟨lo, _, h⟩ := Res.bind_eq_ok h
    obtain ⟨hi, _, h⟩ := Res.bind_eq_ok h
    exact key _ _ _ hr0 h

end D04R
end CtyModel
