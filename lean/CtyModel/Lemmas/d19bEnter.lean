/-
d19b — `TransformWithTransformer` whose `Enter` REPLACES a member.

cty/walk.go `transform` begins `val, err := t.Enter(path, val)` and everything
after that line — the null / unknown test, the type switch, the element loops —
reads the value `Enter` RETURNED.  The model (`Walk.transformFuel`) follows that:
`rebuild` is called on the result of `t.enter`.  The lemmas here say what this
means for a transformer that replaces the member at one position on entry and is
the identity everywhere else:

* the result is the value with that member replaced (`replaceAt`) — whatever the
  null / unknown status of the member was and of the replacement is;
* the `Enter` call at the position received the ORIGINAL member, and what follows
  it up to and including the matching `Exit` are exactly the events of an identity
  transform of the REPLACEMENT (`idEvs … x`): each member of the replacement is
  entered once, `Exit` receives the rebuilt replacement;
* no other event of the run has a path at or below the path of the position.

A seeded change (`seeded/C19-transform-null-check-on-pre-enter-value`) tested the
member as it was BEFORE `Enter`; it breaks the `walk.trans` correspondence on the
inputs of the harness predicate `transform-enter-replace`, and these statements
are false of a model that follows it.
-/
import CtyModel.Lemmas.WalkReplace
import CtyModel.Lemmas.d19Inj
namespace CtyModel
namespace Walk
open Value

/-! ### transformers that are the identity on a subtree -/

/-- both methods return what they are given at the path of every position of `v`
(`path` is the path of `v` itself) -/
def IdOnT (t : Transformer) (X : SetOracle) (path : Path) (v : Value) : Prop :=
  ∀ r q, pathAt X v r = some q → ∀ log v',
    t.enter log (path ++ q) v' = .ok v' ∧ t.exit log (path ++ q) v' = .ok v'

theorem IdOnT.kid {t : Transformer} {X : SetOracle} {path : Path} {v : Value} (h : IdOnT t X path v)
    {i : Nat} {c : PathStep × Value} (hc : (kids X v)[i]? = some c) :
    IdOnT t X (path ++ [c.1]) c.2 := by
  intro r q hq log v'
  have := h (i :: r) (c.1 :: q) (by rw [pathAt_cons hc, hq]; rfl) log v'
  simpa [List.append_assoc] using this

/-- identity on the subtree, for any `Transformer` (`transformFuel_idOn` is the
`postorder` instance): the value comes back, with the identity's events -/
theorem transformFuel_idOnT {X : SetOracle} (hX : IterPerm X) {σ : Sched} (hσ : SchedOk σ)
    (t : Transformer) :
    ∀ (f : Nat) (v : Value), v.v.depth < f → Good X v → ∀ (path : Path), IdOnT t X path v →
      ∀ (log : List Ev),
      transformFuel X σ t f log path v = (log ++ idEvs X σ f path v, .ok v)
  | 0, _, h, _ => by omega
  | f + 1, v, hd, hg => by
    intro path hid log
    have ih : ∀ c ∈ kids X v, ∀ log,
        transformFuel X σ t f log (path ++ [c.1]) c.2 =
          (log ++ idEvs X σ f (path ++ [c.1]) c.2, .ok c.2) := by
      intro c hc log
      obtain ⟨i, hi⟩ := List.getElem?_of_mem hc
      exact transformFuel_idOnT hX hσ t f c.2 (by have := kids_depth_lt hX v c hc; omega)
        (kids_good hX v hg c hc) _ (hid.kid hi) log
    have hen : ∀ l, t.enter l path v = .ok v := fun l => by
      have := (hid [] [] rfl l v).1
      simpa using this
    have hex : ∀ l, t.exit l path v = .ok v := fun l => by
      have := (hid [] [] rfl l v).2
      simpa using this
    simp only [transformFuel, hen, idEvs]
    rw [rebuild_id hX hσ _ (idEvs X σ f) v hg path ih]
    simp only [hex]
    simp [List.append_assoc]

/-! ### where the events of an identity transform lie -/

theorem mem_idEvKids {rec : Path → Value → List Ev} {path : Path} {e : Ev} :
    ∀ {cs : List (PathStep × Value)}, e ∈ idEvKids rec path cs →
      ∃ c ∈ cs, e ∈ rec (path ++ [c.1]) c.2
  | [], h => by simp [idEvKids] at h
  | (s, c) :: rest, h => by
    simp only [idEvKids, List.mem_append] at h
    rcases h with h | h
    · exact ⟨(s, c), by simp, h⟩
    · obtain ⟨c', hc', he⟩ := mem_idEvKids h
      exact ⟨c', List.mem_cons_of_mem _ hc', he⟩

/-- every event of an identity transform of a node has a path at or below the node's -/
theorem idEvs_path_prefix (X : SetOracle) (σ : Sched) : ∀ (f : Nat) (path : Path) (v : Value) (e : Ev),
    e ∈ idEvs X σ f path v → path <+: e.path
  | 0, _, _, _, h => by simp [idEvs] at h
  | f + 1, path, v, e, h => by
    simp only [idEvs, List.mem_cons, List.mem_append, List.not_mem_nil, or_false] at h
    rcases h with rfl | h | rfl
    · exact List.prefix_refl _
    · obtain ⟨c, _, he⟩ := mem_idEvKids h
      have := idEvs_path_prefix X σ f _ c.2 e he
      exact (List.prefix_append path [c.1]).trans this
    · exact List.prefix_refl _

theorem mem_mapEvKids {ev : PathStep × Value → List Ev} {e : Ev} :
    ∀ {l : List (PathStep × Value)}, e ∈ mapEvKids ev l → ∃ c ∈ l, e ∈ ev c
  | [], h => by simp [mapEvKids] at h
  | d :: l, h => by
    simp only [mapEvKids, List.mem_append] at h
    rcases h with h | h
    · exact ⟨d, by simp, h⟩
    · obtain ⟨c, hc, hec⟩ := mem_mapEvKids h
      exact ⟨c, List.mem_cons_of_mem _ hc, hec⟩

theorem mapEvKids_split (ev : PathStep × Value → List Ev) (ci : PathStep × Value) :
    ∀ (l : List (PathStep × Value)), l.Nodup → ci ∈ l → ∃ A B, mapEvKids ev l = A ++ ev ci ++ B ∧
      ∀ e, e ∈ A ++ B → ∃ c ∈ l, c ≠ ci ∧ e ∈ ev c
  | [], _, h => by cases h
  | c :: rest, hnd, h => by
    have ⟨hnot, hnd'⟩ := List.nodup_cons.mp hnd
    by_cases hc : c = ci
    · subst hc
      refine ⟨[], mapEvKids ev rest, by simp [mapEvKids], ?_⟩
      intro e he
      simp only [List.nil_append] at he
      obtain ⟨c', hc', hec'⟩ := mem_mapEvKids he
      exact ⟨c', List.mem_cons_of_mem _ hc', fun h' => hnot (h' ▸ hc'), hec'⟩
    · have hmem : ci ∈ rest := by
        rcases List.mem_cons.mp h with h | h
        · exact absurd h.symm hc
        · exact h
      obtain ⟨A, B, hAB, hrest⟩ := mapEvKids_split ev ci rest hnd' hmem
      refine ⟨ev c ++ A, B, by simp [mapEvKids, hAB, List.append_assoc], ?_⟩
      intro e he
      simp only [List.append_assoc, List.mem_append] at he
      rcases he with he | he | he
      · exact ⟨c, by simp, hc, he⟩
      · obtain ⟨c', hc', h1, h2⟩ := hrest e (List.mem_append.mpr (Or.inl he))
        exact ⟨c', List.mem_cons_of_mem _ hc', h1, h2⟩
      · obtain ⟨c', hc', h1, h2⟩ := hrest e (List.mem_append.mpr (Or.inr he))
        exact ⟨c', List.mem_cons_of_mem _ hc', h1, h2⟩

/-! ### `Enter` replaces one member -/

/-- two lists that are both prefixes of a third agree where both are defined -/
theorem prefix_getElem?_eq {α : Type} {a b l : List α} (ha : a <+: l) (hb : b <+: l) (i : Nat)
    (hia : i < a.length) (hib : i < b.length) : a[i]? = b[i]? := by
  obtain ⟨ra, rfl⟩ := ha
  obtain ⟨rb, hb⟩ := hb
  have h1 : (a ++ ra)[i]? = a[i]? := List.getElem?_append_left hia
  have h2 : (b ++ rb)[i]? = b[i]? := List.getElem?_append_left hib
  rw [← h1, ← h2, hb]

open Classical in
/-- **`Enter` replaces the member at one position.**  `t.enter` returns `x` at the
path of position `r0` (outside sets), both methods return what they are given at
every other path met.  Then the transform returns the value with that member
replaced, and its events are `pre ++ Enter(q0, n) :: seg ++ post` where `n` is the
ORIGINAL member, `seg` is the identity transform of the REPLACEMENT `x` without its
own `Enter` (so it ends with `Exit(q0, x)`), and no event of `pre` or `post` has a
path at or below `q0`. -/
theorem transformFuel_enterReplace {X : SetOracle} (hX : IterPerm X) {σ : Sched} (hσ : SchedOk σ)
    (t : Transformer) (x : Value) (hgx : Good X x) :
    ∀ (f : Nat) (v : Value), v.v.depth < f → Good X v → ∀ (r0 : Pos) (path q0 : Path) (n : Value),
      r0.length + x.v.depth < f →
      nodeAt X v r0 = some n → pathAt X v r0 = some q0 → noSetAt X v r0 = true → x.ty = n.ty →
      (∀ log v', t.enter log (path ++ q0) v' = .ok x) →
      (∀ log v', t.exit log (path ++ q0) v' = .ok v') →
      (∀ r q, r ≠ [] → pathAt X x r = some q → ∀ log v',
        t.enter log (path ++ q0 ++ q) v' = .ok v' ∧ t.exit log (path ++ q0 ++ q) v' = .ok v') →
      (∀ r q, ¬ r0 <+: r → pathAt X v r = some q → ∀ log v',
        t.enter log (path ++ q) v' = .ok v' ∧ t.exit log (path ++ q) v' = .ok v') →
      ∃ pre seg post f', x.v.depth < f' ∧ seg = (idEvs X σ f' (path ++ q0) x).tail ∧
        (∀ e, e ∈ pre ++ post → ¬ (path ++ q0) <+: e.path) ∧
        ∀ log, transformFuel X σ t f log path v =
          (log ++ (pre ++ .enter (path ++ q0) n :: seg ++ post), .ok (replaceAt X v r0 x))
  | 0, _, h, _ => by omega
  | f + 1, v, hd, hg => by
    intro r0 path q0 n hfx hn hq hns hx hrepE hexit0 hidX hidV
    cases r0 with
    | nil =>
      simp only [pathAt, Option.some.injEq] at hq
      subst hq
      simp only [nodeAt, Option.some.injEq] at hn
      subst hn
      simp only [List.append_nil] at hrepE hexit0 hidX ⊢
      have ih : ∀ c ∈ kids X x, ∀ log,
          transformFuel X σ t f log (path ++ [c.1]) c.2 =
            (log ++ idEvs X σ f (path ++ [c.1]) c.2, .ok c.2) := by
        intro c hc log
        obtain ⟨i, hi⟩ := List.getElem?_of_mem hc
        refine transformFuel_idOnT hX hσ t f c.2
          (by have := kids_depth_lt hX x c hc; simp only [List.length_nil] at hfx; omega)
          (kids_good hX x hgx c hc) _ ?_ log
        intro r q hq' log v'
        have := hidX (i :: r) (c.1 :: q) (by simp) (by rw [pathAt_cons hi, hq']; rfl) log v'
        simpa [List.append_assoc] using this
      refine ⟨[], idEvKids (idEvs X σ f) path (ordKids X σ path x) ++ [.exit path x], [], f + 1,
        by simp only [List.length_nil] at hfx; omega, by simp [idEvs], by simp, fun log => ?_⟩
      simp only [transformFuel, hrepE]
      rw [rebuild_id hX hσ _ (idEvs X σ f) x hgx path ih]
      simp only [hexit0, replaceAt]
      simp [List.append_assoc]
    | cons i r =>
      simp only [nodeAt, noSetAt, pathAt, Bool.and_eq_true] at hn hns hq
      cases hci : (kids X v)[i]? with
      | none => simp [hci] at hn
      | some ci =>
        simp only [hci, Option.map_eq_some_iff] at hn hns hq
        obtain ⟨q0', hq0', rfl⟩ := hq
        have hcim : ci ∈ kids X v := List.mem_of_getElem? hci
        have hnd := kids_nodup (X := X) v hg.shaped hns.1
        have hsnd := kids_steps_nodup (X := X) v hg.shaped hns.1
        have hpq : path ++ ci.1 :: q0' = (path ++ [ci.1]) ++ q0' := by simp [List.append_assoc]
        -- the member on the way to the target
        obtain ⟨prei, seg, posti, f', hf', hseg, hout, hevi⟩ :=
          transformFuel_enterReplace hX hσ t x hgx f ci.2
            (by have := kids_depth_lt hX v ci hcim; omega) (kids_good hX v hg ci hcim) r
            (path ++ [ci.1]) q0' n (by simp only [List.length_cons] at hfx; omega) hn hq0' hns.2 hx
            (by intro log v'; rw [← hpq]; exact hrepE log v')
            (by intro log v'; rw [← hpq]; exact hexit0 log v')
            (by intro r' q hne hq' log v'; rw [← hpq]; exact hidX r' q hne hq' log v')
            (by
              intro r' q hnp hq' log v'
              have := hidV (i :: r') (ci.1 :: q)
                (by intro hp; exact hnp (List.cons_prefix_cons.mp hp).2) (by rw [pathAt_cons hci, hq']; rfl) log v'
              simpa [List.append_assoc] using this)
        let evi : List Ev := prei ++ .enter ((path ++ [ci.1]) ++ q0') n :: seg ++ posti
        let g : PathStep × Value → Value := fun c =>
          if c = ci then replaceAt X ci.2 r x else c.2
        let ev : PathStep × Value → List Ev := fun c =>
          if c = ci then evi else idEvs X σ f (path ++ [c.1]) c.2
        have ih : ∀ c ∈ kids X v, ∀ log,
            transformFuel X σ t f log (path ++ [c.1]) c.2 = (log ++ ev c, .ok (g c)) := by
          intro c hc log
          by_cases hcc : c = ci
          · subst hcc
            simp only [g, ev, if_true]
            exact hevi log
          · simp only [g, ev, hcc, if_false]
            obtain ⟨j, hj⟩ := List.getElem?_of_mem hc
            have hji : j ≠ i := by
              intro h; subst h; rw [hci] at hj; exact hcc (Option.some.inj hj).symm
            refine transformFuel_idOnT hX hσ t f c.2 (by have := kids_depth_lt hX v c hc; omega)
              (kids_good hX v hg c hc) _ ?_ log
            intro r' q hq' log v'
            have := hidV (j :: r') (c.1 :: q)
              (by intro hp; exact hji (List.cons_prefix_cons.mp hp).1.symm)
              (by rw [pathAt_cons hj, hq']; rfl) log v'
            simpa [List.append_assoc] using this
        have hty : ∀ c ∈ kids X v, (g c).ty = c.2.ty := by
          intro c _
          by_cases hcc : c = ci
          · subst hcc
            simp only [g, if_true]
            exact replaceAt_ty r c.2 x n hn hx
          · simp only [g, hcc, if_false]
        have hsetv : ∀ e, v.ty = .set e → ∀ c ∈ kids X v, g c = c.2 := by
          intro e he
          rw [he] at hns
          simp [notSet] at hns
        have hroot := hidV [] [] (by simp) rfl
        have hen : ∀ l, t.enter l path v = .ok v := fun l => by simpa using (hroot l v).1
        have hex : ∀ l w, t.exit l path w = .ok w := fun l w => by simpa using (hroot l w).2
        have hmg : (kids X v).map g = ((kids X v).map (·.2)).set i (replaceAt X ci.2 r x) := by
          simp only [g]
          exact map_ite_eq_set (kids X v) hnd i ci hci (fun c => c.2) (replaceAt X ci.2 r x)
        have hciord : ci ∈ ordKids X σ path v :=
          (ordKids_perm (X := X) hσ path v hg.shaped).mem_iff.mpr hcim
        have hordnd : (ordKids X σ path v).Nodup :=
          (ordKids_perm (X := X) hσ path v hg.shaped).nodup_iff.mpr hnd
        obtain ⟨A, B, hAB, hABout⟩ := mapEvKids_split ev ci (ordKids X σ path v) hordnd hciord
        refine ⟨.enter path v :: (A ++ prei), seg,
          posti ++ B ++ [.exit path (withKids v ((kids X v).map g))], f', hf', by rw [hseg, hpq], ?_,
          fun log => ?_⟩
        · -- nothing else at or below the target path
          intro e he hp
          have hlen : path.length < (path ++ ci.1 :: q0').length := by simp
          have hstep : (path ++ ci.1 :: q0')[path.length]? = some ci.1 := by simp
          have hshort : ∀ e' : Ev, e'.path = path → ¬ (path ++ ci.1 :: q0') <+: e'.path := by
            intro e' h' hp'
            have := hp'.length_le
            rw [h'] at this
            omega
          have hsib : ∀ e', e' ∈ A ++ B → ¬ (path ++ ci.1 :: q0') <+: e'.path := by
            intro e' he' hp'
            obtain ⟨c, hc, hne, hec⟩ := hABout e' he'
            have hck : c ∈ kids X v := (ordKids_perm (X := X) hσ path v hg.shaped).mem_iff.mp hc
            have hpre : (path ++ [c.1]) <+: e'.path := by
              simp only [ev, hne, if_false] at hec
              exact idEvs_path_prefix X σ f _ _ _ hec
            have := prefix_getElem?_eq hp' hpre path.length hlen (by simp)
            rw [hstep] at this
            simp only [List.getElem?_append_right (Nat.le_refl _), Nat.sub_self,
              List.getElem?_cons_zero, Option.some.injEq] at this
            obtain ⟨j, hj⟩ := List.getElem?_of_mem hck
            have hji := nodup_map_getElem?_inj (·.1) (kids X v) hsnd j i c ci hj hci this.symm
            subst hji
            rw [hci] at hj
            exact hne (Option.some.inj hj).symm
          have hin : ∀ e', e' ∈ prei ++ posti → ¬ (path ++ ci.1 :: q0') <+: e'.path := by
            intro e' he'
            rw [hpq]
            exact hout e' he'
          simp only [List.cons_append, List.mem_cons, List.mem_append, List.append_assoc,
            List.not_mem_nil, or_false] at he
          rcases he with rfl | he | he | he | he | rfl
          · exact hshort _ rfl hp
          · exact hsib e (List.mem_append.mpr (Or.inl he)) hp
          · exact hin e (List.mem_append.mpr (Or.inl he)) hp
          · exact hin e (List.mem_append.mpr (Or.inr he)) hp
          · exact hsib e (List.mem_append.mpr (Or.inr he)) hp
          · exact hshort _ rfl hp
        · simp only [transformFuel, hen]
          rw [rebuild_map hX hσ _ ev g v hg path hty hsetv ih]
          simp only [hex, replaceAt, hci]
          rw [hmg, hAB]
          simp only [ev, if_true, evi, hpq]
          simp [List.append_assoc]

end Walk
end CtyModel
