/-
C06, `accessors_total` extended (audit d06): totality of the accessors the original statement omits —
`Index` on maps and tuples (and on unknown / marked operands), `HasIndex`, `Length`, `Equals v v`, `Hash`,
`RawEquals v v` — and without the `isMarked = false` restriction wherever the Go accessor accepts marked
values.  Every theorem: well-formed value + the documented preconditions of the Go method → the model
returns `.ok _` (never `.panic`).
-/
import CtyModel.Lemmas.WFAccess
import CtyModel.Lemmas.ValEqSymm
import CtyModel.Lemmas.WalkRawEq
set_option linter.unusedSimpArgs false
set_option linter.unusedVariables false
namespace CtyModel
namespace D06Acc
open Value
variable {nfc : String → Bool}

/-! ## the mark prologue (`binMarks`, `unMarks`): the call on the unmarked operands decides -/

theorem unmark_of_not_marked {a : Value} (h : a.isMarked = false) : a.unmark = a := by
  obtain ⟨t, p⟩ := a
  cases p <;> simp_all [Value.unmark, Value.isMarked, Payload.isMarked, Payload.unmark1]

theorem unmark_not_marked {a : Value} (ha : a.WF nfc = true) : a.unmark.isMarked = false := by
  simp only [WF, Bool.and_eq_true] at ha
  exact (Payload.wfP_unmark1 ha.2).2

theorem binMarks_ok {f : Value → Value → Res Value} {a b : Value} {P : Value → Prop}
    (hP : ∀ v ms, P v → P (v.withMarks ms))
    (h : ∃ r, f a.unmark b.unmark = .ok r ∧ P r) : ∃ r, binMarks f a b = .ok r ∧ P r := by
  obtain ⟨r, hr, hp⟩ := h
  unfold binMarks
  split
  · exact ⟨_, by rw [hr]; rfl, hP _ _ hp⟩
  · rename_i hm
    simp only [Bool.or_eq_true, not_or, Bool.not_eq_true] at hm
    rw [unmark_of_not_marked hm.1, unmark_of_not_marked hm.2] at hr
    exact ⟨r, hr, hp⟩

theorem unMarks_ok {f : Value → Res Value} {a : Value} {P : Value → Prop}
    (hP : ∀ v ms, P v → P (v.withMarks ms))
    (h : ∃ r, f a.unmark = .ok r ∧ P r) : ∃ r, unMarks f a = .ok r ∧ P r := by
  obtain ⟨r, hr, hp⟩ := h
  unfold unMarks
  split
  · exact ⟨_, by rw [hr]; rfl, hP _ _ hp⟩
  · rename_i hm
    simp only [Bool.not_eq_true] at hm
    rw [unmark_of_not_marked hm] at hr
    exact ⟨r, hr, hp⟩

/-- conversely: what the marked call returned comes from the call on the unmarked operands -/
theorem binMarks_inv {f : Value → Value → Res Value} {a b r : Value} (h : binMarks f a b = .ok r) :
    ∃ r', f a.unmark b.unmark = .ok r' ∧ (r = r' ∨ ∃ ms, r = r'.withMarks ms) := by
  unfold binMarks at h
  split at h
  · cases hf : f a.unmark b.unmark with
    | ok r' => rw [hf] at h; simp only [Res.map] at h; cases h; exact ⟨r', rfl, Or.inr ⟨_, rfl⟩⟩
    | err _ => rw [hf] at h; simp [Res.map] at h
    | panic _ => rw [hf] at h; simp [Res.map] at h
    | unmodelled => rw [hf] at h; simp [Res.map] at h
  · rename_i hm
    simp only [Bool.or_eq_true, not_or, Bool.not_eq_true] at hm
    rw [unmark_of_not_marked hm.1, unmark_of_not_marked hm.2]
    exact ⟨r, h, Or.inl rfl⟩

theorem unmark_withMarks {r : Value} (hr : r.isMarked = false) (ms : List String) : (r.withMarks ms).unmark = r := by
  obtain ⟨t, p⟩ := r
  simp only [Value.withMarks, Value.unmark, Payload.withMarks]
  split
  · exact unmark_of_not_marked hr
  · cases p <;> simp_all [Value.isMarked, Payload.isMarked, Payload.unmark1]

/-! ## `keyIndex` of an integer key -/

/-- `NumberIntVal(i)` for `0 ≤ i ≤ MaxInt64` is read back as the index `i` -/
theorem keyIndex_intVal (i : Nat) (hi : (i : Int) ≤ maxInt) : keyIndex (intVal i) = .ok (some i) := by
  simp only [keyIndex, intVal, numVal, Num.toInt?, Num.ofInt, Num.mk]
  have hnn : ¬ ((i : Int) < 0) := by omega
  have hneg : decide ((i : Int) < 0) = false := by simp
  rw [hneg]
  by_cases h0 : i = 0
  · subst h0; simp [Num.norm, Num.normFuel, Num.isInt, Num.truncInt, Num.bitlen, maxInt]
  · have hv := Num.norm_val (Int.natAbs i) 0 (by omega)
    have hexp : 0 ≤ (Num.norm (Int.natAbs i) 0).2 := hv.1
    simp only [Num.isInt, Num.truncInt, ge_iff_le, hexp, decide_true, if_true]
    have h2 : ((Num.norm (Int.natAbs (i:Int)) 0).1 : Int) * 2 ^ ((Num.norm (Int.natAbs (i:Int)) 0).2).toNat = i := by
      have := hv.2
      simp only [Int.sub_zero] at this
      have h3 : Int.natAbs (i : Int) = i := by simp
      rw [h3] at this ⊢
      exact_mod_cast this
    simp only [Bool.false_eq_true, if_false, h2]
    have : ¬ ((i : Int) < 0 ∨ (i : Int) > maxInt) := by omega
    simp [this]

/-! ## `HasIndex` -/

theorem keyIndex_ok_of_number {k : Value} (hk : k.WF nfc = true) (hkm : k.isMarked = false)
    (hty : k.ty.isNumber = true) (hkk : k.isKnown = true) (hkn : k.isNull = false) : ∃ o, keyIndex k = .ok o := by
  obtain ⟨t, p⟩ := k
  cases t <;> simp [Ty.isNumber] at hty
  cases p <;> simp_all [WF, Payload.wfP, keyIndex, Value.isMarked, Payload.isMarked, Value.isKnown, Payload.isKnown,
    Value.isNull, Payload.isNull, Payload.unmark1]
  split <;> simp

/-- the payload of a known non-null unmarked well-formed value is what its type dictates -/
theorem payload_list {e : Ty} {p : Payload} (hv : Value.WF nfc ⟨.list e, p⟩ = true) (hm : p.isMarked = false)
    (hk : p.isKnown = true) (hn : p.isNull = false) : ∃ vs, p = .seq vs := by
  cases p <;> simp_all [WF, Payload.wfP, Payload.isMarked, Payload.isKnown, Payload.isNull, Payload.unmark1]
theorem payload_map {e : Ty} {p : Payload} (hv : Value.WF nfc ⟨.map e, p⟩ = true) (hm : p.isMarked = false)
    (hk : p.isKnown = true) (hn : p.isNull = false) : ∃ ks vs, p = .smap ks vs := by
  cases p <;> simp_all [WF, Payload.wfP, Payload.isMarked, Payload.isKnown, Payload.isNull, Payload.unmark1]
theorem payload_tuple {es : List Ty} {p : Payload} (hv : Value.WF nfc ⟨.tuple es, p⟩ = true) (hm : p.isMarked = false)
    (hk : p.isKnown = true) (hn : p.isNull = false) : ∃ vs, p = .seq vs ∧ es.length = vs.length := by
  cases p <;> simp_all [WF, Payload.wfP, Payload.isMarked, Payload.isKnown, Payload.isNull, Payload.unmark1]
theorem payload_string {p : Payload} (hv : Value.WF nfc ⟨.string, p⟩ = true) (hm : p.isMarked = false)
    (hk : p.isKnown = true) (hn : p.isNull = false) : ∃ s, p = .s s := by
  cases p <;> simp_all [WF, Payload.wfP, Payload.isMarked, Payload.isKnown, Payload.isNull, Payload.unmark1]

theorem hasIndexU_total (v k : Value) (hv : v.WF nfc = true) (hvm : v.isMarked = false) (hn : v.isNull = false)
    (hk : k.WF nfc = true) (hkm : k.isMarked = false) (hkn : k.isNull = false)
    (hty : v.ty = .dyn ∨ (∃ e, v.ty = .list e) ∨ (∃ e, v.ty = .map e) ∨ ∃ es, v.ty = .tuple es) :
    ∃ r, hasIndexU v k = .ok r := by
  obtain ⟨t, p⟩ := v
  simp only [Value.isMarked, Value.isNull] at hvm hn
  unfold hasIndexU
  have dl : ∀ e, (Ty.list e).isDyn = false := fun _ => rfl
  have dm : ∀ e, (Ty.map e).isDyn = false := fun _ => rfl
  have dt : ∀ e, (Ty.tuple e).isDyn = false := fun _ => rfl
  rcases hty with h | ⟨e, h⟩ | ⟨e, h⟩ | ⟨es, h⟩ <;> simp only at h <;> subst h
  · exact ⟨_, rfl⟩
  · simp only [dl]
    cases h1 : k.ty.isDyn
    case true => exact ⟨_, rfl⟩
    cases h2 : k.ty.isNumber
    case false => exact ⟨_, rfl⟩
    cases h3 : k.isKnown
    case false => exact ⟨_, rfl⟩
    cases h4 : p.isKnown
    case false => simp only [h4, Value.isKnown, Bool.false_eq_true, if_false, Bool.not_false, if_true, Bool.not_true, Res.bind_ok]; exact ⟨_, rfl⟩
    obtain ⟨o, ho⟩ := keyIndex_ok_of_number hk hkm h2 h3 hkn
    obtain ⟨vs, rfl⟩ := payload_list hv hvm h4 hn
    simp only [h4, ho, Value.isKnown, Bool.false_eq_true, if_false, Bool.not_false, if_true, Bool.not_true, Res.bind_ok]
    cases o <;> exact ⟨_, rfl⟩
  · simp only [dm]
    cases h1 : k.ty.isDyn
    case true => exact ⟨_, rfl⟩
    cases h2 : k.ty.isString
    case false => exact ⟨_, rfl⟩
    cases h3 : k.isKnown
    case false => exact ⟨_, rfl⟩
    cases h4 : p.isKnown
    case false => simp only [h4, Value.isKnown, Bool.false_eq_true, if_false, Bool.not_false, if_true, Bool.not_true, Res.bind_ok]; exact ⟨_, rfl⟩
    obtain ⟨ks, vs, rfl⟩ := payload_map hv hvm h4 hn
    obtain ⟨tk, pk⟩ := k
    have : tk = .string := by cases tk <;> simp_all [Ty.isString]
    subst this
    obtain ⟨s, rfl⟩ := payload_string hk hkm h3 hkn
    simp only [h4, Value.isKnown, Bool.false_eq_true, if_false, Bool.not_false, if_true, Bool.not_true, Res.bind_ok]
    exact ⟨_, rfl⟩
  · simp only [dt]
    cases h1 : k.ty.isDyn
    case true => exact ⟨_, rfl⟩
    cases h2 : k.ty.isNumber
    case false => exact ⟨_, rfl⟩
    cases h3 : k.isKnown
    case false => exact ⟨_, rfl⟩
    obtain ⟨o, ho⟩ := keyIndex_ok_of_number hk hkm h2 h3 hkn
    simp only [ho, Value.isKnown, Bool.false_eq_true, if_false, Bool.not_false, if_true, Bool.not_true, Res.bind_ok]
    cases o <;> exact ⟨_, rfl⟩

theorem wf_withMarks' : ∀ (v : Value) (ms : List String), v.WF nfc = true → (v.withMarks ms).WF nfc = true :=
  fun _ ms h => Value.wf_withMarks ms h

/-- **`HasIndex`** (value_ops.go) never panics on a well-formed list, map or tuple (or dynamically typed
receiver) with a well-formed key of ANY type, known or unknown, marked or not — no `isMarked = false`
hypothesis: the marks of both operands are stripped and re-applied to the answer.  The documented
preconditions: the receiver is of a list, map or tuple type; the model (as the Go code: a nil payload fails
the type assertion) additionally needs receiver and key not null. The answer is a well-formed bool. -/
theorem hasIndex_total (v k : Value) (hv : v.WF nfc = true) (hk : k.WF nfc = true) (hn : v.isNull = false)
    (hkn : k.isNull = false)
    (hty : v.ty = .dyn ∨ (∃ e, v.ty = .list e) ∨ (∃ e, v.ty = .map e) ∨ ∃ es, v.ty = .tuple es) :
    ∃ r, hasIndex v k = .ok r ∧ r.WF nfc = true := by
  refine binMarks_ok wf_withMarks' ?_
  obtain ⟨r, hr⟩ := hasIndexU_total v.unmark k.unmark (Value.wf_unmark hv) (unmark_not_marked hv)
    (by rw [Value.isNull_unmark hv]; exact hn) (Value.wf_unmark hk) (unmark_not_marked hk)
    (by rw [Value.isNull_unmark hk]; exact hkn) hty
  refine ⟨r, hr, Value.wf_of_isPrim ?_⟩
  have := Value.all_prim_hasIndexU v.unmark k.unmark
  rw [hr] at this
  exact this

/-! ## `Index` -/

/-- on unmarked operands: wherever `HasIndex` does not answer a known `false`, `Index` returns -/
theorem indexU_of_hasIndexU (v k h : Value) (hv : v.WF nfc = true) (hvm : v.isMarked = false)
    (hn : v.isNull = false) (hh : hasIndexU v k = .ok h) (hf : Value.isFalse h = false) : ∃ r, indexU v k = .ok r := by
  obtain ⟨t, p⟩ := v
  have hpk : ∀ t, (⟨t, p⟩ : Value).isKnown = p.isKnown := fun _ => rfl
  unfold hasIndexU at hh
  unfold indexU
  cases t
  case dyn => exact ⟨_, rfl⟩
  case list e =>
    have dl : (Ty.list e).isDyn = false := rfl
    simp only [dl, hpk] at hh ⊢
    cases h1 : k.ty.isDyn
    case true => exact ⟨_, rfl⟩
    cases h2 : k.ty.isNumber
    case false => simp only [h1, h2, Bool.false_eq_true, if_false, Bool.not_false, if_true, Bool.not_true, Res.bind_ok] at hh; cases hh; simp [boolVal, Value.isFalse] at hf
    cases h3 : k.isKnown
    case false => exact ⟨_, rfl⟩
    cases h4 : p.isKnown
    case false => simp only [h4, Bool.false_eq_true, if_false, Bool.not_false, if_true, Bool.not_true, Res.bind_ok]; exact ⟨_, rfl⟩
    simp only [h1, h2, h3, h4, Bool.false_eq_true, if_false, Bool.not_false, if_true, Bool.not_true, Res.bind_ok] at hh ⊢
    cases hki : keyIndex k with
    | ok o =>
      simp only [hki, Res.bind_ok] at hh ⊢
      cases o with
      | none => cases hh; simp [boolVal, Value.isFalse] at hf
      | some i =>
        cases p <;> simp only [] at hh <;> try (cases hh; done)
        rename_i vs
        cases hh
        have hi : i < vs.length := by
          by_cases hi : i < vs.length
          · exact hi
          · simp [boolVal, Value.isFalse, hi] at hf
        simp [hi]
    | err _ => rw [hki] at hh; cases hh
    | panic _ => rw [hki] at hh; cases hh
    | unmodelled => rw [hki] at hh; cases hh
  case map e =>
    have dm : (Ty.map e).isDyn = false := rfl
    simp only [dm, hpk] at hh ⊢
    cases h1 : k.ty.isDyn
    case true => exact ⟨_, rfl⟩
    cases h2 : k.ty.isString
    case false => simp only [h1, h2, Bool.false_eq_true, if_false, Bool.not_false, if_true, Bool.not_true, Res.bind_ok] at hh; cases hh; simp [boolVal, Value.isFalse] at hf
    cases h3 : k.isKnown
    case false => exact ⟨_, rfl⟩
    cases h4 : p.isKnown
    case false => simp only [h4, Bool.false_eq_true, if_false, Bool.not_false, if_true, Bool.not_true, Res.bind_ok]; exact ⟨_, rfl⟩
    simp only [h1, h2, h3, h4, Bool.false_eq_true, if_false, Bool.not_false, if_true, Bool.not_true, Res.bind_ok] at hh ⊢
    split at hh
    · rename_i key ks vs hkv
      exact ⟨_, rfl⟩
    · cases hh
  case tuple es =>
    have dt : (Ty.tuple es).isDyn = false := rfl
    simp only [dt, hpk] at hh ⊢
    cases h1 : k.ty.isDyn
    case true => exact ⟨_, rfl⟩
    cases h2 : k.ty.isNumber
    case false => simp only [h1, h2, Bool.false_eq_true, if_false, Bool.not_false, if_true, Bool.not_true, Res.bind_ok] at hh; cases hh; simp [boolVal, Value.isFalse] at hf
    cases h3 : k.isKnown
    case false => exact ⟨_, rfl⟩
    simp only [h1, h2, h3, Bool.false_eq_true, if_false, Bool.not_false, if_true, Bool.not_true, Res.bind_ok] at hh ⊢
    cases hki : keyIndex k with
    | ok o =>
      simp only [hki, Res.bind_ok] at hh ⊢
      cases o with
      | none => cases hh; simp [boolVal, Value.isFalse] at hf
      | some i =>
        cases hh
        have hi : i < es.length := by
          by_cases hi : i < es.length
          · exact hi
          · simp [boolVal, Value.isFalse, hi, pure] at hf
        have he : es[i]? = some es[i] := by simp [hi]
        simp only [he]
        cases h4 : p.isKnown
        case false => exact ⟨_, rfl⟩
        obtain ⟨vs, rfl, hl⟩ := payload_tuple hv hvm h4 hn
        have hvs : vs[i]? = some (vs[i]'(by omega)) := by simp
        simp [hvs]
    | err _ => rw [hki] at hh; cases hh
    | panic _ => rw [hki] at hh; cases hh
    | unmodelled => rw [hki] at hh; cases hh
  all_goals (simp [Ty.isDyn] at hh)

theorem not_marked_of_isPrim {r : Value} (h : r.isPrim = true) : r.isMarked = false := by
  obtain ⟨t, p⟩ := r
  cases t <;> cases p <;> simp_all [Value.isPrim, Value.isMarked, Payload.isMarked]

theorem indexU_wf {v k r : Value} (hv : v.WF nfc = true) (h : indexU v k = .ok r) : r.WF nfc = true :=
  Res.all_iff.mp (Value.all_wf_indexU v k hv) r h

/-- **`Index`, the documented precondition** ("use `HasIndex` to test whether the key is valid"): on a well-formed,
non-null receiver — known or unknown, marked or not, key marked or not — wherever `HasIndex` returns
anything but a known `false` (i.e. `True` or unknown), `Index` returns, and the member is well-formed.
No `isMarked = false` hypothesis.  Non-null is needed: see `index_null_tuple_witness`. -/
theorem index_of_hasIndex (v k h : Value) (hv : v.WF nfc = true) (hn : v.isNull = false)
    (hh : hasIndex v k = .ok h) (hf : Value.isFalse h.unmark = false) :
    ∃ r, index v k = .ok r ∧ r.WF nfc = true := by
  obtain ⟨h', hh', hrel⟩ := binMarks_inv hh
  have hprim : h'.isPrim = true := by
    have := Value.all_prim_hasIndexU v.unmark k.unmark
    rw [hh'] at this
    exact this
  have hm' := not_marked_of_isPrim hprim
  have hu : h.unmark = h' := by
    rcases hrel with rfl | ⟨ms, rfl⟩
    · exact unmark_of_not_marked hm'
    · exact unmark_withMarks hm' ms
  rw [hu] at hf
  obtain ⟨r, hr⟩ := indexU_of_hasIndexU v.unmark k.unmark h' (Value.wf_unmark hv) (unmark_not_marked hv)
    (by rw [Value.isNull_unmark hv]; exact hn) hh' hf
  exact binMarks_ok wf_withMarks' ⟨r, hr, indexU_wf (Value.wf_unmark hv) hr⟩

theorem indexU_map_total (v k : Value) (hv : v.WF nfc = true) (hvm : v.isMarked = false) (hn : v.isNull = false)
    (hk : k.WF nfc = true) (hkm : k.isMarked = false) (hkn : k.isNull = false) {e : Ty} (hty : v.ty = .map e)
    (hkt : k.ty = .string) : ∃ r, indexU v k = .ok r := by
  obtain ⟨t, p⟩ := v
  obtain ⟨tk, pk⟩ := k
  simp only at hty hkt
  subst hty hkt
  simp only [Value.isMarked, Value.isNull] at hvm hn hkm hkn
  unfold indexU
  have dm : (Ty.map e).isDyn = false := rfl
  have d1 : Ty.string.isDyn = false := rfl
  have d2 : Ty.string.isString = true := rfl
  simp only [dm, d1, d2, Bool.false_eq_true, if_false, Bool.not_false, if_true, Bool.not_true, Res.bind_ok]
  cases h3 : pk.isKnown
  case false => simp only [Value.isKnown, h3, Bool.false_eq_true, if_false, Bool.not_false, if_true, Bool.not_true, Res.bind_ok]; exact ⟨_, rfl⟩
  cases h4 : p.isKnown
  case false => simp only [Value.isKnown, h3, h4, Bool.false_eq_true, if_false, Bool.not_false, if_true, Bool.not_true, Res.bind_ok]; exact ⟨_, rfl⟩
  obtain ⟨ks, vs, rfl⟩ := payload_map hv hvm h4 hn
  obtain ⟨s, rfl⟩ := payload_string hk hkm h3 hkn
  simp only [Value.isKnown, h3, h4, Bool.false_eq_true, if_false, Bool.not_false, if_true, Bool.not_true, Res.bind_ok]
  exact ⟨_, rfl⟩

/-- **`Index` on a map**: on a well-formed non-null map — known or unknown, marked or not — `Index` with ANY
well-formed non-null string key (known or unknown, marked or not, present or not) returns a well-formed value of
the element type.  (A key that is absent reads as the nil interface, i.e. a null of the element type, in the
model as in the Go code; `k ∈ ks` is therefore not needed for totality.) -/
theorem index_map_total (v k : Value) (hv : v.WF nfc = true) (hk : k.WF nfc = true) (hn : v.isNull = false)
    (hkn : k.isNull = false) {e : Ty} (hty : v.ty = .map e) (hkt : k.ty = .string) :
    ∃ r, index v k = .ok r ∧ r.WF nfc = true := by
  obtain ⟨r, hr⟩ := indexU_map_total v.unmark k.unmark (Value.wf_unmark hv) (unmark_not_marked hv)
    (by rw [Value.isNull_unmark hv]; exact hn) (Value.wf_unmark hk) (unmark_not_marked hk)
    (by rw [Value.isNull_unmark hk]; exact hkn) hty hkt
  exact binMarks_ok wf_withMarks' ⟨r, hr, indexU_wf (Value.wf_unmark hv) hr⟩

/-- … in particular for a key that is present in a known map (the statement of the audit): the key value is
the known, non-null, unmarked string `⟨.string, .s k⟩`; the receiver may carry marks. -/
theorem index_map_present (e : Ty) (p : Payload) (ks : List String) (vs : List Payload) (k : String)
    (hp : p.unmark1 = .smap ks vs) (hv : Value.WF nfc ⟨.map e, p⟩ = true) (hk : k ∈ ks) :
    ∃ r, index ⟨.map e, p⟩ ⟨.string, .s k⟩ = .ok r ∧ r.WF nfc = true := by
  have hkw : Value.WF nfc ⟨.string, .s k⟩ = true := by
    simp only [WF, Bool.and_eq_true] at hv
    have := Payload.wfP_unmark1 hv.2
    rw [hp] at this
    simp only [Payload.wfP, Bool.and_eq_true, List.all_eq_true] at this
    simp [WF, Payload.wfP, this.1.1.2 k hk]
  exact index_map_total _ _ hv hkw (by simp [Value.isNull, Payload.isNull, hp]) rfl rfl rfl

theorem hasIndexU_tuple_pos (es : List Ty) (p : Payload) (i : Nat) (hi : i < es.length) (hmax : (i : Int) ≤ maxInt) :
    hasIndexU ⟨.tuple es, p⟩ (intVal i) = .ok (boolVal true) := by
  have hk := keyIndex_intVal i hmax
  simp only [intVal, numVal] at hk
  simp [hasIndexU, Ty.isDyn, Ty.isNumber, intVal, numVal, Value.isKnown, Payload.isKnown, Payload.unmark1, hk, hi,
    pure]

/-- **`Index` on a tuple**: on a well-formed non-null tuple — known or unknown, marked or not — `Index` returns at
every position `i < es.length` (key `NumberIntVal(i)`; `i ≤ MaxInt64` holds of every Go slice index), and the
element is well-formed. -/
theorem index_tuple_total (es : List Ty) (p : Payload) (i : Nat) (hi : i < es.length) (hmax : (i : Int) ≤ maxInt)
    (hv : Value.WF nfc ⟨.tuple es, p⟩ = true) (hn : p.isNull = false) :
    ∃ r, index ⟨.tuple es, p⟩ (intVal i) = .ok r ∧ r.WF nfc = true := by
  have hh := hasIndexU_tuple_pos es p.unmark1 i hi hmax
  obtain ⟨r, hr⟩ := indexU_of_hasIndexU (Value.unmark ⟨.tuple es, p⟩) (intVal i) _ (Value.wf_unmark hv)
    (unmark_not_marked hv) (by rw [Value.isNull_unmark hv]; exact hn) hh rfl
  exact binMarks_ok wf_withMarks' ⟨r, hr, indexU_wf (Value.wf_unmark hv) hr⟩

/-! ### unknown receivers: what `Index` returns -/

theorem binMarks_unknown {f : Value → Value → Res Value} {a b : Value} {t : Ty}
    (h : f a.unmark b.unmark = .ok (unknown t)) :
    ∃ ms, binMarks f a b = .ok ((unknown t).withMarks ms) := by
  unfold binMarks
  split
  · exact ⟨_, by rw [h]; rfl⟩
  · rename_i hm
    simp only [Bool.or_eq_true, not_or, Bool.not_eq_true] at hm
    rw [unmark_of_not_marked hm.1, unmark_of_not_marked hm.2] at h
    exact ⟨[], by rw [h]; rfl⟩

theorem indexU_unknown_coll (a b : Value) (hu : a.isKnown = false) {e : Ty}
    (hty : (a.ty = .list e ∧ b.ty = .number) ∨ (a.ty = .map e ∧ b.ty = .string)) :
    indexU a b = .ok (unknown e) := by
  obtain ⟨t, p⟩ := a
  obtain ⟨tk, pk⟩ := b
  simp only [Value.isKnown] at hu
  rcases hty with ⟨h1, h2⟩ | ⟨h1, h2⟩ <;> simp only at h1 h2 <;> subst h1 h2 <;>
    cases h : pk.isKnown <;>
    simp [indexU, Ty.isDyn, Ty.isNumber, Ty.isString, Value.isKnown, hu, h]

/-- **`Index` on an UNKNOWN list or map** (marked or not) with a key of the applicable type (number for a list,
string for a map; known or unknown, marked or not, in range or not): the model — as the Go code — returns
`UnknownVal(elementType)` carrying the marks of both operands; it never panics. -/
theorem index_unknown_coll (v k : Value) (hv : v.WF nfc = true) (hu : v.isKnown = false) {e : Ty}
    (hty : (v.ty = .list e ∧ k.ty = .number) ∨ (v.ty = .map e ∧ k.ty = .string)) :
    ∃ ms, index v k = .ok ((unknown e).withMarks ms) :=
  binMarks_unknown (indexU_unknown_coll v.unmark k.unmark (by rw [Value.isKnown_unmark hv]; exact hu) hty)

theorem indexU_unknown_tuple (es : List Ty) (p : Payload) (hu : p.isKnown = false) (i : Nat) (hi : i < es.length)
    (hmax : (i : Int) ≤ maxInt) : indexU ⟨.tuple es, p⟩ (intVal i) = .ok (unknown es[i]) := by
  have hk := keyIndex_intVal i hmax
  simp only [intVal, numVal] at hk
  have he : es[i]? = some es[i] := by simp [hi]
  have hkk : (Payload.n (Num.ofInt (↑i) 64)).isKnown = true := rfl
  simp [indexU, Ty.isDyn, Ty.isNumber, intVal, numVal, Value.isKnown, hkk, hu, hk, he]

/-- **`Index` on an UNKNOWN tuple** (marked or not) at a position of the tuple type: `UnknownVal` of the
element type at that position, with the receiver's marks. -/
theorem index_unknown_tuple (es : List Ty) (p : Payload) (hv : Value.WF nfc ⟨.tuple es, p⟩ = true)
    (hu : p.isKnown = false) (i : Nat) (hi : i < es.length) (hmax : (i : Int) ≤ maxInt) :
    ∃ ms, index ⟨.tuple es, p⟩ (intVal i) = .ok ((unknown es[i]).withMarks ms) :=
  binMarks_unknown (indexU_unknown_tuple es p.unmark1
    (by have := Value.isKnown_unmark hv; simp only [Value.isKnown, Value.unmark] at this; rw [this]; exact hu)
    i hi hmax)

theorem hasIndexU_list_pos (e : Ty) (vs : List Payload) (i : Nat) (hi : i < vs.length) (hmax : (i : Int) ≤ maxInt) :
    hasIndexU ⟨.list e, .seq vs⟩ (intVal i) = .ok (boolVal true) := by
  have hk := keyIndex_intVal i hmax
  simp only [intVal, numVal] at hk
  simp [hasIndexU, Ty.isDyn, Ty.isNumber, intVal, numVal, Value.isKnown, Payload.isKnown, Payload.unmark1, hk, hi,
    pure]

/-- **`Index` on a list** that may be MARKED (`accessors_total_index` without `isMarked = false`): every
position `i < length` of a well-formed known list. -/
theorem index_list_total (e : Ty) (p : Payload) (vs : List Payload) (hp : p.unmark1 = .seq vs) (i : Nat)
    (hi : i < vs.length) (hmax : (i : Int) ≤ maxInt) (hv : Value.WF nfc ⟨.list e, p⟩ = true) :
    ∃ r, index ⟨.list e, p⟩ (intVal i) = .ok r ∧ r.WF nfc = true := by
  have hh := hasIndexU_list_pos e vs i hi hmax
  have hn : (⟨.list e, p⟩ : Value).isNull = false := by simp [Value.isNull, Payload.isNull, hp]
  obtain ⟨r, hr⟩ := indexU_of_hasIndexU (Value.unmark ⟨.list e, p⟩) (intVal i) _ (Value.wf_unmark hv)
    (unmark_not_marked hv) (by rw [Value.isNull_unmark hv]; exact hn) (by simp only [Value.unmark, hp]; exact hh) rfl
  exact binMarks_ok wf_withMarks' ⟨r, hr, indexU_wf (Value.wf_unmark hv) hr⟩

/-! ## `Length` -/

theorem lengthU_total (v : Value) (hv : v.WF nfc = true) (hvm : v.isMarked = false)
    (happ : (∃ es, v.ty = .tuple es) ∨ (∃ ns ts os, v.ty = .object ns ts os) ∨
      (isCollection v.ty = true ∧ v.isNull = false) ∨ (v.ty = .dyn ∧ v.isKnown = false)) :
    ∃ r, lengthU v = .ok r := by
  obtain ⟨t, p⟩ := v
  cases t
  case tuple es => exact ⟨_, rfl⟩
  case object ns ts os => exact ⟨_, rfl⟩
  all_goals
    cases p <;>
      simp_all [WF, Payload.wfP, isCollection, Value.isMarked, Payload.isMarked, Value.isNull, Payload.isNull,
        Value.isKnown, Payload.isKnown, Payload.unmark1, lengthU, range_of_unk, VRange.lenLower, VRange.lenUpper,
        Ty.isDyn] <;>
      (try (rename_i r; cases r <;> exact ⟨_, rfl⟩)) <;> (try (split <;> exact ⟨_, rfl⟩))

/-- **`Length`** (value_ops.go) never panics on a well-formed value of a tuple or object type (even a null
one: the answer is read off the type), on a non-null list, set or map — known or UNKNOWN (the answer is then an
unknown number refined by the length bounds of `Range()`) — and on `DynamicVal`; marked or not: no
`isMarked = false` hypothesis (`Length` unmarks and re-applies the marks).  The answer is a well-formed number.
Documented precondition: collection or structural type, not null. -/
theorem length_total (v : Value) (hv : v.WF nfc = true)
    (happ : (∃ es, v.ty = .tuple es) ∨ (∃ ns ts os, v.ty = .object ns ts os) ∨
      (isCollection v.ty = true ∧ v.isNull = false) ∨ (v.ty = .dyn ∧ v.isKnown = false)) :
    ∃ r, Value.length v = .ok r ∧ r.WF nfc = true := by
  refine unMarks_ok wf_withMarks' ?_
  obtain ⟨r, hr⟩ := lengthU_total v.unmark (Value.wf_unmark hv) (unmark_not_marked hv)
    (by rw [Value.isNull_unmark hv, Value.isKnown_unmark hv]; exact happ)
  refine ⟨r, hr, Value.wf_of_isPrim ?_⟩
  have := Value.all_prim_lengthU v.unmark
  rw [hr] at this
  exact this

/-! ## `Equals v v` -/

theorem fits_of_kindOk {t : Ty} {r : Rfn} (h : Refine.kindOk t r = true) : r.fits t = true := by
  cases r <;> cases t <;> simp_all [Refine.kindOk, Rfn.fits]

mutual
/-- the C06 predicate implies the shape predicate of the `Equals` / `RawEquals` theorems (C03) -/
theorem shaped_of_wfP : ∀ (t : Ty) (p : Payload), Payload.wfP nfc t p = true → Payload.shaped t p = true
  | t, .marked ms r, h => by
    simp only [Payload.wfP_marked, Bool.and_eq_true] at h
    simp only [Payload.shaped, Bool.and_eq_true]
    exact ⟨h.1, shaped_of_wfP t r h.2⟩
  | t, .null, _ => by simp [Payload.shaped]
  | t, .unk r, h => by
    simp only [Payload.wfP_unk] at h
    simp only [Payload.shaped]
    exact fits_of_kindOk h
  | t, .b _, h => by cases t <;> simp_all [Payload.wfP, Payload.shaped, Ty.isBool]
  | t, .n _, h => by cases t <;> simp_all [Payload.wfP, Payload.shaped, Ty.isNumber]
  | t, .s _, h => by cases t <;> simp_all [Payload.wfP, Payload.shaped, Ty.isString]
  | t, .caps, h => by cases t <;> simp_all [Payload.wfP, Payload.shaped]
  | t, .bad _, h => by cases t <;> simp [Payload.wfP] at h
  | t, .seq vs, h => by
    cases t <;> simp [Payload.wfP] at h
    · simp only [Payload.shaped]; exact shapedAll_of_wfAll _ vs h
    · simp only [Payload.shaped]; exact shapedZip_of_wfZip _ vs h.1 h.2
  | t, .smap ks vs, h => by
    cases t <;> simp [Payload.wfP] at h
    · simp only [Payload.shaped, Bool.and_eq_true, beq_iff_eq]
      exact ⟨⟨h.1.1.1, h.1.1.2⟩, shapedAll_of_wfAll _ vs h.2⟩
    · simp only [Payload.shaped, Bool.and_eq_true, decide_eq_true_eq]
      exact ⟨h.1.1, shapedZip_of_wfZip _ vs h.1.2 h.2⟩
  | t, .sset ids vs, h => by
    cases t <;> simp [Payload.wfP] at h
    simp only [Payload.shaped, Bool.and_eq_true, beq_iff_eq]
    exact ⟨h.1.1.1.1, shapedAll_of_wfAll _ vs h.2⟩
theorem shapedAll_of_wfAll : ∀ (e : Ty) (vs : List Payload), Payload.wfAll nfc e vs = true →
    Payload.shapedAll e vs = true
  | _, [], _ => rfl
  | e, v :: vs, h => by
    simp only [Payload.wfAll, Bool.and_eq_true] at h
    simp [Payload.shapedAll, shaped_of_wfP e v h.1, shapedAll_of_wfAll e vs h.2]
theorem shapedZip_of_wfZip : ∀ (ts : List Ty) (vs : List Payload), ts.length = vs.length →
    Payload.wfZip nfc ts vs = true → Payload.shapedZip ts vs = true
  | [], [], _, _ => rfl
  | [], _ :: _, hl, _ => by simp at hl
  | _ :: _, [], hl, _ => by simp at hl
  | t :: ts, v :: vs, hl, h => by
    simp only [Payload.wfZip, Bool.and_eq_true] at h
    simp [Payload.shapedZip, shaped_of_wfP t v h.1, shapedZip_of_wfZip ts vs (by simpa using hl) h.2]
end

theorem wf_of_ok {t : Ty} (h : t.ok nfc = true) : t.wf = true := by
  simp only [Ty.ok, Bool.and_eq_true] at h
  exact h.1.1

theorem isPrim_accVal_wf (acc : EqAcc) : (accVal acc).WF nfc = true :=
  Value.wf_of_isPrim (Value.isPrim_accVal acc)

/-- `Equals` of a mark-free well-formed payload of a plain type with itself -/
theorem equalsP_self_plain (t : Ty) (q : Payload) (hok : t.ok nfc = true) (hp : t.plain = true)
    (hq : Payload.wfP nfc t q = true) (hm : q.containsMarked = false) :
    ∃ acc, equalsP t q t q = .ok (accVal acc) := by
  obtain ⟨acc, h, _⟩ := equalsFuel_symm (max q.depth q.depth + 1) t q q (wf_of_ok hok) hp
    ⟨shaped_of_wfP t q hq, hm, by omega⟩ ⟨shaped_of_wfP t q hq, hm, by omega⟩
  exact ⟨acc, h⟩

/-- **`Equals v v`** (value_ops.go) returns — a well-formed bool, known or unknown, carrying all marks of `v` —
for every well-formed value whose type is `Ty.plain` (no set type and no capsule type occurs in it), known or
unknown or null, marks at any depth (`Equals` strips them deeply: no `isMarked = false` hypothesis). -/
theorem equals_self_plain (v : Value) (hv : v.WF nfc = true) (hp : v.ty.plain = true) :
    ∃ r, Value.equals v v = .ok r ∧ r.WF nfc = true := by
  have hv' := hv
  simp only [WF, Bool.and_eq_true] at hv'
  unfold Value.equals
  split
  · obtain ⟨acc, h⟩ := equalsP_self_plain (nfc := nfc) v.ty v.v.stripMarks hv'.1 hp
      (Payload.wfP_stripMarks _ _ hv'.2) (Payload.stripMarks_clean _)
    exact ⟨_, by rw [h]; rfl, Value.wf_withMarks _ (isPrim_accVal_wf acc)⟩
  · rename_i hm
    simp only [Bool.or_self, Bool.not_eq_true, Value.containsMarked] at hm
    obtain ⟨acc, h⟩ := equalsP_self_plain (nfc := nfc) v.ty v.v hv'.1 hp hv'.2 hm
    exact ⟨_, h, isPrim_accVal_wf acc⟩

/-- … and more generally `Equals a b` for two well-formed values of one and the same plain type. -/
theorem equals_total_plain (a b : Value) (ha : a.WF nfc = true) (hb : b.WF nfc = true) (hty : a.ty = b.ty)
    (hp : a.ty.plain = true) : ∃ r, Value.equals a b = .ok r ∧ r.WF nfc = true := by
  obtain ⟨t, x⟩ := a
  obtain ⟨t', y⟩ := b
  simp only at hty hp
  subst hty
  simp only [WF, Bool.and_eq_true] at ha hb
  have key : ∀ x y : Payload, Payload.wfP nfc t x = true → Payload.wfP nfc t y = true → x.containsMarked = false →
      y.containsMarked = false → ∃ acc, equalsP t x t y = .ok (accVal acc) := by
    intro x y hx hy mx my
    obtain ⟨acc, h, _⟩ := equalsFuel_symm (max x.depth y.depth + 1) t x y (wf_of_ok ha.1) hp
      ⟨shaped_of_wfP t x hx, mx, by omega⟩ ⟨shaped_of_wfP t y hy, my, by omega⟩
    exact ⟨acc, h⟩
  unfold Value.equals
  split
  · obtain ⟨acc, h⟩ := key x.stripMarks y.stripMarks (Payload.wfP_stripMarks _ _ ha.2)
      (Payload.wfP_stripMarks _ _ hb.2) (Payload.stripMarks_clean _) (Payload.stripMarks_clean _)
    exact ⟨_, by simp only [h]; rfl, Value.wf_withMarks _ (isPrim_accVal_wf acc)⟩
  · rename_i hm
    simp only [Bool.or_eq_true, not_or, Bool.not_eq_true, Value.containsMarked] at hm
    obtain ⟨acc, h⟩ := key x y ha.2 hb.2 hm.1 hm.2
    exact ⟨_, h, isPrim_accVal_wf acc⟩

/-! ### `Equals` beyond plain types: set types included (no capsule type) -/

/-- the recursive occurrence of `Equals` returns on good members of one capsule-free type -/
def TotOk (rec : EqRec) (fuel : Nat) : Prop :=
  ∀ (t : Ty) (x y : Payload), t.wf = true → Ty.hasCapsule t = false → GoodU t x fuel → GoodU t y fuel →
    ∃ acc, rec t x t y = .ok (accVal acc)

theorem equalsZip_tot {rec : EqRec} {fuel : Nat} (hr : TotOk rec fuel) : ∀ (ts : List Ty) (xs ys : List Payload),
    Ty.wfL ts = true → Ty.hasCapsuleL ts = false → GoodUZip fuel ts xs → GoodUZip fuel ts ys →
    ∃ acc, equalsZip rec ts xs ys = .ok acc
  | [], _, _, _, _, _, _ => ⟨.t, by simp [equalsZip]⟩
  | _ :: _, [], _, _, _, hx, _ => by simp [GoodUZip] at hx
  | _ :: _, _ :: _, [], _, _, _, hy => by simp [GoodUZip] at hy
  | t :: ts, x :: xs, y :: ys, hw, hc, hx, hy => by
    have hw' := Ty.wfL_cons hw
    simp only [Ty.hasCapsuleL, Bool.or_eq_false_iff] at hc
    obtain ⟨acc, h1⟩ := hr t x y hw'.1 hc.1 hx.1 hy.1
    simp only [equalsZip, h1, eqAccOf_accVal]
    cases acc with
    | t => exact equalsZip_tot hr ts xs ys hw'.2 hc.2 hx.2 hy.2
    | f => exact ⟨.f, rfl⟩
    | u => exact ⟨.u, rfl⟩

theorem equalsObj_tot {rec : EqRec} {fuel : Nat} (hr : TotOk rec fuel) : ∀ (ts : List Ty) (xs ys : List Payload)
    (s : Bool), Ty.wfL ts = true → Ty.hasCapsuleL ts = false → GoodUZip fuel ts xs → GoodUZip fuel ts ys →
    ∃ acc, equalsObj rec ts xs ys s = .ok acc
  | [], _, _, s, _, _, _, _ => ⟨if s then .u else .t, by simp [equalsObj]⟩
  | _ :: _, [], _, _, _, _, hx, _ => by simp [GoodUZip] at hx
  | _ :: _, _ :: _, [], _, _, _, _, hy => by simp [GoodUZip] at hy
  | t :: ts, x :: xs, y :: ys, s, hw, hc, hx, hy => by
    have hw' := Ty.wfL_cons hw
    simp only [Ty.hasCapsuleL, Bool.or_eq_false_iff] at hc
    obtain ⟨acc, h1⟩ := hr t x y hw'.1 hc.1 hx.1 hy.1
    simp only [equalsObj, h1, eqAccOf_accVal]
    cases acc with
    | t => exact equalsObj_tot hr ts xs ys s hw'.2 hc.2 hx.2 hy.2
    | f => exact ⟨.f, rfl⟩
    | u => exact equalsObj_tot hr ts xs ys true hw'.2 hc.2 hx.2 hy.2

theorem equalsAll_tot {rec : EqRec} {fuel : Nat} (hr : TotOk rec fuel) (e : Ty) (hw : e.wf = true)
    (hc : Ty.hasCapsule e = false) : ∀ (xs ys : List Payload), GoodUAll e fuel xs → GoodUAll e fuel ys →
    ∃ acc, equalsAll rec e xs ys = .ok acc
  | [], _, _, _ => ⟨.t, by simp [equalsAll]⟩
  | _ :: _, [], _, _ => ⟨.t, by simp [equalsAll]⟩
  | x :: xs, y :: ys, hx, hy => by
    obtain ⟨acc, h1⟩ := hr e x y hw hc hx.1 hy.1
    simp only [equalsAll, h1, eqAccOf_accVal]
    cases acc with
    | t => exact equalsAll_tot hr e hw hc xs ys hx.2 hy.2
    | f => exact ⟨.f, rfl⟩
    | u => exact ⟨.u, rfl⟩

theorem equalsMap_tot {rec : EqRec} {fuel : Nat} (hr : TotOk rec fuel) (e : Ty) (hw : e.wf = true)
    (hc : Ty.hasCapsule e = false) (ky : List String) (ys : List Payload) (hy : GoodUAll e fuel ys) :
    ∀ (ks : List String) (xs : List Payload) (s : Bool), GoodUAll e fuel xs →
    ∃ acc, equalsMap rec e ks xs ky ys s = .ok acc
  | [], _, s, _ => ⟨if s then .u else .t, by simp [equalsMap]⟩
  | _ :: _, [], s, _ => ⟨if s then .u else .t, by simp [equalsMap]⟩
  | k :: ks, x :: xs, s, hx => by
    simp only [equalsMap]
    cases hlk : lookupKey k ky ys with
    | none => exact ⟨.f, rfl⟩
    | some y =>
      obtain ⟨acc, h1⟩ := hr e x y hw hc hx.1 (goodU_of_lookupKey hlk hy)
      simp only [h1, eqAccOf_accVal]
      cases acc with
      | t => exact equalsMap_tot hr e hw hc ky ys hy ks xs s hx.2
      | f => exact ⟨.f, rfl⟩
      | u => exact equalsMap_tot hr e hw hc ky ys hy ks xs true hx.2

theorem setHas_tot {rec : EqRec} {fuel : Nat} (hr : TotOk rec fuel) (e : Ty) (hw : e.wf = true)
    (hc : Ty.hasCapsule e = false) (i : Int) (x : Payload) (hx : GoodU e x fuel) :
    ∀ (js : List Int) (ys : List Payload), GoodUAll e fuel ys → ∃ b, setHas rec e i x js ys = .ok b
  | [], _, _ => ⟨false, by simp [setHas]⟩
  | _ :: _, [], _ => ⟨false, by simp [setHas]⟩
  | j :: js, y :: ys, hy => by
    simp only [setHas]
    split
    · obtain ⟨acc, h1⟩ := hr e x y hw hc hx hy.1
      simp only [h1]
      split
      · exact ⟨true, rfl⟩
      · exact setHas_tot hr e hw hc i x hx js ys hy.2
    · exact setHas_tot hr e hw hc i x hx js ys hy.2

theorem setInclWK_tot {rec : EqRec} {fuel : Nat} (hr : TotOk rec fuel) (e : Ty) (hw : e.wf = true)
    (hc : Ty.hasCapsule e = false) (iy : List Int) (ys : List Payload) (hy : GoodUAll e fuel ys) :
    ∀ (is : List Int) (xs : List Payload), GoodUAll e fuel xs → ∃ o, setInclWK rec e is xs iy ys = .ok o
  | [], _, _ => ⟨some true, by simp [setInclWK]⟩
  | _ :: _, [], _ => ⟨some true, by simp [setInclWK]⟩
  | i :: is, x :: xs, hx => by
    simp only [setInclWK]
    split
    · exact ⟨none, rfl⟩
    · obtain ⟨b, hb⟩ := setHas_tot hr e hw hc i x hx.1 iy ys hy
      obtain ⟨o, ho⟩ := setInclWK_tot hr e hw hc iy ys hy is xs hx.2
      simp only [hb, ho]
      cases o with
      | none => exact ⟨none, rfl⟩
      | some r => exact ⟨_, rfl⟩

theorem ok_boolVal_acc (r : Bool) : ∃ acc, (Res.ok (boolVal r) : Res Value) = .ok (accVal acc) :=
  ⟨_, by rw [boolVal_eq_accVal]⟩

theorem map_accVal_one {a : Res EqAcc} (h : ∃ acc, a = .ok acc) : ∃ acc, a.map accVal = .ok (accVal acc) := by
  obtain ⟨acc, h1⟩ := h
  exact ⟨acc, by rw [h1]; rfl⟩

/-- **`Equals` is total** on well-formed mark-free values of one type in which no capsule type occurs — set
types included -/
theorem equalsFuel_tot : ∀ fuel : Nat, TotOk (equalsFuel fuel) fuel
  | 0 => by
    intro t x y _ _ hx _
    have := Payload.depth_pos x
    have := hx.depth
    omega
  | fuel + 1 => by
    have ih := equalsFuel_tot fuel
    intro t x y hw hc hx hy
    have hself := Ty.equals_self hw
    obtain ⟨wx, mx, dx⟩ := hx
    obtain ⟨wy, my, dy⟩ := hy
    obtain ⟨o, h1, h2, hsome, hnone⟩ := equalsPre_total t x y wx mx wy my
    simp only [equalsFuel, h1]
    cases o with
    | some r =>
      obtain ⟨acc, rfl⟩ := hsome r rfl
      exact ⟨acc, rfl⟩
    | none =>
      obtain ⟨kx, ky, nx, ny⟩ := hnone rfl
      simp only [hself, Bool.not_true, Bool.false_eq_true, if_false]
      by_cases hk : (!hasWhollyKnownType t x || !hasWhollyKnownType t y) = true
      · simp only [hk, if_true]
        split
        · exact ⟨.f, rfl⟩
        · exact ⟨.u, rfl⟩
      · simp only [hk]
        cases x with
        | unk _ => simp [Payload.isKnown, Payload.unmark1] at kx
        | null => simp [Payload.isNull, Payload.unmark1] at nx
        | marked _ _ => simp [Payload.containsMarked] at mx
        | bad _ => simp [Payload.shaped] at wx
        | caps => cases t <;> simp [Payload.shaped] at wx; simp [Ty.hasCapsule] at hc
        | b v =>
          simp only [Payload.shaped, Ty.isBool_iff] at wx
          subst wx
          cases y <;> simp [Payload.shaped, Ty.isBool, Ty.isNumber, Ty.isString, Payload.containsMarked,
            Payload.isKnown, Payload.isNull, Payload.unmark1] at wy ky my ny
          exact ok_boolVal_acc _
        | n v =>
          simp only [Payload.shaped, Ty.isNumber_iff] at wx
          subst wx
          cases y <;> simp [Payload.shaped, Ty.isBool, Ty.isNumber, Ty.isString, Payload.containsMarked,
            Payload.isKnown, Payload.isNull, Payload.unmark1] at wy ky my ny
          exact ok_boolVal_acc _
        | s v =>
          simp only [Payload.shaped, Ty.isString_iff] at wx
          subst wx
          cases y <;> simp [Payload.shaped, Ty.isBool, Ty.isNumber, Ty.isString, Payload.containsMarked,
            Payload.isKnown, Payload.isNull, Payload.unmark1] at wy ky my ny
          exact ok_boolVal_acc _
        | seq xs =>
          simp only [Payload.containsMarked, Payload.depth] at mx dx
          cases t <;> simp [Payload.shaped] at wx
          case list e =>
            simp only [Ty.hasCapsule] at hc
            simp only [Ty.wf] at hw
            cases y <;> simp [Payload.shaped, Ty.isBool, Ty.isNumber, Ty.isString, Payload.containsMarked,
              Payload.isKnown, Payload.isNull, Payload.unmark1] at wy ky my ny
            rename_i ys
            simp only [Payload.depth] at dy
            have gx := goodUAll_of (fuel := fuel) wx mx (by omega)
            have gy := goodUAll_of (fuel := fuel) wy my (by omega)
            by_cases hl : xs.length = ys.length
            · simp only [hl, beq_self_eq_true, if_true]
              exact map_accVal_one (equalsAll_tot ih e hw hc xs ys gx gy)
            · simp only [beq_false_of_ne hl, Bool.false_eq_true, if_false]
              exact ⟨.f, rfl⟩
          case tuple ts =>
            simp only [Ty.hasCapsule] at hc
            simp only [Ty.wf] at hw
            cases y <;> simp [Payload.shaped, Ty.isBool, Ty.isNumber, Ty.isString, Payload.containsMarked,
              Payload.isKnown, Payload.isNull, Payload.unmark1] at wy ky my ny
            rename_i ys
            simp only [Payload.depth] at dy
            have gx := goodUZip_of (fuel := fuel) wx mx (by omega)
            have gy := goodUZip_of (fuel := fuel) wy my (by omega)
            exact map_accVal_one (equalsZip_tot ih ts xs ys hw hc gx gy)
        | smap kxs xs =>
          simp only [Payload.containsMarked, Payload.depth] at mx dx
          cases t <;> simp [Payload.shaped] at wx
          case map e =>
            simp only [Ty.hasCapsule] at hc
            simp only [Ty.wf] at hw
            cases y <;> simp [Payload.shaped, Ty.isBool, Ty.isNumber, Ty.isString, Payload.containsMarked,
              Payload.isKnown, Payload.isNull, Payload.unmark1] at wy ky my ny
            rename_i kys ys
            simp only [Payload.depth] at dy
            have gx := goodUAll_of (fuel := fuel) wx.2 mx (by omega)
            have gy := goodUAll_of (fuel := fuel) wy.2 my (by omega)
            by_cases hl : xs.length = ys.length
            · simp only [hl, beq_self_eq_true, if_true]
              exact map_accVal_one (equalsMap_tot ih e hw hc kys ys gy kxs xs false gx)
            · simp only [beq_false_of_ne hl, Bool.false_eq_true, if_false]
              exact ⟨.f, rfl⟩
          case object ns ts os =>
            simp only [Ty.hasCapsule] at hc
            simp only [Ty.wf, Bool.and_eq_true] at hw
            cases y <;> simp [Payload.shaped, Ty.isBool, Ty.isNumber, Ty.isString, Payload.containsMarked,
              Payload.isKnown, Payload.isNull, Payload.unmark1] at wy ky my ny
            rename_i kys ys
            simp only [Payload.depth] at dy
            have gx := goodUZip_of (fuel := fuel) wx.2 mx (by omega)
            have gy := goodUZip_of (fuel := fuel) wy.2 my (by omega)
            exact map_accVal_one (equalsObj_tot ih ts xs ys false hw.2 hc gx gy)
        | sset ix xs =>
          simp only [Payload.containsMarked, Payload.depth] at mx dx
          cases t <;> simp [Payload.shaped] at wx
          case set e =>
            simp only [Ty.hasCapsule] at hc
            simp only [Ty.wf] at hw
            cases y <;> simp [Payload.shaped, Ty.isBool, Ty.isNumber, Ty.isString, Payload.containsMarked,
              Payload.isKnown, Payload.isNull, Payload.unmark1] at wy ky my ny
            rename_i iy ys
            simp only [Payload.depth] at dy
            have gx := goodUAll_of (fuel := fuel) wx.2 mx (by omega)
            have gy := goodUAll_of (fuel := fuel) wy.2 my (by omega)
            obtain ⟨o1, ho1⟩ := setInclWK_tot ih e hw hc iy ys gy ix xs gx
            obtain ⟨o2, ho2⟩ := setInclWK_tot ih e hw hc ix xs gx iy ys gy
            simp only [ho1, ho2]
            cases o1 with
            | none => exact ⟨.u, rfl⟩
            | some p =>
              cases o2 with
              | none => exact ⟨.u, rfl⟩
              | some q => exact ok_boolVal_acc _

/-- **`Equals a b`** (value_ops.go) returns — a well-formed bool, known or unknown, carrying all marks of both
operands — for any two well-formed values of one and the same type in which NO CAPSULE TYPE occurs (set types
included): known, unknown or null, marks at any depth (no `isMarked = false` hypothesis).  For capsule types
the model answers `.unmodelled` (pointer identity / `RawEquals` hook of the encapsulated Go value), not a panic. -/
theorem equals_total (a b : Value) (ha : a.WF nfc = true) (hb : b.WF nfc = true) (hty : a.ty = b.ty)
    (hc : Ty.hasCapsule a.ty = false) : ∃ r, Value.equals a b = .ok r ∧ r.WF nfc = true := by
  obtain ⟨t, x⟩ := a
  obtain ⟨t', y⟩ := b
  simp only at hty hc
  subst hty
  simp only [WF, Bool.and_eq_true] at ha hb
  have key : ∀ x y : Payload, Payload.wfP nfc t x = true → Payload.wfP nfc t y = true → x.containsMarked = false →
      y.containsMarked = false → ∃ acc, equalsP t x t y = .ok (accVal acc) := by
    intro x y hx hy mx my
    exact equalsFuel_tot (max x.depth y.depth + 1) t x y (wf_of_ok ha.1) hc
      ⟨shaped_of_wfP t x hx, mx, by omega⟩ ⟨shaped_of_wfP t y hy, my, by omega⟩
  unfold Value.equals
  split
  · obtain ⟨acc, h⟩ := key x.stripMarks y.stripMarks (Payload.wfP_stripMarks _ _ ha.2)
      (Payload.wfP_stripMarks _ _ hb.2) (Payload.stripMarks_clean _) (Payload.stripMarks_clean _)
    exact ⟨_, by simp only [h]; rfl, Value.wf_withMarks _ (isPrim_accVal_wf acc)⟩
  · rename_i hm
    simp only [Bool.or_eq_true, not_or, Bool.not_eq_true, Value.containsMarked] at hm
    obtain ⟨acc, h⟩ := key x y ha.2 hb.2 hm.1 hm.2
    exact ⟨_, h, isPrim_accVal_wf acc⟩

/-- **`Equals v v`** returns for every well-formed value — marked or not, known or not, sets included — whose
type contains no capsule type. -/
theorem equals_self_total (v : Value) (hv : v.WF nfc = true) (hc : Ty.hasCapsule v.ty = false) :
    ∃ r, Value.equals v v = .ok r ∧ r.WF nfc = true := equals_total v v hv hv rfl hc

/-! ## `Hash` -/

mutual
/-- no set type occurs in the type (hash bytes of a set need the iteration order of its members) -/
def noSet : Ty → Bool
  | .set _ => false
  | .list e => noSet e
  | .map e => noSet e
  | .tuple ts => noSetL ts
  | .object _ ts _ => noSetL ts
  | _ => true
def noSetL : List Ty → Bool
  | [] => true
  | t :: ts => noSet t && noSetL ts
end

/-- the call returned, or the model declines to decide it (a string outside the known part of
`strconv.Quote`'s printable table) — in neither case a panic -/
def OkOrUn {α : Type} (x : Res α) : Prop := (∃ a, x = .ok a) ∨ x = .unmodelled

theorem okOrUn_ok {α : Type} (a : α) : OkOrUn (.ok a : Res α) := Or.inl ⟨a, rfl⟩

theorem okOrUn_not_panic {α : Type} {x : Res α} (h : OkOrUn x) (w : String) : x ≠ .panic w := by
  rcases h with ⟨a, rfl⟩ | rfl <;> simp

theorem okOrUn_app {a b : Res Bytes} (ha : OkOrUn a) (hb : OkOrUn b) : OkOrUn (Res.app a b) := by
  rcases ha with ⟨x, rfl⟩ | rfl <;> rcases hb with ⟨y, rfl⟩ | rfl <;> simp [Res.app, OkOrUn]

theorem okOrUn_quote (s : String) : OkOrUn (quote s) := by
  unfold quote
  split <;> simp [OkOrUn]

mutual
theorem hashS_okOrUn (sh : SetHashRec) : ∀ (t : Ty) (p : Payload), noSet t = true → Payload.wfP nfc t p = true →
    OkOrUn (hashS sh t p)
  | t, .marked ms r, hs, h => by
    simp only [Payload.wfP_marked, Bool.and_eq_true] at h
    simp only [hashS]
    exact hashS_okOrUn sh t r hs h.2
  | t, .null, _, _ => by simp only [hashS]; exact okOrUn_ok _
  | t, .unk r, _, _ => by simp only [hashS]; exact okOrUn_ok _
  | t, .b _, _, h => by cases t <;> simp [Payload.wfP] at h; simp only [hashS]; exact okOrUn_ok _
  | t, .n _, _, h => by cases t <;> simp [Payload.wfP] at h; simp only [hashS]; exact okOrUn_ok _
  | t, .s _, _, h => by cases t <;> simp [Payload.wfP] at h; simp only [hashS]; exact okOrUn_quote _
  | t, .caps, _, h => by cases t <;> simp [Payload.wfP] at h; simp only [hashS]; exact okOrUn_ok _
  | t, .bad _, _, h => by cases t <;> simp [Payload.wfP] at h
  | t, .seq vs, hs, h => by
    cases t <;> simp [Payload.wfP] at h
    · simp only [noSet] at hs
      simp only [hashS]
      exact okOrUn_app (okOrUn_ok _) (okOrUn_app (hashAllS_okOrUn sh _ vs hs h) (okOrUn_ok _))
    · simp only [noSet] at hs
      simp only [hashS]
      exact okOrUn_app (okOrUn_ok _) (okOrUn_app (hashZipS_okOrUn sh _ vs hs h.2) (okOrUn_ok _))
  | t, .smap ks vs, hs, h => by
    cases t <;> simp [Payload.wfP] at h
    · simp only [noSet] at hs
      simp only [hashS]
      exact okOrUn_app (okOrUn_ok _) (okOrUn_app (hashMapS_okOrUn sh _ ks vs hs h.2) (okOrUn_ok _))
    · simp only [noSet] at hs
      simp only [hashS]
      exact okOrUn_app (okOrUn_ok _) (okOrUn_app (hashZipS_okOrUn sh _ vs hs h.2) (okOrUn_ok _))
  | t, .sset ids vs, hs, h => by
    cases t <;> simp [Payload.wfP] at h
    simp [noSet] at hs
theorem hashAllS_okOrUn (sh : SetHashRec) : ∀ (e : Ty) (vs : List Payload), noSet e = true →
    Payload.wfAll nfc e vs = true → OkOrUn (hashAllS sh e vs)
  | _, [], _, _ => by simp only [hashAllS]; exact okOrUn_ok _
  | e, v :: vs, hs, h => by
    simp only [Payload.wfAll, Bool.and_eq_true] at h
    simp only [hashAllS]
    exact okOrUn_app (hashS_okOrUn sh e v hs h.1) (okOrUn_app (okOrUn_ok _) (hashAllS_okOrUn sh e vs hs h.2))
theorem hashZipS_okOrUn (sh : SetHashRec) : ∀ (ts : List Ty) (vs : List Payload), noSetL ts = true →
    Payload.wfZip nfc ts vs = true → OkOrUn (hashZipS sh ts vs)
  | [], vs, _, _ => by cases vs <;> (simp only [hashZipS]; exact okOrUn_ok _)
  | _ :: _, [], _, _ => by simp only [hashZipS]; exact okOrUn_ok _
  | t :: ts, v :: vs, hs, h => by
    simp only [Payload.wfZip, Bool.and_eq_true] at h
    simp only [noSetL, Bool.and_eq_true] at hs
    simp only [hashZipS]
    exact okOrUn_app (hashS_okOrUn sh t v hs.1 h.1) (okOrUn_app (okOrUn_ok _) (hashZipS_okOrUn sh ts vs hs.2 h.2))
theorem hashMapS_okOrUn (sh : SetHashRec) : ∀ (e : Ty) (ks : List String) (vs : List Payload), noSet e = true →
    Payload.wfAll nfc e vs = true → OkOrUn (hashMapS sh e ks vs)
  | _, [], _, _, _ => by simp only [hashMapS]; exact okOrUn_ok _
  | _, _ :: _, [], _, _ => by simp only [hashMapS]; exact okOrUn_ok _
  | e, k :: ks, v :: vs, hs, h => by
    simp only [Payload.wfAll, Bool.and_eq_true] at h
    simp only [hashMapS]
    exact okOrUn_app (okOrUn_quote k) (okOrUn_app (okOrUn_ok _) (okOrUn_app (hashS_okOrUn sh e v hs h.1)
      (okOrUn_app (okOrUn_ok _) (hashMapS_okOrUn sh e ks vs hs h.2))))
end

theorem hashBytes_okOrUn (v : Value) (hv : v.WF nfc = true) (hs : noSet v.ty = true) : OkOrUn (Value.hashBytes v) := by
  simp only [WF, Bool.and_eq_true] at hv
  exact hashS_okOrUn (lvl v.v.depth).setHash v.ty v.v hs hv.2

/-- **`Hash`** (value_ops.go) never panics on a well-formed value — known, unknown or null — that contains NO
MARK at any depth (the real precondition: `Hash` panics on a value that `ContainsMarked`, see
`hash_marked_not_ok`) and whose type contains no set type (side condition of this proof, not of the Go code:
the hash bytes of a nested set depend on the iteration order of its members).  The model returns `.ok`, or
`.unmodelled` for a string with a rune outside the part of `strconv.Quote`'s table it knows. -/
theorem hash_total (v : Value) (hv : v.WF nfc = true) (hs : noSet v.ty = true) (hm : v.containsMarked = false) :
    OkOrUn (Value.hash v) ∧ ∀ w, Value.hash v ≠ .panic w := by
  have h : OkOrUn (Value.hash v) := by
    unfold Value.hash
    rcases hashBytes_okOrUn v hv hs with ⟨bs, hb⟩ | hb <;> rw [hb]
    · simp only [hm, Bool.false_eq_true, if_false]; exact okOrUn_ok _
    · exact Or.inr rfl
  exact ⟨h, okOrUn_not_panic h⟩

/-- `Hash` does NOT accept marked values: with a mark anywhere inside, the call never returns a hash (it panics
as soon as the hash bytes are computed).  `isMarked = false` (deeply) is a genuine precondition here. -/
theorem hash_marked_not_ok (v : Value) (hm : v.containsMarked = true) (h : Int) : Value.hash v ≠ .ok h := by
  unfold Value.hash
  split <;> simp [hm]

/-! ### `Hash` with set types inside: the members are ordered by `setRules.Less`, which calls `RawEquals` and
`makeSetHashBytes` on them — all of it total on well-formed members -/

/-- a member of a well-formed set: well-formed for the element type, no mark inside -/
def MemOk (nfc : String → Bool) (e : Ty) (p : Payload) : Prop :=
  Payload.wfP nfc e p = true ∧ p.containsMarked = false

theorem containsMarkedL_mem : ∀ {vs : List Payload}, Payload.containsMarkedL vs = false →
    ∀ x ∈ vs, x.containsMarked = false
  | [], _, _, h => by cases h
  | v :: vs, hm, x, h => by
    simp only [Payload.containsMarkedL, Bool.or_eq_false_iff] at hm
    rcases List.mem_cons.mp h with rfl | h
    · exact hm.1
    · exact containsMarkedL_mem hm.2 x h

theorem memOk_of_set {e : Ty} {ids : List Int} {vs : List Payload}
    (h : Payload.wfP nfc (.set e) (.sset ids vs) = true) : ∀ x ∈ vs, MemOk nfc e x := by
  simp [Payload.wfP] at h
  intro x hx
  exact ⟨Payload.wfAll_mem h.2 hx, containsMarkedL_mem h.1.1.2 x hx⟩

def SrOk (nfc : String → Bool) (sr : SetRawRec) : Prop :=
  ∀ e xs ys, (∀ x ∈ xs, MemOk nfc e x) → (∀ y ∈ ys, MemOk nfc e y) → OkOrUn (sr e xs ys)
def ShOk (nfc : String → Bool) (sh : SetHashRec) : Prop :=
  ∀ e ids vs, (∀ x ∈ vs, MemOk nfc e x) → OkOrUn (sh e ids vs)

theorem okOrUn_andThen {a : Res Bool} {b : Unit → Res Bool} (ha : OkOrUn a) (hb : OkOrUn (b ())) :
    OkOrUn (Res.andThen a b) := by
  rcases ha with ⟨x, rfl⟩ | rfl
  · cases x
    · exact Or.inl ⟨false, rfl⟩
    · exact hb
  · exact Or.inr rfl

theorem okOrUn_bind {α β : Type} {x : Res α} {f : α → Res β} (hx : OkOrUn x) (hf : ∀ a, OkOrUn (f a)) :
    OkOrUn (x >>= f) := by
  rcases hx with ⟨a, rfl⟩ | rfl
  · exact hf a
  · exact Or.inr rfl

mutual
theorem rawK_ok (sr : SetRawRec) (hsr : SrOk nfc sr) : ∀ (t : Ty) (a b : Payload), Payload.wfP nfc t a = true →
    Payload.wfP nfc t b = true → OkOrUn (rawK sr t a b)
  | t, .marked m a, b, ha, hb => by
    simp only [Payload.wfP_marked, Bool.and_eq_true] at ha
    cases b <;> simp only [rawK] <;> try exact okOrUn_ok _
    rename_i m' b'
    simp only [Payload.wfP_marked, Bool.and_eq_true] at hb
    split
    · exact rawK_ok sr hsr t a b' ha.2 hb.2
    · exact okOrUn_ok _
  | t, .unk r, b, _, _ => by cases b <;> simp only [rawK] <;> exact okOrUn_ok _
  | t, .null, b, _, _ => by cases b <;> simp only [rawK] <;> exact okOrUn_ok _
  | t, .bad _, b, ha, _ => by cases t <;> simp [Payload.wfP] at ha
  | t, .caps, b, ha, hb => by
    cases t <;> simp [Payload.wfP] at ha
    cases b <;> simp [Payload.wfP] at hb <;> simp [rawK, rawRhs, rawLeaf, OkOrUn]
  | t, .b v, b, ha, hb => by
    cases t <;> simp [Payload.wfP] at ha
    cases b <;> simp [Payload.wfP] at hb <;> simp [rawK, rawRhs, rawLeaf, OkOrUn, primRawEq_bool]
  | t, .n v, b, ha, hb => by
    cases t <;> simp [Payload.wfP] at ha
    cases b <;> simp [Payload.wfP] at hb <;> simp [rawK, rawRhs, rawLeaf, OkOrUn, primRawEq_num]
  | t, .s v, b, ha, hb => by
    cases t <;> simp [Payload.wfP] at ha
    cases b <;> simp [Payload.wfP] at hb <;> simp [rawK, rawRhs, rawLeaf, OkOrUn, primRawEq_str]
  | t, .seq xs, b, ha, hb => by
    cases t <;> simp [Payload.wfP] at ha
    · cases b <;> simp [Payload.wfP] at hb <;> simp only [rawK, rawRhs] <;> try exact okOrUn_ok _
      rename_i e ys
      split
      · exact rawAll_ok sr hsr e xs ys ha hb
      · exact okOrUn_ok _
    · cases b <;> simp [Payload.wfP] at hb <;> simp only [rawK, rawRhs] <;> try exact okOrUn_ok _
      rename_i ts ys
      exact rawZip_ok sr hsr ts xs ys ha.1 hb.1 ha.2 hb.2
  | t, .smap kx xs, b, ha, hb => by
    cases t <;> simp [Payload.wfP] at ha
    · cases b <;> simp [Payload.wfP] at hb <;> simp only [rawK, rawRhs] <;> try exact okOrUn_ok _
      rename_i e ky ys
      split
      · exact rawMap_ok sr hsr e kx xs ky ys ha.2 hb.2
      · exact okOrUn_ok _
    · cases b <;> simp [Payload.wfP] at hb <;> simp only [rawK, rawRhs] <;> try exact okOrUn_ok _
      rename_i ns ts os ky ys
      exact rawZip_ok sr hsr ts xs ys ha.1.2 hb.1.2 ha.2 hb.2
  | t, .sset ix xs, b, ha, hb => by
    cases t <;> simp only [Payload.wfP, Bool.false_eq_true] at ha
    have ha' := ha
    cases b <;> simp [Payload.wfP] at hb <;> simp only [rawK, rawRhs] <;> try exact okOrUn_ok _
    rename_i e iy ys
    refine hsr e xs ys (memOk_of_set ha') (memOk_of_set (ids := iy) ?_)
    simp [Payload.wfP, hb]
theorem rawZip_ok (sr : SetRawRec) (hsr : SrOk nfc sr) : ∀ (ts : List Ty) (xs ys : List Payload),
    ts.length = xs.length → ts.length = ys.length → Payload.wfZip nfc ts xs = true →
    Payload.wfZip nfc ts ys = true → OkOrUn (rawZip sr ts xs ys)
  | [], _, _, _, _, _, _ => by simp only [rawZip]; exact okOrUn_ok _
  | _ :: _, [], _, h, _, _, _ => by simp at h
  | _ :: _, _ :: _, [], _, h, _, _ => by simp at h
  | t :: ts, x :: xs, y :: ys, h1, h2, hx, hy => by
    simp only [Payload.wfZip, Bool.and_eq_true] at hx hy
    simp only [rawZip]
    exact okOrUn_andThen (rawK_ok sr hsr t x y hx.1 hy.1)
      (rawZip_ok sr hsr ts xs ys (by simpa using h1) (by simpa using h2) hx.2 hy.2)
theorem rawAll_ok (sr : SetRawRec) (hsr : SrOk nfc sr) : ∀ (e : Ty) (xs ys : List Payload),
    Payload.wfAll nfc e xs = true → Payload.wfAll nfc e ys = true → OkOrUn (rawAll sr e xs ys)
  | _, [], _, _, _ => by simp only [rawAll]; exact okOrUn_ok _
  | _, _ :: _, [], _, _ => by simp only [rawAll]; exact okOrUn_ok _
  | e, x :: xs, y :: ys, hx, hy => by
    simp only [Payload.wfAll, Bool.and_eq_true] at hx hy
    simp only [rawAll]
    exact okOrUn_andThen (rawK_ok sr hsr e x y hx.1 hy.1) (rawAll_ok sr hsr e xs ys hx.2 hy.2)
theorem rawMap_ok (sr : SetRawRec) (hsr : SrOk nfc sr) : ∀ (e : Ty) (ks : List String) (xs : List Payload)
    (ky : List String) (ys : List Payload), Payload.wfAll nfc e xs = true → Payload.wfAll nfc e ys = true →
    OkOrUn (rawMap sr e ks xs ky ys)
  | _, [], _, _, _, _, _ => by simp only [rawMap]; exact okOrUn_ok _
  | _, _ :: _, [], _, _, _, _ => by simp only [rawMap]; exact okOrUn_ok _
  | e, k :: ks, x :: xs, ky, ys, hx, hy => by
    simp only [Payload.wfAll, Bool.and_eq_true] at hx
    simp only [rawMap]
    cases hl : lookupKey k ky ys with
    | none => exact okOrUn_ok _
    | some y =>
      exact okOrUn_andThen (rawK_ok sr hsr e x y hx.1 (Payload.wfAll_lookupKey hy hl))
        (rawMap_ok sr hsr e ks xs ky ys hx.2 hy)
end

/-- what a level of set nesting must provide for the members of a set -/
structure LvlOk (nfc : String → Bool) (L : Lvl) : Prop where
  hb : ∀ e x, MemOk nfc e x → OkOrUn (L.hb e x)
  raw : ∀ e x y, MemOk nfc e x → MemOk nfc e y → OkOrUn (L.raw e x e y)

theorem less_ok {L : Lvl} (hL : LvlOk nfc L) (e : Ty) (x y : Payload) (hx : MemOk nfc e x) (hy : MemOk nfc e y) :
    OkOrUn (L.less e x y) := by
  unfold Lvl.less
  refine okOrUn_bind (hL.raw e x y hx hy) (fun c => ?_)
  split
  · exact okOrUn_ok _
  split
  · exact okOrUn_ok _
  rename_i h2
  split
  · exact okOrUn_ok _
  rename_i h3
  split
  · exact okOrUn_ok _
  rename_i h4
  split
  · exact okOrUn_ok _
  rename_i h5
  have nx : x.isNull = false := by simpa using h3
  have kx : x.isKnown = true := by simpa using h5
  have ny : y.isNull = false := by simpa [nx] using h2
  have ky : y.isKnown = true := by simpa [kx] using h4
  have hfall : OkOrUn (do let hx ← L.hb e x; let hy ← L.hb e y; pure (bytesLt hx hy) : Res Bool) :=
    okOrUn_bind (hL.hb e x hx) fun _ => okOrUn_bind (hL.hb e y hy) fun _ => okOrUn_ok _
  obtain ⟨wx, mx⟩ := hx
  obtain ⟨wy, my⟩ := hy
  cases e <;> cases x <;>
    simp [Payload.wfP, Payload.containsMarked, Payload.isNull, Payload.isKnown, Payload.unmark1] at wx mx nx kx <;>
    cases y <;>
    simp [Payload.wfP, Payload.containsMarked, Payload.isNull, Payload.isKnown, Payload.unmark1] at wy my ny ky <;>
    first
      | exact okOrUn_ok _
      | exact hfall

theorem insertBackM_ok {less : Payload → Payload → Res Bool} (P : Payload → Prop)
    (hless : ∀ a b, P a → P b → OkOrUn (less a b)) (x : Payload) (hx : P x) :
    ∀ ys : List Payload, (∀ y ∈ ys, P y) →
      OkOrUn (Lvl.insertBackM less x ys) ∧ ∀ r, Lvl.insertBackM less x ys = .ok r → ∀ m ∈ r, P m
  | [], _ => ⟨okOrUn_ok _, by
      intro r h m hm
      simp only [Lvl.insertBackM, Res.ok.injEq] at h
      subst h
      simp at hm; subst hm; exact hx⟩
  | y :: ys, hy => by
    have hyy : P y := hy y (by simp)
    have hys : ∀ z ∈ ys, P z := fun z hz => hy z (by simp [hz])
    simp only [Lvl.insertBackM]
    rcases hless x y hx hyy with ⟨c, hc⟩ | hc
    · rw [hc]
      cases c
      · refine ⟨okOrUn_ok _, ?_⟩
        intro r h m hm
        simp only [Res.ok.injEq] at h
        subst h
        rcases List.mem_cons.mp hm with rfl | hm
        · exact hx
        · exact hy m hm
      · obtain ⟨h1, h2⟩ := insertBackM_ok P hless x hx ys hys
        rcases h1 with ⟨r', hr'⟩ | hr'
        · simp only [hr']
          refine ⟨okOrUn_ok _, ?_⟩
          intro r h m hm
          simp only [Res.ok.injEq] at h
          subst h
          rcases List.mem_cons.mp hm with rfl | hm
          · exact hyy
          · exact h2 r' hr' m hm
        · simp only [hr']
          exact ⟨Or.inr rfl, by intro r h; cases h⟩
    · rw [hc]
      exact ⟨Or.inr rfl, by intro r h; cases h⟩

theorem sortAuxM_ok {less : Payload → Payload → Res Bool} (P : Payload → Prop)
    (hless : ∀ a b, P a → P b → OkOrUn (less a b)) :
    ∀ (xs acc : List Payload), (∀ a ∈ acc, P a) → (∀ x ∈ xs, P x) →
      OkOrUn (Lvl.sortAuxM less acc xs) ∧ ∀ r, Lvl.sortAuxM less acc xs = .ok r → ∀ m ∈ r, P m
  | [], acc, ha, _ => ⟨okOrUn_ok _, by
      intro r h m hm
      simp only [Lvl.sortAuxM, Res.ok.injEq] at h
      subst h
      exact ha m (by simpa using hm)⟩
  | x :: xs, acc, ha, hxs => by
    have hx : P x := hxs x (by simp)
    obtain ⟨h1, h2⟩ := insertBackM_ok P hless x hx acc ha
    simp only [Lvl.sortAuxM]
    rcases h1 with ⟨acc', hacc'⟩ | hacc'
    · simp only [hacc']
      exact sortAuxM_ok P hless xs acc' (h2 acc' hacc') (fun z hz => hxs z (by simp [hz]))
    · simp only [hacc']
      exact ⟨Or.inr rfl, by intro r h; cases h⟩

theorem iter_ok {L : Lvl} (hL : LvlOk nfc L) (e : Ty) (vs : List Payload) (hvs : ∀ x ∈ vs, MemOk nfc e x) :
    OkOrUn (L.iter e vs) ∧ ∀ r, L.iter e vs = .ok r → ∀ m ∈ r, MemOk nfc e m :=
  sortAuxM_ok (MemOk nfc e) (fun a b ha hb => less_ok hL e a b ha hb) vs [] (by simp) hvs

theorem hashAll_ok {L : Lvl} (hL : LvlOk nfc L) (e : Ty) : ∀ vs : List Payload, (∀ x ∈ vs, MemOk nfc e x) →
    OkOrUn (L.hashAll e vs)
  | [], _ => by simp only [Lvl.hashAll]; exact okOrUn_ok _
  | v :: vs, h => by
    simp only [Lvl.hashAll]
    exact okOrUn_app (hL.hb e v (h v (by simp))) (okOrUn_app (okOrUn_ok _)
      (hashAll_ok hL e vs fun z hz => h z (by simp [hz])))

theorem rawAllL_ok {L : Lvl} (hL : LvlOk nfc L) (e : Ty) : ∀ xs ys : List Payload, (∀ x ∈ xs, MemOk nfc e x) →
    (∀ y ∈ ys, MemOk nfc e y) → OkOrUn (L.rawAllL e xs ys)
  | [], _, _, _ => by simp only [Lvl.rawAllL]; exact okOrUn_ok _
  | _ :: _, [], _, _ => by simp only [Lvl.rawAllL]; exact okOrUn_ok _
  | x :: xs, y :: ys, hx, hy => by
    simp only [Lvl.rawAllL]
    exact okOrUn_andThen (hL.raw e x y (hx x (by simp)) (hy y (by simp)))
      (rawAllL_ok hL e xs ys (fun z hz => hx z (by simp [hz])) (fun z hz => hy z (by simp [hz])))

theorem setHash_ok {L : Lvl} (hL : LvlOk nfc L) : ShOk nfc L.setHash := by
  intro e ids vs hvs
  obtain ⟨h1, h2⟩ := iter_ok hL e vs hvs
  simp only [Lvl.setHash]
  rcases h1 with ⟨ord, ho⟩ | ho
  · simp only [ho]
    exact okOrUn_app (okOrUn_ok _) (okOrUn_app (hashAll_ok hL e ord (h2 ord ho)) (okOrUn_ok _))
  · simp only [ho]; exact Or.inr rfl

theorem setRaw_ok {L : Lvl} (hL : LvlOk nfc L) : SrOk nfc L.setRaw := by
  intro e xs ys hxs hys
  obtain ⟨h1, h2⟩ := iter_ok hL e xs hxs
  obtain ⟨h3, h4⟩ := iter_ok hL e ys hys
  simp only [Lvl.setRaw]
  rcases h1 with ⟨l1, ho1⟩ | ho1
  · rcases h3 with ⟨l2, ho2⟩ | ho2
    · simp only [ho1, ho2]
      split
      · exact okOrUn_ok _
      · exact rawAllL_ok hL e l1 l2 (h2 l1 ho1) (h4 l2 ho2)
    · simp only [ho1, ho2]; exact Or.inr rfl
  · simp only [ho1]; exact Or.inr rfl

mutual
theorem hashS_ok (sh : SetHashRec) (hsh : ShOk nfc sh) : ∀ (t : Ty) (p : Payload), Payload.wfP nfc t p = true →
    OkOrUn (hashS sh t p)
  | t, .marked ms r, h => by
    simp only [Payload.wfP_marked, Bool.and_eq_true] at h
    simp only [hashS]
    exact hashS_ok sh hsh t r h.2
  | t, .null, _ => by simp only [hashS]; exact okOrUn_ok _
  | t, .unk r, _ => by simp only [hashS]; exact okOrUn_ok _
  | t, .b _, h => by cases t <;> simp [Payload.wfP] at h; simp only [hashS]; exact okOrUn_ok _
  | t, .n _, h => by cases t <;> simp [Payload.wfP] at h; simp only [hashS]; exact okOrUn_ok _
  | t, .s _, h => by cases t <;> simp [Payload.wfP] at h; simp only [hashS]; exact okOrUn_quote _
  | t, .caps, h => by cases t <;> simp [Payload.wfP] at h; simp only [hashS]; exact okOrUn_ok _
  | t, .bad _, h => by cases t <;> simp [Payload.wfP] at h
  | t, .seq vs, h => by
    cases t <;> simp [Payload.wfP] at h
    · simp only [hashS]
      exact okOrUn_app (okOrUn_ok _) (okOrUn_app (hashAllS_ok sh hsh _ vs h) (okOrUn_ok _))
    · simp only [hashS]
      exact okOrUn_app (okOrUn_ok _) (okOrUn_app (hashZipS_ok sh hsh _ vs h.2) (okOrUn_ok _))
  | t, .smap ks vs, h => by
    cases t <;> simp [Payload.wfP] at h
    · simp only [hashS]
      exact okOrUn_app (okOrUn_ok _) (okOrUn_app (hashMapS_ok sh hsh _ ks vs h.2) (okOrUn_ok _))
    · simp only [hashS]
      exact okOrUn_app (okOrUn_ok _) (okOrUn_app (hashZipS_ok sh hsh _ vs h.2) (okOrUn_ok _))
  | t, .sset ids vs, h => by
    cases t <;> simp only [Payload.wfP, Bool.false_eq_true] at h
    simp only [hashS]
    exact hsh _ ids vs (memOk_of_set h)
theorem hashAllS_ok (sh : SetHashRec) (hsh : ShOk nfc sh) : ∀ (e : Ty) (vs : List Payload),
    Payload.wfAll nfc e vs = true → OkOrUn (hashAllS sh e vs)
  | _, [], _ => by simp only [hashAllS]; exact okOrUn_ok _
  | e, v :: vs, h => by
    simp only [Payload.wfAll, Bool.and_eq_true] at h
    simp only [hashAllS]
    exact okOrUn_app (hashS_ok sh hsh e v h.1) (okOrUn_app (okOrUn_ok _) (hashAllS_ok sh hsh e vs h.2))
theorem hashZipS_ok (sh : SetHashRec) (hsh : ShOk nfc sh) : ∀ (ts : List Ty) (vs : List Payload),
    Payload.wfZip nfc ts vs = true → OkOrUn (hashZipS sh ts vs)
  | [], vs, _ => by cases vs <;> (simp only [hashZipS]; exact okOrUn_ok _)
  | _ :: _, [], _ => by simp only [hashZipS]; exact okOrUn_ok _
  | t :: ts, v :: vs, h => by
    simp only [Payload.wfZip, Bool.and_eq_true] at h
    simp only [hashZipS]
    exact okOrUn_app (hashS_ok sh hsh t v h.1) (okOrUn_app (okOrUn_ok _) (hashZipS_ok sh hsh ts vs h.2))
theorem hashMapS_ok (sh : SetHashRec) (hsh : ShOk nfc sh) : ∀ (e : Ty) (ks : List String) (vs : List Payload),
    Payload.wfAll nfc e vs = true → OkOrUn (hashMapS sh e ks vs)
  | _, [], _, _ => by simp only [hashMapS]; exact okOrUn_ok _
  | _, _ :: _, [], _ => by simp only [hashMapS]; exact okOrUn_ok _
  | e, k :: ks, v :: vs, h => by
    simp only [Payload.wfAll, Bool.and_eq_true] at h
    simp only [hashMapS]
    exact okOrUn_app (okOrUn_quote k) (okOrUn_app (okOrUn_ok _) (okOrUn_app (hashS_ok sh hsh e v h.1)
      (okOrUn_app (okOrUn_ok _) (hashMapS_ok sh hsh e ks vs h.2))))
end

/-- every level of set nesting is total on well-formed members -/
theorem lvl_ok : ∀ n : Nat, LvlOk nfc (lvl n)
  | 0 => ⟨fun _ _ _ => Or.inr rfl, fun _ _ _ _ _ => Or.inr rfl⟩
  | n + 1 => by
    have ih := lvl_ok n
    refine ⟨fun e x hx => ?_, fun e x y hx hy => ?_⟩
    · exact hashS_ok (lvl n).setHash (setHash_ok ih) e x hx.1
    · show OkOrUn (rawS (lvl n).setRaw e x e y)
      unfold rawS
      split
      · exact okOrUn_ok _
      · exact rawK_ok (lvl n).setRaw (setRaw_ok ih) e x y hx.1 hy.1

/-- **`Hash`, all types** — sets (nested at any depth) and capsules included: on a well-formed value without
marks the model returns `.ok`, or `.unmodelled` (a string it cannot quote); never a panic.  This covers every
call `setRules.Less` / `RawEquals` / `makeSetHashBytes` makes on the members of nested sets while they are put in
iteration order (`Lvl.iter`: Go's insertion sort, the faithful model of `Values()` for up to 20 members per set).
Precondition (documented): the value contains no marks (`hash_marked_not_ok`). -/
theorem hash_total_all (v : Value) (hv : v.WF nfc = true) (hm : v.containsMarked = false) :
    OkOrUn (Value.hash v) ∧ ∀ w, Value.hash v ≠ .panic w := by
  have hb : OkOrUn (Value.hashBytes v) := by
    simp only [WF, Bool.and_eq_true] at hv
    exact hashS_ok (lvl v.v.depth).setHash (setHash_ok (lvl_ok _)) v.ty v.v hv.2
  have h : OkOrUn (Value.hash v) := by
    unfold Value.hash
    rcases hb with ⟨bs, hb⟩ | hb <;> rw [hb]
    · simp only [hm, Bool.false_eq_true, if_false]; exact okOrUn_ok _
    · exact Or.inr rfl
  exact ⟨h, okOrUn_not_panic h⟩

/-- **`RawEquals a b`, the set-rules transliteration** (`Value.rawEq` of SetRules.lean, which orders set members
itself instead of asking an oracle): never panics on two well-formed values of one type — marks, unknowns,
nulls, nested sets and capsules (`.unmodelled`) included. -/
theorem rawEq_total (a b : Value) (ha : a.WF nfc = true) (hb : b.WF nfc = true) (hty : a.ty = b.ty) :
    OkOrUn (Value.rawEq a b) ∧ ∀ w, Value.rawEq a b ≠ .panic w := by
  have h : OkOrUn (Value.rawEq a b) := by
    simp only [WF, Bool.and_eq_true] at ha hb
    show OkOrUn (rawS (lvl (max a.v.depth b.v.depth)).setRaw a.ty a.v b.ty b.v)
    unfold rawS
    split
    · exact okOrUn_ok _
    · rw [← hty] at hb
      exact rawK_ok _ (setRaw_ok (lvl_ok _)) a.ty a.v b.v ha.2 hb.2
  exact ⟨h, okOrUn_not_panic h⟩

/-! ## `RawEquals v v` -/

mutual
/-- every slice in the payload has a length Go can index (`≤ MaxInt64`: true of every Go value) -/
def sizesOk : Payload → Bool
  | .marked _ r => sizesOk r
  | .seq vs => decide ((vs.length : Int) ≤ maxInt) && sizesOkL vs
  | .smap _ vs => sizesOkL vs
  | .sset _ vs => sizesOkL vs
  | _ => true
def sizesOkL : List Payload → Bool
  | [] => true
  | v :: vs => sizesOk v && sizesOkL vs
end

mutual
/-- the C06 predicate implies the shape predicate of the path / walk theorems (C19) -/
theorem walkShaped_of_wfP : ∀ (t : Ty) (p : Payload), t.wf = true → Payload.wfP nfc t p = true →
    sizesOk p = true → Walk.shaped t p = true
  | t, .marked ms r, hw, h, hz => by
    simp only [Payload.wfP_marked, Bool.and_eq_true] at h
    simp only [sizesOk] at hz
    simp only [Walk.shaped, Bool.and_eq_true]
    exact ⟨h.1, walkShaped_of_wfP t r hw h.2 hz⟩
  | t, .null, _, _, _ => by simp [Walk.shaped]
  | t, .unk r, _, _, _ => by simp [Walk.shaped]
  | t, .b _, _, h, _ => by cases t <;> simp_all [Payload.wfP, Walk.shaped]
  | t, .n _, _, h, _ => by cases t <;> simp_all [Payload.wfP, Walk.shaped]
  | t, .s _, _, h, _ => by cases t <;> simp_all [Payload.wfP, Walk.shaped]
  | t, .caps, _, h, _ => by cases t <;> simp_all [Payload.wfP, Walk.shaped]
  | t, .bad _, _, h, _ => by cases t <;> simp [Payload.wfP] at h
  | t, .seq vs, hw, h, hz => by
    simp only [sizesOk, Bool.and_eq_true, decide_eq_true_eq] at hz
    cases t <;> simp [Payload.wfP] at h
    · simp only [Ty.wf] at hw
      simp only [Walk.shaped, Bool.and_eq_true, decide_eq_true_eq]
      exact ⟨hz.1, walkShapedAll_of_wfAll _ vs hw h hz.2⟩
    · simp only [Ty.wf] at hw
      simp only [Walk.shaped, Bool.and_eq_true, decide_eq_true_eq, beq_iff_eq]
      exact ⟨⟨h.1, hz.1⟩, walkShapedZip_of_wfZip _ vs hw h.2 hz.2⟩
  | t, .smap ks vs, hw, h, hz => by
    simp only [sizesOk] at hz
    cases t <;> simp [Payload.wfP] at h
    · simp only [Ty.wf] at hw
      simp only [Walk.shaped, Bool.and_eq_true, decide_eq_true_eq, beq_iff_eq]
      exact ⟨⟨h.1.1.1, Ty.strictAsc_nodup h.1.1.2⟩, walkShapedAll_of_wfAll _ vs hw h.2 hz⟩
    · simp only [Ty.wf, Bool.and_eq_true, beq_iff_eq] at hw
      simp only [Walk.shaped, Bool.and_eq_true, decide_eq_true_eq, beq_iff_eq]
      exact ⟨⟨⟨⟨⟨h.1.1, hw.1.1.1⟩, hw.1.1.2⟩, h.1.2⟩, Ty.strictAsc_nodup hw.1.2⟩,
        walkShapedZip_of_wfZip _ vs hw.2 h.2 hz⟩
  | t, .sset ids vs, hw, h, hz => by
    simp only [sizesOk] at hz
    cases t <;> simp [Payload.wfP] at h
    simp only [Ty.wf] at hw
    simp only [Walk.shaped, Bool.and_eq_true, beq_iff_eq, Bool.not_eq_true']
    exact ⟨⟨h.1.1.1.1, h.1.1.2⟩, walkShapedAll_of_wfAll _ vs hw h.2 hz⟩
theorem walkShapedAll_of_wfAll : ∀ (e : Ty) (vs : List Payload), e.wf = true → Payload.wfAll nfc e vs = true →
    sizesOkL vs = true → Walk.shapedAll e vs = true
  | _, [], _, _, _ => rfl
  | e, v :: vs, hw, h, hz => by
    simp only [Payload.wfAll, Bool.and_eq_true] at h
    simp only [sizesOkL, Bool.and_eq_true] at hz
    simp [Walk.shapedAll, walkShaped_of_wfP e v hw h.1 hz.1, walkShapedAll_of_wfAll e vs hw h.2 hz.2]
theorem walkShapedZip_of_wfZip : ∀ (ts : List Ty) (vs : List Payload), Ty.wfL ts = true →
    Payload.wfZip nfc ts vs = true → sizesOkL vs = true → Walk.shapedZip ts vs = true
  | [], vs, _, _, _ => by cases vs <;> simp [Walk.shapedZip]
  | _ :: _, [], _, _, _ => by simp [Walk.shapedZip]
  | t :: ts, v :: vs, hw, h, hz => by
    simp only [Payload.wfZip, Bool.and_eq_true] at h
    simp only [sizesOkL, Bool.and_eq_true] at hz
    simp only [Ty.wfL, Bool.and_eq_true] at hw
    simp [Walk.shapedZip, walkShaped_of_wfP t v hw.1 h.1 hz.1, walkShapedZip_of_wfZip ts vs hw.2 h.2 hz.2]
end

/-- **`RawEquals v v`** (value_ops.go) returns `true` — in particular does not panic — for every well-formed value
`v`: known, unknown or null, MARKED OR NOT at any depth (`RawEquals` compares marks, it does not reject them),
sets included, whose type contains no capsule type (the model does not decide pointer identity of capsules:
`.unmodelled`).  `X` is the set oracle (iteration order of set members read off the implementation), of which
only `IterPerm` is needed: it lists exactly the members.  `sizesOk`: slice lengths fit an `int`. -/
theorem rawEquals_self_total {X : SetOracle} (hX : Walk.IterPerm X) (v : Value) (hv : v.WF nfc = true)
    (hz : sizesOk v.v = true) (hc : Ty.hasCapsule v.ty = false) : Value.rawEquals X v v = .ok true := by
  simp only [WF, Bool.and_eq_true] at hv
  exact Walk.rawEquals_refl hX v (walkShaped_of_wfP v.ty v.v (wf_of_ok hv.1) hv.2 hz) (wf_of_ok hv.1) hc

/-! ## the extension of `C06.accessors_total`, in one statement -/

/-- `Range()` is the one accessor of this list that REJECTS marked values (value_range.go: "Range on marked
value"): `isMarked = false` is a genuine precondition there. -/
theorem range_marked_panics (v : Value) (hm : v.isMarked = true) : Value.range v = .panic "Range on marked value" := by
  simp [Value.range, hm]

/-- **`accessors_total`, extended** — for EVERY well-formed value `v`, marked or not, known or not:
* `Length` returns on tuple and object types, and on non-null list / set / map values;
* `HasIndex` returns on non-null list / map / tuple values for every well-formed non-null key (any type,
  known or not, marked or not);
* `Index` returns a well-formed member wherever `HasIndex` does not answer a known `false` (non-null receiver);
  on maps with every non-null string key;
* `GetAttr` returns for every declared attribute of a non-null object value;
* `Equals v v` returns when no capsule type occurs in the type of `v` (sets included);
* `Hash` returns (or is `.unmodelled`: unquotable string) iff `v` contains no mark — all types;
* `Range` returns iff `v` is unmarked (marked: it panics — as do `True`, `AsBigFloat`, `AsString`, `LengthInt`,
  `ElementIterator`, which `C06.accessors_total` states for unmarked values only, rightly). -/
theorem accessors_total_ext (v : Value) (hv : v.WF nfc = true) :
    (((∃ es, v.ty = .tuple es) ∨ (∃ ns ts os, v.ty = .object ns ts os) ∨
        (isCollection v.ty = true ∧ v.isNull = false) ∨ (v.ty = .dyn ∧ v.isKnown = false)) →
      ∃ r, Value.length v = .ok r ∧ r.WF nfc = true) ∧
    (v.isNull = false → ((∃ e, v.ty = .list e) ∨ (∃ e, v.ty = .map e) ∨ ∃ es, v.ty = .tuple es) →
      ∀ k : Value, k.WF nfc = true → k.isNull = false → ∃ r, Value.hasIndex v k = .ok r ∧ r.WF nfc = true) ∧
    (v.isNull = false → ∀ k h : Value, Value.hasIndex v k = .ok h → Value.isFalse h.unmark = false →
      ∃ r, Value.index v k = .ok r ∧ r.WF nfc = true) ∧
    (v.isNull = false → ∀ e, v.ty = .map e → ∀ k : Value, k.WF nfc = true → k.isNull = false → k.ty = .string →
      ∃ r, Value.index v k = .ok r ∧ r.WF nfc = true) ∧
    (∀ ns ts os, v.ty = .object ns ts os → v.isNull = false → ∀ name ∈ ns, ∃ r, Value.getAttr v name = .ok r) ∧
    (Ty.hasCapsule v.ty = false → ∃ r, Value.equals v v = .ok r ∧ r.WF nfc = true) ∧
    (v.containsMarked = false → OkOrUn (Value.hash v)) ∧
    (v.isMarked = false → ∃ r, Value.range v = .ok r) ∧
    (v.isMarked = true → Value.range v = .panic "Range on marked value") := by
  refine ⟨length_total v hv, ?_, ?_, ?_, ?_, equals_self_total v hv, fun hm => (hash_total_all v hv hm).1,
    Value.range_total v hv, range_marked_panics v⟩
  · intro hn hty k hk hkn
    exact hasIndex_total v k hv hk hn hkn (Or.inr hty)
  · intro hn k h hh hf
    exact index_of_hasIndex v k h hv hn hh hf
  · intro hn e hty k hk hkn hkt
    exact index_map_total v k hv hk hn hkn hty hkt
  · intro ns ts os hty hn name hname
    exact Value.getAttr_total v hv hty hn name hname

/-! ## witnesses: where totality FAILS of the model (candidate findings about the Go code) -/

/-- `HasIndex` answers `True` for position 0 of a NULL tuple (it only consults the type), yet `Index` panics on it
(`val.v.([]interface{})` of a nil payload): "`HasIndex` true → `Index` returns" needs the receiver non-null. -/
def nullTuple : Value := ⟨.tuple [.string], .null⟩
/-- the call returned an unmarked known `True` -/
def isOkTrue : Res Value → Bool
  | .ok r => r.isTrue && !r.isMarked
  | _ => false
theorem index_null_tuple_witness :
    nullTuple.WF (fun _ => true) = true ∧
    isOkTrue (Value.hasIndex nullTuple (intVal 0)) = true ∧
    Res.isPanic (Value.index nullTuple (intVal 0)) = true := by decide

/-- `HasIndex` with a NULL number key panics on a known list (`key.v.(*big.Float)` of a nil payload), although
it answers `False` for every key of a wrong type: the key must not be null. -/
theorem hasIndex_null_key_witness :
    Value.WF (fun _ => true) ⟨.number, .null⟩ = true ∧
    Res.isPanic (Value.hasIndex ⟨.list .string, .seq [.s "a"]⟩ ⟨.number, .null⟩) = true := by decide

/-- `Length` of a null list panics (`LengthInt` on a nil payload); of a null tuple it does not. -/
theorem length_null_witness :
    Res.isPanic (Value.length ⟨.list .string, .null⟩) = true ∧
    (Value.length nullTuple).isOk = true := by decide

/-! ## non-vacuity: a nested, marked, partly unknown value -/

def sample : Value :=
  ⟨.object ["a", "b"] [.list .string, .tuple [.number, .map .bool]] [false, false],
   .marked ["top"] (.smap ["a", "b"]
     [.seq [.s "x", .marked ["m"] (.unk (.str .f "p")), .null],
      .marked ["k", "m"] (.seq [.n (.fin false 3 0 64), .marked ["z"] (.smap ["k1", "k2"] [.b true, .unk .unref])])])⟩

def sampleTuple : Value :=
  ⟨.tuple [.number, .map .bool],
   .marked ["k", "m"] (.seq [.n (.fin false 3 0 64), .marked ["z"] (.smap ["k1", "k2"] [.b true, .unk .unref])])⟩

def sampleMap : Value := ⟨.map .bool, .marked ["z"] (.smap ["k1", "k2"] [.b true, .unk .unref])⟩
def sampleKey : Value := ⟨.string, .marked ["q"] (.s "k2")⟩
def sampleList : Value := ⟨.list .string, .marked ["l"] (.seq [.s "x", .marked ["m"] (.unk (.str .f "p")), .null])⟩

example : sample.WF (fun _ => true) = true ∧ sample.isMarked = true ∧ sample.ty.plain = true := by decide
example : sampleTuple.WF (fun _ => true) = true ∧ sampleTuple.isMarked = true := by decide
example : sampleMap.WF (fun _ => true) = true ∧ sampleKey.WF (fun _ => true) = true := by decide
example : sampleList.WF (fun _ => true) = true := by decide
-- Index: tuple position, map key (marked receiver, marked key), list position of a marked list
example : (Value.index sampleTuple (intVal 1)).isOk = true := by decide
example : (Value.index sampleMap sampleKey).isOk = true := by decide
example : (Value.index sampleMap ⟨.string, .s "absent"⟩).isOk = true := by decide
example : (Value.index sampleList (intVal 2)).isOk = true := by decide
-- Index on unknown receivers
example : (match Value.index ⟨.tuple [.number, .string], .marked ["u"] (.unk .unref)⟩ (intVal 1) with
    | .ok r => r.isMarked && !r.isKnown && r.ty.isString | _ => false) = true := by decide
example : (Value.index ⟨.map .bool, .unk .unref⟩ sampleKey).isOk = true := by decide
-- HasIndex / Length on marked and unknown operands
example : (Value.hasIndex sampleTuple (intVal 5)).isOk = true := by decide
example : (Value.hasIndex sampleMap sampleKey).isOk = true := by decide
example : (Value.hasIndex sampleList ⟨.number, .marked ["q"] (.unk .unref)⟩).isOk = true := by decide
example : (Value.length sample).isOk = true ∧ (Value.length sampleMap).isOk = true := by decide
example : (Value.length ⟨.set .string, .marked ["u"] (.unk (.coll .f 1 3))⟩).isOk = true := by decide
-- Equals v v, RawEquals v v on the marked nested value
example : (Value.equals sample sample).isOk = true := by decide
example : sizesOk sample.v = true ∧ Ty.hasCapsule sample.ty = false := by decide
example : Value.rawEquals (SetOracle.storage) sample sample = .ok true := by decide
-- Hash: unmarked nested value with unknown and null members; a marked value is rejected
def sampleHash : Value := ⟨.tuple [.string, .list .number], .seq [.s "ab", .seq [.n (.fin false 3 0 64), .null, .unk .unref]]⟩
example : sampleHash.WF (fun _ => true) = true ∧ noSet sampleHash.ty = true ∧ sampleHash.containsMarked = false := by
  decide
example : (Value.hash sampleHash).isOk = true := by decide
example : Res.isPanic (Value.hash ⟨.bool, .marked ["m"] (.b true)⟩) = true := by decide
-- Equals v v with sets inside (members partly unknown), under marks; capsules: the model declines (no panic)
def sampleSet : Value :=
  ⟨.tuple [.set .string, .set (.tuple [.number])],
   .marked ["s"] (.seq [.sset [1, 2] [.s "a", .s "b"], .sset [7, 9] [.seq [.n (.fin false 3 0 64)], .seq [.unk .unref]]])⟩
example : sampleSet.WF (fun _ => true) = true ∧ Ty.hasCapsule sampleSet.ty = false ∧ sampleSet.ty.plain = false := by
  decide
example : (Value.equals sampleSet sampleSet).isOk = true := by decide
example : (match Value.equals ⟨.capsule 1, .caps⟩ ⟨.capsule 1, .caps⟩ with | .unmodelled => true | _ => false) = true := by
  decide
-- Hash / RawEquals of values with nested sets
def sampleSetU : Value :=
  ⟨.tuple [.set .string, .set (.tuple [.number])],
   .seq [.sset [1, 2] [.s "a", .s "b"], .sset [7, 9] [.seq [.n (.fin false 3 0 64)], .seq [.unk .unref]]]⟩
example : sampleSetU.WF (fun _ => true) = true ∧ sampleSetU.containsMarked = false := by decide
-- (`decide` cannot evaluate the member ordering; the hypotheses are checked and the theorems instantiated)
example : OkOrUn (Value.hash sampleSetU) := (hash_total_all (nfc := fun _ => true) sampleSetU (by decide) (by decide)).1
example : OkOrUn (Value.rawEq sampleSet sampleSet) :=
  (rawEq_total (nfc := fun _ => true) sampleSet sampleSet (by decide) (by decide) rfl).1

end D06Acc
end CtyModel
