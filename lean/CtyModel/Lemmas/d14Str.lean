/-
d14 — `indent` after /repo d4d90b0 (no padding built for a string without line breaks; a result
that would be longer than math.MaxInt32 is refused), on the character loop `indentChars`.
-/
import CtyModel.Stdlib.Glue
import CtyModel.Lemmas.StdNumStr
namespace CtyModel
namespace StdNum

theorem indentChars_no_newline (n : Nat) (cs : List Char) (h : countNewlines cs = 0) : indentChars n cs = cs := by
  induction cs with
  | nil => rfl
  | cons c t ih =>
    by_cases hc : (c == '\n') = true
    · simp [countNewlines, List.filter, hc] at h
    · have hc' : (c == '\n') = false := by simpa using hc
      have ht : countNewlines t = 0 := by simpa [countNewlines, List.filter, hc'] using h
      simp [indentChars, hc', ih ht]

/-- the length of the indented text: `n` more characters per line break -/
theorem indentChars_length (n : Nat) (cs : List Char) :
    (indentChars n cs).length = cs.length + n * countNewlines cs := by
  induction cs with
  | nil => simp [indentChars, countNewlines]
  | cons c t ih =>
    by_cases hc : (c == '\n') = true
    · have : countNewlines (c :: t) = countNewlines t + 1 := by simp [countNewlines, List.filter, hc]
      simp only [indentChars, hc, if_true, List.length_cons, List.length_append, List.length_replicate, ih, this]
      rw [Nat.mul_add]; omega
    · have hc' : (c == '\n') = false := by simpa using hc
      have : countNewlines (c :: t) = countNewlines t := by simp [countNewlines, List.filter, hc']
      simp only [indentChars, hc', Bool.false_eq_true, if_false, List.length_cons, ih, this]
      omega

/-- removing what `indentChars` inserted gives the text back: nothing else was changed -/
def unindentChars (n : Nat) : List Char → List Char
  | [] => []
  | c :: rest => if c == '\n' then '\n' :: unindentChars n (rest.drop n) else c :: unindentChars n rest
termination_by cs => cs.length
decreasing_by
  all_goals simp only [List.length_drop, List.length_cons]
  all_goals omega

theorem unindent_indent (n : Nat) (cs : List Char) : unindentChars n (indentChars n cs) = cs := by
  induction cs with
  | nil => simp [indentChars, unindentChars]
  | cons c t ih =>
    by_cases hc : (c == '\n') = true
    · have hc2 : c = '\n' := by simpa using hc
      subst hc2
      simp only [indentChars, beq_self_eq_true, if_true]
      rw [unindentChars]
      simp only [beq_self_eq_true, if_true]
      rw [List.drop_left' (by simp)]
      rw [ih]
    · have hc' : (c == '\n') = false := by simpa using hc
      simp only [indentChars, hc', Bool.false_eq_true, if_false]
      rw [unindentChars]
      simp [hc', ih]

theorem fromCtyInt_cases (x : Num) : (∃ k, fromCtyInt (Value.numVal x) = .ok k) ∨ (∃ c, fromCtyInt (Value.numVal x) = .err c) := by
  simp only [fromCtyInt, Value.numVal, Gocty.fromNumInt, Gocty.intMinMax]
  split
  · right; exact ⟨_, rfl⟩
  · split
    · right; exact ⟨_, rfl⟩
    · left; exact ⟨_, rfl⟩

end StdNum
end CtyModel
