/-
The tie between the TRANSLATED constructors (`Generated/ConsFns.lean`, rewritten from
cty/value_init.go, null.go, unknown.go on every check by `extract/translate_cons.go`)
and the hand-written constructors the C06 theorems are about (`Gocty.listVal`,
`Gocty.tupleVal`, `D06.mapValN`, `D06.objectValN`, `Value.setValH`, `Value.stringVal`, …).

Each theorem says `generated = .ok (hand-written)` — for the constructors that can panic,
equality of outcomes up to the panic text (`ConsGo.cls`) — for ALL arguments, and for the
constructors over a Go map for EVERY order `mapOrder` in which `range` may visit the entries.
-/
import CtyModel.Generated.ConsFns
import CtyModel.Lemmas.SetFnsTie
import CtyModel.Lemmas.d06Cons
set_option linter.unusedSimpArgs false
set_option linter.unusedVariables false
namespace CtyModel
namespace ConsTie
open Generated.ConsFns ConsGo

/-! ### vocabulary -/

theorem payloads_eq_map : ∀ ws : List Value, Gocty.payloads ws = ws.map (·.v)
  | [] => rfl
  | w :: ws => by simp [Gocty.payloads, payloads_eq_map ws]

theorem tysOf_eq_map : ∀ ws : List Value, Gocty.tysOf ws = ws.map (·.ty)
  | [] => rfl
  | w :: ws => by simp [Gocty.tysOf, tysOf_eq_map ws]

theorem len_eq_zero {β} (l : List β) : (ConsGo.len l == (0 : Int)) = l.isEmpty := by
  cases l <;> simp [ConsGo.len] <;> omega

theorem sliceMake_len {β} (z : β) (l : List Value) :
    sliceMake z (ConsGo.len l) = .ok (List.replicate l.length z) := by
  have h0 : ¬ ((l.length : Int) < 0) := by omega
  simp [sliceMake, ConsGo.len, h0]

/-- the write `xs[i] = e` at the first position not yet written -/
theorem sliceSet_next {β} (done : List β) (z e : β) (R : List β) :
    sliceSet (done ++ z :: R) (Int.ofNat done.length) e = .ok ((done ++ [e]) ++ R) := by
  unfold sliceSet
  have h0 : ¬ (Int.ofNat done.length < 0) := by simp only [Int.ofNat_eq_natCast]; omega
  simp only [h0, if_false]
  simp

theorem tysDone_map_some : ∀ ts : List Ty, tysDone (ts.map some) = .ok ts
  | [] => rfl
  | t :: ts => by simp [tysDone, tysDone_map_some ts]

theorem cls_ok {β} (a : β) : cls (Res.ok a) = .ok a := rfl

/-- the hand-written constructors end in this match: it is `Res.map` -/
theorem match_eq_map {β} (r : Res Ty) (f : Ty → β) :
    (match r with
      | .ok et => Res.ok (f et)
      | .err c => .err c
      | .panic w => .panic w
      | .unmodelled => .unmodelled) = r.map f := by
  cases r <;> rfl

/-! ### primitives, null, unknown, the empty collections -/

theorem BoolVal_eq (b : Bool) : BoolVal b = .ok (Value.boolVal b) := rfl
theorem NormalizeString_eq (norm : String → String) (s : String) : NormalizeString norm s = .ok (norm s) := rfl
theorem StringVal_eq (norm : String → String) (s : String) : StringVal norm s = .ok (Value.stringVal norm s) := rfl
theorem NullVal_eq (t : Ty) : NullVal t = .ok (Value.null t) := rfl
theorem UnknownVal_eq (t : Ty) : UnknownVal t = .ok (Value.unknown t) := rfl
theorem ListValEmpty_eq (e : Ty) : ListValEmpty e = .ok (Value.listValEmpty e) := rfl
theorem MapValEmpty_eq (e : Ty) : MapValEmpty e = .ok (Value.mapValEmpty e) := rfl
theorem SetValEmpty_eq (hashOf : Ty → Payload → Int) (e : Ty) : SetValEmpty hashOf e = .ok (Value.setValEmpty e) := rfl

/-! ### `ListVal`, `CanListVal` -/

theorem ListVal_loop1_eq (v0 : List Value) : ∀ (l : List Value) (done : List Payload) (et : Ty),
    cls (ListVal_loop1 v0 et (done ++ List.replicate l.length .null) (Int.ofNat done.length) l) =
    cls ((Gocty.elemTypeOf et l).map fun et' => (⟨.list et', .seq (done ++ Gocty.payloads l)⟩ : Value))
  | [], done, et => by simp [ListVal_loop1, Gocty.elemTypeOf, Gocty.payloads, Res.map, ifaceSlice]
  | w :: rest, done, et => by
    have hlen : (Int.ofNat done.length + 1) = Int.ofNat (done ++ [w.v]).length := by simp
    have hpl : done ++ Gocty.payloads (w :: rest) = (done ++ [w.v]) ++ Gocty.payloads rest := by
      simp [Gocty.payloads]
    simp only [ListVal_loop1, Gocty.elemTypeOf, List.length_cons, List.replicate_succ, sliceSet_next, hpl]
    split
    · simp only [Res.bind]
      rw [hlen]
      exact ListVal_loop1_eq v0 rest (done ++ [w.v]) w.ty
    · split
      · simp [cls, Res.map]
      · simp only [Res.bind]
        rw [hlen]
        exact ListVal_loop1_eq v0 rest (done ++ [w.v]) et

/-- `cty.ListVal`, for all arguments: the generated definition and `Gocty.listVal` (the constructor of `C06.wf_listVal`)
return the same value, and panic on the same arguments -/
theorem ListVal_eq (ws : List Value) : cls (ListVal ws) = cls (Gocty.listVal ws) := by
  unfold ListVal Gocty.listVal
  rw [len_eq_zero]
  split
  · rfl
  · rw [sliceMake_len]
    simp only [Res.bind]
    have := ListVal_loop1_eq ws ws [] .dyn
    simp only [List.nil_append, List.length_nil] at this
    rw [show (Int.ofNat 0) = (0 : Int) from rfl] at this
    rw [this]
    cases Gocty.elemTypeOf Ty.dyn ws <;> rfl

theorem CanListVal_loop1_eq (v0 : List Value) : ∀ (l : List Value) (et : Ty),
    CanListVal_loop1 v0 et l = .ok (match Gocty.elemTypeOf et l with | .panic _ => false | _ => true)
  | [], et => by simp [CanListVal_loop1, Gocty.elemTypeOf]
  | w :: rest, et => by
    simp only [CanListVal_loop1, Gocty.elemTypeOf]
    split
    · exact CanListVal_loop1_eq v0 rest w.ty
    · split
      · rfl
      · exact CanListVal_loop1_eq v0 rest et

theorem CanListVal_eq (ws : List Value) : CanListVal ws = .ok (Gocty.canListVal ws) :=
  CanListVal_loop1_eq ws ws .dyn

/-! ### `TupleVal` -/

theorem TupleVal_loop1_eq (v0 : List Value) : ∀ (l : List Value) (dt : List Ty) (dv : List Payload), dt.length = dv.length →
    TupleVal_loop1 v0 (dt.map some ++ List.replicate l.length none) (dv ++ List.replicate l.length .null)
      (Int.ofNat dv.length) l = .ok ⟨.tuple (dt ++ Gocty.tysOf l), .seq (dv ++ Gocty.payloads l)⟩
  | [], dt, dv, _ => by
    simp [TupleVal_loop1, tyTuple, tysDone_map_some, Res.map, Res.bind, Gocty.tysOf, Gocty.payloads, ifaceSlice]
  | w :: rest, dt, dv, hl => by
    have h1 := sliceSet_next (dt.map some) none (some w.ty) (List.replicate rest.length none)
    have h2 := sliceSet_next dv Payload.null w.v (List.replicate rest.length .null)
    have hlen : (Int.ofNat dv.length + 1) = Int.ofNat (dv ++ [w.v]).length := by simp
    simp only [List.length_map, hl] at h1
    simp only [TupleVal_loop1, List.length_cons, List.replicate_succ, h1, h2, Res.bind]
    rw [hlen]
    have := TupleVal_loop1_eq v0 rest (dt ++ [w.ty]) (dv ++ [w.v]) (by simp [hl])
    simp only [List.map_append, List.map_cons, List.map_nil] at this
    rw [this]
    simp [Gocty.tysOf, Gocty.payloads]

/-- `cty.TupleVal`, for all arguments -/
theorem TupleVal_eq (ws : List Value) : TupleVal ws = .ok (Gocty.tupleVal ws) := by
  unfold TupleVal Gocty.tupleVal
  rw [sliceMake_len, sliceMake_len]
  simp only [Res.bind]
  have := TupleVal_loop1_eq ws ws [] [] rfl
  simpa using this

/-! ### `MapVal`, `CanMapVal`, `ObjectVal`: a Go map argument is its entry list, visited in the order `mapOrder` -/

/-- what is assumed of the order in which `range` visits a map: some permutation of the entries -/
def ConsOrder (ord : List (String × Value) → List (String × Value)) : Prop := ∀ m, (ord m).Perm m

theorem consOrder_id : ConsOrder (fun m => m) := fun _ => List.Perm.refl _
theorem consOrder_reverse : ConsOrder (fun m => m.reverse) := fun m => List.reverse_perm m

/-- keys / values of the entries, in visiting order -/
def keysOf (l : List (String × Value)) : List String := l.map (·.1)
def valsOf (l : List (String × Value)) : List Value := l.map (·.2)

theorem putKV_map {α β} (f : α → β) (k : String) (x : α) : ∀ (ns : List String) (ys : List α),
    D06.putKV k (f x) ns (ys.map f) = ((D06.putKV k x ns ys).1, (D06.putKV k x ns ys).2.map f)
  | [], [] => by simp [D06.putKV]
  | [], _ :: _ => by simp [D06.putKV]
  | _ :: _, [] => by simp [D06.putKV]
  | n :: ns, y :: ys => by
    simp only [List.map_cons, D06.putKV]
    split
    · rfl
    · split
      · rfl
      · rw [putKV_map f k x ns ys]; rfl

theorem MapVal_loop1_eq (ord : List (String × Value) → List (String × Value)) (norm : String → String)
    (v0 : List (String × Value)) : ∀ (l : List (String × Value)) (et : Ty) (m : List String × List Value),
    cls (MapVal_loop1 ord norm v0 et (m.1, m.2.map (·.v)) l) =
    cls ((Gocty.elemTypeOf et (valsOf l)).map fun et' =>
      (⟨.map et', .smap (D06.buildFrom norm (keysOf l) (valsOf l) m).1
        (Gocty.payloads (D06.buildFrom norm (keysOf l) (valsOf l) m).2)⟩ : Value))
  | [], et, m => by
    simp [MapVal_loop1, Gocty.elemTypeOf, valsOf, keysOf, D06.buildFrom, Res.map, ifaceMap, payloads_eq_map]
  | (k, w) :: rest, et, m => by
    have hset : mapSet (m.1, m.2.map (·.v)) (norm k) w.v =
        ((D06.putKV (norm k) w m.1 m.2).1, (D06.putKV (norm k) w m.1 m.2).2.map (·.v)) := by
      simp only [mapSet]; exact putKV_map (·.v) (norm k) w m.1 m.2
    simp only [MapVal_loop1, valsOf, keysOf, List.map_cons, Gocty.elemTypeOf, D06.buildFrom, NormalizeString, Res.bind, hset]
    split
    · exact MapVal_loop1_eq ord norm v0 rest w.ty _
    · split
      · simp [cls, Res.map]
      · exact MapVal_loop1_eq ord norm v0 rest et _

/-- `cty.MapVal`, for all arguments and every visiting order: the generated definition and `D06.mapValN` (the
constructor of `C06.wf_mapVal_normalizing`) on the entries in visiting order return the same value, and panic alike -/
theorem MapVal_eq (ord : List (String × Value) → List (String × Value)) (ho : ConsOrder ord) (norm : String → String)
    (vals : List (String × Value)) :
    cls (MapVal ord norm vals) = cls (D06.mapValN norm (keysOf (ord vals)) (valsOf (ord vals))) := by
  unfold MapVal D06.mapValN
  have hlen : (ord vals).length = vals.length := (ho vals).length_eq
  have he : (mapLen vals == (0 : Int)) = (valsOf (ord vals)).isEmpty := by
    have : (valsOf (ord vals)).isEmpty = vals.isEmpty := by
      cases h1 : ord vals <;> cases h2 : vals <;> simp_all [valsOf]
    rw [this]
    cases vals <;> simp [mapLen] <;> omega
  rw [he]
  split
  · rfl
  · have := MapVal_loop1_eq ord norm vals (ord vals) .dyn ([], [])
    simp only [List.map_nil] at this
    rw [show (mapEmpty : StrMap Payload) = ([], []) from rfl, this]
    unfold D06.buildMap
    cases Gocty.elemTypeOf Ty.dyn (valsOf (ord vals)) <;> rfl

theorem CanMapVal_loop1_eq (ord : List (String × Value) → List (String × Value)) (v0 : List (String × Value)) :
    ∀ (l : List (String × Value)) (et : Ty),
    CanMapVal_loop1 ord v0 et l = .ok (match Gocty.elemTypeOf et (valsOf l) with | .panic _ => false | _ => true)
  | [], et => by simp [CanMapVal_loop1, Gocty.elemTypeOf, valsOf]
  | (k, w) :: rest, et => by
    simp only [CanMapVal_loop1, valsOf, List.map_cons, Gocty.elemTypeOf]
    split
    · exact CanMapVal_loop1_eq ord v0 rest w.ty
    · split
      · rfl
      · exact CanMapVal_loop1_eq ord v0 rest et

theorem CanMapVal_eq (ord : List (String × Value) → List (String × Value)) (vals : List (String × Value)) :
    CanMapVal ord vals = .ok (Gocty.canListVal (valsOf (ord vals))) :=
  CanMapVal_loop1_eq ord vals (ord vals) .dyn

theorem ObjectVal_loop1_eq (ord : List (String × Value) → List (String × Value)) (norm : String → String)
    (v0 : List (String × Value)) : ∀ (l : List (String × Value)) (m : List String × List Value),
    ObjectVal_loop1 ord norm v0 (m.1, m.2.map (·.ty)) (m.1, m.2.map (·.v)) l =
    .ok ⟨D06.objectTy norm (D06.buildFrom norm (keysOf l) (valsOf l) m).1
          (Gocty.tysOf (D06.buildFrom norm (keysOf l) (valsOf l) m).2),
        .smap (D06.buildFrom norm (keysOf l) (valsOf l) m).1 (Gocty.payloads (D06.buildFrom norm (keysOf l) (valsOf l) m).2)⟩
  | [], m => by
    simp [ObjectVal_loop1, valsOf, keysOf, D06.buildFrom, ifaceMap, tyObject, payloads_eq_map, tysOf_eq_map]
  | (k, w) :: rest, m => by
    have h1 : mapSet (m.1, m.2.map (·.v)) (norm k) w.v =
        ((D06.putKV (norm k) w m.1 m.2).1, (D06.putKV (norm k) w m.1 m.2).2.map (·.v)) := by
      simp only [mapSet]; exact putKV_map (·.v) (norm k) w m.1 m.2
    have h2 : mapSet (m.1, m.2.map (·.ty)) (norm k) w.ty =
        ((D06.putKV (norm k) w m.1 m.2).1, (D06.putKV (norm k) w m.1 m.2).2.map (·.ty)) := by
      simp only [mapSet]; exact putKV_map (·.ty) (norm k) w m.1 m.2
    simp only [ObjectVal_loop1, valsOf, keysOf, List.map_cons, D06.buildFrom, NormalizeString, Res.bind, h1, h2]
    exact ObjectVal_loop1_eq ord norm v0 rest _

/-- `cty.ObjectVal`, for all arguments and every visiting order (nothing is assumed of `mapOrder` here): the generated
definition IS `D06.objectValN` (the constructor of `C06.wf_objectVal_normalizing`) on the entries in visiting order -/
theorem ObjectVal_eq (ord : List (String × Value) → List (String × Value)) (norm : String → String)
    (attrs : List (String × Value)) :
    ObjectVal ord norm attrs = .ok (D06.objectValN norm (keysOf (ord attrs)) (valsOf (ord attrs))) := by
  unfold ObjectVal D06.objectValN D06.buildMap
  have := ObjectVal_loop1_eq ord norm attrs (ord attrs) ([], [])
  simp only [List.map_nil] at this
  exact this

end ConsTie
end CtyModel
