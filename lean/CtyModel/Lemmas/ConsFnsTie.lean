/-
The tie between the TRANSLATED constructors (`Generated/ConsFns.lean`, rewritten from
cty/value_init.go, null.go, unknown.go on every check by `extract/translate_cons.go`)
and the hand-written constructors the C06 theorems are about (`Gocty.listVal`,
`Gocty.tupleVal`, `D06.mapValN`, `D06.objectValN`, `Value.setValH`, `Value.stringVal`, …).

Each theorem says `generated = .ok (hand-written)` — for the constructors that can panic,
equality of outcomes up to the panic text (`ConsGo.cls`) — for ALL arguments, and for the
constructors over a Go map for EVERY order `mapOrder` in which `range` may visit the entries.
-/
import CtyModel.Generated.ConsFns
import CtyModel.Lemmas.SetFnsTie
import CtyModel.Lemmas.d06Cons
import CtyModel.Lemmas.StdOblBase
import CtyModel.Lemmas.TyEq
set_option linter.unusedSimpArgs false
set_option linter.unusedVariables false
namespace CtyModel
namespace ConsTie
open Generated.ConsFns ConsGo

/-! ### vocabulary -/

theorem payloads_eq_map : ∀ ws : List Value, Gocty.payloads ws = ws.map (·.v)
  | [] => rfl
  | w :: ws => by simp [Gocty.payloads, payloads_eq_map ws]

theorem tysOf_eq_map : ∀ ws : List Value, Gocty.tysOf ws = ws.map (·.ty)
  | [] => rfl
  | w :: ws => by simp [Gocty.tysOf, tysOf_eq_map ws]

theorem len_eq_zero {β} (l : List β) : (ConsGo.len l == (0 : Int)) = l.isEmpty := by
  cases l <;> simp [ConsGo.len] <;> omega

theorem sliceMake_len {β} (z : β) (l : List Value) :
    sliceMake z (ConsGo.len l) = .ok (List.replicate l.length z) := by
  have h0 : ¬ ((l.length : Int) < 0) := by omega
  simp [sliceMake, ConsGo.len, h0]

/-- the write `xs[i] = e` at the first position not yet written -/
theorem sliceSet_next {β} (done : List β) (z e : β) (R : List β) :
    sliceSet (done ++ z :: R) (Int.ofNat done.length) e = .ok ((done ++ [e]) ++ R) := by
  unfold sliceSet
  have h0 : ¬ (Int.ofNat done.length < 0) := by simp only [Int.ofNat_eq_natCast]; omega
  simp only [h0, if_false]
  simp

theorem tysDone_map_some : ∀ ts : List Ty, tysDone (ts.map some) = .ok ts
  | [] => rfl
  | t :: ts => by simp [tysDone, tysDone_map_some ts]

theorem cls_ok {β} (a : β) : cls (Res.ok a) = .ok a := rfl

/-- the hand-written constructors end in this match: it is `Res.map` -/
theorem match_eq_map {β} (r : Res Ty) (f : Ty → β) :
    (match r with
      | .ok et => Res.ok (f et)
      | .err c => .err c
      | .panic w => .panic w
      | .unmodelled => .unmodelled) = r.map f := by
  cases r <;> rfl

/-! ### primitives, null, unknown, the empty collections -/

theorem BoolVal_eq (b : Bool) : BoolVal b = .ok (Value.boolVal b) := rfl
theorem NormalizeString_eq (norm : String → String) (s : String) : NormalizeString norm s = .ok (norm s) := rfl
theorem StringVal_eq (norm : String → String) (s : String) : StringVal norm s = .ok (Value.stringVal norm s) := rfl
theorem NullVal_eq (t : Ty) : NullVal t = .ok (Value.null t) := rfl
theorem UnknownVal_eq (t : Ty) : UnknownVal t = .ok (Value.unknown t) := rfl
theorem ListValEmpty_eq (e : Ty) : ListValEmpty e = .ok (Value.listValEmpty e) := rfl
theorem MapValEmpty_eq (e : Ty) : MapValEmpty e = .ok (Value.mapValEmpty e) := rfl
theorem SetValEmpty_eq (hashOf : Ty → Payload → Int) (e : Ty) : SetValEmpty hashOf e = .ok (Value.setValEmpty e) := rfl

/-! ### `ListVal`, `CanListVal` -/

theorem ListVal_loop1_eq (v0 : List Value) : ∀ (l : List Value) (done : List Payload) (et : Ty),
    cls (ListVal_loop1 v0 et (done ++ List.replicate l.length .null) (Int.ofNat done.length) l) =
    cls ((Gocty.elemTypeOf et l).map fun et' => (⟨.list et', .seq (done ++ Gocty.payloads l)⟩ : Value))
  | [], done, et => by simp [ListVal_loop1, Gocty.elemTypeOf, Gocty.payloads, Res.map, ifaceSlice]
  | w :: rest, done, et => by
    have hlen : (Int.ofNat done.length + 1) = Int.ofNat (done ++ [w.v]).length := by simp
    have hpl : done ++ Gocty.payloads (w :: rest) = (done ++ [w.v]) ++ Gocty.payloads rest := by
      simp [Gocty.payloads]
    simp only [ListVal_loop1, Gocty.elemTypeOf, List.length_cons, List.replicate_succ, sliceSet_next, hpl]
    split
    · simp only [Res.bind]
      rw [hlen]
      exact ListVal_loop1_eq v0 rest (done ++ [w.v]) w.ty
    · split
      · simp [cls, Res.map]
      · simp only [Res.bind]
        rw [hlen]
        exact ListVal_loop1_eq v0 rest (done ++ [w.v]) et

/-- `cty.ListVal`, for all arguments: the generated definition and `Gocty.listVal` (the constructor of `C06.wf_listVal`)
return the same value, and panic on the same arguments -/
theorem ListVal_eq (ws : List Value) : cls (ListVal ws) = cls (Gocty.listVal ws) := by
  unfold ListVal Gocty.listVal
  rw [len_eq_zero]
  split
  · rfl
  · rw [sliceMake_len]
    simp only [Res.bind]
    have := ListVal_loop1_eq ws ws [] .dyn
    simp only [List.nil_append, List.length_nil] at this
    rw [show (Int.ofNat 0) = (0 : Int) from rfl] at this
    rw [this]
    cases Gocty.elemTypeOf Ty.dyn ws <;> rfl

theorem CanListVal_loop1_eq (v0 : List Value) : ∀ (l : List Value) (et : Ty),
    CanListVal_loop1 v0 et l = .ok (match Gocty.elemTypeOf et l with | .panic _ => false | _ => true)
  | [], et => by simp [CanListVal_loop1, Gocty.elemTypeOf]
  | w :: rest, et => by
    simp only [CanListVal_loop1, Gocty.elemTypeOf]
    split
    · exact CanListVal_loop1_eq v0 rest w.ty
    · split
      · rfl
      · exact CanListVal_loop1_eq v0 rest et

theorem CanListVal_eq (ws : List Value) : CanListVal ws = .ok (Gocty.canListVal ws) :=
  CanListVal_loop1_eq ws ws .dyn

/-! ### `TupleVal` -/

theorem TupleVal_loop1_eq (v0 : List Value) : ∀ (l : List Value) (dt : List Ty) (dv : List Payload), dt.length = dv.length →
    TupleVal_loop1 v0 (dt.map some ++ List.replicate l.length none) (dv ++ List.replicate l.length .null)
      (Int.ofNat dv.length) l = .ok ⟨.tuple (dt ++ Gocty.tysOf l), .seq (dv ++ Gocty.payloads l)⟩
  | [], dt, dv, _ => by
    simp [TupleVal_loop1, tyTuple, tysDone_map_some, Res.map, Res.bind, Gocty.tysOf, Gocty.payloads, ifaceSlice]
  | w :: rest, dt, dv, hl => by
    have h1 := sliceSet_next (dt.map some) none (some w.ty) (List.replicate rest.length none)
    have h2 := sliceSet_next dv Payload.null w.v (List.replicate rest.length .null)
    have hlen : (Int.ofNat dv.length + 1) = Int.ofNat (dv ++ [w.v]).length := by simp
    simp only [List.length_map, hl] at h1
    simp only [TupleVal_loop1, List.length_cons, List.replicate_succ, h1, h2, Res.bind]
    rw [hlen]
    have := TupleVal_loop1_eq v0 rest (dt ++ [w.ty]) (dv ++ [w.v]) (by simp [hl])
    simp only [List.map_append, List.map_cons, List.map_nil] at this
    rw [this]
    simp [Gocty.tysOf, Gocty.payloads]

/-- `cty.TupleVal`, for all arguments -/
theorem TupleVal_eq (ws : List Value) : TupleVal ws = .ok (Gocty.tupleVal ws) := by
  unfold TupleVal Gocty.tupleVal
  rw [sliceMake_len, sliceMake_len]
  simp only [Res.bind]
  have := TupleVal_loop1_eq ws ws [] [] rfl
  simpa using this

/-! ### `MapVal`, `CanMapVal`, `ObjectVal`: a Go map argument is its entry list, visited in the order `mapOrder` -/

/-- what is assumed of the order in which `range` visits a map: some permutation of the entries -/
def ConsOrder (ord : List (String × Value) → List (String × Value)) : Prop := ∀ m, (ord m).Perm m

theorem consOrder_id : ConsOrder (fun m => m) := fun _ => List.Perm.refl _
theorem consOrder_reverse : ConsOrder (fun m => m.reverse) := fun m => List.reverse_perm m

/-- keys / values of the entries, in visiting order -/
def keysOf (l : List (String × Value)) : List String := l.map (·.1)
def valsOf (l : List (String × Value)) : List Value := l.map (·.2)

theorem putKV_map {α β} (f : α → β) (k : String) (x : α) : ∀ (ns : List String) (ys : List α),
    D06.putKV k (f x) ns (ys.map f) = ((D06.putKV k x ns ys).1, (D06.putKV k x ns ys).2.map f)
  | [], [] => by simp [D06.putKV]
  | [], _ :: _ => by simp [D06.putKV]
  | _ :: _, [] => by simp [D06.putKV]
  | n :: ns, y :: ys => by
    simp only [List.map_cons, D06.putKV]
    split
    · rfl
    · split
      · rfl
      · rw [putKV_map f k x ns ys]; rfl

theorem MapVal_loop1_eq (ord : List (String × Value) → List (String × Value)) (norm : String → String)
    (v0 : List (String × Value)) : ∀ (l : List (String × Value)) (et : Ty) (m : List String × List Value),
    cls (MapVal_loop1 ord norm v0 et (m.1, m.2.map (·.v)) l) =
    cls ((Gocty.elemTypeOf et (valsOf l)).map fun et' =>
      (⟨.map et', .smap (D06.buildFrom norm (keysOf l) (valsOf l) m).1
        (Gocty.payloads (D06.buildFrom norm (keysOf l) (valsOf l) m).2)⟩ : Value))
  | [], et, m => by
    simp [MapVal_loop1, Gocty.elemTypeOf, valsOf, keysOf, D06.buildFrom, Res.map, ifaceMap, payloads_eq_map]
  | (k, w) :: rest, et, m => by
    have hset : mapSet (m.1, m.2.map (·.v)) (norm k) w.v =
        ((D06.putKV (norm k) w m.1 m.2).1, (D06.putKV (norm k) w m.1 m.2).2.map (·.v)) := by
      simp only [mapSet]; exact putKV_map (·.v) (norm k) w m.1 m.2
    simp only [MapVal_loop1, valsOf, keysOf, List.map_cons, Gocty.elemTypeOf, D06.buildFrom, NormalizeString, Res.bind, hset]
    split
    · exact MapVal_loop1_eq ord norm v0 rest w.ty _
    · split
      · simp [cls, Res.map]
      · exact MapVal_loop1_eq ord norm v0 rest et _

/-- `cty.MapVal`, for all arguments and every visiting order: the generated definition and `D06.mapValN` (the
constructor of `C06.wf_mapVal_normalizing`) on the entries in visiting order return the same value, and panic alike -/
theorem MapVal_eq (ord : List (String × Value) → List (String × Value)) (ho : ConsOrder ord) (norm : String → String)
    (vals : List (String × Value)) :
    cls (MapVal ord norm vals) = cls (D06.mapValN norm (keysOf (ord vals)) (valsOf (ord vals))) := by
  unfold MapVal D06.mapValN
  have hlen : (ord vals).length = vals.length := (ho vals).length_eq
  have he : (mapLen vals == (0 : Int)) = (valsOf (ord vals)).isEmpty := by
    have : (valsOf (ord vals)).isEmpty = vals.isEmpty := by
      cases h1 : ord vals <;> cases h2 : vals <;> simp_all [valsOf]
    rw [this]
    cases vals <;> simp [mapLen] <;> omega
  rw [he]
  split
  · rfl
  · have := MapVal_loop1_eq ord norm vals (ord vals) .dyn ([], [])
    simp only [List.map_nil] at this
    rw [show (mapEmpty : StrMap Payload) = ([], []) from rfl, this]
    unfold D06.buildMap
    cases Gocty.elemTypeOf Ty.dyn (valsOf (ord vals)) <;> rfl

theorem CanMapVal_loop1_eq (ord : List (String × Value) → List (String × Value)) (v0 : List (String × Value)) :
    ∀ (l : List (String × Value)) (et : Ty),
    CanMapVal_loop1 ord v0 et l = .ok (match Gocty.elemTypeOf et (valsOf l) with | .panic _ => false | _ => true)
  | [], et => by simp [CanMapVal_loop1, Gocty.elemTypeOf, valsOf]
  | (k, w) :: rest, et => by
    simp only [CanMapVal_loop1, valsOf, List.map_cons, Gocty.elemTypeOf]
    split
    · exact CanMapVal_loop1_eq ord v0 rest w.ty
    · split
      · rfl
      · exact CanMapVal_loop1_eq ord v0 rest et

theorem CanMapVal_eq (ord : List (String × Value) → List (String × Value)) (vals : List (String × Value)) :
    CanMapVal ord vals = .ok (Gocty.canListVal (valsOf (ord vals))) :=
  CanMapVal_loop1_eq ord vals (ord vals) .dyn

theorem ObjectVal_loop1_eq (ord : List (String × Value) → List (String × Value)) (norm : String → String)
    (v0 : List (String × Value)) : ∀ (l : List (String × Value)) (m : List String × List Value),
    ObjectVal_loop1 ord norm v0 (m.1, m.2.map (·.ty)) (m.1, m.2.map (·.v)) l =
    .ok ⟨D06.objectTy norm (D06.buildFrom norm (keysOf l) (valsOf l) m).1
          (Gocty.tysOf (D06.buildFrom norm (keysOf l) (valsOf l) m).2),
        .smap (D06.buildFrom norm (keysOf l) (valsOf l) m).1 (Gocty.payloads (D06.buildFrom norm (keysOf l) (valsOf l) m).2)⟩
  | [], m => by
    simp [ObjectVal_loop1, valsOf, keysOf, D06.buildFrom, ifaceMap, tyObject, payloads_eq_map, tysOf_eq_map]
  | (k, w) :: rest, m => by
    have h1 : mapSet (m.1, m.2.map (·.v)) (norm k) w.v =
        ((D06.putKV (norm k) w m.1 m.2).1, (D06.putKV (norm k) w m.1 m.2).2.map (·.v)) := by
      simp only [mapSet]; exact putKV_map (·.v) (norm k) w m.1 m.2
    have h2 : mapSet (m.1, m.2.map (·.ty)) (norm k) w.ty =
        ((D06.putKV (norm k) w m.1 m.2).1, (D06.putKV (norm k) w m.1 m.2).2.map (·.ty)) := by
      simp only [mapSet]; exact putKV_map (·.ty) (norm k) w m.1 m.2
    simp only [ObjectVal_loop1, valsOf, keysOf, List.map_cons, D06.buildFrom, NormalizeString, Res.bind, h1, h2]
    exact ObjectVal_loop1_eq ord norm v0 rest _

/-- `cty.ObjectVal`, for all arguments and every visiting order (nothing is assumed of `mapOrder` here): the generated
definition IS `D06.objectValN` (the constructor of `C06.wf_objectVal_normalizing`) on the entries in visiting order -/
theorem ObjectVal_eq (ord : List (String × Value) → List (String × Value)) (norm : String → String)
    (attrs : List (String × Value)) :
    ObjectVal ord norm attrs = .ok (D06.objectValN norm (keysOf (ord attrs)) (valsOf (ord attrs))) := by
  unfold ObjectVal D06.objectValN D06.buildMap
  have := ObjectVal_loop1_eq ord norm attrs (ord attrs) ([], [])
  simp only [List.map_nil] at this
  exact this

/-! ### `SetVal`, `CanSetVal`, `SetValFromValueSet`

`set.NewSetFromSlice` / `Set.Copy` are the TRANSLATED definitions of `Generated/SetFns.lean`, equal to `SetImpl.fromList` /
`SetImpl.copy` by `Lemmas/SetFnsTie.lean`.  `setRules.Hash` is the parameter `hashOf`; the hand-written `Value.setValH`
takes the same hashes as a column `hs`, one per member. -/

/-- `Value.setValH` with the hash as a function (the reading the translation produces) -/
def setValF (hashOf : Ty → Payload → Int) (ws : List Value) : Res Value :=
  if ws.isEmpty then .panic "must not call SetVal with empty slice"
  else (Gocty.elemTypeOf .dyn (ws.map Value.setMember)).map fun et =>
    Fn.withMarkSets ⟨.set et, ifaceSet ⟨(SetImpl.fromList (setRules hashOf et)
      (Gocty.payloads (ws.map Value.setMember))).buckets, setRules hashOf et⟩⟩
      ((ws.filter fun w => w.marksDeep.length > 0).map Value.marksDeep)

/-- what the tie assumes of the members: a value contains a marker iff its deep mark set is not empty (true of
well-formed values: a marker carries a non-empty mark set) -/
def MarksFaithful (w : Value) : Prop := w.containsMarked = decide (w.marksDeep.length > 0)

theorem SetVal_loop1_eq (hashOf : Ty → Payload → Int) (v0 : List Value) :
    ∀ (l : List Value) (done : List Payload) (et : Ty) (ms : List (List String)), (∀ w ∈ l, MarksFaithful w) →
    cls (SetVal_loop1 hashOf v0 et (done ++ List.replicate l.length .null) ms (Int.ofNat done.length) l) =
    cls ((Gocty.elemTypeOf et (l.map Value.setMember)).map fun et' =>
      Fn.withMarkSets ⟨.set et', ifaceSet ⟨(SetImpl.fromList (setRules hashOf et')
        (done ++ Gocty.payloads (l.map Value.setMember))).buckets, setRules hashOf et'⟩⟩
        (ms ++ (l.filter fun w => w.marksDeep.length > 0).map Value.marksDeep))
  | [], done, et, ms, _ => by
    simp [SetVal_loop1, Gocty.elemTypeOf, Gocty.payloads, Res.map, SetFnsTie.NewSetFromSlice_eq, Res.bind]
  | w :: rest, done, et, ms, hm => by
    have hw : w.containsMarked = decide (w.marksDeep.length > 0) := hm w (by simp)
    have hrest : ∀ w ∈ rest, MarksFaithful w := fun x hx => hm x (by simp [hx])
    have hlen : ∀ x : Payload, (Int.ofNat done.length + 1) = Int.ofNat (done ++ [x]).length := by intro x; simp
    simp only [SetVal_loop1, List.length_cons, List.replicate_succ, sliceSet_next, List.map_cons, Gocty.elemTypeOf,
      Gocty.payloads, Res.bind]
    by_cases hc : w.marksDeep.length > 0
    · have hsm : Value.setMember w = w.unmarkDeep := by simp [Value.setMember, hc]
      have hcm : w.containsMarked = true := by rw [hw]; simp [hc]
      have hf : (List.filter (fun w => decide (w.marksDeep.length > 0)) (w :: rest)) =
          w :: List.filter (fun w => decide (w.marksDeep.length > 0)) rest := by simp [List.filter, hc]
      have hpl : done ++ (w.unmarkDeep.v :: Gocty.payloads (rest.map Value.setMember)) =
          (done ++ [w.unmarkDeep.v]) ++ Gocty.payloads (rest.map Value.setMember) := by simp
      have hms : ms ++ (w.marksDeep :: (List.filter (fun w => decide (w.marksDeep.length > 0)) rest).map Value.marksDeep) =
          (ms ++ [w.marksDeep]) ++ (List.filter (fun w => decide (w.marksDeep.length > 0)) rest).map Value.marksDeep := by simp
      simp only [hcm, if_true, hsm, hf, List.map_cons, hpl, hms]
      split
      · rw [hlen]; exact SetVal_loop1_eq hashOf v0 rest _ _ _ hrest
      · split
        · simp [cls, Res.map]
        · rw [hlen]; exact SetVal_loop1_eq hashOf v0 rest _ _ _ hrest
    · have hsm : Value.setMember w = w := by simp [Value.setMember, hc]
      have hcm : w.containsMarked = false := by rw [hw]; simp [hc]
      have hf : (List.filter (fun w => decide (w.marksDeep.length > 0)) (w :: rest)) =
          List.filter (fun w => decide (w.marksDeep.length > 0)) rest := by simp [List.filter, hc]
      have hpl : done ++ (w.v :: Gocty.payloads (rest.map Value.setMember)) =
          (done ++ [w.v]) ++ Gocty.payloads (rest.map Value.setMember) := by simp
      simp only [hcm, hsm, hf, hpl, Bool.false_eq_true, if_false]
      split
      · rw [hlen]; exact SetVal_loop1_eq hashOf v0 rest _ _ _ hrest
      · split
        · simp [cls, Res.map]
        · rw [hlen]; exact SetVal_loop1_eq hashOf v0 rest _ _ _ hrest

/-- `cty.SetVal`, for all arguments whose members are `MarksFaithful`: the generated definition returns what the
hand-written control flow returns with `hashOf` as the hash, and panics on the same arguments -/
theorem SetVal_eq_F (hashOf : Ty → Payload → Int) (ws : List Value) (hm : ∀ w ∈ ws, MarksFaithful w) :
    cls (SetVal hashOf ws) = cls (setValF hashOf ws) := by
  unfold SetVal setValF
  rw [len_eq_zero]
  split
  · rfl
  · rw [sliceMake_len]
    simp only [Res.bind]
    have := SetVal_loop1_eq hashOf ws ws [] .dyn [] hm
    simp only [List.nil_append, List.length_nil] at this
    rw [show (Int.ofNat 0) = (0 : Int) from rfl] at this
    exact this

/-! the hash column of `setValH` against the hash function of the translation -/

/-- a member with its hash -/
def withHash (h : Payload → Int) (p : Payload) : Payload × Int := (p, h p)

def mapBuckets (h : Payload → Int) (bs : List (Int × List Payload)) : List (Int × List (Payload × Int)) :=
  bs.map fun kv => (kv.1, kv.2.map (withHash h))

theorem lookup_mapBuckets (h : Payload → Int) : ∀ (bs : List (Int × List Payload)) (k : Int),
    SetImpl.lookup (mapBuckets h bs) k = (SetImpl.lookup bs k).map (·.map (withHash h))
  | [], k => rfl
  | (k', b) :: rest, k => by
    simp only [mapBuckets, List.map_cons, SetImpl.lookup]
    split
    · rfl
    · exact lookup_mapBuckets h rest k

theorem setBucket_mapBuckets (h : Payload → Int) : ∀ (bs : List (Int × List Payload)) (k : Int) (b : List Payload),
    SetImpl.setBucket (mapBuckets h bs) k (b.map (withHash h)) = mapBuckets h (SetImpl.setBucket bs k b)
  | [], k, b => rfl
  | (k', c) :: rest, k, b => by
    simp only [mapBuckets, List.map_cons, SetImpl.setBucket]
    split
    · rfl
    · split
      · rfl
      · have := setBucket_mapBuckets h rest k b
        simp only [mapBuckets] at this
        simp [this]

theorem add_mapBuckets (hashOf : Ty → Payload → Int) (et : Ty) (s : SetImpl Payload) (x : Payload) :
    SetImpl.add (Value.setRules et) ⟨mapBuckets (hashOf et) s.buckets⟩ (withHash (hashOf et) x) =
    ⟨mapBuckets (hashOf et) (SetImpl.add (setRules hashOf et) s x).buckets⟩ := by
  have hg : ∀ o : Option (List Payload), ((o.map (·.map (withHash (hashOf et)))).getD []) =
      (o.getD []).map (withHash (hashOf et)) := by intro o; cases o <;> rfl
  simp only [SetImpl.add, Value.setRules, setRules, lookup_mapBuckets, hg, List.any_map]
  have hany : ∀ b : List Payload, (b.any ((fun ev : Payload × Int => equivP et (withHash (hashOf et) x).1 ev.1) ∘ withHash (hashOf et))) =
      b.any (fun ev => equivP et x ev) := fun _ => rfl
  rw [hany]
  by_cases hc : (((SetImpl.lookup s.buckets (hashOf et x)).getD []).any fun ev => equivP et x ev) = true
  · have hc' : (((SetImpl.lookup s.buckets (withHash (hashOf et) x).2).getD []).any fun ev => equivP et x ev) = true := hc
    simp only [hc, hc', ↓reduceIte]
  · have hc' : ¬ (((SetImpl.lookup s.buckets (withHash (hashOf et) x).2).getD []).any fun ev => equivP et x ev) = true := hc
    simp only [hc, hc', ↓reduceIte]
    have := setBucket_mapBuckets (hashOf et) s.buckets (hashOf et x) ((SetImpl.lookup s.buckets (hashOf et x)).getD [] ++ [x])
    simp only [List.map_append, List.map_cons, List.map_nil] at this
    exact congrArg SetImpl.mk this

theorem addAll_mapBuckets (hashOf : Ty → Payload → Int) (et : Ty) : ∀ (l : List Payload) (s : SetImpl Payload),
    SetImpl.addWhere (Value.setRules et) (fun _ => true) ⟨mapBuckets (hashOf et) s.buckets⟩ (l.map (withHash (hashOf et))) =
    ⟨mapBuckets (hashOf et) (SetImpl.addWhere (setRules hashOf et) (fun _ => true) s l).buckets⟩
  | [], s => rfl
  | x :: l, s => by
    simp only [SetImpl.addWhere, List.map_cons, List.foldl_cons, if_true]
    rw [add_mapBuckets]
    exact addAll_mapBuckets hashOf et l _

theorem zip_withHash (h : Payload → Int) : ∀ l : List Payload, l.zip (l.map h) = l.map (withHash h)
  | [] => rfl
  | x :: l => by simp [withHash, zip_withHash h l]

theorem flatIds_mapBuckets (h : Payload → Int) : ∀ bs : List (Int × List Payload),
    Value.flatIds (mapBuckets h bs) = bs.flatMap fun kv => kv.2.map fun _ => kv.1
  | [] => rfl
  | kv :: bs => by
    have := flatIds_mapBuckets h bs
    simp only [Value.flatIds, mapBuckets] at this ⊢
    simp [this]

theorem values_mapBuckets (h : Payload → Int) : ∀ bs : List (Int × List Payload),
    (SetImpl.values ⟨mapBuckets h bs⟩).map (·.1) = SetImpl.values ⟨bs⟩
  | [] => rfl
  | kv :: bs => by
    have := values_mapBuckets h bs
    have hid : ∀ l : List Payload, l.map ((fun x : Payload × Int => x.1) ∘ withHash h) = l := by
      intro l; induction l <;> simp_all [withHash]
    simp only [SetImpl.values, mapBuckets] at this ⊢
    simp [this, hid]

/-- with the hashes the function gives, the hand-written `Value.setValH` (the constructor of `C06.wf_setVal_partial`)
is the function-hash reading, wherever `Equals` evaluates on all pairs of members (else `setValH` is `.unmodelled`) -/
theorem setValF_eq_H (hashOf : Ty → Payload → Int) (ws : List Value) (et : Ty)
    (het : Gocty.elemTypeOf .dyn (ws.map Value.setMember) = .ok et)
    (hp : Value.pairsOk et (Gocty.payloads (ws.map Value.setMember)) = true) :
    setValF hashOf ws = Value.setValH ws ((Gocty.payloads (ws.map Value.setMember)).map (hashOf et)) := by
  unfold setValF Value.setValH
  split
  · rfl
  · simp only [het, Res.map, hp, Bool.not_true, Bool.false_eq_true, if_false, zip_withHash]
    have h := addAll_mapBuckets hashOf et (Gocty.payloads (ws.map Value.setMember)) SetImpl.empty
    simp only [SetImpl.fromList]
    rw [show (⟨mapBuckets (hashOf et) (SetImpl.empty : SetImpl Payload).buckets⟩ : SetImpl (Payload × Int)) = SetImpl.empty from rfl] at h
    rw [h, flatIds_mapBuckets, values_mapBuckets]
    rfl

/-- `cty.SetVal` against `Value.setValH`, outcome up to the panic text -/
theorem SetVal_eq (hashOf : Ty → Payload → Int) (ws : List Value) (hm : ∀ w ∈ ws, MarksFaithful w)
    (hp : ∀ et, Gocty.elemTypeOf .dyn (ws.map Value.setMember) = .ok et →
      Value.pairsOk et (Gocty.payloads (ws.map Value.setMember)) = true) :
    cls (SetVal hashOf ws) = cls (match Gocty.elemTypeOf .dyn (ws.map Value.setMember) with
      | .ok et => Value.setValH ws ((Gocty.payloads (ws.map Value.setMember)).map (hashOf et))
      | _ => Value.setValH ws []) := by
  rw [SetVal_eq_F hashOf ws hm]
  cases het : Gocty.elemTypeOf .dyn (ws.map Value.setMember) with
  | ok et => simp only; rw [setValF_eq_H hashOf ws et het (hp et het)]
  | err c => simp [setValF, Value.setValH, het, Res.map]
  | panic w => simp [setValF, Value.setValH, het, Res.map]
  | unmodelled => simp [setValF, Value.setValH, het, Res.map]

theorem CanSetVal_loop1_eq (v0 : List Value) : ∀ (l : List Value) (et : Ty), (∀ w ∈ l, MarksFaithful w) →
    CanSetVal_loop1 v0 et l =
      .ok (match Gocty.elemTypeOf et (l.map Value.setMember) with | .panic _ => false | _ => true)
  | [], et, _ => by simp [CanSetVal_loop1, Gocty.elemTypeOf]
  | w :: rest, et, hm => by
    have hw : w.containsMarked = decide (w.marksDeep.length > 0) := hm w (by simp)
    have hrest : ∀ w ∈ rest, MarksFaithful w := fun x hx => hm x (by simp [hx])
    simp only [CanSetVal_loop1, List.map_cons, Gocty.elemTypeOf]
    by_cases hc : w.marksDeep.length > 0
    · have hsm : Value.setMember w = w.unmarkDeep := by simp [Value.setMember, hc]
      have hcm : w.containsMarked = true := by rw [hw]; simp [hc]
      simp only [hcm, if_true, hsm]
      split
      · exact CanSetVal_loop1_eq v0 rest _ hrest
      · split
        · rfl
        · exact CanSetVal_loop1_eq v0 rest _ hrest
    · have hsm : Value.setMember w = w := by simp [Value.setMember, hc]
      have hcm : w.containsMarked = false := by rw [hw]; simp [hc]
      simp only [hcm, hsm, Bool.false_eq_true, if_false]
      split
      · exact CanSetVal_loop1_eq v0 rest _ hrest
      · split
        · rfl
        · exact CanSetVal_loop1_eq v0 rest _ hrest

/-- `cty.CanSetVal`: the element-type loop over the members as `SetVal` stores them would not panic -/
theorem CanSetVal_eq (ws : List Value) (hm : ∀ w ∈ ws, MarksFaithful w) :
    CanSetVal ws = .ok (Gocty.canListVal (ws.map Value.setMember)) :=
  CanSetVal_loop1_eq ws ws .dyn hm

/-- `cty.SetValFromValueSet`: the set under the result is the model's `copy` of the argument's, whatever order `Copy`
ranges over the buckets in (`Lemmas/SetFnsTie.lean`); for a set whose map is ascending, as every map the harness prints -/
theorem SetValFromValueSet_eq (ord : SetGo.GoMap Payload → SetGo.GoMap Payload) (ho : SetFnsTie.MapOrder ord)
    (ety : Ty) (R : Rules Payload) (s : SetImpl Payload) (ha : SetImpl.Asc s.buckets) :
    SetValFromValueSet ord ⟨ety, ⟨s.buckets, R⟩⟩ = .ok ⟨.set ety, ifaceSet ⟨(SetImpl.copy s).buckets, R⟩⟩ := by
  simp only [SetValFromValueSet, SetFnsTie.Set_Copy_eq ord ho R s ha, Res.bind]

/-! ### the order of a Go map `range` is immaterial — when no two keys collide after normalisation

`rawMap[NormalizeString(key)] = val.v`: two raw keys with one normal form write the same entry, the later write wins, and
which one is later is Go's choice (the recorded C20 finding `constructor-key-normalization-collision`). -/

theorem putKV_len {α} (k : String) (x : α) : ∀ (ns : List String) (ys : List α), ns.length = ys.length →
    (D06.putKV k x ns ys).1.length = (D06.putKV k x ns ys).2.length
  | [], [], _ => by simp [D06.putKV]
  | [], _ :: _, h => by simp at h
  | _ :: _, [], h => by simp at h
  | n :: ns, y :: ys, h => by
    have ih := putKV_len k x ns ys (by simpa using h)
    simp only [D06.putKV]
    grind

/-- writes to two different keys commute -/
theorem putKV_comm {α} (k1 k2 : String) (x1 x2 : α) (hne : k1 ≠ k2) : ∀ (ns : List String) (ys : List α),
    ns.length = ys.length →
    D06.putKV k1 x1 (D06.putKV k2 x2 ns ys).1 (D06.putKV k2 x2 ns ys).2 =
    D06.putKV k2 x2 (D06.putKV k1 x1 ns ys).1 (D06.putKV k1 x1 ns ys).2
  | [], [], _ => by
    simp only [D06.putKV]
    grind
  | [], _ :: _, h => by simp at h
  | _ :: _, [], h => by simp at h
  | n :: ns, y :: ys, h => by
    have ih := putKV_comm k1 k2 x1 x2 hne ns ys (by simpa using h)
    simp only [D06.putKV]
    grind [D06.putKV]

/-- no two entries have the same key after normalisation -/
def NormDistinct {α} (norm : String → String) (l : List (String × α)) : Prop :=
  (l.map fun kv => norm kv.1).Pairwise (· ≠ ·)

theorem normDistinct_perm {α} (norm : String → String) {l1 l2 : List (String × α)} (hp : l1.Perm l2)
    (h : NormDistinct norm l1) : NormDistinct norm l2 := by
  unfold NormDistinct at h ⊢
  exact ((hp.map fun kv => norm kv.1).pairwise_iff (fun {a b} (hab : a ≠ b) => hab.symm)).mp h

theorem buildFrom_perm {α} (norm : String → String) {l1 l2 : List (String × α)} (hp : l1.Perm l2) :
    NormDistinct norm l1 → ∀ acc : List String × List α, acc.1.length = acc.2.length →
    D06.buildFrom norm (l1.map (·.1)) (l1.map (·.2)) acc = D06.buildFrom norm (l2.map (·.1)) (l2.map (·.2)) acc := by
  induction hp with
  | nil => intros; rfl
  | cons x _ ih =>
    intro hd acc hl
    simp only [List.map_cons, D06.buildFrom]
    exact ih (List.Pairwise.of_cons (by simpa [NormDistinct] using hd)) _ (putKV_len _ _ _ _ hl)
  | swap x y l =>
    intro hd acc hl
    have hne : norm y.1 ≠ norm x.1 := by
      simp only [NormDistinct, List.map_cons, List.pairwise_cons] at hd
      exact hd.1 _ (by simp)
    simp only [List.map_cons, D06.buildFrom]
    rw [putKV_comm (norm x.1) (norm y.1) x.2 y.2 (Ne.symm hne) acc.1 acc.2 hl]
  | trans h1 _ ih1 ih2 =>
    intro hd acc hl
    rw [ih1 hd acc hl, ih2 (normDistinct_perm norm h1 hd) acc hl]

/-- `cty.ObjectVal` on attribute names that stay pairwise different after normalisation: the result does not depend on the
order in which `range` visits the map — it is `D06.objectValN` on the entries in ANY fixed order -/
theorem ObjectVal_order_immaterial (ord : List (String × Value) → List (String × Value)) (ho : ConsOrder ord)
    (norm : String → String) (attrs : List (String × Value)) (hd : NormDistinct norm attrs) :
    ObjectVal ord norm attrs = .ok (D06.objectValN norm (keysOf attrs) (valsOf attrs)) := by
  rw [ObjectVal_eq]
  unfold D06.objectValN D06.buildMap keysOf valsOf
  rw [buildFrom_perm norm (ho attrs) (normDistinct_perm norm (ho attrs).symm hd) ([], []) rfl]

/-- the same for the payload of `cty.MapVal` (its element type is computed from the values in visiting order) -/
theorem MapVal_keys_order_immaterial (ord : List (String × Value) → List (String × Value)) (ho : ConsOrder ord)
    (norm : String → String) (vals : List (String × Value)) (hd : NormDistinct norm vals) :
    D06.buildMap norm (keysOf (ord vals)) (valsOf (ord vals)) = D06.buildMap norm (keysOf vals) (valsOf vals) := by
  unfold D06.buildMap keysOf valsOf
  exact buildFrom_perm norm (ho vals) (normDistinct_perm norm (ho vals).symm hd) ([], []) rfl

/-- … and FALSE without it: "é" decomposed and precomposed are one attribute after normalisation, and the visiting order
decides whose value (and type) the object gets -/
def collideNorm (s : String) : String := if s = "é" then "é" else s
def collideAttrs : List (String × Value) := [("é", ⟨.string, .s "1"⟩), ("é", ⟨.bool, .b true⟩)]
def collideVals : List (String × Value) := [("é", ⟨.string, .s "1"⟩), ("é", ⟨.string, .s "2"⟩)]

theorem ObjectVal_order_counterexample :
    (match ObjectVal (fun m => m) collideNorm collideAttrs, ObjectVal (fun m => m.reverse) collideNorm collideAttrs with
      | .ok ⟨.object ["é"] [.bool] _, .smap ["é"] [.b true]⟩,
        .ok ⟨.object ["é"] [.string] _, .smap ["é"] [.s "1"]⟩ => true
      | _, _ => false) = true ∧
    (match MapVal (fun m => m) collideNorm collideVals, MapVal (fun m => m.reverse) collideNorm collideVals with
      | .ok ⟨.map .string, .smap ["é"] [.s "2"]⟩, .ok ⟨.map .string, .smap ["é"] [.s "1"]⟩ => true
      | _, _ => false) = true := by
  decide

/-! ### the element-type loop of `ListVal` / `MapVal` / `SetVal` does not depend on the order of the values -/

theorem isDynTy_iff (t : Ty) : Gocty.isDynTy t = true ↔ t = .dyn := by
  cases t <;> simp [Gocty.isDynTy]

/-- the types that take part in the element-type computation -/
def nonDyn (ws : List Value) : List Ty := (ws.map (·.ty)).filter fun t => !Gocty.isDynTy t

theorem mem_nonDyn {ws : List Value} {t : Ty} (h : t ∈ nonDyn ws) : ∃ w ∈ ws, w.ty = t := by
  simp only [nonDyn, List.mem_filter, List.mem_map] at h
  exact h.1

/-- with a fixed (non-placeholder) element type: every later non-placeholder type must equal it -/
theorem elemTypeOf_fixed (acc : Ty) (ha : Gocty.isDynTy acc = false) : ∀ ws : List Value,
    Gocty.elemTypeOf acc ws =
      if (nonDyn ws).all (fun t => Ty.equals acc t) then .ok acc else .panic "inconsistent element types"
  | [] => by simp [Gocty.elemTypeOf, nonDyn]
  | w :: ws => by
    have ih := elemTypeOf_fixed acc ha ws
    simp only [Gocty.elemTypeOf, ha, Bool.false_eq_true, if_false, nonDyn, List.map_cons, List.filter_cons]
    cases hd : Gocty.isDynTy w.ty
    · simp only [Bool.not_false, Bool.true_and, if_true, List.all_cons]
      cases he : Ty.equals acc w.ty
      · simp
      · simpa [nonDyn] using ih
    · simpa [nonDyn] using ih

theorem elemTypeOf_dyn : ∀ ws : List Value,
    Gocty.elemTypeOf .dyn ws = match nonDyn ws with
      | [] => .ok .dyn
      | t :: rest => if rest.all (fun s => Ty.equals t s) then .ok t else .panic "inconsistent element types"
  | [] => by simp [Gocty.elemTypeOf, nonDyn]
  | w :: ws => by
    have h0 : Gocty.isDynTy Ty.dyn = true := rfl
    simp only [Gocty.elemTypeOf, h0, if_true, nonDyn, List.map_cons, List.filter_cons]
    cases hd : Gocty.isDynTy w.ty
    · simp only [Bool.not_false, if_true]
      exact elemTypeOf_fixed w.ty hd ws
    · have : w.ty = .dyn := (isDynTy_iff _).mp hd
      simp only [Bool.not_true, Bool.false_eq_true, if_false]
      rw [this]
      exact elemTypeOf_dyn ws

/-- the outcome of the element-type loop does not depend on the order of the values -/
theorem elemTypeOf_perm {ws ws' : List Value} (hp : ws.Perm ws') (hw : ∀ w ∈ ws, w.ty.wf = true) :
    Gocty.elemTypeOf .dyn ws = Gocty.elemTypeOf .dyn ws' := by
  rw [elemTypeOf_dyn ws, elemTypeOf_dyn ws']
  have hnd : (nonDyn ws).Perm (nonDyn ws') := (hp.map _).filter _
  have hwf : ∀ t ∈ nonDyn ws, t.wf = true := by
    intro t ht; obtain ⟨w, hw', rfl⟩ := mem_nonDyn ht; exact hw w hw'
  revert hnd hwf
  generalize nonDyn ws = l, nonDyn ws' = l'
  intro hnd hwf
  have hwf' : ∀ t ∈ l', t.wf = true := fun t ht => hwf t (hnd.mem_iff.mpr ht)
  -- "all members equal the head" is a property of the set of members
  have key : ∀ (t : Ty) (rest : List Ty) (t' : Ty) (rest' : List Ty), (∀ s ∈ t :: rest, s.wf = true) →
      (∀ s ∈ t' :: rest', s.wf = true) → (∀ s, s ∈ t :: rest ↔ s ∈ t' :: rest') →
      rest.all (fun s => Ty.equals t s) = true → t' = t ∧ rest'.all (fun s => Ty.equals t' s) = true := by
    intro t rest t' rest' h1 h2 hm ha
    have hall : ∀ s ∈ t :: rest, s = t := by
      intro s hs
      rcases List.mem_cons.mp hs with rfl | hs'
      · rfl
      · have := (List.all_eq_true.mp ha) s hs'
        exact ((Ty.equals_iff_eq t s (h1 t (by simp)) (h1 s hs)).mp this).symm
    have ht' : t' = t := hall t' ((hm t').mpr (by simp))
    refine ⟨ht', ?_⟩
    rw [List.all_eq_true]; intro s hs
    have hs' : s ∈ t' :: rest' := by simp [hs]
    have := hall s ((hm s).mpr hs')
    rw [this, ht']
    exact (Ty.equals_iff_eq t t (h1 t (by simp)) (h1 t (by simp))).mpr rfl
  cases l with
  | nil => rw [List.nil_perm.mp hnd]
  | cons t rest =>
    cases l' with
    | nil => exact absurd (List.perm_nil.mp hnd) (by simp)
    | cons t' rest' =>
      simp only
      by_cases ha : rest.all (fun s => Ty.equals t s) = true
      · obtain ⟨ht', ha'⟩ := key t rest t' rest' hwf hwf' (fun s => hnd.mem_iff) ha
        subst ht'
        simp only [ha, ha', if_true]
      · have ha' : ¬ rest'.all (fun s => Ty.equals t' s) = true := by
          intro ha'
          exact ha (key t' rest' t rest hwf' hwf (fun s => hnd.mem_iff.symm) ha').2
        simp [ha, ha']

/-- `cty.MapVal` on keys that stay pairwise different after normalisation, values of representable types: the outcome
(value, or the inconsistent-types panic) does not depend on the order in which `range` visits the map -/
theorem mapValN_order_immaterial (ord : List (String × Value) → List (String × Value)) (ho : ConsOrder ord)
    (norm : String → String) (vals : List (String × Value)) (hd : NormDistinct norm vals)
    (hw : ∀ kv ∈ vals, kv.2.ty.wf = true) :
    D06.mapValN norm (keysOf (ord vals)) (valsOf (ord vals)) = D06.mapValN norm (keysOf vals) (valsOf vals) := by
  have hp : (valsOf (ord vals)).Perm (valsOf vals) := (ho vals).map _
  have hw' : ∀ w ∈ valsOf (ord vals), w.ty.wf = true := by
    intro w h
    simp only [valsOf, List.mem_map] at h
    obtain ⟨kv, hkv, rfl⟩ := h
    exact hw kv ((ho vals).mem_iff.mp hkv)
  have he : (valsOf (ord vals)).isEmpty = (valsOf vals).isEmpty := by
    have := hp.length_eq
    cases h1 : valsOf (ord vals) <;> cases h2 : valsOf vals <;> simp_all
  unfold D06.mapValN
  rw [MapVal_keys_order_immaterial ord ho norm vals hd, elemTypeOf_perm hp hw', he]

theorem MapVal_order_immaterial (ord ord' : List (String × Value) → List (String × Value)) (ho : ConsOrder ord)
    (ho' : ConsOrder ord') (norm : String → String) (vals : List (String × Value)) (hd : NormDistinct norm vals)
    (hw : ∀ kv ∈ vals, kv.2.ty.wf = true) : cls (MapVal ord norm vals) = cls (MapVal ord' norm vals) := by
  rw [MapVal_eq ord ho, MapVal_eq ord' ho', mapValN_order_immaterial ord ho norm vals hd hw,
    mapValN_order_immaterial ord' ho' norm vals hd hw]

/-! ### what the `SetVal` tie assumes of its members holds of well-formed values -/

theorem marksFaithful_of_markerWF {w : Value} (h : w.v.markerWF = true) : MarksFaithful w := by
  unfold MarksFaithful
  cases hc : w.containsMarked
  · have : w.marksDeep = [] := Payload.marksDeep_of_not_containsMarked _ hc
    simp [this]
  · cases hm : w.marksDeep with
    | nil =>
      have := Payload.not_containsMarked_of_marksDeep_nil w.v h hm
      simp [Value.containsMarked, this] at hc
    | cons _ _ => simp

theorem marksFaithful_of_WF {nfc : String → Bool} {w : Value} (h : w.WF nfc = true) : MarksFaithful w :=
  marksFaithful_of_markerWF (Fn.markerWF_of_WF h)

/-! ### outcomes up to the panic text -/

theorem ok_of_cls {β} {a b : Res β} (h : cls a = cls b) {r : β} (ha : a = .ok r) : b = .ok r := by
  subst ha; cases b <;> simp [cls] at h ⊢; exact h.symm

theorem isPanic_of_cls {β} {a b : Res β} (h : cls a = cls b) : a.isPanic = b.isPanic := by
  cases a <;> cases b <;> simp [cls] at h <;> rfl

theorem isPanic_listVal (ws : List Value) : (Gocty.listVal ws).isPanic = (ws.isEmpty || !Gocty.canListVal ws) := by
  unfold Gocty.listVal Gocty.canListVal
  split
  · simp [*, Res.isPanic]
  · rename_i h
    cases Gocty.elemTypeOf Ty.dyn ws <;> simp [h, Res.isPanic]

theorem isPanic_mapValN (norm : String → String) (ks : List String) (ws : List Value) :
    (D06.mapValN norm ks ws).isPanic = (ws.isEmpty || !Gocty.canListVal ws) := by
  unfold D06.mapValN Gocty.canListVal
  split
  · simp [*, Res.isPanic]
  · rename_i h
    cases Gocty.elemTypeOf Ty.dyn ws <;> simp [h, Res.isPanic]

end ConsTie
end CtyModel
