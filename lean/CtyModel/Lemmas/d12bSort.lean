/-
C12 / d12b: `sort` end to end (string.go SortFunc, `AllowUnknown`).  A list that is not wholly known is
answered by the unknown list of strings REFINED with the length bounds of the argument's range: the number
of elements of a list known at the top, the bounds of an unknown list's own refinement, `[0, MaxInt]`
otherwise.  Sorting keeps the length, so the bounds are true of the concrete result.
-/
import CtyModel.Lemmas.d12bElement
import CtyModel.Lemmas.StdlibSeq
namespace CtyModel
namespace D12b
open Fn Stdlib C12L Cov

/-- `UnknownVal(list(e)).Refine().CollectionLengthLowerBound(lo).CollectionLengthUpperBound(hi).NewValue()` when
some `n` with `0 ≤ n ≤ MaxInt` lies within the bounds: an unknown list whose length range still holds `n` -/
theorem refine_lenBounds (e : Ty) (lo hi n : Int) (h1 : lo ≤ n) (h2 : n ≤ hi) (h0 : 0 ≤ n) (hm : n ≤ Refine.maxInt) :
    ∃ lo' hi', Refine.refine (Value.unknown (.list e)) [.lenLower lo, .lenUpper hi] =
      .ok ⟨.list e, .unk (.coll .u lo' hi')⟩ ∧ lo' ≤ n ∧ n ≤ hi' := by
  have hinit : Refine.init (Value.unknown (.list e)) = .ok ⟨⟨.list e, .unk .unref⟩, [], .coll .u 0 Refine.maxInt⟩ := by
    simp [Refine.init, Value.unknown, Value.unmark, Payload.unmark1, Payload.isMarked, Refine.freshWip, Value.marks,
      Payload.marks1]
  -- first call
  have hs1 : ∃ lo', Refine.step ⟨⟨.list e, .unk .unref⟩, [], .coll .u 0 Refine.maxInt⟩ (.lenLower lo) =
      .ok ⟨⟨.list e, .unk .unref⟩, [], .coll .u lo' Refine.maxInt⟩ ∧ lo' ≤ n ∧ 0 ≤ lo' := by
    simp only [Refine.step, Refine.Builder.isDyn, Refine.isDynVal, Bool.false_eq_true, if_false, Refine.step1,
      Refine.stepLenLower, Value.isKnown, Payload.isKnown, Payload.unmark1]
    have hne : (Rfn.coll Tri.u 0 Refine.maxInt = Rfn.unref) = False := by simp
    simp only [hne, if_false]
    by_cases hc : 0 > lo
    · exact ⟨0, by simp [hc], h0, Int.le_refl 0⟩
    · have : ¬ Refine.maxInt < lo := by omega
      exact ⟨lo, by simp [hc, this], h1, by omega⟩
  obtain ⟨lo', hs1, hl1, hl0⟩ := hs1
  have hs2 : ∃ hi', Refine.step ⟨⟨.list e, .unk .unref⟩, [], .coll .u lo' Refine.maxInt⟩ (.lenUpper hi) =
      .ok ⟨⟨.list e, .unk .unref⟩, [], .coll .u lo' hi'⟩ ∧ n ≤ hi' := by
    simp only [Refine.step, Refine.Builder.isDyn, Refine.isDynVal, Bool.false_eq_true, if_false, Refine.step1,
      Refine.stepLenUpper, Value.isKnown, Payload.isKnown, Payload.unmark1]
    have hne : (Rfn.coll Tri.u lo' Refine.maxInt = Rfn.unref) = False := by simp
    simp only [hne, if_false]
    by_cases hc : Refine.maxInt < hi
    · exact ⟨Refine.maxInt, by simp [hc], hm⟩
    · have : ¬ hi < lo' := by omega
      exact ⟨hi, by simp [hc, this], h2⟩
  obtain ⟨hi', hs2, hl2⟩ := hs2
  refine ⟨lo', hi', ?_, hl1, hl2⟩
  simp only [Refine.refine, hinit, Res.bind, Refine.run, hs1, hs2, Refine.newValue, Value.isKnown, Payload.isKnown,
    Payload.unmark1, Refine.Builder.isDyn, Refine.isDynVal, Bool.or_self, Bool.false_eq_true, if_false, Rfn.nullness]
  rfl

theorem sortCollect_length : ∀ (es : List Value) (l : List String), sortCollect es = .ok l → l.length = es.length
  | [], l, h => by simp [sortCollect] at h; subst h; rfl
  | v :: es, l, h => by
    simp only [sortCollect] at h
    split at h
    · cases h
    · cases ha : asString v with
      | ok s =>
        cases hr : sortCollect es with
        | ok l' =>
          rw [ha, hr] at h
          simp only [Res.ok.injEq] at h
          subst h
          simp [sortCollect_length es l' hr]
        | err c => rw [ha, hr] at h; cases h
        | panic c => rw [ha, hr] at h; cases h
        | unmodelled => rw [ha, hr] at h; cases h
      | err c => rw [ha] at h; cases hr : sortCollect es <;> rw [hr] at h <;> cases h
      | panic c => rw [ha] at h; cases hr : sortCollect es <;> rw [hr] at h <;> cases h
      | unmodelled => rw [ha] at h; cases hr : sortCollect es <;> rw [hr] at h <;> cases h

theorem payloads_length (ws : List Value) : (Gocty.payloads ws).length = ws.length := by
  rw [payloads_eq_map]; simp

/-- the concrete `sort` of a wholly known list returns a sequence with as many members -/
theorem sort_concrete_shape (E : Env) {o r : Value} {e : Ty} {vs : List Payload} (rt : Ty) (hty : o.ty = .list e)
    (hv : o.v = .seq vs) (hk : o.whollyKnown = true) (h : sortImpl E [o] rt = .ok r) :
    ∃ ps, r.v = .seq ps ∧ ps.length = vs.length := by
  obtain ⟨ot, op⟩ := o
  simp only at hty hv
  subst hty hv
  simp only [sortImpl, hk, Bool.not_true, Bool.false_eq_true, if_false] at h
  have hl : Stdlib.lengthInt ⟨.list e, .seq vs⟩ = .ok vs.length := by
    simp [Stdlib.lengthInt, Value.isMarked, Payload.isMarked]
  rw [hl] at h
  simp only at h
  split at h
  · cases h; exact ⟨vs, rfl, rfl⟩
  · have he : elems E ⟨.list e, .seq vs⟩ = .ok (vs.map (⟨e, ·⟩)) := by simp [elems]
    rw [he] at h
    simp only at h
    cases hc : sortCollect (vs.map (⟨e, ·⟩)) with
    | ok l =>
      rw [hc] at h
      simp only [Gocty.listVal] at h
      split at h
      · cases h
      · cases het : Gocty.elemTypeOf .dyn ((sortStrings l).map strVal) with
        | ok et =>
          rw [het] at h
          cases h
          refine ⟨_, rfl, ?_⟩
          rw [payloads_length, List.length_map, (sortStrings_perm l).length_eq, sortCollect_length _ _ hc, List.length_map]
        | err c => rw [het] at h; cases h
        | panic c => rw [het] at h; cases h
        | unmodelled => rw [het] at h; cases h
    | err c => rw [hc] at h; cases h
    | panic c => rw [hc] at h; cases h
    | unmodelled => rw [hc] at h; cases h

/-- an unknown list whose length range holds the number of members of `r` admits `r` -/
theorem covers_lenRange_seq {t : Ty} {lo hi : Int} {r : Value} {ps : List Payload} (hm : Ty.matches t r.ty = true)
    (hv : r.v = .seq ps) (h1 : lo ≤ ps.length) (h2 : (ps.length : Int) ≤ hi) :
    Covers ⟨t, .unk (.coll .u lo hi)⟩ r = true := by
  obtain ⟨rt, rp⟩ := r
  simp only at hv
  subst hv
  simp only [Covers, CoversG, hm, Bool.true_and, Payload.stripMarks, coversP, admits, Rfn.nullness, rfnAdmitsKnown,
    possibleLen, stripMarksL_length]
  simp only [h1, h2, decide_true, Bool.and_self, Bool.and_true]
  decide

/-- the length bounds `Value.Range()` reports for a weakening of a list hold the list's length -/
theorem range_len_bounds {w o : Value} {e : Ty} {vs : List Payload} (htw : w.ty = .list e)
    (hov : o.v = .seq vs) (hmw : w.containsMarked = false) (hmo : o.containsMarked = false)
    (hc : CoversX w o = true) (hfo : (vs.length : Int) ≤ Refine.maxInt) :
    ∃ rng lo hi, Refine.range w = .ok rng ∧ Refine.ValueRange.lengthLowerBound rng = .ok lo ∧
      Refine.ValueRange.lengthUpperBound rng = .ok hi ∧ lo ≤ (vs.length : Int) ∧ (vs.length : Int) ≤ hi := by
  obtain ⟨wt, wp⟩ := w
  obtain ⟨ot, op⟩ := o
  simp only at htw hov
  subst htw hov
  simp only [CoversX, CoversG, Bool.and_eq_true] at hc
  have h1 := stripMarks_clean' wp hmw
  have h2 := stripMarks_clean' (.seq vs) hmo
  simp only [h1, h2] at hc
  have hc2 := hc.2
  cases wp with
  | unk ρ =>
    simp only [coversP, admits, Bool.and_eq_true] at hc2
    cases ρ with
    | coll n lo hi =>
      simp only [rfnAdmitsKnown, possibleLen, Bool.and_eq_true, decide_eq_true_eq] at hc2
      refine ⟨⟨.list e, .coll n lo hi⟩, lo, hi, by simp [Refine.range], by simp [Refine.ValueRange.lengthLowerBound, Refine.isCollectionTy],
        by simp [Refine.ValueRange.lengthUpperBound, Refine.isCollectionTy], hc2.2.1, hc2.2.2⟩
    | unref =>
      exact ⟨⟨.list e, .nullable .u⟩, 0, Refine.maxInt, by simp [Refine.range], by simp [Refine.ValueRange.lengthLowerBound, Refine.isCollectionTy],
        by simp [Refine.ValueRange.lengthUpperBound, Refine.isCollectionTy], by omega, hfo⟩
    | nullable n =>
      exact ⟨⟨.list e, .nullable n⟩, 0, Refine.maxInt, by simp [Refine.range], by simp [Refine.ValueRange.lengthLowerBound, Refine.isCollectionTy],
        by simp [Refine.ValueRange.lengthUpperBound, Refine.isCollectionTy], by omega, hfo⟩
    | str n p => simp [rfnAdmitsKnown] at hc2
    | num n a b => simp [rfnAdmitsKnown] at hc2
  | seq ws =>
    simp only [coversP] at hc2
    have hl := coversL_length hc2
    refine ⟨⟨.list e, .coll .f ws.length ws.length⟩, ws.length, ws.length, by simp [Refine.range, Refine.knownLength],
      by simp [Refine.ValueRange.lengthLowerBound, Refine.isCollectionTy],
      by simp [Refine.ValueRange.lengthUpperBound, Refine.isCollectionTy], by omega, by omega⟩
  | marked ms q => simp [Value.containsMarked, Payload.containsMarked] at hmw
  | _ => simp [coversP] at hc2

theorem sortType_eq (a b : List Value) : sortType a = sortType b := rfl

/-- **`sort`** at the level of the callback -/
theorem sort_implSound (E : Env) (o w : Value) (hlt : o.ty = .list .string) (hty : w.ty = o.ty)
    (hk : o.whollyKnown = true) (hmw : w.containsMarked = false) (hmo : o.containsMarked = false)
    (hs : noSet w.v = true) (hfo : o.lenFits = true) (hc : CoversX w o = true) :
    ImplSoundAt sortType (sortImpl E) [o] [w] := by
  intro rt rt' r ho hw hio hconf hwf' hrwf hrefl
  simp only [sortType, Res.ok.injEq] at ho hw
  subst ho hw
  by_cases hkw : w.whollyKnown = true
  · have := coversX_wk_eq hty hmw hmo hkw hs hc
    subst this
    exact ⟨r, hio, hconf, hrefl⟩
  · -- the concrete argument is a known, non-null list
    have hov : ∃ vs, o.v = .seq vs := by
      obtain ⟨ot, op⟩ := o
      simp only at hlt
      subst hlt
      simp only [sortImpl, hk, Bool.not_true, Bool.false_eq_true, if_false] at hio
      have hnm := clean_not_marked hmo
      cases op <;> simp [Stdlib.lengthInt, hnm, Value.whollyKnown, Payload.whollyKnown] at hio hk ⊢
    obtain ⟨vs, hov⟩ := hov
    obtain ⟨ps, hps, hpl⟩ := sort_concrete_shape E _ hlt hov hk hio
    have hfit : (vs.length : Int) ≤ Refine.maxInt := by
      obtain ⟨hu, _⟩ := clean_unmark hmo
      have hu1 : o.v.unmark1 = o.v := by
        have := congrArg Value.v hu
        simpa [Value.unmark] using this
      simp only [Value.lenFits, hlt, Bool.true_and, hov, Payload.unmark1, possibleLen, decide_eq_true_eq] at hfo
      exact hfo
    obtain ⟨rng, lo, hi, hr1, hr2, hr3, hb1, hb2⟩ := range_len_bounds (hty.trans hlt) hov hmw hmo hc hfit
    obtain ⟨lo', hi', href, hb1', hb2'⟩ := refine_lenBounds .string lo hi vs.length hb1 hb2 (by omega) hfit
    have hkw' : w.whollyKnown = false := by simpa using hkw
    refine ⟨⟨.list .string, .unk (.coll .u lo' hi')⟩, ?_, ?_, ?_⟩
    · simp only [sortImpl, hkw', Bool.not_false, if_true, hty.trans hlt, hr1, hr2, hr3]
      exact href
    · rfl
    · exact covers_lenRange_seq ((Ty.conform_iff _ r.ty hwf' hrwf).mp hconf) hps (by rw [hpl]; exact hb1')
        (by rw [hpl]; exact hb2')

end D12b
end CtyModel
