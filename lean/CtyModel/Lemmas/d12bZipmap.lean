/-
C12 / d12b: `zipmap` end to end (collection.go ZipmapFunc): the KEYS are guarded — a keys list that is not
wholly known gives the unknown of the predicted type — while the VALUES (a list or tuple known at the top)
may hold unknown members, which are stored under their keys as they are (`values.Index(i)`, C01
`sound_index`); a later duplicate key overrides an earlier one in the concrete and in the weakened call alike.
-/
import CtyModel.Lemmas.d12bStrlen
namespace CtyModel
namespace D12b
open Fn Stdlib C12L Cov

/-- the weakened association list has the concrete one's keys and, under each key, a value of the same type
that admits the concrete value -/
def AssocCov : List (String × Value) → List (String × Value) → Prop
  | [], [] => True
  | a :: lw, b :: lo => (a.1 = b.1 ∧ a.2.ty = b.2.ty ∧ Covers a.2 b.2 = true) ∧ AssocCov lw lo
  | _, _ => False

theorem amInsert_cov {k : String} {vw vo : Value} (hv : vw.ty = vo.ty ∧ Covers vw vo = true) :
    ∀ {lw lo : List (String × Value)}, AssocCov lw lo → AssocCov (amInsert k vw lw) (amInsert k vo lo)
  | [], [], _ => ⟨⟨rfl, hv⟩, trivial⟩
  | _ :: _, [], h => by cases h
  | [], _ :: _, h => by cases h
  | (kw, xw) :: lw, (ko, xo) :: lo, h => by
    obtain ⟨⟨hk, hx⟩, tl⟩ := h
    simp only at hk
    subst hk
    simp only [amInsert]
    split
    · exact ⟨⟨rfl, hv⟩, ⟨rfl, hx⟩, tl⟩
    · split
      · exact ⟨⟨rfl, hv⟩, tl⟩
      · exact ⟨⟨rfl, hx⟩, amInsert_cov hv tl⟩

theorem assocCov_keys : ∀ {lw lo : List (String × Value)}, AssocCov lw lo → lw.map (·.1) = lo.map (·.1)
  | [], [], _ => rfl
  | _ :: _, [], h => by cases h
  | [], _ :: _, h => by cases h
  | _ :: _, _ :: _, h => by simp [h.1.1, assocCov_keys h.2]

theorem assocCov_vals : ∀ {lw lo : List (String × Value)}, AssocCov lw lo →
    Gocty.tysOf (lw.map (·.2)) = Gocty.tysOf (lo.map (·.2)) ∧
    coversL false (Payload.stripMarksL (Gocty.payloads (lw.map (·.2)))) (Payload.stripMarksL (Gocty.payloads (lo.map (·.2)))) = true
  | [], [], _ => ⟨rfl, rfl⟩
  | _ :: _, [], h => by cases h
  | [], _ :: _, h => by cases h
  | a :: _, b :: _, h => by
    obtain ⟨h1, h2⟩ := assocCov_vals h.2
    have hc : coversP false a.2.v.stripMarks b.2.v.stripMarks = true := by
      have := h.1.2.2
      simp only [Covers, CoversG, Bool.and_eq_true] at this
      exact this.2
    exact ⟨by simp [Gocty.tysOf, h.1.2.1, h1], by simp [Gocty.payloads, Payload.stripMarksL, coversL, hc, h2]⟩

theorem assocCov_length {lw lo : List (String × Value)} (h : AssocCov lw lo) : lw.length = lo.length := by
  have := congrArg List.length (assocCov_keys h)
  simpa using this

/-- the key loop of `Impl` with the values weakened member by member -/
theorem zipmapLoop_cov {ov wv : Value} (hk : ov.whollyKnown = true) (hfo : ov.wfc = true) (hfw : wv.wfc = true)
    (hmo : ov.containsMarked = false) (hmw : wv.containsMarked = false) (hty : wv.ty = ov.ty)
    (hc : CoversX wv ov = true) :
    ∀ (ks : List Value) (i : Nat) (outo outw : List (String × Value)) (marks : List String)
      (ro : List (String × Value)) (mo : List String),
    AssocCov outw outo → zipmapLoop ov ks i outo marks = .ok (ro, mo) →
    ∃ rw, zipmapLoop wv ks i outw marks = .ok (rw, mo) ∧ AssocCov rw ro
  | [], i, outo, outw, marks, ro, mo, ha, h => by
    simp only [zipmapLoop, Res.ok.injEq, Prod.mk.injEq] at h
    obtain ⟨rfl, rfl⟩ := h
    exact ⟨outw, rfl, ha⟩
  | v0 :: rest, i, outo, outw, marks, ro, mo, ha, h => by
    simp only [zipmapLoop] at h ⊢
    split at h
    · cases h
    · rename_i hn
      simp only [hn, if_false]
      cases hi : Value.index ov (Value.intVal i) with
      | ok val =>
        rw [hi] at h
        obtain ⟨val', h1, h2, h3⟩ := index_int_sound (i : Int) hk hfo hfw hmo hmw hty hc hi
        rw [h1]
        simp only at h ⊢
        cases hs : asString v0.unmark with
        | ok k =>
          rw [hs] at h
          simp only at h ⊢
          exact zipmapLoop_cov hk hfo hfw hmo hmw hty hc rest (i + 1) _ _ _ ro mo (amInsert_cov ⟨h2, h3⟩ ha) h
        | err c => rw [hs] at h; cases h
        | panic c => rw [hs] at h; cases h
        | unmodelled => rw [hs] at h; cases h
      | err c => rw [hi] at h; cases h
      | panic c => rw [hi] at h; cases h
      | unmodelled => rw [hi] at h; cases h

/-- a map / object value built from an association list that admits the concrete one -/
theorem mapVal_cov {lw lo : List (String × Value)} (h : AssocCov lw lo) {r : Value}
    (hr : Gocty.mapVal (lo.map (·.1)) (lo.map (·.2)) = .ok r) :
    ∃ r', Gocty.mapVal (lw.map (·.1)) (lw.map (·.2)) = .ok r' ∧ r'.ty = r.ty ∧ Covers r' r = true := by
  obtain ⟨ht, hp⟩ := assocCov_vals h
  unfold Gocty.mapVal at hr ⊢
  have he : (lw.map (·.2)).isEmpty = (lo.map (·.2)).isEmpty := by
    have := assocCov_length h
    cases lw <;> cases lo <;> simp_all
  rw [he, elemTypeOf_tys _ _ _ ht, assocCov_keys h]
  split at hr
  · cases hr
  · rename_i hne
    simp only [hne, if_false]
    cases hel : Gocty.elemTypeOf .dyn (lo.map (·.2)) with
    | ok et =>
      rw [hel] at hr
      simp only [Res.ok.injEq] at hr ⊢
      subst hr
      refine ⟨_, rfl, rfl, ?_⟩
      simp [Covers, CoversG, Ty.matches_refl, Payload.stripMarks, coversP, hp]
    | err c => rw [hel] at hr; cases hr
    | panic c => rw [hel] at hr; cases hr
    | unmodelled => rw [hel] at hr; cases hr

theorem objectVal_cov {lw lo : List (String × Value)} (h : AssocCov lw lo) :
    (Gocty.objectVal (lw.map (·.1)) (lw.map (·.2))).ty = (Gocty.objectVal (lo.map (·.1)) (lo.map (·.2))).ty ∧
    Covers (Gocty.objectVal (lw.map (·.1)) (lw.map (·.2))) (Gocty.objectVal (lo.map (·.1)) (lo.map (·.2))) = true := by
  obtain ⟨ht, hp⟩ := assocCov_vals h
  unfold Gocty.objectVal
  rw [ht, assocCov_keys h]
  exact ⟨rfl, by simp [Covers, CoversG, Ty.matches_refl, Payload.stripMarks, coversP, hp]⟩

theorem zipmapType_mono (E : Env) {ok wk ov wv : Value} (htv : wv.ty = ov.ty) (hk : wk = ok ∨ wk.whollyKnown = false) :
    TypeMonoAt (zipmapType E) [ok, ov] [wk, wv] := by
  rcases hk with rfl | hk
  · exact typeMonoAt_of_eq (by simp [zipmapType, htv])
  · intro t ht
    simp only [zipmapType, htv] at ht ⊢
    split at ht
    · exact ⟨t, ht, fun _ hc => hc⟩
    · simp only [hk, Bool.not_false, if_true]
      exact ⟨.dyn, rfl, admits_dyn' t⟩
    · cases ht

/-- **`zipmap`** at the level of the callback -/
theorem zipmap_implSound (E : Env) (ok wk ov wv : Value) (htk : wk.ty = ok.ty) (htv : wv.ty = ov.ty)
    (hmok : ok.containsMarked = false) (hmwk : wk.containsMarked = false)
    (hmov : ov.containsMarked = false) (hmwv : wv.containsMarked = false)
    (hsk : noSet wk.v = true) (hck : CoversX wk ok = true)
    (hkv : ov.whollyKnown = true) (hfo : ov.wfc = true) (hfw : wv.wfc = true) (hkwv : wv.isKnown = true)
    (hcv : CoversX wv ov = true) :
    ImplSoundAt (zipmapType E) (zipmapImpl E) [ok, ov] [wk, wv] := by
  intro rt rt' r ho hw hio hconf hwf' hrwf hrefl
  obtain ⟨huwk, hmswk⟩ := clean_unmark hmwk
  obtain ⟨huok, hmsok⟩ := clean_unmark hmok
  obtain ⟨huwv, hmswv⟩ := clean_unmark hmwv
  obtain ⟨huov, hmsov⟩ := clean_unmark hmov
  have hum : unionMarks ([] : List String) [] = [] := rfl
  by_cases hkw : wk.whollyKnown = true
  · have := coversX_wk_eq htk hmwk hmok hkw hsk hck
    subst this
    have hrt : rt' = rt := by
      have : zipmapType E [wk, wv] = zipmapType E [wk, ov] := by simp [zipmapType, htv]
      rw [this, ho] at hw
      cases hw; rfl
    subst hrt
    have hns : isSetTy ov.ty = false := by
      simp only [zipmapType] at ho
      split at ho <;> simp_all [isSetTy]
    simp only [zipmapImpl, huwk, hmswk, huwv, hmswv, huov, hmsov, hum, hkw, Bool.not_true, Bool.false_eq_true, if_false] at hio ⊢
    cases hlk : Stdlib.lengthInt wk with
    | ok lk =>
      cases hlv : Stdlib.lengthInt ov with
      | ok lv =>
        rw [hlk, hlv] at hio
        rw [lengthInt_covers hmwv hmov htv hcv hkwv hns hlv]
        simp only at hio ⊢
        split at hio
        · cases hio
        · rename_i hne
          simp only [hne, if_false]
          cases hel : elems E wk with
          | ok ks =>
            rw [hel] at hio
            simp only at hio ⊢
            cases hz : zipmapLoop ov ks 0 [] [] with
            | ok p =>
              obtain ⟨outo, mo⟩ := p
              rw [hz] at hio
              obtain ⟨outw, hzw, hac⟩ := zipmapLoop_cov hkv hfo hfw hmov hmwv htv hcv ks 0 [] [] [] outo mo trivial hz
              rw [hzw]
              simp only at hio ⊢
              rw [assocCov_length hac]
              cases rt' with
              | map e =>
                simp only at hio ⊢
                split at hio
                · rename_i h0
                  simp only [h0, if_true]
                  exact ⟨r, hio, hconf, hrefl⟩
                · rename_i h0
                  simp only [h0, if_false]
                  obtain ⟨mv, hmv, rfl⟩ := res_map_ok hio
                  obtain ⟨mv', h1, h2, h3⟩ := mapVal_cov hac hmv
                  rw [h1]
                  refine ⟨_, rfl, ?_, ?_⟩
                  · show Ty.conformErrs (.map e) (Stdlib.withMarkSets mv' [mo]).ty = 0
                    have : (Stdlib.withMarkSets mv' [mo]).ty = (Stdlib.withMarkSets mv [mo]).ty := by
                      simp only [Stdlib.withMarkSets, Fn.withMarkSets]
                      split <;> first | exact h2 | (simp only [withMarks_ty]; exact h2)
                    rw [this]; exact hconf
                  · show Covers (Stdlib.withMarkSets mv' [mo]) (Stdlib.withMarkSets mv [mo]) = true
                    simp only [Stdlib.withMarkSets, Fn.withMarkSets]
                    split
                    · exact h3
                    · rw [covers_withMarks_left, covers_withMarks_right]; exact h3
              | object ns ts os =>
                simp only [Res.ok.injEq] at hio ⊢
                subst hio
                obtain ⟨h2, h3⟩ := objectVal_cov hac
                refine ⟨_, rfl, ?_, ?_⟩
                · have : (Stdlib.withMarkSets (Gocty.objectVal (outw.map (·.1)) (outw.map (·.2))) [mo]).ty =
                      (Stdlib.withMarkSets (Gocty.objectVal (outo.map (·.1)) (outo.map (·.2))) [mo]).ty := by
                    simp only [Stdlib.withMarkSets, Fn.withMarkSets]
                    split <;> first | exact h2 | (simp only [withMarks_ty]; exact h2)
                  rw [this]; exact hconf
                · simp only [Stdlib.withMarkSets, Fn.withMarkSets]
                  split
                  · exact h3
                  · rw [covers_withMarks_left, covers_withMarks_right]; exact h3
              | _ => simp at hio
            | err c => rw [hz] at hio; cases hio
            | panic c => rw [hz] at hio; cases hio
            | unmodelled => rw [hz] at hio; cases hio
          | err c => rw [hel] at hio; cases hio
          | panic c => rw [hel] at hio; cases hio
          | unmodelled => rw [hel] at hio; cases hio
      | err c => rw [hlk, hlv] at hio; cases hio
      | panic c => rw [hlk, hlv] at hio; cases hio
      | unmodelled => rw [hlk, hlv] at hio; cases hio
    | err c => rw [hlk] at hio; cases hlv : Stdlib.lengthInt ov <;> rw [hlv] at hio <;> cases hio
    | panic c => rw [hlk] at hio; cases hlv : Stdlib.lengthInt ov <;> rw [hlv] at hio <;> cases hio
    | unmodelled => rw [hlk] at hio; cases hlv : Stdlib.lengthInt ov <;> rw [hlv] at hio <;> cases hio
  · have hkw' : wk.whollyKnown = false := by simpa using hkw
    obtain ⟨h1, h2⟩ := unk_branch (zipmapType_mono E htv (Or.inr hkw')) ho hw hconf hwf' hrwf
    simp only [zipmapImpl, huwk, hmswk, hmswv, hum, hkw', Bool.not_false, if_true]
    refine ⟨_, rfl, ?_, ?_⟩
    · rw [withMarkSets_nil1']; exact h1
    · rw [withMarkSets_nil1', covers_withMarks_left]; exact h2

end D12b
end CtyModel
