/-
C12 / d12b: per-function soundness of modelled `Impl` callbacks (Stdlib/Collection.lean) — the helpers
shared by the functions and the functions whose unknown handling is a guard at the top of the callback.
-/
import CtyModel.Lemmas.d12bRefl
import CtyModel.Lemmas.d12bLength
namespace CtyModel
namespace D12b
open Fn Stdlib C12L Value

/-- the unknown of the type predicted for the weakened arguments conforms to it and admits the concrete result -/
theorem unk_branch {tf : TypeFn} {os ws : List Value} (hm : TypeMonoAt tf os ws) {rt rt' : Ty} {r : Value}
    (ho : tf os = .ok rt) (hw : tf ws = .ok rt') (hconf : Ty.conformErrs rt r.ty = 0)
    (hwf' : Ty.wf rt' = true) (hrwf : Ty.wf r.ty = true) :
    Ty.conformErrs rt' (Value.unknown rt').ty = 0 ∧ Covers (Value.unknown rt') r = true := by
  obtain ⟨t', ht', had⟩ := hm rt ho
  rw [hw] at ht'
  cases ht'
  constructor
  · exact (Ty.conform_iff rt' rt' hwf' hwf').mpr (Ty.matches_refl rt')
  · exact unknown_covers_of_matches rt' r ((Ty.conform_iff rt' r.ty hwf' hrwf).mp (had _ hconf))

theorem clean_unmark {v : Value} (h : v.containsMarked = false) : v.unmark = v ∧ v.marks = [] := by
  obtain ⟨t, p⟩ := v
  cases p <;> simp_all [Value.unmark, Payload.unmark1, Value.marks, Payload.marks1, Value.containsMarked,
    Payload.containsMarked]

/-- **Guarded callbacks**: an `Impl` with one argument that answers `UnknownVal(retType)` as soon as the
argument is not wholly known (`compact`, `distinct`).  A wholly known weakening of a (set-free) value is the
value itself, so past the guard both calls compute the same thing. -/
theorem guarded_implSound {tf : TypeFn} {impl : ImplFn} {o w : Value}
    (hgate : ∀ rt, w.whollyKnown = false → impl [w] rt = .ok (Value.unknown rt))
    (hm : TypeMonoAt tf [o] [w]) (hty : w.ty = o.ty)
    (hmw : w.containsMarked = false) (hmo : o.containsMarked = false) (hs : noSet w.v = true)
    (hc : CoversX w o = true) : ImplSoundAt tf impl [o] [w] := by
  intro rt rt' r ho hw hio hconf hwf' hrwf hrefl
  by_cases hk : w.whollyKnown = true
  · have := coversX_wk_eq hty hmw hmo hk hs hc
    subst this
    rw [ho] at hw
    cases hw
    exact ⟨r, hio, hconf, hrefl⟩
  · have hk' : w.whollyKnown = false := by simpa using hk
    obtain ⟨h1, h2⟩ := unk_branch hm ho hw hconf hwf' hrwf
    exact ⟨_, hgate rt' hk', h1, h2⟩

/-- a `Type` callback that is the same function of the argument TYPES is monotone on type-keeping pairs -/
theorem typeMonoAt_of_eq {tf : TypeFn} {os ws : List Value} (h : tf ws = tf os) : TypeMonoAt tf os ws := by
  intro t ht
  exact ⟨t, by rw [h]; exact ht, fun _ hc => hc⟩

/-- one argument whose parameter does not say `AllowDynamicType`: a weakening that passes the checks is
not `cty.DynamicVal`, so it kept the type -/
theorem ty_kept_of_passes_nodyn {spec : Spec} {w o : Value}
    (h : ((spec.expand 1).head?.map (·.allowDynamic)) = some false) (hp : Passes spec [w])
    (hty : w.ty = o.ty ∨ w.ty.isDyn = true) : w.ty = o.ty := by
  rcases hty with h' | h'
  · exact h'
  · exfalso
    unfold Passes at hp
    simp only [List.length_singleton] at hp
    cases he : spec.expand 1 with
    | nil => rw [he] at h; simp at h
    | cons p ps =>
      rw [he] at h hp
      simp only [List.head?_cons, Option.map_some, Option.some.injEq] at h
      simp only [firstFail] at hp
      cases hc : p.check w with
      | some f => rw [hc] at hp; simp at hp
      | none =>
        unfold Param.check at hc
        split at hc
        · cases hc
        · simp [h', h] at hc

/-- one argument whose parameter does not say `AllowUnknown`: a weakening that reaches `Impl` is known -/
theorem known_of_reaches1 {spec : Spec} {w : Value}
    (h : ((spec.expand 1).head?.map (·.allowUnknown)) = some false) (hr : ReachesImpl spec [w]) :
    w.isKnown = true := by
  unfold ReachesImpl at hr
  simp only [List.length_singleton] at hr
  cases he : spec.expand 1 with
  | nil => rw [he] at h; simp at h
  | cons p ps =>
    rw [he] at h hr
    simp only [List.head?_cons, Option.map_some, Option.some.injEq] at h
    simp only [pass2, Bool.or_eq_false_iff, Param.blocksUnknown, h, Bool.not_false, Bool.and_true] at hr
    simpa using hr.1

theorem compact_implSound (E : Env) (o w : Value) (hty : w.ty = o.ty)
    (hmw : w.containsMarked = false) (hmo : o.containsMarked = false) (hs : noSet w.v = true)
    (hc : CoversX w o = true) : ImplSoundAt compactType (compactImpl E) [o] [w] :=
  guarded_implSound (fun rt hk => compact_unknown_branch E w [] rt hk) (typeMonoAt_of_eq rfl) hty hmw hmo hs hc

theorem distinct_implSound (E : Env) (o w : Value) (hty : w.ty = o.ty)
    (hmw : w.containsMarked = false) (hmo : o.containsMarked = false) (hs : noSet w.v = true)
    (hc : CoversX w o = true) : ImplSoundAt distinctType (distinctImpl E) [o] [w] :=
  guarded_implSound (fun rt hk => by simp [distinctImpl, hk])
    (typeMonoAt_of_eq (by simp [distinctType, hty])) hty hmw hmo hs hc

end D12b
end CtyModel
