/-
Fuel monotonicity of the conversion model (audit C08 item 3 / brief item 2): `.unmodelled`
("out of fuel") is strict — every combinator of `applyStep` propagates it — so an outcome
other than `.unmodelled` at some fuel is the outcome at every larger fuel.  No hypothesis on
the environment, the plan or the value.
-/
import CtyModel.Convert
namespace CtyModel
namespace Convert

/-- `a` is `.unmodelled` or already the final answer `b` -/
def ResLe {α} (a b : Res α) : Prop := a = .unmodelled ∨ a = b

theorem ResLe.refl {α} (a : Res α) : ResLe a a := .inr rfl

theorem ResLe.bind {α β} {a a' : Res α} {f f' : α → Res β} (h : ResLe a a') (hf : ∀ x, ResLe (f x) (f' x)) :
    ResLe (a.bind f) (a'.bind f') := by
  rcases h with rfl | rfl
  · exact .inl rfl
  · cases a with
    | ok x => exact hf x
    | err c => exact .inr rfl
    | panic w => exact .inr rfl
    | unmodelled => exact .inl rfl

theorem ResLe.map {α β} {a a' : Res α} (f : α → β) (h : ResLe a a') : ResLe (a.map f) (a'.map f) := by
  rcases h with rfl | rfl
  · exact .inl rfl
  · exact .inr rfl

theorem mapRes_le {α β} {f g : α → Res β} (h : ∀ x, ResLe (f x) (g x)) : ∀ (xs : List α),
    ResLe (mapRes f xs) (mapRes g xs)
  | [] => .inr rfl
  | x :: xs => by
    simp only [mapRes]
    exact ResLe.bind (h x) fun b => ResLe.bind (mapRes_le h xs) fun bs => ResLe.refl _

section
variable {rec rec' : Rec} (h : ∀ p v, ResLe (rec p v) (rec' p v))
include h

theorem applyOpt_le (p : Plan) (v : Value) : ResLe (applyOpt rec p v) (applyOpt rec' p v) := by
  cases p <;> first | exact ResLe.refl _ | exact h _ v

theorem applyZip_le (post : Value → Value) : ∀ (ps : List Plan) (vs : List Value),
    ResLe (applyZip rec post ps vs) (applyZip rec' post ps vs)
  | _, [] => by cases ‹List Plan› <;> exact .inr rfl
  | [], _ :: _ => .inr rfl
  | p :: ps, v :: vs => by
    simp only [applyZip]
    exact ResLe.bind (applyOpt_le h p v) fun v' => ResLe.bind (applyZip_le post ps vs) fun vs' => ResLe.refl _

theorem unifyElems_le (E : Env) (uns : Bool) (vs : List Value) :
    ResLe (unifyElems E rec uns vs) (unifyElems E rec' uns vs) := by
  unfold unifyElems
  split
  · exact .inr rfl
  · apply mapRes_le
    intro v
    split
    · exact .inr rfl
    · split
      · exact .inr rfl
      · exact h _ v

theorem objAttrLoop_le (keys : List String) (convs : List Plan) : ∀ (ns : List String) (vs : List Value),
    ResLe (objAttrLoop rec keys convs ns vs) (objAttrLoop rec' keys convs ns vs)
  | [], _ => by simp only [objAttrLoop]; exact .inr rfl
  | _ :: _, [] => by simp only [objAttrLoop]; exact .inr rfl
  | n :: ns, v :: vs => by
    simp only [objAttrLoop]
    have ih := objAttrLoop_le keys convs ns vs
    split
    · exact ih
    · exact ih
    · exact ResLe.bind (applyOpt_le h _ v) fun v' => ResLe.bind ih fun r => ResLe.refl _

theorem mapObjLoop_le (names : List String) (tys : List Ty) (opts : List Bool) (convs : List Plan) :
    ∀ (ks : List String) (vs : List Value),
    ResLe (mapObjLoop rec names tys opts convs ks vs) (mapObjLoop rec' names tys opts convs ks vs)
  | [], _ => by simp only [mapObjLoop]; exact .inr rfl
  | _ :: _, [] => by simp only [mapObjLoop]; exact .inr rfl
  | k :: ks, v :: vs => by
    simp only [mapObjLoop]
    have ih := mapObjLoop_le names tys opts convs ks vs
    split
    · exact ih
    · refine ResLe.bind ?_ fun v' => ResLe.bind ih fun r => ResLe.refl _
      split
      · exact .inr rfl
      · exact .inr rfl
      · exact .inr rfl
      · exact h _ v

theorem convertWith_le (E : Env) (v : Value) (want : Ty) :
    ResLe (convertWith E rec v want) (convertWith E rec' v want) := by
  unfold convertWith
  split
  · exact .inr rfl
  · split
    · exact .inr rfl
    · exact h _ v

/-- one closure body is monotone in the function standing for the nested calls -/
theorem applyStep_mono (E : Env) : ∀ (p : Plan) (v : Value), ResLe (applyStep E rec p v) (applyStep E rec' p v) := by
  intro p v
  cases p with
  | nil | impossible | absent | dynPass | numToStr | boolToStr | strToNum | strToBool => exact .inr rfl
  | emptyToSet _ | emptyToList _ | emptyToMap _ => exact .inr rfl
  | wrap out conv =>
    simp only [applyStep]
    split
    · rcases h (.wrap out conv) v.unmark with hu | he
      · rw [hu]; exact .inl rfl
      · rw [he]; exact .inr rfl
    · split
      · exact .inr rfl
      · split
        · exact .inr rfl
        · exact h conv v
  | dynFixup want =>
    simp only [applyStep]
    rcases convertWith_le h E v want with hu | he
    · rw [hu]; exact .inl rfl
    · rw [he]; exact .inr rfl
  | objToObj keys convs on ot oo =>
    simp only [applyStep]
    exact ResLe.bind (ResLe.refl _) fun es => ResLe.bind (objAttrLoop_le h keys convs _ es) fun r => ResLe.refl _
  | tupToTup convs =>
    simp only [applyStep]
    exact ResLe.bind (ResLe.refl _) fun es => ResLe.bind (applyZip_le h id convs es) fun r => ResLe.refl _
  | collToList ety conv =>
    simp only [applyStep]
    split
    · exact .inr rfl
    · exact ResLe.bind (ResLe.refl _) fun es =>
        ResLe.bind (mapRes_le (fun e => ResLe.map stripNull (applyOpt_le h conv e)) es) fun r => ResLe.refl _
  | collToSet ety conv =>
    simp only [applyStep]
    exact ResLe.bind (ResLe.refl _) fun es =>
      ResLe.bind (mapRes_le (fun e => ResLe.map stripNull (applyOpt_le h conv e)) es) fun r => ResLe.refl _
  | collToMap ety conv =>
    simp only [applyStep]
    refine ResLe.bind (ResLe.refl _) fun es =>
      ResLe.bind (mapRes_le (fun e => applyOpt_le h conv e) es) fun es' => ?_
    split
    · exact .inr rfl
    · refine ResLe.bind ?_ fun r => ResLe.refl _
      split
      · exact unifyElems_le h E false es'
      · exact .inr rfl
  | tupToSet convs =>
    simp only [applyStep]
    exact ResLe.bind (ResLe.refl _) fun es => ResLe.bind (applyZip_le h stripNull convs es) fun r => ResLe.refl _
  | tupToList convs uns =>
    simp only [applyStep]
    exact ResLe.bind (ResLe.refl _) fun es => ResLe.bind (applyZip_le h id convs es) fun es' =>
      ResLe.bind (unifyElems_le h E uns es') fun r => ResLe.refl _
  | objToMap keys convs mapEty uns =>
    simp only [applyStep]
    refine ResLe.bind (ResLe.refl _) fun es => ResLe.bind (applyZip_le h id _ es) fun es' =>
      ResLe.bind ?_ fun r => ResLe.refl _
    split
    · exact unifyElems_le h E uns es'
    · exact .inr rfl
  | mapToObj names tys opts convs =>
    simp only [applyStep]
    exact ResLe.bind (ResLe.refl _) fun es =>
      ResLe.bind (mapObjLoop_le h names tys opts convs _ es) fun r => ResLe.refl _

end

theorem apply_mono_succ (E : Env) : ∀ (fuel : Nat) (p : Plan) (v : Value),
    ResLe (apply E fuel p v) (apply E (fuel + 1) p v)
  | 0, _, _ => .inl rfl
  | fuel + 1, p, v => by
    simp only [apply]
    exact applyStep_mono (fun p v => apply_mono_succ E fuel p v) E p v

/-- **fuel monotonicity**: an outcome other than "out of fuel" is the outcome at every larger fuel -/
theorem apply_mono (E : Env) {fuel fuel' : Nat} (hle : fuel ≤ fuel') (p : Plan) (v : Value)
    (hne : apply E fuel p v ≠ .unmodelled) : apply E fuel' p v = apply E fuel p v := by
  induction hle with
  | refl => rfl
  | step _ ih =>
    rename_i m _
    rcases apply_mono_succ E m p v with hu | he
    · rw [ih] at hu; exact absurd hu hne
    · rw [← he, ih]

theorem convert_mono (E : Env) {fuel fuel' : Nat} (hle : fuel ≤ fuel') (v : Value) (want : Ty)
    (hne : convert E fuel v want ≠ .unmodelled) : convert E fuel' v want = convert E fuel v want := by
  unfold convert convertWith at hne ⊢
  split
  · rfl
  · split
    · rfl
    · rename_i p hp
      simp only [hp] at hne
      split at hne
      · rename_i h1 _ h2; exact absurd h2 h1
      · exact apply_mono E hle p v hne

end Convert
end CtyModel
