/-
Lemmas for the function-call protocol (C10), part 2: `Function.Call` as a
decision table in specification vocabulary (`CallCase`), with the trace of
callback invocations; facts about the deferred refinement; per-position facts
about the argument lists the callbacks are handed.
-/
import CtyModel.Lemmas.FnCall
import CtyModel.Lemmas.TyConform
namespace CtyModel
namespace Fn

/-! ### outcome classes -/

/-- The classes of outcomes of `Function.Call`.  `unmodelled` is not an outcome
of the Go code: it is what the model answers when a callback parameter answers
`Res.unmodelled` (a callback outside the modelled fragment). -/
inductive Kind where
  | argCount        -- plain error: wrong number of arguments
  | argError        -- `function.ArgError` naming the first offending argument
  | shortCircuit    -- unknown value of the checked return type, `Impl` not invoked
  | callbackError   -- the error a callback returned, handed through
  | panicError      -- `function.PanicError`: a callback panicked, or `Impl`'s value does not conform
  | value           -- `Impl`'s value with the unhandled marks, refined
  | unmodelled
  deriving DecidableEq, Repr

/-- a value the deferred refinement applies to:
`val.IsKnown() || val.Type() != cty.DynamicPseudoType` -/
def typed (v : Value) : Bool := v.isKnown || !v.ty.isDyn

/-- `Function.Call` up to (not including) the deferred refinement, as a decision table in
specification vocabulary: for each class the conditions on the inputs under which it
arises, the outcome, and the trace of callback invocations.  `typeArgs`/`implArgs` are the
argument lists handed to the callbacks.  (`call = finish spec (callUnrefined …)`:
`call_eq_finish`.) -/
inductive CallCase (spec : Spec) (tf : TypeFn) (impl : ImplFn) (args : List Value) :
    Kind → Out Value × List Event → Prop where
  | count : spec.countOK args.length = false →
      CallCase spec tf impl args .argCount (.err .argCount, [])
  | argError (k : Nat) (f : ArgFail) : spec.countOK args.length = true →
      FirstFailAt spec args k f → f ≠ .dynamic →
      CallCase spec tf impl args .argError (.err (.arg k), [])
  | dynShort (k : Nat) (u : Value) : spec.countOK args.length = true →
      FirstFailAt spec args k .dynamic → WithUnhandled spec args (Value.unknown .dyn) u →
      CallCase spec tf impl args .shortCircuit (.ok u, [])
  | typeErr (c : String) : spec.countOK args.length = true → AllPass spec args →
      tf (typeArgs spec args) = .err c →
      CallCase spec tf impl args .callbackError (.err (.callback c), [.type (typeArgs spec args)])
  | typePanic (w : String) : spec.countOK args.length = true → AllPass spec args →
      tf (typeArgs spec args) = .panic w →
      CallCase spec tf impl args .panicError (.err (.panicError w), [.type (typeArgs spec args)])
  | typeUnmodelled : spec.countOK args.length = true → AllPass spec args →
      tf (typeArgs spec args) = .unmodelled →
      CallCase spec tf impl args .unmodelled (.unmodelled, [.type (typeArgs spec args)])
  | unkShort (rt : Ty) (u : Value) : spec.countOK args.length = true → AllPass spec args →
      tf (typeArgs spec args) = .ok rt → SomeUnknownBlocked spec args →
      WithUnhandled spec args (Value.unknown rt) u →
      CallCase spec tf impl args .shortCircuit (.ok u, [.type (typeArgs spec args)])
  | implErr (rt : Ty) (c : String) : spec.countOK args.length = true → AllPass spec args →
      tf (typeArgs spec args) = .ok rt → ¬ SomeUnknownBlocked spec args →
      impl (implArgs spec args) rt = .err c →
      CallCase spec tf impl args .callbackError
        (.err (.callback c), [.type (typeArgs spec args), .impl (implArgs spec args) rt])
  | implPanic (rt : Ty) (w : String) : spec.countOK args.length = true → AllPass spec args →
      tf (typeArgs spec args) = .ok rt → ¬ SomeUnknownBlocked spec args →
      impl (implArgs spec args) rt = .panic w →
      CallCase spec tf impl args .panicError
        (.err (.panicError w), [.type (typeArgs spec args), .impl (implArgs spec args) rt])
  | implUnmodelled (rt : Ty) : spec.countOK args.length = true → AllPass spec args →
      tf (typeArgs spec args) = .ok rt → ¬ SomeUnknownBlocked spec args →
      impl (implArgs spec args) rt = .unmodelled →
      CallCase spec tf impl args .unmodelled
        (.unmodelled, [.type (typeArgs spec args), .impl (implArgs spec args) rt])
  | nonconforming (rt : Ty) (v : Value) (w : String) : spec.countOK args.length = true →
      AllPass spec args → tf (typeArgs spec args) = .ok rt → ¬ SomeUnknownBlocked spec args →
      impl (implArgs spec args) rt = .ok v → Ty.conformErrs rt v.ty ≠ 0 →
      CallCase spec tf impl args .panicError
        (.err (.panicError w), [.type (typeArgs spec args), .impl (implArgs spec args) rt])
  | value (rt : Ty) (v u : Value) : spec.countOK args.length = true →
      AllPass spec args → tf (typeArgs spec args) = .ok rt → ¬ SomeUnknownBlocked spec args →
      impl (implArgs spec args) rt = .ok v → Ty.conformErrs rt v.ty = 0 →
      WithUnhandled spec args v u →
      CallCase spec tf impl args .value
        (.ok u, [.type (typeArgs spec args), .impl (implArgs spec args) rt])

theorem implArgs_eq (spec : Spec) (args : List Value) :
    (pass2 (spec.expand args.length) args).args = implArgs spec args := pass2_args_eq _ _

theorem finish_err (spec : Spec) (e : CallErr) (tr : List Event) :
    finish spec (.err e, tr) = (.err e, tr) := by
  unfold finish; cases spec.refine <;> simp [deferredRefine]

theorem finish_unmodelled (spec : Spec) (tr : List Event) :
    finish spec ((.unmodelled : Out Value), tr) = (.unmodelled, tr) := by
  unfold finish; cases spec.refine <;> simp [deferredRefine]

theorem finish_none {spec : Spec} (h : spec.refine = none) (o : Out Value × List Event) :
    finish spec o = o := by
  unfold finish; simp [h]

/-- every call without a declared refinement falls into (at least) one class of the decision table -/
theorem call_case_of_refine_none (spec : Spec) (tf : TypeFn) (impl : ImplFn) (args : List Value)
    (hr : spec.refine = none) :
    ∃ k, CallCase spec tf impl args k (call spec tf impl args) := by
  rw [call_eq]
  unfold callTable
  by_cases hc : spec.countOK args.length = true
  · simp only [hc, if_true]
    cases hf : firstFail (spec.expand args.length) args with
    | some kf =>
      obtain ⟨k, f⟩ := kf
      have hat := firstFail_to_at hc hf
      cases f with
      | null => exact ⟨_, .argError k .null hc hat (by simp)⟩
      | nonconforming => exact ⟨_, .argError k .nonconforming hc hat (by simp)⟩
      | dynamic => exact ⟨_, .dynShort k _ hc hat (withUnhandled_withMarkSets hc _)⟩
    | none =>
      have hap := firstFail_to_allPass hc hf
      simp only
      change ∃ k, CallCase spec tf impl args k
        (match tf (typeArgs spec args) with
          | .err c => (.err (.callback c), [.type (typeArgs spec args)])
          | .panic w => (.err (.panicError w), [.type (typeArgs spec args)])
          | .unmodelled => (.unmodelled, [.type (typeArgs spec args)])
          | .ok rt => finish spec
              ((callTail impl rt false (pass2 (spec.expand args.length) args)).1,
                .type (typeArgs spec args) :: (callTail impl rt false (pass2 (spec.expand args.length) args)).2))
      cases ht : tf (typeArgs spec args) with
      | err c => exact ⟨_, .typeErr c hc hap ht⟩
      | panic w => exact ⟨_, .typePanic w hc hap ht⟩
      | unmodelled => exact ⟨_, .typeUnmodelled hc hap ht⟩
      | ok rt =>
        simp only [finish_none hr]
        unfold callTail
        rw [implArgs_eq]
        cases hu : (pass2 (spec.expand args.length) args).unknown with
        | true =>
          simp only [Bool.false_or, if_true]
          exact ⟨_, .unkShort rt _ hc hap ht ((someUnknownBlocked_iff hc).mp hu)
            (withUnhandled_withMarkSets hc _)⟩
        | false =>
          have hnb : ¬ SomeUnknownBlocked spec args := fun h => by
            have := (someUnknownBlocked_iff hc).mpr h; rw [hu] at this; simp at this
          simp only [Bool.false_or, Bool.false_eq_true, if_false]
          cases hi : impl (implArgs spec args) rt with
          | err c => exact ⟨_, .implErr rt c hc hap ht hnb hi⟩
          | panic w => exact ⟨_, .implPanic rt w hc hap ht hnb hi⟩
          | unmodelled => exact ⟨_, .implUnmodelled rt hc hap ht hnb hi⟩
          | ok v =>
            simp only
            have hwu := withUnhandled_cond hc v
            by_cases hcf : Ty.conformErrs rt v.ty = 0
            · have : Ty.conformErrs rt
                  (if (pass2 (spec.expand args.length) args).marks.length > 0 then
                    withMarkSets v (pass2 (spec.expand args.length) args).marks else v).ty = 0 := by
                rw [hwu.1]; exact hcf
              simp only [this, bne_self_eq_false, Bool.false_eq_true, if_false]
              exact ⟨_, .value rt v _ hc hap ht hnb hi hcf hwu⟩
            · have : (Ty.conformErrs rt
                  (if (pass2 (spec.expand args.length) args).marks.length > 0 then
                    withMarkSets v (pass2 (spec.expand args.length) args).marks else v).ty != 0) = true := by
                rw [hwu.1]; simpa using hcf
              simp only [this, if_true]
              exact ⟨_, .nonconforming rt v _ hc hap ht hnb hi hcf⟩
  · have hc' : spec.countOK args.length = false := by simpa using hc
    simp only [hc', Bool.false_eq_true, if_false]
    exact ⟨_, .count hc'⟩

/-! ### the class is determined by the inputs -/

/-- the class of a call, computed from the inputs alone -/
def kindOf (spec : Spec) (tf : TypeFn) (impl : ImplFn) (args : List Value) : Kind :=
  if spec.countOK args.length then
    match firstFail (spec.expand args.length) args with
    | some (_, .dynamic) => .shortCircuit
    | some _ => .argError
    | none =>
      match tf (typeArgs spec args) with
      | .err _ => .callbackError
      | .panic _ => .panicError
      | .unmodelled => .unmodelled
      | .ok rt =>
        if (pass2 (spec.expand args.length) args).unknown then .shortCircuit
        else
          match impl (implArgs spec args) rt with
          | .err _ => .callbackError
          | .panic _ => .panicError
          | .unmodelled => .unmodelled
          | .ok v => if Ty.conformErrs rt v.ty = 0 then .value else .panicError
  else .argCount

theorem CallCase.kind_eq {spec : Spec} {tf : TypeFn} {impl : ImplFn} {args : List Value} {k : Kind}
    {o : Out Value × List Event} (h : CallCase spec tf impl args k o) : k = kindOf spec tf impl args := by
  have unk : ∀ hc : spec.countOK args.length = true, ¬ SomeUnknownBlocked spec args →
      (pass2 (spec.expand args.length) args).unknown = false := fun hc hn => by
    cases hu : (pass2 (spec.expand args.length) args).unknown with
    | false => rfl
    | true => exact absurd ((someUnknownBlocked_iff hc).mp hu) hn
  unfold kindOf
  cases h with
  | count hc => simp [hc]
  | argError k f hc hat hne =>
    simp only [hc, if_true, firstFail_of_at hc hat]
    cases f <;> simp at hne ⊢
  | dynShort k u hc hat _ => simp only [hc, if_true, firstFail_of_at hc hat]
  | typeErr c hc hap ht => simp only [hc, if_true, firstFail_of_allPass hc hap, ht]
  | typePanic w hc hap ht => simp only [hc, if_true, firstFail_of_allPass hc hap, ht]
  | typeUnmodelled hc hap ht => simp only [hc, if_true, firstFail_of_allPass hc hap, ht]
  | unkShort rt u hc hap ht hb _ =>
    simp only [hc, if_true, firstFail_of_allPass hc hap, ht, (someUnknownBlocked_iff hc).mpr hb]
  | implErr rt c hc hap ht hnb hi =>
    simp [hc, firstFail_of_allPass hc hap, ht, unk hc hnb, hi]
  | implPanic rt w hc hap ht hnb hi =>
    simp [hc, firstFail_of_allPass hc hap, ht, unk hc hnb, hi]
  | implUnmodelled rt hc hap ht hnb hi =>
    simp [hc, firstFail_of_allPass hc hap, ht, unk hc hnb, hi]
  | nonconforming rt v w hc hap ht hnb hi hcf =>
    simp [hc, firstFail_of_allPass hc hap, ht, unk hc hnb, hi, hcf]
  | value rt v u hc hap ht hnb hi hcf _ =>
    simp [hc, firstFail_of_allPass hc hap, ht, unk hc hnb, hi, hcf]

/-- the classes exclude each other: which one applies is a function of the inputs -/
theorem CallCase.kind_unique {spec : Spec} {tf : TypeFn} {impl : ImplFn} {args : List Value} {k k' : Kind}
    {o o' : Out Value × List Event} (h : CallCase spec tf impl args k o)
    (h' : CallCase spec tf impl args k' o') : k = k' := by
  rw [h.kind_eq, h'.kind_eq]

/-! ### the deferred refinement -/

theorem finish_ok (spec : Spec) (u : Value) (tr : List Event) :
    finish spec (.ok u, tr) =
      match spec.refine with
      | some r => if typed u then (refineWith r u, tr ++ [.refine u.unmark]) else (.ok u, tr)
      | none => (.ok u, tr) := by
  unfold finish typed
  cases spec.refine <;> simp [deferredRefine]

/-- the trace after the deferred refinement: unchanged, or one `refine` event appended -/
theorem finish_trace (spec : Spec) (u : Value) (tr : List Event) :
    (finish spec (.ok u, tr)).2 = tr ∨ (finish spec (.ok u, tr)).2 = tr ++ [.refine u.unmark] := by
  rw [finish_ok]
  cases spec.refine with
  | none => simp
  | some r => by_cases h : typed u = true <;> simp [h]

theorem refineWith_ok {r : RefineFn} {u w : Value} (h : refineWith r u = .ok w) :
    ∃ p, r u.unmark = some p ∧ w = (⟨u.ty, p⟩ : Value).withMarks u.marks := by
  unfold refineWith at h
  cases hr : r u.unmark with
  | none => simp [hr] at h
  | some p =>
    simp only [hr, Out.ok.injEq] at h
    exact ⟨p, rfl, h.symm⟩

theorem refineWith_cases (r : RefineFn) (u : Value) :
    (r u.unmark = none ∧ refineWith r u = .panic "refinement builder") ∨
    (∃ p, r u.unmark = some p ∧ refineWith r u = .ok ((⟨u.ty, p⟩ : Value).withMarks u.marks)) := by
  unfold refineWith
  cases hr : r u.unmark with
  | none => simp
  | some p => simp

/-- what the declared refinement makes of `u`: an ok outcome keeps `u`'s type and marks -/
theorem finish_ok_val {spec : Spec} {u w : Value} {tr : List Event}
    (h : (finish spec (.ok u, tr)).1 = .ok w) :
    w.ty = u.ty ∧ (∀ m, m ∈ u.marks → m ∈ w.marks) := by
  rw [finish_ok] at h
  cases hr : spec.refine with
  | none => simp only [hr, Out.ok.injEq] at h; subst h; exact ⟨rfl, fun _ hm => hm⟩
  | some r =>
    simp only [hr] at h
    by_cases ht : typed u = true
    · simp only [ht, if_true] at h
      obtain ⟨p, _, rfl⟩ := refineWith_ok h
      exact ⟨rfl, fun m hm => Value.mem_marks_withMarks.mpr (Or.inr hm)⟩
    · simp only [ht, Bool.false_eq_true, if_false, Out.ok.injEq] at h
      subst h; exact ⟨rfl, fun _ hm => hm⟩

/-- the deferred refinement never produces an error or `unmodelled` from a value -/
theorem finish_ok_cases (spec : Spec) (u : Value) (tr : List Event) :
    (∃ w, (finish spec (.ok u, tr)).1 = .ok w) ∨ (∃ why, (finish spec (.ok u, tr)).1 = .panic why) := by
  rw [finish_ok]
  cases spec.refine with
  | none => exact Or.inl ⟨u, rfl⟩
  | some r =>
    by_cases ht : typed u = true
    · simp only [ht, if_true]
      rcases refineWith_cases r u with ⟨_, h⟩ | ⟨p, _, h⟩
      · exact Or.inr ⟨_, h⟩
      · exact Or.inl ⟨_, h⟩
    · simp only [ht, Bool.false_eq_true, if_false]; exact Or.inl ⟨u, rfl⟩

/-! ### the argument lists the callbacks are handed, position by position -/

theorem typeArgs_length {spec : Spec} {args : List Value} (hc : spec.countOK args.length = true) :
    (typeArgs spec args).length = args.length := by
  simp [typeArgs, Spec.expand_length hc]

theorem implArgs_length {spec : Spec} {args : List Value} (hc : spec.countOK args.length = true) :
    (implArgs spec args).length = args.length := by
  simp [implArgs, Spec.expand_length hc]

theorem typeArgs_get {spec : Spec} {args : List Value} (hc : spec.countOK args.length = true)
    {i : Nat} {a : Value} (h : (typeArgs spec args)[i]? = some a) :
    ∃ p v, spec.paramFor i = some p ∧ args[i]? = some v ∧ a = p.typeArg v := by
  obtain ⟨p, v, hp, hv, ha⟩ := zipWith_get h
  exact ⟨p, v, by rw [← Spec.expand_get hc (getElem?_lt hv)]; exact hp, hv, ha⟩

theorem implArgs_get {spec : Spec} {args : List Value} (hc : spec.countOK args.length = true)
    {i : Nat} {a : Value} (h : (implArgs spec args)[i]? = some a) :
    ∃ p v, spec.paramFor i = some p ∧ args[i]? = some v ∧ a = (p.callArg v).1 := by
  obtain ⟨p, v, hp, hv, ha⟩ := zipWith_get (f := fun p v => (p.callArg v).1) h
  exact ⟨p, v, by rw [← Spec.expand_get hc (getElem?_lt hv)]; exact hp, hv, ha⟩

/-- both callbacks see the caller's arguments, up to unmarking -/
theorem typeArgs_unmarkDeep {spec : Spec} {args : List Value} (hc : spec.countOK args.length = true) :
    (typeArgs spec args).map Value.unmarkDeep = args.map Value.unmarkDeep :=
  map_unmarkDeep_zipWith Param.typeArg_unmarkDeep _ _ (Spec.expand_length hc)

theorem implArgs_unmarkDeep {spec : Spec} {args : List Value} (hc : spec.countOK args.length = true) :
    (implArgs spec args).map Value.unmarkDeep = args.map Value.unmarkDeep :=
  map_unmarkDeep_zipWith (f := fun p v => (p.callArg v).1) Param.callArg_unmarkDeep _ _ (Spec.expand_length hc)

/-- on constructor-built values the two callbacks are handed the very same list -/
theorem typeArgs_eq_implArgs (spec : Spec) (args : List Value) (hw : ∀ v ∈ args, v.v.markerWF = true) :
    typeArgs spec args = implArgs spec args := by
  unfold typeArgs implArgs
  rw [typeArgs_eq_callArgs _ _ hw, pass2_args_eq]

theorem blocksUnknown_of_not_some {spec : Spec} {args : List Value} (h : ¬ SomeUnknownBlocked spec args)
    {i : Nat} {p : Param} {v : Value} (hp : spec.paramFor i = some p) (hv : args[i]? = some v) :
    p.blocksUnknown v = false := by
  cases hb : p.blocksUnknown v with
  | false => rfl
  | true => exact absurd ⟨i, p, v, hp, hv, hb⟩ h

/-- a type conforms to itself -/
theorem conform_refl (t : Ty) (h : Ty.wf t = true) : Ty.conformErrs t t = 0 :=
  (Ty.conform_iff t t h h).mpr (Ty.matches_refl t)

theorem conform_dyn (t : Ty) : Ty.conformErrs .dyn t = 0 := by simp [Ty.conformErrs]

/-- the contract of one argument as `Impl` sees it -/
theorem callArg_contract {p : Param} {v : Value} (hw : v.v.markerWF = true) (hc : p.check v = none)
    (hb : p.blocksUnknown v = false) :
    ((p.callArg v).1.ty.isDyn = false → Ty.conformErrs p.ty (p.callArg v).1.ty = 0) ∧
    ((p.callArg v).1.isNull = true → p.allowNull = true) ∧
    ((p.callArg v).1.isKnown = false → p.allowUnknown = true) ∧
    ((p.callArg v).1.ty.isDyn = true → p.allowDynamic = true) ∧
    (p.allowMarked = false → (p.callArg v).1.containsMarked = false ∧ (p.callArg v).1.marksDeep = []) := by
  obtain ⟨hn, hd, hcf⟩ := Param.check_none hc
  obtain ⟨e1, e2⟩ := Param.callArg_isNull_isKnown p v hw
  rw [Param.callArg_ty, e1, e2]
  refine ⟨hcf, hn, ?_, hd, fun hm => ⟨Param.callArg_containsMarked v hm hw, Param.callArg_marksDeep v hm⟩⟩
  intro hk
  unfold Param.blocksUnknown at hb
  simpa [hk] using hb

theorem typeArg_isNull_isKnown (p : Param) (v : Value) (hw : v.v.markerWF = true) :
    (p.typeArg v).isNull = v.isNull ∧ (p.typeArg v).isKnown = v.isKnown := by
  rw [Param.typeArg_eq_callArg p v hw]; exact Param.callArg_isNull_isKnown p v hw

/-- the contract of one argument as `Type` sees it (unknowns are always admitted) -/
theorem typeArg_contract {p : Param} {v : Value} (hw : v.v.markerWF = true) (hc : p.check v = none) :
    ((p.typeArg v).ty.isDyn = false → Ty.conformErrs p.ty (p.typeArg v).ty = 0) ∧
    ((p.typeArg v).isNull = true → p.allowNull = true) ∧
    ((p.typeArg v).ty.isDyn = true → p.allowDynamic = true) ∧
    (p.allowMarked = false → (p.typeArg v).containsMarked = false ∧ (p.typeArg v).marksDeep = []) := by
  obtain ⟨hn, hd, hcf⟩ := Param.check_none hc
  obtain ⟨e1, _⟩ := typeArg_isNull_isKnown p v hw
  rw [Param.typeArg_ty, e1]
  refine ⟨hcf, hn, hd, fun hm => ?_⟩
  rw [Param.typeArg_eq_callArg p v hw]
  exact ⟨Param.callArg_containsMarked v hm hw, Param.callArg_marksDeep v hm⟩

/-! ### `call` = the deferred refinement after `callUnrefined` -/

theorem CallCase.of_same_params {s s' : Spec} {tf : TypeFn} {impl : ImplFn} {args : List Value} {k : Kind}
    {o : Out Value × List Event} (hp : s.params = s'.params) (hv : s.varParam = s'.varParam)
    (h : CallCase s tf impl args k o) : CallCase s' tf impl args k o := by
  obtain ⟨ps, vp, r⟩ := s
  obtain ⟨ps', vp', r'⟩ := s'
  simp only at hp hv
  subst hp hv
  cases h with
  | count hc => exact .count hc
  | argError k f hc hat hne => exact .argError k f hc hat hne
  | dynShort k u hc hat hw => exact .dynShort k u hc hat hw
  | typeErr c hc hap ht => exact .typeErr c hc hap ht
  | typePanic w hc hap ht => exact .typePanic w hc hap ht
  | typeUnmodelled hc hap ht => exact .typeUnmodelled hc hap ht
  | unkShort rt u hc hap ht hb hw => exact .unkShort rt u hc hap ht hb hw
  | implErr rt c hc hap ht hnb hi => exact .implErr rt c hc hap ht hnb hi
  | implPanic rt w hc hap ht hnb hi => exact .implPanic rt w hc hap ht hnb hi
  | implUnmodelled rt hc hap ht hnb hi => exact .implUnmodelled rt hc hap ht hnb hi
  | nonconforming rt v w hc hap ht hnb hi hcf => exact .nonconforming rt v w hc hap ht hnb hi hcf
  | value rt v u hc hap ht hnb hi hcf hw => exact .value rt v u hc hap ht hnb hi hcf hw

/-- what `Call` returns before the deferred refinement falls into (exactly: `kind_unique`) one class -/
theorem callUnrefined_case (spec : Spec) (tf : TypeFn) (impl : ImplFn) (args : List Value) :
    ∃ k, CallCase spec tf impl args k (callUnrefined spec tf impl args) := by
  obtain ⟨k, h⟩ := call_case_of_refine_none { spec with refine := none } tf impl args rfl
  exact ⟨k, CallCase.of_same_params (s := { spec with refine := none }) (s' := spec) rfl rfl h⟩

/-- the same, with the outcome as a variable (so that `cases` on the row works) -/
theorem callUnrefined_case' (spec : Spec) (tf : TypeFn) (impl : ImplFn) (args : List Value) :
    ∃ k o, callUnrefined spec tf impl args = o ∧ CallCase spec tf impl args k o := by
  obtain ⟨k, h⟩ := callUnrefined_case spec tf impl args
  exact ⟨k, _, rfl, h⟩

theorem finish_panic (spec : Spec) (w : String) (tr : List Event) :
    finish spec ((.panic w : Out Value), tr) = (.panic w, tr) := by
  unfold finish; cases spec.refine <;> simp [deferredRefine]

theorem typed_unknown_dyn (mss : List (List String)) :
    typed (withMarkSets (Value.unknown .dyn) mss) = false := by
  have h1 := isKnown_withMarkSets (Value.unknown .dyn) mss
  have h2 := withMarkSets_ty (Value.unknown .dyn) mss
  unfold typed
  rw [h1, h2]
  rfl

/-- `Call` is the deferred refinement applied to what the same call returns without it -/
theorem call_eq_finish (spec : Spec) (tf : TypeFn) (impl : ImplFn) (args : List Value) :
    call spec tf impl args = finish spec (callUnrefined spec tf impl args) := by
  unfold callUnrefined
  rw [call_eq, call_eq]
  unfold callTable
  have e1 : ({ spec with refine := none } : Spec).countOK args.length = spec.countOK args.length := rfl
  have e2 : ({ spec with refine := none } : Spec).expand args.length = spec.expand args.length := rfl
  simp only [e1, e2]
  by_cases hc : spec.countOK args.length = true
  · simp only [hc, if_true]
    cases hf : firstFail (spec.expand args.length) args with
    | some kf =>
      obtain ⟨k, f⟩ := kf
      cases f <;> simp only [finish_err]
      rw [finish_ok]
      cases spec.refine <;> simp [typed_unknown_dyn]
    | none =>
      simp only
      cases tf (List.zipWith Param.typeArg (spec.expand args.length) args) with
      | err c => simp only [finish_err]
      | panic w => simp only [finish_err]
      | unmodelled => simp only [finish_unmodelled]
      | ok rt => simp only [finish_none (spec := { spec with refine := none }) rfl]
  · simp only [hc, Bool.false_eq_true, if_false, finish_err]

/-! ### `ReturnTypeForValues` as a decision table -/

theorem rtfvPub_eq (spec : Spec) (tf : TypeFn) (args : List Value) :
    returnTypeForValuesPub spec tf args =
      if spec.countOK args.length then
        match firstFail (spec.expand args.length) args with
        | some (_, .dynamic) => (.ok .dyn, [])
        | some (k, _) => (.err (.arg k), [])
        | none =>
          match tf (typeArgs spec args) with
          | .ok t => (.ok t, [.type (typeArgs spec args)])
          | .err c => (.err (.callback c), [.type (typeArgs spec args)])
          | .panic w => (.err (.panicError w), [.type (typeArgs spec args)])
          | .unmodelled => (.unmodelled, [.type (typeArgs spec args)])
      else (.err .argCount, []) := by
  unfold returnTypeForValuesPub returnTypeForValues
  rw [pass1_eq]
  by_cases hc : spec.countOK args.length = true
  · simp only [hc, if_true]
    cases hf : firstFail (spec.expand args.length) args with
    | some kf => obtain ⟨k, f⟩ := kf; cases f <;> simp [Pass1.ofFail]
    | none =>
      simp only
      change (match (match tf (typeArgs spec args) with
          | .ok ty => ((.ok (ty, false) : Out (Ty × Bool)), [Event.type (typeArgs spec args)])
          | .err c => (.err (.callback c), [.type (typeArgs spec args)])
          | .panic w => (.err (.panicError w), [.type (typeArgs spec args)])
          | .unmodelled => (.unmodelled, [.type (typeArgs spec args)])) with
        | (.ok (ty, _), tr) => ((.ok ty : Out Ty), tr)
        | (.err e, tr) => (.err e, tr)
        | (.panic w, tr) => (.panic w, tr)
        | (.unmodelled, tr) => (.unmodelled, tr)) = _
      cases tf (typeArgs spec args) <;> rfl
  · simp [hc]

theorem rtfvPub_count {spec : Spec} (tf : TypeFn) {args : List Value} (hc : spec.countOK args.length = false) :
    returnTypeForValuesPub spec tf args = (.err .argCount, []) := by
  rw [rtfvPub_eq]; simp [hc]

theorem rtfvPub_fail {spec : Spec} (tf : TypeFn) {args : List Value} {k : Nat} {f : ArgFail}
    (hc : spec.countOK args.length = true) (hat : FirstFailAt spec args k f) :
    returnTypeForValuesPub spec tf args =
      match f with
      | .dynamic => (.ok .dyn, [])
      | _ => (.err (.arg k), []) := by
  rw [rtfvPub_eq]
  simp only [hc, if_true, firstFail_of_at hc hat]
  cases f <;> rfl

theorem rtfvPub_pass {spec : Spec} (tf : TypeFn) {args : List Value}
    (hc : spec.countOK args.length = true) (hap : AllPass spec args) :
    returnTypeForValuesPub spec tf args =
      match tf (typeArgs spec args) with
      | .ok t => (.ok t, [.type (typeArgs spec args)])
      | .err c => (.err (.callback c), [.type (typeArgs spec args)])
      | .panic w => (.err (.panicError w), [.type (typeArgs spec args)])
      | .unmodelled => (.unmodelled, [.type (typeArgs spec args)]) := by
  rw [rtfvPub_eq]
  simp only [hc, if_true, firstFail_of_allPass hc hap]

/-! ### which callbacks ran: reading the trace -/

theorem finish_trace' (spec : Spec) (o : Out Value × List Event) :
    (finish spec o).2 = o.2 ∨
    ∃ u, o.1 = .ok u ∧ typed u = true ∧ (finish spec o).2 = o.2 ++ [.refine u.unmark] := by
  obtain ⟨r, tr⟩ := o
  cases r with
  | ok u =>
    rw [finish_ok]
    cases spec.refine with
    | none => exact Or.inl rfl
    | some r =>
      by_cases h : typed u = true
      · exact Or.inr ⟨u, rfl, h, by simp [h]⟩
      · exact Or.inl (by simp [h])
  | err e => rw [finish_err]; exact Or.inl rfl
  | panic w => rw [finish_panic]; exact Or.inl rfl
  | unmodelled => rw [finish_unmodelled]; exact Or.inl rfl

/-- the result of a short circuit on a dynamically-typed argument is not a typed value -/
theorem not_typed_of_unknown_dyn {spec : Spec} {args : List Value} {u : Value}
    (h : WithUnhandled spec args (Value.unknown .dyn) u) : typed u = false := by
  have h1 : u.ty = .dyn := h.1
  have h2 := congrArg Value.v h.2.1
  simp only [Value.unmark, Value.unknown] at h2
  unfold typed Value.isKnown Payload.isKnown
  rw [h2, h1]; rfl

theorem mem_finish_trace_impl {spec : Spec} {o : Out Value × List Event} {as : List Value} {rt : Ty} :
    Event.impl as rt ∈ (finish spec o).2 ↔ Event.impl as rt ∈ o.2 := by
  rcases finish_trace' spec o with h | ⟨u, _, _, h⟩ <;> rw [h] <;> simp

theorem mem_finish_trace_type {spec : Spec} {o : Out Value × List Event} {as : List Value} :
    Event.type as ∈ (finish spec o).2 ↔ Event.type as ∈ o.2 := by
  rcases finish_trace' spec o with h | ⟨u, _, _, h⟩ <;> rw [h] <;> simp

/-- `Impl` was invoked: under which conditions, with what, and the shape of the trace -/
theorem CallCase.impl_event {spec : Spec} {tf : TypeFn} {impl : ImplFn} {args : List Value} {k : Kind}
    {o : Out Value × List Event} (hk : CallCase spec tf impl args k o) {as : List Value} {rt : Ty}
    (h : Event.impl as rt ∈ o.2) :
    spec.countOK args.length = true ∧ AllPass spec args ∧ ¬ SomeUnknownBlocked spec args ∧
    tf (typeArgs spec args) = .ok rt ∧ as = implArgs spec args ∧
    o.2 = [.type (typeArgs spec args), .impl as rt] := by
  cases hk <;> simp at h
  all_goals
    obtain ⟨rfl, rfl⟩ := h
    refine ⟨by assumption, by assumption, by assumption, by assumption, rfl, rfl⟩

/-- `Type` was invoked: under which conditions, with what, and first -/
theorem CallCase.type_event {spec : Spec} {tf : TypeFn} {impl : ImplFn} {args : List Value} {k : Kind}
    {o : Out Value × List Event} (hk : CallCase spec tf impl args k o) {as : List Value}
    (h : Event.type as ∈ o.2) :
    spec.countOK args.length = true ∧ AllPass spec args ∧ as = typeArgs spec args ∧
    ∃ tail, o.2 = .type as :: tail ∧ ∀ bs, Event.type bs ∉ tail := by
  cases hk <;> simp at h
  all_goals
    subst h
    refine ⟨by assumption, by assumption, rfl, _, rfl, by simp⟩

/-- no `refine` event before the deferred refinement -/
theorem CallCase.no_refine_event {spec : Spec} {tf : TypeFn} {impl : ImplFn} {args : List Value} {k : Kind}
    {o : Out Value × List Event} (hk : CallCase spec tf impl args k o) (v : Value) :
    Event.refine v ∉ o.2 := by
  cases hk <;> simp

/-- before the deferred refinement no Go panic can escape -/
theorem CallCase.no_panic {spec : Spec} {tf : TypeFn} {impl : ImplFn} {args : List Value} {k : Kind}
    {o : Out Value × List Event} (hk : CallCase spec tf impl args k o) (w : String) : o.1 ≠ .panic w := by
  cases hk <;> simp

/-! ### `callUnrefined` computed branch by branch (exact values) -/

/-- `resultMarks`: the deep mark sets of the arguments whose parameter lacks `AllowMarked` -/
def unhandledMarkSets (spec : Spec) (args : List Value) : List (List String) :=
  (pass2 (spec.expand args.length) args).marks

/-- `v.WithMarks(resultMarks...)`, skipped when there are none -/
def withUnhandled (spec : Spec) (args : List Value) (v : Value) : Value :=
  if (unhandledMarkSets spec args).length > 0 then withMarkSets v (unhandledMarkSets spec args) else v

theorem withUnhandled_spec {spec : Spec} {args : List Value} (hc : spec.countOK args.length = true) (v : Value) :
    WithUnhandled spec args v (withUnhandled spec args v) := withUnhandled_cond hc v

theorem callUnrefined_eq (spec : Spec) (tf : TypeFn) (impl : ImplFn) (args : List Value) :
    callUnrefined spec tf impl args =
      if spec.countOK args.length then
        match firstFail (spec.expand args.length) args with
        | some (_, .dynamic) => (.ok (withMarkSets (Value.unknown .dyn) (unhandledMarkSets spec args)), [])
        | some (k, _) => (.err (.arg k), [])
        | none =>
          match tf (typeArgs spec args) with
          | .err c => (.err (.callback c), [.type (typeArgs spec args)])
          | .panic w => (.err (.panicError w), [.type (typeArgs spec args)])
          | .unmodelled => (.unmodelled, [.type (typeArgs spec args)])
          | .ok rt =>
            if (pass2 (spec.expand args.length) args).unknown then
              (.ok (withMarkSets (Value.unknown rt) (unhandledMarkSets spec args)), [.type (typeArgs spec args)])
            else
              match impl (implArgs spec args) rt with
              | .panic w => (.err (.panicError w), [.type (typeArgs spec args), .impl (implArgs spec args) rt])
              | .err c => (.err (.callback c), [.type (typeArgs spec args), .impl (implArgs spec args) rt])
              | .unmodelled => (.unmodelled, [.type (typeArgs spec args), .impl (implArgs spec args) rt])
              | .ok v =>
                if Ty.conformErrs rt v.ty != 0 then
                  (.err (.panicError "result does not conform"),
                    [.type (typeArgs spec args), .impl (implArgs spec args) rt])
                else
                  (.ok (withUnhandled spec args v), [.type (typeArgs spec args), .impl (implArgs spec args) rt])
      else (.err .argCount, []) := by
  unfold callUnrefined
  rw [call_eq]
  unfold callTable
  have e1 : ({ spec with refine := none } : Spec).countOK args.length = spec.countOK args.length := rfl
  have e2 : ({ spec with refine := none } : Spec).expand args.length = spec.expand args.length := rfl
  simp only [e1, e2]
  by_cases hc : spec.countOK args.length = true
  · simp only [hc, if_true]
    cases hf : firstFail (spec.expand args.length) args with
    | some kf => obtain ⟨k, f⟩ := kf; cases f <;> rfl
    | none =>
      simp only
      change (match tf (typeArgs spec args) with
          | .err c => (.err (.callback c), [.type (typeArgs spec args)])
          | .panic w => (.err (.panicError w), [.type (typeArgs spec args)])
          | .unmodelled => (.unmodelled, [.type (typeArgs spec args)])
          | .ok rt => finish { spec with refine := none }
              ((callTail impl rt false (pass2 (spec.expand args.length) args)).1,
                .type (typeArgs spec args) :: (callTail impl rt false (pass2 (spec.expand args.length) args)).2)
          : Out Value × List Event) = _
      cases tf (typeArgs spec args) with
      | err c => rfl
      | panic w => rfl
      | unmodelled => rfl
      | ok rt =>
        simp only [finish_none (spec := { spec with refine := none }) rfl]
        unfold callTail
        rw [implArgs_eq]
        cases (pass2 (spec.expand args.length) args).unknown with
        | true => rfl
        | false =>
          simp only [Bool.false_or, Bool.false_eq_true, if_false]
          cases impl (implArgs spec args) rt with
          | err c => rfl
          | panic w => rfl
          | unmodelled => rfl
          | ok v =>
            simp only
            have hty : (if (pass2 (spec.expand args.length) args).marks.length > 0 then
                withMarkSets v (pass2 (spec.expand args.length) args).marks else v).ty = v.ty := by
              split
              · exact withMarkSets_ty _ _
              · rfl
            rw [hty]
            by_cases hcf : (Ty.conformErrs rt v.ty != 0) = true
            · simp only [hcf, if_true]
            · simp only [hcf, Bool.false_eq_true, if_false]; rfl
  · simp [hc]

/-- arguments that carry no mark reach both callbacks untouched -/
theorem zipWith_typeArg_unmarked : ∀ (ps : List Param) (vs : List Value), ps.length = vs.length →
    (∀ v ∈ vs, v.containsMarked = false) → List.zipWith Param.typeArg ps vs = vs
  | [], [], _, _ => rfl
  | [], _ :: _, h, _ => by simp at h
  | _ :: _, [], h, _ => by simp at h
  | p :: ps, v :: vs, h, hm => by
    have h0 : v.containsMarked = false := hm v (by simp)
    simp only [List.zipWith_cons_cons, Param.typeArg, h0, Bool.false_and, Bool.false_eq_true, if_false]
    rw [zipWith_typeArg_unmarked ps vs (by simpa using h) (fun x hx => hm x (by simp [hx]))]

theorem pass2_unmarked : ∀ (ps : List Param) (vs : List Value), ps.length = vs.length →
    (∀ v ∈ vs, v.containsMarked = false) → (pass2 ps vs).args = vs ∧ (pass2 ps vs).marks = []
  | [], [], _, _ => ⟨rfl, rfl⟩
  | [], _ :: _, h, _ => by simp at h
  | _ :: _, [], h, _ => by simp at h
  | p :: ps, v :: vs, h, hm => by
    have h0 : v.marksDeep = [] := Payload.marksDeep_of_not_containsMarked _ (hm v (by simp))
    obtain ⟨ih1, ih2⟩ := pass2_unmarked ps vs (by simpa using h) (fun x hx => hm x (by simp [hx]))
    have hca : p.callArg v = (v, []) := by
      unfold Param.callArg; simp [h0]
    simp [pass2, hca, ih1, ih2]

theorem unmarked_args {spec : Spec} {args : List Value} (hc : spec.countOK args.length = true)
    (hm : ∀ v ∈ args, v.containsMarked = false) :
    typeArgs spec args = args ∧ implArgs spec args = args ∧ unhandledMarkSets spec args = [] := by
  obtain ⟨h1, h2⟩ := pass2_unmarked _ _ (Spec.expand_length hc) hm
  exact ⟨zipWith_typeArg_unmarked _ _ (Spec.expand_length hc) hm, by rw [← implArgs_eq]; exact h1, h2⟩

/-- the deferred refinement neither produces nor swallows an error -/
theorem finish_err_iff (spec : Spec) (o : Out Value × List Event) (e : CallErr) :
    (finish spec o).1 = .err e ↔ o.1 = .err e := by
  obtain ⟨r, tr⟩ := o
  cases r with
  | ok u =>
    rcases finish_ok_cases spec u tr with ⟨w, h⟩ | ⟨w, h⟩ <;> simp [h]
  | err e' => rw [finish_err]
  | panic w => rw [finish_panic]
  | unmodelled => rw [finish_unmodelled]

/-- what `WithUnhandled` says of an unknown value -/
theorem withUnhandled_unknown {spec : Spec} {args : List Value} {t : Ty} {u : Value}
    (hwu : WithUnhandled spec args (Value.unknown t) u) :
    u.ty = t ∧ u.unmark = Value.unknown t ∧ u.isKnown = false ∧ (∀ m, m ∈ u.marks ↔ Unhandled spec args m) := by
  refine ⟨hwu.1, hwu.2.1, ?_, fun m => by simpa [Value.unknown, Value.marks, Payload.marks1] using hwu.2.2 m⟩
  have := congrArg Value.v hwu.2.1
  simp only [Value.unmark, Value.unknown] at this
  unfold Value.isKnown Payload.isKnown
  rw [this]; rfl

end Fn
end CtyModel
