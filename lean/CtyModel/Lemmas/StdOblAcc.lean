/-
Accessors of `cty.Value` as the stdlib callbacks use them (`Stdlib/Base.lean`) on
WELL-FORMED values (`Value.WF`, property C06): they do not panic where Go's documentation
says they are applicable, and what they hand out is well-formed again.  Used by the C11
totality obligations (Lemmas/StdOblTot*.lean).
-/
import CtyModel.Lemmas.StdOblBase
import CtyModel.Lemmas.WFAccess
import CtyModel.Lemmas.SetRefineSort
import CtyModel.Lemmas.StdlibBasic
namespace CtyModel
namespace Stdlib
open Fn Value
variable {nfc : String → Bool}

/-- "`Impl` behaved": no panic, and a returned value conforms to the type it was given and is
accepted by `refineNonNull` -/
def ImplGood (rt : Ty) (r : Res Value) : Prop :=
  (∀ w, r ≠ .panic w) ∧ ∀ v, r = .ok v → Ty.conformErrs rt v.ty = 0 ∧ refineNN v.unmark ≠ none

/-- the same without the refinement (functions that declare no `RefineResult`) -/
def ImplGood' (rt : Ty) (r : Res Value) : Prop :=
  (∀ w, r ≠ .panic w) ∧ ∀ v, r = .ok v → Ty.conformErrs rt v.ty = 0

theorem implGood_err (rt : Ty) (c : String) : ImplGood rt (.err c) :=
  ⟨fun _ h => (by cases h), fun _ h => (by cases h)⟩
theorem implGood_unmodelled (rt : Ty) : ImplGood rt .unmodelled :=
  ⟨fun _ h => (by cases h), fun _ h => (by cases h)⟩
theorem implGood_ok {rt : Ty} {v : Value} (h1 : Ty.conformErrs rt v.ty = 0) (h2 : refineNN v.unmark ≠ none) :
    ImplGood rt (.ok v) :=
  ⟨fun _ h => (by cases h), fun _ h => (by cases h; exact ⟨h1, h2⟩)⟩
theorem ImplGood.toPrime {rt : Ty} {r : Res Value} (h : ImplGood rt r) : ImplGood' rt r :=
  ⟨h.1, fun v hv => (h.2 v hv).1⟩

/-! ### `refineNonNull` accepts … -/

/-- … every unknown without refinement (of any type) -/
theorem refineNN_unknown (t : Ty) : refineNN (Value.unknown t) ≠ none := by
  have h : ∃ rf1, Refine.refine ⟨t, .unk .unref⟩ [.notNull] = .ok ⟨t, .unk rf1⟩ := by
    cases t <;> exact ⟨_, rfl⟩
  obtain ⟨rf, h⟩ := h
  simp [refineNN, Value.unknown, h]

/-- … every known, non-null, unmarked value of a type other than the placeholder -/
theorem refineNN_known {v : Value} (hm : v.v.isMarked = false) (hk : v.isKnown = true) (hn : v.isNull = false)
    (hb : ∀ w, v.v ≠ .bad w) (hd : v.ty.isDyn = false) : refineNN v ≠ none := by
  obtain ⟨t, p⟩ := v
  cases p <;> simp_all [Value.isKnown, Value.isNull, Payload.isKnown, Payload.isNull, Payload.unmark1, Payload.isMarked]
  all_goals
    cases t <;> simp_all [refineNN, Refine.refine, Refine.init, Value.unmark, Payload.unmark1, Payload.isMarked,
      Refine.run, Refine.step, Refine.Builder.isDyn, Refine.isDynVal, Refine.freshWip, Refine.step1,
      Refine.stepNotNull, Refine.newValue, Res.bind, Value.isKnown, Value.isNull, Payload.isKnown, Payload.isNull,
      Rfn.nullness, Ty.isDyn]

/-! ### shapes of well-formed values -/

theorem wf_ty_ok {v : Value} (h : v.WF nfc = true) : v.ty.ok nfc = true := by
  simp only [Value.WF, Bool.and_eq_true] at h; exact h.1

theorem wf_ty_wf {v : Value} (h : v.WF nfc = true) : v.ty.wf = true := by
  have := wf_ty_ok h
  simp only [Ty.ok, Bool.and_eq_true] at this; exact this.1.1

/-- a well-formed value of the placeholder type is unknown or null -/
theorem wf_dyn_unknown_or_null {v : Value} (h : v.WF nfc = true) (hd : v.ty.isDyn = true) :
    v.isKnown = false ∨ v.isNull = true := by
  obtain ⟨t, p⟩ := v
  cases t <;> simp [Ty.isDyn] at hd
  simp only [Value.WF, Bool.and_eq_true] at h
  have h2 := h.2
  cases p <;> simp_all [Payload.wfP, Value.isKnown, Value.isNull, Payload.isKnown, Payload.isNull, Payload.unmark1]
  rename_i ms r
  cases r <;> simp_all [Payload.wfP, Payload.isMarked]

/-- so an argument that is known and non-null is not dynamically typed -/
theorem not_dyn_of_known_nonnull {v : Value} (h : v.WF nfc = true) (hk : v.isKnown = true) (hn : v.isNull = false) :
    v.ty.isDyn = false := by
  cases hd : v.ty.isDyn with
  | false => rfl
  | true => rcases wf_dyn_unknown_or_null h hd with h1 | h1 <;> simp_all

theorem wf_unmark' {v : Value} (h : v.WF nfc = true) :
    v.unmark.WF nfc = true ∧ v.unmark.isMarked = false ∧ v.unmark.isKnown = v.isKnown ∧ v.unmark.isNull = v.isNull := by
  refine ⟨Value.wf_unmark h, ?_, Value.isKnown_unmark h, Value.isNull_unmark h⟩
  simp only [Value.WF, Bool.and_eq_true] at h
  exact (Payload.wfP_unmark1 h.2).2

/-! ### `LengthInt`, `ElementIterator`, `AsString`, `True` -/

def isIterTy : Ty → Bool
  | .list _ | .set _ | .map _ | .tuple _ | .object _ _ _ => true
  | _ => false

theorem mem_zipTV : ∀ {ts : List Ty} {vs : List Payload} {x : Value}, x ∈ zipTV ts vs →
    ∃ i : Nat, ts[i]? = some x.ty ∧ vs[i]? = some x.v
  | [], _, x, h => by simp [zipTV] at h
  | _ :: _, [], x, h => by simp [zipTV] at h
  | t :: ts, v :: vs, x, h => by
    simp only [zipTV, List.mem_cons] at h
    rcases h with rfl | h
    · exact ⟨0, rfl, rfl⟩
    · obtain ⟨i, h1, h2⟩ := mem_zipTV h
      exact ⟨i + 1, by simpa using h1, by simpa using h2⟩

theorem wf_zipTV {ts : List Ty} {vs : List Payload} (hok : Ty.okL nfc ts = true)
    (hz : Payload.wfZip nfc ts vs = true) : ∀ x ∈ zipTV ts vs, x.WF nfc = true := by
  intro x hx
  obtain ⟨i, h1, h2⟩ := mem_zipTV hx
  simp only [Value.WF, Bool.and_eq_true]
  exact ⟨Ty.okL_getElem hok h1, Payload.wfZip_getElem hz h1 h2⟩

/-- `LengthInt` and `ElementIterator` on a known, non-null, unmarked well-formed value of a
collection or structural type: both succeed, agree, and the members are well-formed -/
theorem elems_total (E : Env) {v : Value} (hv : v.WF nfc = true) (hm : v.isMarked = false)
    (hk : v.isKnown = true) (hn : v.isNull = false) (ht : isIterTy v.ty = true) :
    ∃ xs, elems E v = .ok xs ∧ lengthInt v = .ok xs.length ∧ ∀ x ∈ xs, x.WF nfc = true := by
  obtain ⟨t, p⟩ := v
  cases t <;> simp [isIterTy] at ht <;> cases p <;>
    simp_all [Value.WF, Payload.wfP, Value.isMarked, Value.isKnown, Value.isNull, Payload.isMarked, Payload.isKnown,
      Payload.isNull, Payload.unmark1, elems, lengthInt]
  · intro a ha
    exact ⟨by simpa [Ty.ok_list] using hv.1, Payload.wfAll_mem hv.2 ha⟩
  · refine ⟨by simp [setIter, (SetImpl.sortStable_perm _ _).length_eq], fun a ha => ?_⟩
    have ha' : a ∈ _ := (SetImpl.mem_sortStable _ _ _).mp ha
    exact ⟨by simpa [Ty.ok_set] using hv.1, Payload.wfAll_mem hv.2.2 ha'⟩
  · intro a ha
    exact ⟨by simpa [Ty.ok_map] using hv.1, Payload.wfAll_mem hv.2.2 ha⟩
  · refine ⟨by rw [zipTV_length]; omega, fun x hx => ?_⟩
    have := wf_zipTV (by simpa [Ty.ok_tuple] using hv.1) hv.2.2 x hx
    simpa [Value.WF] using this
  · have hobj := Ty.ok_object hv.1
    refine ⟨by rw [zipTV_length]; omega, fun x hx => ?_⟩
    have := wf_zipTV hobj.1 hv.2.2 x hx
    simpa [Value.WF] using this

theorem lengthInt_of_tuple {v : Value} (hm : v.isMarked = false) {ts : List Ty} (h : v.ty = .tuple ts) :
    lengthInt v = .ok ts.length := by
  simp [lengthInt, hm, h]

theorem lengthInt_of_object {v : Value} (hm : v.isMarked = false) {ns : List String} {ts : List Ty} {os : List Bool}
    (h : v.ty = .object ns ts os) : lengthInt v = .ok ns.length := by
  simp [lengthInt, hm, h]

/-- the shape of a known, non-null, unmarked well-formed primitive -/
theorem wf_number_shape {v : Value} (hv : v.WF nfc = true) (hm : v.isMarked = false) (hk : v.isKnown = true)
    (hn : v.isNull = false) (ht : v.ty = .number) : ∃ x, v = numVal x := by
  obtain ⟨t, p⟩ := v
  simp only at ht; subst ht
  cases p <;> simp_all [Value.WF, Payload.wfP, Value.isMarked, Value.isKnown, Value.isNull, Payload.isMarked,
    Payload.isKnown, Payload.isNull, Payload.unmark1, numVal]

theorem wf_string_shape {v : Value} (hv : v.WF nfc = true) (hm : v.isMarked = false) (hk : v.isKnown = true)
    (hn : v.isNull = false) (ht : v.ty = .string) : ∃ x, v = strVal x := by
  obtain ⟨t, p⟩ := v
  simp only at ht; subst ht
  cases p <;> simp_all [Value.WF, Payload.wfP, Value.isMarked, Value.isKnown, Value.isNull, Payload.isMarked,
    Payload.isKnown, Payload.isNull, Payload.unmark1, strVal]

theorem wf_bool_shape {v : Value} (hv : v.WF nfc = true) (hm : v.isMarked = false) (hk : v.isKnown = true)
    (hn : v.isNull = false) (ht : v.ty = .bool) : ∃ x, v = boolVal x := by
  obtain ⟨t, p⟩ := v
  simp only at ht; subst ht
  cases p <;> simp_all [Value.WF, Payload.wfP, Value.isMarked, Value.isKnown, Value.isNull, Payload.isMarked,
    Payload.isKnown, Payload.isNull, Payload.unmark1, boolVal]

/-- `gocty.FromCtyValue(n, &int)` on a known number: a value or an error, never a panic -/
theorem fromCtyInt_numVal (x : Num) : (∃ i, fromCtyInt (numVal x) = .ok i) ∨ ∃ c, fromCtyInt (numVal x) = .err c := by
  rw [fromCtyInt_num, fromNumInt_64]
  cases Gocty.int64Exact x with
  | none => exact .inr ⟨_, rfl⟩
  | some i => exact .inl ⟨i, rfl⟩

theorem asString_strVal (s : String) : asString (strVal s) = .ok s := rfl
theorem boolTrue_boolVal (b : Bool) : boolTrue (boolVal b) = .ok b := rfl

/-- a type the value's type conforms to, when that type has no placeholder at the top: same head -/
theorem conform_list_inv {e : Ty} {t : Ty} (h : Ty.conformErrs (.list e) t = 0) : ∃ e', t = .list e' := by
  cases t <;> simp [Ty.conformErrs, Ty.equals] at h
  exact ⟨_, rfl⟩

theorem conform_number_inv {t : Ty} (h : Ty.conformErrs .number t = 0) : t = .number := by
  cases t <;> simp [Ty.conformErrs, Ty.equals] at h
  rfl

theorem conform_string_inv {t : Ty} (h : Ty.conformErrs .string t = 0) : t = .string := by
  cases t <;> simp [Ty.conformErrs, Ty.equals] at h
  rfl

theorem conform_list_string_inv {t : Ty} (h : Ty.conformErrs (.list .string) t = 0) : t = .list .string := by
  obtain ⟨e', rfl⟩ := conform_list_inv h
  cases e' <;> simp [Ty.conformErrs, Ty.equals] at h
  rfl

end Stdlib
end CtyModel
