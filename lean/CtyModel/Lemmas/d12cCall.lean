/-
C12 / d12c: from "the weakened call (before the declared refinement) admits the concrete result" — the
conclusion of the `sound_<fn>` theorems — to `Function.Call` ITSELF, declared `refineNonNull` included.
What the deferred refinement asks of the value it is handed (`call_refined_covers`: unmarked at the top, not a
KNOWN value of the placeholder type) is proved here of what the modelled callbacks return on mark-free
arguments, so the per-function corollaries carry no hypothesis about the weakened outcome.
-/
import CtyModel.Lemmas.d12bKnown
import CtyModel.Lemmas.d12bConcat
import CtyModel.Lemmas.C12Refine
namespace CtyModel
namespace D12c
open Fn Stdlib C12L Cov

/-- what `val.RefineWith(refineNonNull)` is proved sound on: unmarked at the top, not a known value of the
placeholder type -/
def TopClean (u : Value) : Prop := u.v.isMarked = false ∧ (u.ty.isDyn = false ∨ u.isKnown = false)

/-- every value the callback returns on `ws` is `TopClean` -/
def ImplTopClean (tf : TypeFn) (impl : ImplFn) (ws : List Value) : Prop :=
  ∀ rt u, tf ws = .ok rt → impl ws rt = .ok u → TopClean u

theorem topClean_unknown (t : Ty) : TopClean (Value.unknown t) := ⟨rfl, Or.inr rfl⟩

theorem cast_ne_ok {α β} (r : Res α) (u : β) : (Res.cast r : Res β) = .ok u → False := by
  cases r <;> simp [Res.cast]

/-- **From the unrefined statement to `Function.Call`.**  For every spec declaring `refineNonNull` and every
callback whose results on the weakened arguments are `TopClean`. -/
theorem refined_call_of_sound (spec : Spec) (tf : TypeFn) (impl : ImplFn) (os ws : List Value) (r : Value)
    (hrf : spec.refine = some refineNN)
    (hmw : ∀ a ∈ ws, a.containsMarked = false)
    (hI : ImplTopClean tf impl ws)
    (hs : ∃ u, (callUnrefined spec tf impl ws).1 = .ok u ∧ Covers u r = true)
    (hcl : r.containsMarked = false) (hfit : fitsTop r.ty r.v = true) (hd : r.ty.isDyn = false)
    (hr : (callUnrefined spec tf impl os).1 = .ok r) :
    (call spec tf impl os).1 = .ok r ∧ (∃ u, (callUnrefined spec tf impl ws).1 = .ok u) ∧
      ∀ x, (call spec tf impl ws).1 = .ok x → Covers x r = true := by
  obtain ⟨u, hu1, hu2⟩ := hs
  have hu : TopClean u := by
    rcases D12b.callUnrefined_result_cases spec tf impl ws u hmw hu1 with h | ⟨rt, _, h⟩ | ⟨rt, hrt, h⟩
    · subst h; exact topClean_unknown _
    · subst h; exact topClean_unknown _
    · exact hI rt u hrt h
  obtain ⟨h1, h2⟩ := C12L.call_refined_covers spec tf impl os ws r u hrf hr hu1 hu.1 hu.2 hcl hfit hd hu2
  exact ⟨h1, ⟨u, hu1⟩, h2⟩

theorem listVal_topClean {ws : List Value} {r : Value} (h : Gocty.listVal ws = .ok r) : TopClean r := by
  unfold Gocty.listVal at h
  split at h
  · cases h
  · split at h <;> cases h
    exact ⟨rfl, Or.inl rfl⟩

theorem withMarks_nil {v : Value} (h : v.v.isMarked = false) : v.withMarks [] = v := by
  obtain ⟨t, p⟩ := v
  cases p <;> simp_all [Value.withMarks, Payload.withMarks, Payload.marks1, Payload.isMarked, unionMarks]

theorem marks_clean {v : Value} (h : v.containsMarked = false) : v.marks = [] := by
  obtain ⟨t, p⟩ := v
  cases p <;> simp_all [Value.marks, Payload.marks1, Value.containsMarked, Payload.containsMarked]

theorem withMarkSets_clean {v : Value} (h : TopClean v) : TopClean (Stdlib.withMarkSets v [[]]) := by
  have : Stdlib.withMarkSets v [[]] = v.withMarks [] := D12b.withMarkSets_nil1 v
  rw [this, withMarks_nil h.1]; exact h


theorem map_match_ok {α β} {f : α → β} {x : Res α} {r : β}
    (h : (match x with | .ok a => Res.ok (f a) | .err c => .err c | .panic w => .panic w | .unmodelled => .unmodelled) = .ok r) :
    ∃ a, x = .ok a ∧ r = f a := by
  cases x <;> simp_all

theorem tupleVal_topClean (ws : List Value) : TopClean (Gocty.tupleVal ws) := ⟨rfl, Or.inl rfl⟩
theorem listEmpty_topClean (e : Ty) : TopClean (listEmpty e) := ⟨rfl, Or.inl rfl⟩

/-- the closing steps shared by the callbacks below: every leaf of the case split is an unknown of the return
type, an empty list / tuple, a `ListVal` / `TupleVal`, or a failure — with the (empty) marks of the argument put back -/
macro "topclean_leaves" h:ident : tactic => `(tactic| (
  repeat' split at $h:ident
  all_goals first
    | (cases $h:ident; first
        | exact topClean_unknown _
        | exact withMarkSets_clean (topClean_unknown _)
        | exact withMarkSets_clean (tupleVal_topClean _)
        | exact withMarkSets_clean (listEmpty_topClean _)
        | exact ⟨rfl, Or.inl rfl⟩)
    | exact listVal_topClean $h:ident
    | (obtain ⟨a, ha, rfl⟩ := map_match_ok $h:ident
       first
        | exact withMarkSets_clean (listVal_topClean ha)
        | exact withMarkSets_clean (listEmpty_topClean _)
        | exact listEmpty_topClean _)
    | exact (cast_ne_ok _ _ $h:ident).elim
    | cases $h:ident))



/-- the closing steps shared by the callbacks below: every leaf of the case split is an unknown of the return
type, an empty list / tuple, a `ListVal` / `TupleVal`, or a failure — with the (empty) marks of the argument put back -/
macro "topclean_leaves" h:ident : tactic => `(tactic| (
  repeat' split at $h:ident
  all_goals first
    | (cases $h:ident; first
        | exact topClean_unknown _
        | exact withMarkSets_clean (topClean_unknown _)
        | exact withMarkSets_clean (tupleVal_topClean _)
        | exact withMarkSets_clean (listEmpty_topClean _)
        | exact ⟨rfl, Or.inl rfl⟩)
    | exact listVal_topClean $h:ident
    | (obtain ⟨a, ha, hu⟩ := CtyModel.res_map_ok $h:ident
       subst hu
       first
        | exact withMarkSets_clean (listVal_topClean ha)
        | exact withMarkSets_clean (listEmpty_topClean _)
        | exact listEmpty_topClean _)
    | exact (cast_ne_ok _ _ $h:ident).elim
    | cases $h:ident))

/-- `keys` -/
theorem keys_topClean (ws : List Value) (hmw : ∀ a ∈ ws, a.containsMarked = false) :
    ImplTopClean keysType keysImpl ws := by
  intro rt u _ h
  cases ws with
  | nil => simp [keysImpl, oob] at h
  | cons arg rest =>
    have hm : arg.marks = [] := marks_clean (hmw arg (by simp))
    simp only [keysImpl, hm] at h
    topclean_leaves h

/-- `values` -/
theorem values_topClean (E : Env) (ws : List Value) (hmw : ∀ a ∈ ws, a.containsMarked = false) :
    ImplTopClean valuesType (valuesImpl E) ws := by
  intro rt u _ h
  cases ws with
  | nil => simp [valuesImpl, oob] at h
  | cons arg rest =>
    have hm : arg.marks = [] := marks_clean (hmw arg (by simp))
    simp only [valuesImpl, hm] at h
    topclean_leaves h

/-- `reverse` -/
theorem reverse_topClean (E : Env) (ws : List Value) (hmw : ∀ a ∈ ws, a.containsMarked = false) :
    ImplTopClean reverseType (reverseImpl E) ws := by
  intro rt u _ h
  cases ws with
  | nil => simp [reverseImpl, oob] at h
  | cons arg rest =>
    have hm : arg.marks = [] := marks_clean (hmw arg (by simp))
    simp only [reverseImpl, hm] at h
    topclean_leaves h

/-- `distinct` -/
theorem distinct_topClean (E : Env) (ws : List Value) : ImplTopClean distinctType (distinctImpl E) ws := by
  intro rt u _ h
  unfold distinctImpl at h
  topclean_leaves h

/-- `compact` -/
theorem compact_topClean (E : Env) (ws : List Value) : ImplTopClean compactType (compactImpl E) ws := by
  intro rt u _ h
  unfold compactImpl at h
  repeat' split at h
  all_goals first
    | (cases h; exact topClean_unknown _)
    | (cases h; exact ⟨rfl, Or.inl rfl⟩)
    | exact listVal_topClean h
    | exact (cast_ne_ok _ _ h).elim
    | cases h


/-! ### wholly known in, wholly known out: `compact` -/

theorem compactLoop_sub (es : List Value) : ∀ out, compactLoop es = .ok out → ∀ a ∈ out, a ∈ es := by
  induction es with
  | nil => intro out h; simp [compactLoop] at h; subst h; simp
  | cons v rest ih =>
    intro out h a ha
    simp only [compactLoop] at h
    repeat' split at h
    all_goals first
      | exact List.mem_cons_of_mem _ (ih _ h a ha)
      | (cases h
         rename_i hh
         rcases List.mem_cons.mp ha with h' | h'
         · rw [h']; exact List.mem_cons_self ..
         · exact List.mem_cons_of_mem _ (ih _ hh a h'))
      | (rename_i hne; exact (hne _ h).elim)
      | exact (cast_ne_ok _ _ h).elim
      | cases h

theorem knownOut_compact (E : Env) : ImplKnownOut (compactImpl E) := by
  intro as rt v hk h
  unfold compactImpl at h
  split at h
  · rename_i _ listVal rest
    have hkl : listVal.whollyKnown = true := hk listVal (by simp)
    simp only [hkl, Bool.not_true, Bool.false_eq_true, if_false] at h
    split at h
    · rename_i es hes
      have hes' := D12b.elems_wk E hkl hes
      split at h
      · rename_i out hout
        split at h
        · cases h; rfl
        · exact D12b.listVal_wk (fun a ha => hes' a (compactLoop_sub es out hout a ha)) h
      · exact (cast_ne_ok _ _ h).elim
    · exact (cast_ne_ok _ _ h).elim
  · cases h

end D12c
end CtyModel
