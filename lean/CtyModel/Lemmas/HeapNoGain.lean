/-
C20 — ownership never moves TOWARDS the caller: whatever step runs, an object that
exists before it is caller-owned afterwards only if it was caller-owned before.
Unconditional (no invariant, no ownership side condition).
-/
import CtyModel.Lemmas.HeapPres
namespace CtyModel
namespace Heap

def NoGain (m m' : Mem) : Prop :=
  m.length ≤ m'.length ∧ ∀ a, a < m.length → ownerOf m' a = some .caller → ownerOf m a = some .caller

theorem NoGain.refl (m : Mem) : NoGain m m := ⟨Nat.le_refl _, fun _ _ h => h⟩

theorem NoGain.trans {m0 m1 m2 : Mem} (h1 : NoGain m0 m1) (h2 : NoGain m1 m2) : NoGain m0 m2 :=
  ⟨Nat.le_trans h1.1 h2.1, fun a ha h => h1.2 a ha (h2.2 a (Nat.lt_of_lt_of_le ha h1.1) h)⟩

theorem ng_alloc (m : Mem) (o : Owner) (b : Body) : NoGain m (alloc m o b).1 :=
  ⟨by simp, fun a ha h => by simpa [ownerOf, alloc, List.getElem?_append_left ha] using h⟩

theorem ownerOf_setBody (m : Mem) (a x : Addr) (b : Body) : ownerOf (setBody m a b) x = ownerOf m x := by
  unfold setBody
  cases hm : m[a]? with
  | none => rfl
  | some o =>
    by_cases e : a = x
    · subst e
      have hlt := (List.getElem?_eq_some_iff.mp hm).1
      simp [ownerOf, List.getElem?_set_self hlt, hm]
    · simp [ownerOf, List.getElem?_set_ne e]

theorem ng_setBody (m : Mem) (a : Addr) (b : Body) : NoGain m (setBody m a b) :=
  ⟨by simp, fun x _ h => by rwa [ownerOf_setBody] at h⟩

theorem ng_setOwner {m : Mem} {a : Addr} {f : Obj → Obj} (hf : ∀ o, (f o).owner ≠ .caller) :
    NoGain m (match m[a]? with
      | some o => m.set a (f o)
      | none => m) := by
  cases hm : m[a]? with
  | none => exact NoGain.refl m
  | some o =>
    refine ⟨by simp, fun x _ h => ?_⟩
    by_cases e : a = x
    · subst e
      have hlt := (List.getElem?_eq_some_iff.mp hm).1
      simp [ownerOf, List.getElem?_set_self hlt] at h
      exact absurd h (hf o)
    · simpa [ownerOf, List.getElem?_set_ne e] using h

theorem ng_freeze (m : Mem) (a : Addr) : NoGain m (freeze m a) :=
  ng_setOwner (f := fun o => { o with owner := .lib }) (fun _ => by simp)

theorem ng_publish (m : Mem) (a : Addr) : NoGain m (publish m a) :=
  ng_setOwner (f := fun o => { o with owner := .libset }) (fun _ => by simp)

theorem ng_freezeCaller (m : Mem) (a : Addr) : NoGain m (freezeCaller m a) := by
  unfold freezeCaller; split
  · exact ng_freeze m a
  · exact NoGain.refl m

theorem ng_goAppend {m m' : Mem} {own : Owner} {s x s' : Word} (he : goAppend m own s x = some (m', s')) :
    NoGain m m' := by
  cases s with
  | null => simp only [goAppend] at he; cases he; exact ng_alloc _ _ _
  | slice arr off len cap =>
    simp only [goAppend] at he
    cases hc : cellsOf m arr with
    | none => simp [hc] at he
    | some cells =>
      simp only [hc] at he
      split at he
      · cases he; exact ng_setBody _ _ _
      · cases he; exact ng_alloc _ _ _
  | _ => simp [goAppend] at he

theorem ng_setAdd {m m' : Mem} {eq : Equiv} {a : Addr} {x : Word} {hh : Int}
    (he : setAdd eq m a x hh = some m') : NoGain m m' := by
  unfold setAdd at he
  cases hk : kvsOf m a with
  | none => simp [hk] at he
  | some kvs =>
    simp only [hk] at he
    have key : ∀ (m1 : Mem) (b : Word), NoGain m m1 →
        (match sliceElems m1 b with
          | none => none
          | some elems =>
            if elems.any (eq m1 x) then some m1
            else match goAppend m1 (.bucket a) b x with
              | none => none
              | some (m2, b') => match kvsOf m2 a with
                | none => none
                | some kvs2 => some (setBody m2 a (.gomap (kvInsert (.i hh) b' kvs2)))) = some m' →
        NoGain m m' := by
      intro m1 b h1 he
      cases hse : sliceElems m1 b with
      | none => simp [hse] at he
      | some elems =>
        simp only [hse] at he
        split at he
        · cases he; exact h1
        · cases hg : goAppend m1 (.bucket a) b x with
          | none => simp [hg] at he
          | some r =>
            rcases r with ⟨m2, b'⟩
            simp only [hg] at he
            cases hk2 : kvsOf m2 a with
            | none => simp [hk2] at he
            | some kvs2 =>
              simp only [hk2] at he
              cases he
              exact (h1.trans (ng_goAppend hg)).trans (ng_setBody _ _ _)
    cases hl : kvLookup (.i hh) kvs with
    | some b => simp only [hl] at he; exact key m b (NoGain.refl m) he
    | none =>
      simp only [hl] at he
      exact key _ _ ((ng_alloc _ _ _).trans (ng_setBody _ _ _)) he

theorem ng_setAddAll {eq : Equiv} {a : Addr} : ∀ (xs : List Word) (hs : List Int) (m m' : Mem),
    setAddAll eq m a xs hs = some m' → NoGain m m' := by
  intro xs
  induction xs with
  | nil =>
    intro hs m m' he
    cases hs with
    | nil => simp [setAddAll] at he; subst he; exact NoGain.refl m
    | cons _ _ => simp [setAddAll] at he
  | cons x xs ih =>
    intro hs m m' he
    cases hs with
    | nil => simp [setAddAll] at he
    | cons hh hs =>
      simp only [setAddAll] at he
      cases ha : setAdd eq m a x hh with
      | none => simp [ha] at he
      | some m1 => simp only [ha] at he; exact (ng_setAdd ha).trans (ih hs m1 m' he)

theorem ng_setRemove {m m' : Mem} {eq : Equiv} {a : Addr} {x : Word} {hh : Int}
    (he : setRemove eq m a x hh = some m') : NoGain m m' := by
  unfold setRemove at he
  opt_cases he
  all_goals (first
    | exact NoGain.refl m
    | exact ng_setBody _ _ _
    | exact (ng_alloc _ _ _).trans (ng_setBody _ _ _))

theorem ng_copyBuckets {a' : Addr} : ∀ (l : List (Key × Word)) (m m' : Mem),
    copyBuckets m a' l = some m' → NoGain m m' := by
  intro l
  induction l with
  | nil => intro m m' he; simp [copyBuckets] at he; subst he; exact NoGain.refl m
  | cons kv r ih =>
    intro m m' he
    rcases kv with ⟨k, b⟩
    simp only [copyBuckets] at he
    split at he
    · exact ((ng_alloc _ _ _).trans (ng_setBody _ _ _)).trans (ih _ _ he)
    · simp at he

theorem ng_setCopy {m m' : Mem} {own : Owner} {a a' : Addr} (he : setCopy m own a = some (m', a')) :
    NoGain m m' := by
  unfold setCopy at he
  cases hk : kvsOf m a with
  | none => simp [hk] at he
  | some kvs =>
    simp only [hk, setNew, Option.map_eq_some_iff] at he
    obtain ⟨m2, hc, e⟩ := he
    cases e
    exact (ng_alloc _ _ _).trans (ng_copyBuckets kvs _ _ hc)

theorem ng_allocIdxKeys : ∀ (n i : Nat) (m : Mem), NoGain m (allocIdxKeys m i n).1 := by
  intro n
  induction n with
  | zero => intro i m; exact NoGain.refl m
  | succ n ih => intro i m; exact (ng_alloc _ _ _).trans (ih (i + 1) _)

theorem ng_iterElems {m m' : Mem} {t v : Word} {perm : List Nat} {kes : List (Word × Word)}
    (he : iterElems m t v perm = some (m', kes)) : NoGain m m' := by
  unfold iterElems at he
  opt_cases he
  all_goals (first | exact NoGain.refl m | exact ng_allocIdxKeys _ _ _)

theorem ng_walkChildren (m : Mem) (t v : Word) : NoGain m (walkChildren m t v).1 := by
  generalize he : walkChildren m t v = r
  unfold walkChildren at he
  simp only [] at he
  repeat' (split at he)
  all_goals (subst he)
  all_goals (first | exact NoGain.refl m | (apply ng_iterElems (kes := _); assumption))

theorem ng_expandPending (m : Mem) (wk : Walker) : NoGain m (expandPending m wk).1 := by
  unfold expandPending; split
  · exact ng_walkChildren _ _ _
  · exact NoGain.refl m

macro "ng_close" : tactic => `(tactic|
  (simp only [St.withMem, St.pushVal, St.pushGo, St.pushOut] at *
   first
    | exact NoGain.refl _
    | exact ng_alloc _ _ _
    | exact (ng_alloc _ _ _).trans (ng_alloc _ _ _)
    | exact ((ng_alloc _ _ _).trans (ng_alloc _ _ _)).trans (ng_alloc _ _ _)
    | exact ng_freezeCaller _ _
    | exact ng_setBody _ _ _
    | (apply ng_iterElems (kes := _); assumption)
    | (refine NoGain.trans ?_ (ng_alloc _ _ _); apply ng_iterElems (kes := _); assumption)
    | (apply ng_setCopy (a' := _); assumption)
    | (refine NoGain.trans ?_ (ng_publish _ _); apply ng_setCopy (a' := _); assumption)
    | (apply ng_setAdd; assumption)
    | (apply ng_setRemove; assumption)
    | (apply ng_goAppend (s' := _); assumption)
))

theorem stepApi_noGain {st st' : St} {c : Api} (h : stepApi st c = some st') : NoGain st.mem st'.mem := by
  cases c with
  | setVal g hs =>
    simp only [stepApi] at h
    opt_cases h
    rename_i m2 hm2
    exact (((ng_alloc _ _ _).trans (ng_alloc _ _ _)).trans (ng_setAddAll _ _ _ _ hm2)).trans (ng_publish _ _)
  | asValueSet v hs =>
    simp only [stepApi] at h
    opt_cases h
    rename_i r hr m2 hm2
    exact ((ng_iterElems (kes := r.2) hr).trans (ng_alloc _ _ _)).trans (ng_setAddAll _ _ _ _ hm2)
  | psAdd g p hh =>
    simp only [stepApi] at h
    opt_cases h
    · rename_i arr _ _ _ _ _ _ m2 hm2
      exact (ng_freezeCaller st.mem arr).trans (ng_setAdd hm2)
    · rename_i m2 hm2
      exact ng_setAdd hm2
  | psAddAllSteps g p hs =>
    simp only [stepApi] at h
    opt_cases h
    all_goals first
      | exact NoGain.refl _
      | (rename_i m2 hm2; exact (ng_freezeCaller st.mem _).trans (ng_setAddAll _ _ _ _ hm2))
  | walkNext w =>
    simp only [stepApi] at h
    opt_cases h
    · exact ng_expandPending _ _
    · rename_i wk _ _ _ _ _ _ _ _ r hg
      exact (ng_expandPending st.mem wk).trans (ng_goAppend (s' := r.2) hg)
  | _ =>
    simp only [stepApi] at h
    opt_cases h
    all_goals ng_close

theorem stepCaller_noGain {st st' : St} {c : Caller} (h : stepCaller st c = some st') : NoGain st.mem st'.mem := by
  cases c
  all_goals (simp only [stepCaller] at h; opt_cases h)
  all_goals ng_close

theorem step_noGain {st st' : St} {op : HeapOp} (h : step st op = some st') : NoGain st.mem st'.mem := by
  cases op with
  | api c => exact stepApi_noGain h
  | caller c => exact stepCaller_noGain h

end Heap
end CtyModel
