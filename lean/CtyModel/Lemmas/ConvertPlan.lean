/-
What `getConversionKnown` puts into a plan (inversion of `gck` and its list
helpers), and the shape of well-typed payloads.
-/
import CtyModel.Lemmas.ConvertBasic
namespace CtyModel
namespace Convert
open Ty

/-- an entry of `elemConvs` / `attrConvs` for source type `it` and target type `ot`:
nil because the types are equal, or the wrapped conversion between them -/
def PlanFor (E : Env) (uns : Bool) (it ot : Ty) (p : Plan) : Prop :=
  (p = .nil ∧ it.equals ot = true) ∨ (∃ c, p = .wrap ot c ∧ gck E it ot uns = some c)

theorem gcAll_inv (E : Env) (uns : Bool) (t : Ty) : ∀ {its : List Ty} {cs : List Plan},
    gcAll E its t uns = some cs → All2 (fun it p => PlanFor E uns it t p) its cs
  | [], cs, h => by simp [gcAll] at h; subst h; exact .nil
  | it :: its, cs, h => by
    rw [gcAll] at h
    split at h
    · rename_i he
      obtain ⟨cs', hcs, rfl⟩ := Option.map_eq_some_iff.mp h
      exact .cons (.inl ⟨rfl, he⟩) (gcAll_inv E uns t hcs)
    · split at h
      · simp at h
      · rename_i c hc
        obtain ⟨cs', hcs, rfl⟩ := Option.map_eq_some_iff.mp h
        exact .cons (.inr ⟨c, rfl, hc⟩) (gcAll_inv E uns t hcs)

/-- pointwise relation of three lists -/
inductive All3 {α β γ} (R : α → β → γ → Prop) : List α → List β → List γ → Prop
  | nil : All3 R [] [] []
  | cons {a b c as bs cs} : R a b c → All3 R as bs cs → All3 R (a :: as) (b :: bs) (c :: cs)

theorem gcZip_inv (E : Env) (uns : Bool) : ∀ {its ots : List Ty} {cs : List Plan},
    its.length = ots.length → gcZip E its ots uns = some cs →
    All3 (fun it ot p => PlanFor E uns it ot p) its ots cs
  | [], [], cs, _, h => by simp [gcZip] at h; subst h; exact .nil
  | [], _ :: _, _, hl, _ => by simp at hl
  | _ :: _, [], _, hl, _ => by simp at hl
  | it :: its, ot :: ots, cs, hl, h => by
    have hl' : its.length = ots.length := by simpa using hl
    rw [gcZip] at h
    split at h
    · rename_i he
      obtain ⟨cs', hcs, rfl⟩ := Option.map_eq_some_iff.mp h
      exact .cons (.inl ⟨rfl, he⟩) (gcZip_inv E uns hl' hcs)
    · split at h
      · simp at h
      · rename_i c hc
        obtain ⟨cs', hcs, rfl⟩ := Option.map_eq_some_iff.mp h
        exact .cons (.inr ⟨c, rfl, hc⟩) (gcZip_inv E uns hl' hcs)

/-- an entry of `attrConvs` for the attribute `n : it` of the source object -/
def AttrPlan (E : Env) (uns : Bool) (on : List String) (ot : List Ty) (oo : List Bool)
    (n : String) (it : Ty) (p : Plan) : Prop :=
  (p = .absent ∧ Ty.find n on ot oo = none) ∨
  (∃ oty o, Ty.find n on ot oo = some (oty, o) ∧ PlanFor E uns it oty p)

theorem gcObj_inv (E : Env) (uns : Bool) (on : List String) (ot : List Ty) (oo : List Bool) :
    ∀ {inn : List String} {its : List Ty} {cs : List Plan},
    inn.length = its.length → gcObj E inn its on ot oo uns = some cs →
    All3 (fun n it p => AttrPlan E uns on ot oo n it p) inn its cs
  | [], [], cs, _, h => by simp [gcObj] at h; subst h; exact .nil
  | [], _ :: _, _, hl, _ => by simp at hl
  | _ :: _, [], _, hl, _ => by simp at hl
  | n :: ns, it :: its, cs, hl, h => by
    have hl' : ns.length = its.length := by simpa using hl
    rw [gcObj] at h
    split at h
    · rename_i hf
      obtain ⟨cs', hcs, rfl⟩ := Option.map_eq_some_iff.mp h
      exact .cons (.inl ⟨rfl, hf⟩) (gcObj_inv E uns on ot oo hl' hcs)
    · rename_i oty o hf
      split at h
      · rename_i he
        obtain ⟨cs', hcs, rfl⟩ := Option.map_eq_some_iff.mp h
        exact .cons (.inr ⟨oty, o, hf, .inl ⟨rfl, he⟩⟩) (gcObj_inv E uns on ot oo hl' hcs)
      · split at h
        · simp at h
        · rename_i c hc
          obtain ⟨cs', hcs, rfl⟩ := Option.map_eq_some_iff.mp h
          exact .cons (.inr ⟨oty, o, hf, .inr ⟨c, rfl, hc⟩⟩) (gcObj_inv E uns on ot oo hl' hcs)

/-- an entry of `elemConvs` of conversionMapToObject for attribute type `ot` -/
def MapObjPlan (E : Env) (uns : Bool) (ie ot : Ty) (p : Plan) : Prop :=
  p = .impossible ∨ (p = .nil ∧ ot.equals ie = true) ∨ (∃ c, p = .wrap ot c ∧ gck E ie ot uns = some c)

theorem mapToObjConvs_inv (E : Env) (uns : Bool) (ie : Ty) : ∀ {ots : List Ty} {oos : List Bool} {cs : List Plan},
    ots.length = oos.length → mapToObjConvs (fun o => gck E ie o uns) ie ots oos = some cs →
    All2 (fun ot p => MapObjPlan E uns ie ot p) ots cs
  | [], [], cs, _, h => by simp [mapToObjConvs] at h; subst h; exact .nil
  | [], _ :: _, _, hl, _ => by simp at hl
  | _ :: _, [], _, hl, _ => by simp at hl
  | ot :: ots, oo :: oos, cs, hl, h => by
    have hl' : ots.length = oos.length := by simpa using hl
    rw [mapToObjConvs] at h
    split at h
    · rename_i he
      obtain ⟨cs', hcs, rfl⟩ := Option.map_eq_some_iff.mp h
      exact .cons (.inr (.inl ⟨rfl, he⟩)) (mapToObjConvs_inv E uns ie hl' hcs)
    · split at h
      · rename_i c hc
        obtain ⟨cs', hcs, rfl⟩ := Option.map_eq_some_iff.mp h
        exact .cons (.inr (.inr ⟨c, rfl, hc⟩)) (mapToObjConvs_inv E uns ie hl' hcs)
      · split at h
        · obtain ⟨cs', hcs, rfl⟩ := Option.map_eq_some_iff.mp h
          exact .cons (.inl rfl) (mapToObjConvs_inv E uns ie hl' hcs)
        · simp at h

end Convert
end CtyModel
