/-
C16 (d16): `cty.ParseNumberVal` = `big.ParseFloat(s, 10, 512, ToNearestEven)` WITH exponents
(`1e3`, `2.5E-2`, `1p4`), which `Msgpack.parseNumber` answers `.unmodelled`.  Follows
`(*big.Float).scan` (math/big floatconv.go): sign; mantissa digits with at most one point
(`fcount` fractional digits); exponent `e|E` (decimal) or `p|P` (binary) with an optional sign and
at least one digit; zero mantissa → zero; `exp2 = -fcount + exp`, `exp5 = -fcount + exp` (decimal
exponent only); the mantissa times 2^exp2, then — if `exp5 ≠ 0` — divided or multiplied by
`pow5(|exp5|)` computed at 576 bits (exact up to 5^248), rounded once to 512 bits.

Core Lean only.  Diffed against the real function by `d16.parse`.
-/
import CtyModel.Msgpack
namespace CtyModel
namespace Msgpack

def isExpChar (c : Char) : Bool := c == 'e' || c == 'E' || c == 'p' || c == 'P'

/-- `pow5(k)` of math/big at 576 bits: a table up to 5^27, the square-and-multiply loop beyond -/
def pow5x (k : Nat) : Num := if k ≤ 27 then .fin false (5 ^ k) 0 576 else pow5 k

/-- the characters that can only make a decimal literal or a syntax error -/
def litChar (c : Char) : Bool := isDigit c || c == '.' || c == '+' || c == '-' || c == '_' || isExpChar c

/-- `[+-]?digits+` of at most 6 digits (longer exponents: `.unmodelled`) -/
def expValue (cs : List Char) : Res Int :=
  let body (neg : Bool) (ds : List Char) : Res Int :=
    if ds.isEmpty || !ds.all isDigit then .err "number"
    else if ds.length > 6 then .unmodelled
    else .ok (if neg then -(digitsVal ds 0 : Int) else (digitsVal ds 0 : Int))
  match cs with
  | '-' :: r => body true r
  | '+' :: r => body false r
  | _ => body false cs

def parseUnsignedE (neg : Bool) (cs : List Char) : Res Num :=
  if !cs.any isExpChar then parseUnsigned neg cs
  else if !cs.all litChar then .unmodelled
  else
    let mant := cs.takeWhile fun c => !isExpChar c
    match cs.drop mant.length with
    | [] => .err "number"
    | ec :: rest =>
      let ip := mant.takeWhile isDigit
      let afterIp := mant.drop ip.length
      let fr? : Option (List Char) :=
        match afterIp with
        | [] => some []
        | '.' :: fr => if fr.all isDigit then some fr else none
        | _ => none
      match fr? with
      | none => .err "number"
      | some fr =>
        if ip.isEmpty && fr.isEmpty then .err "number"
        else
          match expValue rest with
          | .err c => .err c
          | .panic w => .panic w
          | .unmodelled => .unmodelled
          | .ok x =>
            let n := digitsVal (ip ++ fr) 0
            let k : Int := fr.length
            let dec := ec == 'e' || ec == 'E'
            let exp2 : Int := x - k
            let exp5 : Int := (if dec then x else 0) - k
            if n = 0 then .ok (Num.round neg 0 0 512)
            else if exp5 = 0 then .ok (Num.round neg n exp2 512)
            else if exp5 < 0 then
              (match pow5x (-exp5).toNat with
               | .fin _ m e _ => Num.quo (.fin neg n exp2 512) (.fin false m e 512)
               | _ => .unmodelled)
            else .ok (mulRound (.fin neg n exp2 512) (pow5x exp5.toNat) 512)

def parseCharsE (cs : List Char) : Res Num :=
  let body (neg : Bool) (cs : List Char) : Res Num :=
    if cs = ['I', 'n', 'f'] ∨ cs = ['i', 'n', 'f'] then .ok (.inf neg) else parseUnsignedE neg cs
  match cs with
  | '-' :: rest => body true rest
  | '+' :: rest => body false rest
  | _ => body false cs

/-- `cty.ParseNumberVal`, exponents included -/
def parseNumberE (s : String) : Res Num := parseCharsE s.toList

end Msgpack
end CtyModel
