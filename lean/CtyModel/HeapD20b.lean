/-
C20 (d20b) — entry points that READ sets, types and mark sets, as programs over the heap
of `CtyModel.Heap`, following the Go control flow cell by cell:

  * `Set[T].Values()` (cty/set/ops.go): `var ret []T; for each bucket id ascending
    { ret = append(ret, s.vals[id]...) }; sort.SliceStable(ret)` — with Go's `append`
    (in place when the capacity suffices, else a grown copy) and the sort IN PLACE on
    `ret`; on top of it `ValueSet.Values`, `Value.AsValueSlice` of a set value,
    `PathSet.List`, and the raw `Values()` of a PathSet's inner set;
  * `convert.Unify` on tuples and lists (`unifyTuplesAsList`: `listed := make; copy;
    listed[idx] = ty` — the caller's `[]cty.Type` is only read);
  * `Value.UnmarkDeepWithPaths` (`transform` + `unmarkTransformer.Enter`: `Unmark` hands
    out a COPY of every mark set, the path is copied into `make(Path, len, len+1)`);
  * `PathSet.Union` / `PathSet.Subtract` (`NewSet` + `EachValue` + `Add`, also for an
    empty operand).

Each seeded change that these histories caught on the real code only
(`/verif/seeded/C20-set-values-seeded-from-first-bucket`, `C20-unify-tuples-as-list-
substitutes-in-place`, `C20-unmark-transformer-records-internal-mark-sets`,
`C19-pathset-union-subtract-empty-operand-aliases-result`) is kept here as a `…Seeded`
variant of the same program: the theorems of `Props/C20.lean` §8 hold of the current
shape and are refuted (`by decide`) by the seeded one.

Core Lean only (the driver imports this file).
-/
import CtyModel.HeapOps
namespace CtyModel
namespace Heap

/-! ### `append(s, xs...)` -/

/-- Go's growth rule for `append` of SEVERAL elements (`growslice`): the needed length
when it exceeds twice the old capacity, else twice the old capacity (below 256).  The
rounding to allocator size classes is the identity for the results the histories reach
(at most 10 elements of 16 or 24 bytes); the harness compares every resulting `cap`. -/
def growCapTo (cap need : Nat) : Nat := if 2 * cap < need then need else 2 * cap

/-- cells `i, i+1, …` of a backing array overwritten by `xs` -/
def writeCells (cells : List Word) (i : Nat) (xs : List Word) : List Word :=
  cells.take i ++ xs ++ cells.drop (i + xs.length)

/-- `append(s, xs...)`: in place when `len + k ≤ cap` (WRITES cells `off+len …` of the
backing array `s` shares), otherwise a fresh array of `growCapTo cap (len + k)` cells. -/
def goAppendMany (m : Mem) (own : Owner) (s : Word) (xs : List Word) : Option (Mem × Word) :=
  if xs.isEmpty then some (m, s)
  else
    match s with
    | .null =>
      let nc := growCapTo 0 xs.length
      let (m', a) := alloc m own (.array (xs ++ List.replicate (nc - xs.length) Word.null))
      some (m', .slice a 0 xs.length nc)
    | .slice arr off len cap =>
      match cellsOf m arr with
      | none => none
      | some cells =>
        if len + xs.length ≤ cap then
          some (setBody m arr (.array (writeCells cells (off + len) xs)), .slice arr off (len + xs.length) cap)
        else
          let nc := growCapTo cap (len + xs.length)
          let body := window cells off len ++ xs ++ List.replicate (nc - len - xs.length) Word.null
          let (m', a) := alloc m own (.array body)
          some (m', .slice a 0 (len + xs.length) nc)
    | _ => none

/-! ### `Set[T].Values()` -/

/-- `for _, bucketID := range bucketIDs { ret = append(ret, s.vals[bucketID]...) }` -/
def appendBuckets (own : Owner) : Mem → Word → List (Key × Word) → Option (Mem × Word)
  | m, ret, [] => some (m, ret)
  | m, ret, (_, b) :: r =>
    match sliceElems m b with
    | none => none
    | some xs =>
      match goAppendMany m own ret xs with
      | none => none
      | some (m', ret') => appendBuckets own m' ret' r

/-- `sort.SliceStable(ret, less)`: permutes the cells of `ret`'s backing array IN PLACE
(`perm` is the oracle column: the order the real `Less` sorts the members into) -/
def sortSlice (m : Mem) (ret : Word) (perm : List Nat) : Option (Mem × Word) :=
  match ret with
  | .null => if perm.isEmpty then some (m, ret) else none
  | .slice arr off len _ =>
    match cellsOf m arr with
    | none => none
    | some cells =>
      match applyPerm (window cells off len) perm with
      | none => none
      | some ys => some (setBody m arr (.array (writeCells cells off ys)), ret)
  | _ => none

/-- `Set[T].Values()` — the CURRENT code: `ret` starts as the nil slice, so the first
`append` allocates and everything written afterwards is the call's own array. -/
def setValuesGo (m : Mem) (own : Owner) (a : Addr) (ordered : Bool) (perm : List Nat) : Option (Mem × Word) :=
  match kvsOf m a with
  | none => none
  | some kvs =>
    match appendBuckets own m .null kvs with
    | none => none
    | some (m1, ret) => if ordered then sortSlice m1 ret perm else some (m1, ret)

/-- `Set[T].Values()` with the SEEDED change (`ret := s.vals[bucketIDs[0]]`, the other
buckets appended to it): kept only as the shape the theorems refute. -/
def setValuesSeeded (m : Mem) (own : Owner) (a : Addr) (ordered : Bool) (perm : List Nat) : Option (Mem × Word) :=
  match kvsOf m a with
  | none => none
  | some [] => some (m, .null)
  | some ((_, b0) :: r) =>
    match appendBuckets own m b0 r with
    | none => none
    | some (m1, ret) => if ordered then sortSlice m1 ret perm else some (m1, ret)

/-! ### `convert.Unify` on tuples and lists -/

def isTupleTy : Word → Bool
  | .ttuple _ => true
  | _ => false

def isListTy : Word → Bool
  | .tlist _ => true
  | _ => false

/-- the primitive `p` of `list(p)` or of a non-empty `tuple(p, …, p)` -/
def primOfTy (m : Mem) : Word → Option String
  | .tlist (.tprim p) => some p
  | .ttuple ts =>
    match sliceElems m ts with
    | some (.tprim p :: r) => if r.all (· == .tprim p) then some p else none
    | _ => none
  | _ => none

/-- the fragment of `unify` the model covers: every given type is `list(p)` or
`tuple(p, …, p)` for ONE primitive `p`, at least one list and one tuple — exactly the
case `listCt > 0 && listCt + tupleCt == len(types)` that goes through
`unifyTuplesAsList`, with `unifyTupleTypesToList(tuples) = list(p)` and
`unify(listed) = list(p)`. -/
def unifyFragment (m : Mem) (cells : List Word) : Option String :=
  match cells.mapM (primOfTy m) with
  | some (p :: ps) =>
    if ps.all (· == p) && cells.any isTupleTy && cells.any isListTy && p != "dyn" then some p else none
  | _ => none

/-- `unifyTuplesAsList(types)`: what it does to the heap and the list type it answers.
`types` is the CALLER's slice (or the `ElemTypes` of a tuple type, when `Convert` /
`setproduct` hand over `Type.TupleElementTypes()`): it is only read. -/
def unifyTuplesAsListGo (m : Mem) (types : Word) : Option (Mem × Word) :=
  match sliceElems m types with
  | none => none
  | some cells =>
    match unifyFragment m cells with
    | none => none
    | some p =>
      -- tuples = append(tuples, t); tupleIdxs = append(tupleIdxs, i): arrays of its own
      let (m1, _) := alloc m .caller (.array (cells.filter isTupleTy))
      let ty := Word.tlist (.tprim p)                       -- unifyTupleTypesToList(tuples)
      -- listed := make([]cty.Type, len(types)); copy(listed, types)
      let (m2, la) := alloc m1 .caller (.array cells)
      -- for _, idx := range tupleIdxs { listed[idx] = ty }
      let m3 := setBody m2 la (.array (cells.map fun c => if isTupleTy c then ty else c))
      some (m3, ty)                                         -- unify(listed) = list(p)

/-- …with the SEEDED change (`types[idx] = ty`, put back only on failure) -/
def unifyTuplesAsListSeeded (m : Mem) (types : Word) : Option (Mem × Word) :=
  match types with
  | .slice arr off len _ =>
    match cellsOf m arr with
    | none => none
    | some all =>
      let cells := window all off len
      match unifyFragment m cells with
      | none => none
      | some p =>
        let (m1, _) := alloc m .caller (.array (cells.filter isTupleTy))
        let ty := Word.tlist (.tprim p)
        some (setBody m1 arr (.array (writeCells all off (cells.map fun c => if isTupleTy c then ty else c))), ty)
  | _ => none

/-! ### `UnmarkDeepWithPaths` -/

/-- what a (sub)transform answers: heap, new payload, the `PathValueMarks` recorded
(path slice, mark set) in the order `Enter` ran -/
abbrev UDRes := Mem × Word × List (Word × Word)

/-- `unmarkTransformer.Enter(p, v)`: `unmarkedVal, marks := v.Unmark()` — a COPY of the
mark set — and, when there are marks, `path := make(Path, len(p), len(p)+1); copy`. -/
def udEnter (m : Mem) (path : List Word) (p : Word) : UDRes :=
  match p with
  | .marked ms r =>
    let l := (marksOf m ms).getD []
    let (ma, mk) := alloc m .caller (.markset l)
    if l.isEmpty then (ma, r, [])
    else
      let (mb, pa) := alloc ma .caller (.array (path ++ [.null]))
      (mb, r, [(.slice pa 0 path.length (path.length + 1), .marks mk)])
  | _ => (m, p, [])

/-- …with the SEEDED change: the marker's own mark set is recorded -/
def udEnterSeeded (m : Mem) (path : List Word) (p : Word) : UDRes :=
  match p with
  | .marked ms r =>
    let l := (marksOf m ms).getD []
    if l.isEmpty then (m, r, [])
    else
      let (mb, pa) := alloc m .caller (.array (path ++ [.null]))
      (mb, r, [(.slice pa 0 path.length (path.length + 1), .marks ms)])
  | _ => (m, p, [])

/-- the elements of a list / tuple in index order: `path := append(path, IndexStep{kv})`
with the fresh `NumberIntVal(i)` key of the element iterator -/
def udSeq (rec : Mem → List Word → Word → Word → Option UDRes) (path : List Word) :
    Mem → Nat → List (Word × Word) → Option (Mem × List Word × List (Word × Word))
  | m, _, [] => some (m, [], [])
  | m, i, (t, x) :: r =>
    let (m1, ka) := alloc m .lib (.bigfloat i)
    match rec m1 (path ++ [.pair tNumber (.num ka)]) t x with
    | none => none
    | some (m2, x', pv) =>
      match udSeq rec path m2 (i + 1) r with
      | none => none
      | some (m3, xs', pvs) => some (m3, x' :: xs', pv ++ pvs)

/-- the path step to a map element (`IndexStep{StringVal(k)}`) or an attribute (`GetAttrStep{k}`) -/
def udStep (attr : Bool) : Key → Word
  | .s name => if attr then .attr name else .pair tString (.str name)
  | .i n => .pair tNumber (.unk (toString n))

/-- the elements of a map (`attr = false`: `IndexStep{StringVal(k)}`) or the attributes
of an object (`attr = true`: `GetAttrStep{k}`) in key order -/
def udKV (rec : Mem → List Word → Word → Word → Option UDRes) (path : List Word) (attr : Bool) :
    Mem → List (Key × Word × Word) → Option (Mem × List (Key × Word) × List (Word × Word))
  | m, [] => some (m, [], [])
  | m, (k, t, x) :: r =>
    match rec m (path ++ [udStep attr k]) t x with
    | none => none
    | some (m2, x', pv) =>
      match udKV rec path attr m2 r with
      | none => none
      | some (m3, xs', pvs) => some (m3, (k, x') :: xs', pv ++ pvs)

/-- `transform(path, val, &unmarkTransformer{})` for lists, tuples, maps, objects and
leaves (sets: not modelled — the harness does not build them here).  `enter` is
`udEnter` (current code) or `udEnterSeeded`.  The second component of the answer is the
new VALUE (`.pair type payload`): `ListVal` / `TupleVal` / `MapVal` / `ObjectVal` build a new
type from the types of the new elements — a tuple or object type gets a NEW `ElemTypes`
slice / `AttrTypes` map — while an empty container, a null, an unknown or a leaf is handed
back as it is (type shared). -/
def udw (enter : Mem → List Word → Word → UDRes) : Nat → Mem → List Word → Word → Word → Option UDRes
  | 0, _, _, _, _ => none
  | f + 1, m, path, t, p =>
    match enter m path p with
    | (m1, p1, pv) =>
      match t, p1 with
      | .tlist e, .slice .. =>
        match sliceElems m1 p1 with
        | none => none
        | some xs =>
          if xs.isEmpty then some (m1, .pair t p1, pv)
          else
            match udSeq (udw enter f) path m1 0 (xs.map fun x => (e, x)) with
            | none => none
            | some (m2, xs', pvs) =>
              match splitPairs xs' with
              | none => none
              | some (ts, vs) =>
                let (m3, a) := alloc m2 .lib (.array vs)       -- ListVal(elems)
                some (m3, .pair (.tlist (elemType ts)) (.slice a 0 vs.length vs.length), pv ++ pvs)
      | .ttuple tys, .slice .. =>
        match sliceElems m1 p1, sliceElems m1 tys with
        | some xs, some tys =>
          if xs.isEmpty then some (m1, .pair t p1, pv)
          else
            match udSeq (udw enter f) path m1 0 (tys.zip xs) with
            | none => none
            | some (m2, xs', pvs) =>
              match splitPairs xs' with
              | none => none
              | some (ts, vs) =>
                let (m3, ta) := alloc m2 .lib (.array ts)      -- TupleVal(elems): fresh elemTypes
                let (m4, va) := alloc m3 .lib (.array vs)      -- …and elemVals
                some (m4, .pair (.ttuple (.slice ta 0 ts.length ts.length)) (.slice va 0 vs.length vs.length), pv ++ pvs)
        | _, _ => none
      | .tmap e, .map a =>
        match kvsOf m1 a with
        | none => none
        | some kvs =>
          if kvs.isEmpty then some (m1, .pair t p1, pv)
          else
            match udKV (udw enter f) path false m1 (kvs.map fun kv => (kv.1, e, kv.2)) with
            | none => none
            | some (m2, kvs', pvs) =>
              match splitKV kvs' with
              | none => none
              | some (kts, kvv) =>
                let (m3, a') := alloc m2 .lib (.gomap kvv)     -- MapVal(elems)
                some (m3, .pair (.tmap (elemType (kts.map (·.2)))) (.map a'), pv ++ pvs)
      | .tobject (.map ta), .map a =>
        match kvsOf m1 a, kvsOf m1 ta with
        | some kvs, some tkvs =>
          if tkvs.isEmpty then some (m1, .pair t p1, pv)
          else
            match udKV (udw enter f) path true m1
                (tkvs.map fun tkv => (tkv.1, tkv.2, (kvLookup tkv.1 kvs).getD .null)) with
            | none => none
            | some (m2, kvs', pvs) =>
              match splitKV kvs' with
              | none => none
              | some (kts, kvv) =>
                let (m3, ta') := alloc m2 .lib (.gomap kts)    -- ObjectVal(newAVs): fresh attrTypes
                let (m4, a') := alloc m3 .lib (.gomap kvv)     -- …and attrVals
                some (m4, .pair (.tobject (.map ta')) (.map a'), pv ++ pvs)
        | _, _ => none
      | .tset _, .set _ => none
      | _, _ => some (m1, .pair t p1, pv)

def udFuel : Nat := 8

/-! ### `PathSet.Subtract`'s loop -/

/-- `s1.EachValue(func(v) { if !s2.Has(v) { rs.Add(v) } })` over the values `s1.Values()` gave -/
def subtractLoop (eq : Equiv) (r b : Addr) : Mem → List Word → List Int → Option Mem
  | m, x :: xs, h :: hs =>
    match setHas eq m b x h with
    | none => none
    | some true => subtractLoop eq r b m xs hs
    | some false =>
      match setAdd eq m r x h with
      | none => none
      | some m' => subtractLoop eq r b m' xs hs
  | m, [], [] => some m
  | _, _, _ => none

/-- `s.EachValue(func(v) { rs.Add(v) })`: the iterator is `s.Values()`, taken BEFORE the first
`Add`; `hs` = the hashes of the members in that order (what is left of it is handed back) -/
def valuesThenAddAll (m : Mem) (r a : Addr) (hs : List Int) : Option (Mem × List Int) :=
  match setValuesGo m .caller a false [] with
  | none => none
  | some (m1, v) =>
    match sliceElems m1 v with
    | none => none
    | some xs => (setAddAll equivPath m1 r xs (hs.take xs.length)).map fun m2 => (m2, hs.drop xs.length)

/-! ### the entry points as steps -/

/-- the added API entry points (`hs`, `perm`: oracle columns as in `Heap.Api`) -/
inductive XApi where
  | vsValues (g : Nat) (perm : List Nat)   -- ValueSet.Values()
  | valValues (v : Nat) (perm : List Nat)  -- Value.AsValueSlice() of a set value
  | psList (g : Nat)                       -- PathSet.List()
  | psValues (g : Nat)                     -- the inner set.Set[Path].Values() itself: exact len/cap
  | unify (g : Nat)                        -- convert.Unify(types) through unifyTuplesAsList
  | unmarkDeepWithPaths (v : Nat)
  | psUnion (g h : Nat) (hs : List Int)    -- hashes of the members of the receiver, then of the argument
  | psSubtract (g h : Nat) (hs : List Int) -- hashes of the members of the receiver
  deriving DecidableEq, Repr, Inhabited

/-- `ret := make([]T, 0, l); for it := s.Iterator(); it.Next(); { ret = append(ret, wrap(it.Value())) }`
over the set at `a`: the iterator is `s.Values()`, every `append` finds room -/
def collectValues (st : St) (a : Addr) (ordered : Bool) (perm : List Nat) (wrap : Word → Word) : Option St :=
  match setMembers st.mem a with
  | none => none
  | some xs =>
    if xs.isEmpty then some (st.pushGo .null)
    else
      let (m0, arr) := alloc st.mem .caller (.array (List.replicate xs.length .null))
      match setValuesGo m0 .caller a ordered perm with
      | none => none
      | some (m1, vals) =>
        match sliceElems m1 vals with
        | none => none
        | some ys =>
          some ((st.withMem (setBody m1 arr (.array (ys.map wrap)))).pushGo (.slice arr 0 ys.length xs.length))

def pushPVM (st : St) : List (Word × Word) → St
  | [] => st
  | (p, mk) :: r => pushPVM ((st.pushGo p).pushGo mk) r

def stepXApi (st : St) : XApi → Option St
  | .vsValues g perm =>
    match st.go g with
    | some (.pair ety (.set a)) => collectValues st a true perm (Word.pair ety)
    | _ => none
  | .valValues v perm =>
    match st.val v with
    | some (.tset ety, .set a) => collectValues st a true perm (Word.pair ety)
    | _ => none
  | .psList g =>
    match st.go g with
    | some (.set a) => collectValues st a false [] id
    | _ => none
  | .psValues g =>
    match st.go g with
    | some (.set a) =>
      match setValuesGo st.mem .caller a false [] with
      | some (m', .slice arr off len cap) => some ((st.withMem m').pushGo (.slice arr off len cap))
      | some (m', .null) => some ((st.withMem m').pushGo .null)
      | _ => none
    | _ => none
  | .unify g =>
    match st.go g with
    | some types => (unifyTuplesAsListGo st.mem types).map fun r => (st.withMem r.1).pushVal r.2 .null
    | none => none
  | .unmarkDeepWithPaths v =>
    match st.val v with
    | some (t, p) => (udw udEnter udFuel st.mem [] t p).map fun r =>
        pushPVM { st with mem := r.1, vals := st.vals ++ [r.2.1] } r.2.2
    | none => none
  | .psUnion g h hs =>
    match st.go g, st.go h with
    | some (.set a), some (.set b) =>
      -- rs := NewSet(rules); s1.EachValue(rs.Add); s2.EachValue(rs.Add)
      match valuesThenAddAll (setNew st.mem .helper).1 (setNew st.mem .helper).2 a hs with
      | none => none
      | some (m2, hs2) =>
        (valuesThenAddAll m2 (setNew st.mem .helper).2 b hs2).map fun r4 =>
          (st.withMem r4.1).pushGo (.set (setNew st.mem .helper).2)
    | _, _ => none
  | .psSubtract g h hs =>
    match st.go g, st.go h with
    | some (.set a), some (.set b) =>
      match setValuesGo (setNew st.mem .helper).1 .caller a false [] with
      | none => none
      | some (m1, v1) =>
        match sliceElems m1 v1 with
        | none => none
        | some xs =>
          (subtractLoop equivPath (setNew st.mem .helper).2 b m1 xs hs).map fun m2 =>
            (st.withMem m2).pushGo (.set (setNew st.mem .helper).2)
    | _, _ => none

/-- a history step: one of the 49 + 18 steps of `HeapOps`, or one of the added entry points -/
inductive XOp where
  | base (op : HeapOp)
  | x (c : XApi)
  deriving DecidableEq, Repr, Inhabited

def stepX (st : St) : XOp → Option St
  | .base op => step st op
  | .x c => stepXApi st c

def runX (st : St) : List XOp → St
  | [] => st
  | op :: ops => runX ((stepX st op).getD st) ops

/-- the ownership rules of `HeapOps.respectful`; the added entry points ask for nothing -/
def respectfulX (st : St) : XOp → Bool
  | .base op => respectful st op
  | .x _ => true

def respectfulRunX : St → List XOp → Bool
  | _, [] => true
  | st, op :: ops => respectfulX st op && respectfulRunX ((stepX st op).getD st) ops

/-- every step applies -/
def runXStrict : St → List XOp → Option St
  | st, [] => some st
  | st, op :: ops => (stepX st op).bind fun st' => runXStrict st' ops

/-! ### the seeded shapes as steps (regression witnesses only) -/

def psValuesSeeded (st : St) (g : Nat) : Option St :=
  match st.go g with
  | some (.set a) => (setValuesSeeded st.mem .caller a false []).map fun r => (st.withMem r.1).pushGo r.2
  | _ => none

def valValuesSeeded (st : St) (v : Nat) (perm : List Nat) : Option St :=
  match st.val v with
  | some (.tset _, .set a) => (setValuesSeeded st.mem .caller a true perm).map fun r => st.withMem r.1
  | _ => none

def unifySeeded (st : St) (g : Nat) : Option St :=
  match st.go g with
  | some types => (unifyTuplesAsListSeeded st.mem types).map fun r => (st.withMem r.1).pushVal r.2 .null
  | none => none

def unmarkDeepWithPathsSeeded (st : St) (v : Nat) : Option St :=
  match st.val v with
  | some (t, p) => (udw udEnterSeeded udFuel st.mem [] t p).map fun r =>
      pushPVM { st with mem := r.1, vals := st.vals ++ [r.2.1] } r.2.2
  | none => none

/-- `PathSet.Union` with the seeded shortcut: an empty operand answers the other one -/
def psUnionSeeded (st : St) (g h : Nat) (hs : List Int) : Option St :=
  match st.go g, st.go h with
  | some (.set a), some (.set b) =>
    if (setMembers st.mem b).getD [] == [] then some (st.pushGo (.set a))
    else if (setMembers st.mem a).getD [] == [] then some (st.pushGo (.set b))
    else stepXApi st (.psUnion g h hs)
  | _, _ => none

end Heap
end CtyModel
