/-
The GIVEN API of the second part of the translation of cty/gocty/out.go (slice d18b): `fromCtyValue` and the SHAPE CHECKS
of the collection and structure decoders `fromCtyList`, `fromCtySet`, `fromCtyMap`, `fromCtyTuple`, `fromCtyObject`
(`extract/translate_gocty_shape.go` → `Generated/GoctyShapeFns.lean`).  Read together with `CtyModel/GoctyGo.lean`.

What is translated is the code AROUND the element loops: the dispatch on the target's kind, the null
guards, `length != target.Len()`, the tuple's field-count test and its positional loop.  What is NOT translated
and stands here as an assumption about the Go text:

* the recursive call `fromCtyValue(v, t, path)` is the parameter `rec_ : Rec` of every generated function (open
  recursion): `rec v T` = the outcome of decoding `v` into a fresh, settable zero target of type `T` and what that
  target then holds.  The tie instantiates it with the hand-written model `Gocty.fromCtyS S`;
* the five `val.ForEachElement(func …)` loops are closures, outside the translator's fragment.  Each loop, with the
  statements that prepare and consume its variables, is a PINNED REGION: the translator compares the source text of
  the region with the text it was written against and fails closed on any difference; the region's meaning is one of
  the `…Into…` functions below (decode every element in iteration order, stop at the first failure).
* `cty.Path` is erased (as in GoctyGo): `path = append(path, nil)`, `path[len(path)-1] = …`, `path = path[:len(path)-1]`
  are dropped.

Core only (imported by the generated file).
-/
import CtyModel.GoctyGo
namespace CtyModel
namespace GoctyGo
open Gocty

/-- `fromCtyValue(v, t, path)` on a fresh settable zero target of type `T` -/
abbrev Rec := Value → GoTy → Res GoVal

/-! ### `cty.Value` methods -/

/-- `val.IsNull()` (looks through marks) -/
def valIsNull (v : Value) : Bool := v.isNull
/-- `val.IsKnown()` (looks through marks) -/
def valIsKnown (v : Value) : Bool := v.isKnown

/-- `val.LengthInt()` -/
def lengthInt (v : Value) : Res Int :=
  if v.isMarked then .panic "value is marked, so must be unmarked first"
  else match v.ty, v.v with
    | .tuple es, _ => .ok es.length
    | .object names _ _, _ => .ok names.length
    | _, .unk _ => .panic "value is not known"
    | _, .null => .panic "value is null"
    | .list _, .seq cs => .ok cs.length
    | .set _, .sset _ cs => .ok cs.length
    | .map _, .smap _ cs => .ok cs.length
    | .list _, _ => .unmodelled
    | .set _, _ => .unmodelled
    | .map _, _ => .unmodelled
    | _, _ => .panic "value is not a collection"

/-! ### `reflect` -/

/-- `target.Len()`: the length of an array type; of a slice, map or string the length of the value held (not modelled) -/
def targetLen : GoTy → Res Int
  | .array n _ => .ok n
  | .slice _ => .unmodelled
  | .map _ => .unmodelled
  | .str => .unmodelled
  | _ => .panic "reflect: call of reflect.Value.Len on a Value of another kind"

/-- `t.Key()`: the key type of a map type (`GoTy.map` is `map[string]…`) -/
def typeKey : GoTy → Res GoTy
  | .map _ => .ok .str
  | _ => .panic "reflect: Key of non-map type"

/-- `target.Set(reflect.Zero(target.Type()))` -/
def setZero (T : GoTy) : Res GoVal := .ok (zeroVal T)

/-! ### fromCtyValue: `fromCtyPopulatePtr`, the type tests, writing a `cty.Value`

`fromCtyPopulatePtr(target, decodingNull)` walks down the pointers of the target, allocating the nil ones, and returns the
pointee it stops at: with `decodingNull = false` the first non-pointer (`T.base`); with `true` the LAST pointer (whose
pointee is not a pointer) if there is one, else the target itself.  (Its interface branch can not arise: a `GoTy` has no
interface-typed slots.  The target is a settable zero: every pointer on the way is nil and gets allocated.)  The code then
works on that pointee; `populateLift` rebuilds what the original target holds from what was written there. -/

/-- the type of `fromCtyPopulatePtr(target, decodingNull)` -/
def populateTy (T : GoTy) (decodingNull : Bool) : GoTy :=
  if decodingNull then (if T.depth = 0 then T else .ptr T.base) else T.base

/-- the pointers `fromCtyPopulatePtr(target, decodingNull)` allocated around the pointee it returns -/
def populateLift (T : GoTy) (decodingNull : Bool) : GoVal → GoVal :=
  if decodingNull then wrapPtr (T.depth - 1) else wrapPtr T.depth

/-- an outcome of an operation on the pointee, as an outcome for the original target -/
def liftRes (f : GoVal → GoVal) (r : Res GoVal) : Res GoVal := mapRes f r

/-- `deepTarget.Set(reflect.ValueOf(val))` for a `cty.Value`: assignable only to `cty.Value` -/
def setCval (T : GoTy) (v : Value) : Res GoVal :=
  if isNamed T .valueType then .ok (.cval v) else .panic "reflect.Set: value of type cty.Value is not assignable"

/-- `ty == cty.Bool` …: `==` on `cty.Type` values one of which is a primitive type -/
def tyIs : Ty → Ty → Bool
  | .bool, .bool => true
  | .number, .number => true
  | .string, .string => true
  | _, _ => false

def isListType : Ty → Bool | .list _ => true | _ => false
def isMapType : Ty → Bool | .map _ => true | _ => false
def isSetType : Ty → Bool | .set _ => true | _ => false
def isObjectType : Ty → Bool | .object _ _ _ => true | _ => false
def isTupleType : Ty → Bool | .tuple _ => true | _ => false
def isCapsuleType : Ty → Bool | .capsule _ => true | _ => false

/-- `fromCtyCapsule` is NOT translated: the Go payload of a capsule is opaque to the model -/
def fromCtyCapsule (v : Value) (T : GoTy) : Res GoVal := .unmodelled

/-! ### the pinned regions: the `ForEachElement` loops -/

/-- decode each member into a fresh `E`; the loop stops at the first failure -/
def decodeAll (rec : Rec) (ety : Ty) (cs : List Payload) (E : GoTy) : Res (List GoVal) :=
  seqAll (cs.map fun c => rec ⟨ety, c⟩ E)

/-- … in the order in which `ForEachElement` visits the members of a set -/
def decodeSet (rec : Rec) (ety : Ty) (cs : List Payload) (E : GoTy) : Res (List GoVal) :=
  if cs.length ≥ 2 && (!isPrimTy ety || Payload.containsMarkedL cs) then .unmodelled
  else seqAll (setOrder ety cs (cs.map fun c => rec ⟨ety, c⟩ E))

/-- fromCtyList, slice target: `tv := reflect.MakeSlice(target.Type(), length, length)` … `target.Set(tv)` -/
def listIntoSlice (rec : Rec) (v : Value) (T : GoTy) (length : Int) : Res GoVal :=
  if v.isMarked then .panic "value is marked, so must be unmarked first"
  else match T, v.ty, v.v with
    | .slice E, .list ety, .seq cs =>
      if (cs.length : Int) ≠ length then .unmodelled else mapRes GoVal.slice (decodeAll rec ety cs E)
    | _, _, _ => .unmodelled

/-- fromCtyList, array target: `path = append(path, nil)` … `path = path[:len(path)-1]`; the elements are
decoded into `target.Index(i)` (the lengths agree when the region is reached) -/
def listIntoArray (rec : Rec) (v : Value) (T : GoTy) : Res GoVal :=
  if v.isMarked then .panic "value is marked, so must be unmarked first"
  else match T, v.ty, v.v with
    | .array n E, .list ety, .seq cs =>
      if cs.length ≠ n then .unmodelled else mapRes GoVal.arr (decodeAll rec ety cs E)
    | _, _, _ => .unmodelled

/-- fromCtySet, slice target -/
def setIntoSlice (rec : Rec) (v : Value) (T : GoTy) (length : Int) : Res GoVal :=
  if v.isMarked then .panic "value is marked, so must be unmarked first"
  else match T, v.ty, v.v with
    | .slice E, .set ety, .sset _ cs =>
      if (cs.length : Int) ≠ length then .unmodelled else mapRes GoVal.slice (decodeSet rec ety cs E)
    | _, _, _ => .unmodelled

/-- fromCtySet, array target -/
def setIntoArray (rec : Rec) (v : Value) (T : GoTy) : Res GoVal :=
  if v.isMarked then .panic "value is marked, so must be unmarked first"
  else match T, v.ty, v.v with
    | .array n E, .set ety, .sset _ cs =>
      if cs.length ≠ n then .unmodelled else mapRes GoVal.arr (decodeSet rec ety cs E)
    | _, _, _ => .unmodelled

/-- fromCtyMap: `tv := reflect.MakeMap(target.Type())` … `target.Set(tv)`: every element is decoded into a fresh
`reflect.New(et)` and entered under its key (also the one whose decoding failed, after which the loop stops) -/
def mapIntoMap (rec : Rec) (v : Value) (T : GoTy) : Res GoVal :=
  if v.isMarked then .panic "value is marked, so must be unmarked first"
  else match T, v.ty, v.v with
    | .map E, .map ety, .smap ks cs => mapRes (GoVal.map ks) (decodeAll rec ety cs E)
    | _, _, _ => .unmodelled

/-! ### fromCtyObject: two loops over Go maps, pinned regions

`for k, i := range targetFields` (the missing-attribute check) and `for k := range attrTypes` (decode every attribute into
the field that carries its name) range over Go maps and use comma-ok lookups: outside the translator's fragment.  Their
meaning is written here in the vocabulary of the hand-written model (`missingRequired`, `lookupTag`, `combSched`,
`assemble`); `ord names` is the order in which Go visits the attribute names. -/

/-- the tags and field types `structTagIndices(target.Type())` / `target.Field(i)` see: a `GoTy.struct`'s effective tags;
big.Int, big.Float and cty.Value are structs without tagged fields -/
def tagView : GoTy → Option (List String × List GoTy)
  | .struct tags tys => some (effTags tags, tys)
  | .bigInt => some ([], [])
  | .bigFloat => some ([], [])
  | .cval => some ([], [])
  | _ => none

/-- `attrTypes := …; targetFields := …; path = append(path, nil); for k, i := range targetFields { … }` -/
def objectMissingCheck (v : Value) (T : GoTy) (tv : GoVal) : Res GoVal :=
  match tagView T, v.ty with
  | some (etags, tys), .object names _ _ =>
    if missingRequired names etags tys then .err "missing required attribute %q" else .ok tv
  | _, _ => .unmodelled

/-- one result per attribute, in name order: refused if no field carries the name, else decoded into that field's type -/
def attrDecodes (rec : Rec) (ms : List String) : List String → List Ty → List Payload → List String → List GoTy → List (Res GoVal)
  | k :: names, aty :: atys, c :: cs, tags, tys =>
    (match lookupTag k tags tys with
     | none => .err "unsupported attribute"
     | some T => rec ⟨aty, pushMarks ms c⟩ T) :: attrDecodes rec ms names atys cs tags tys
  | _, _, _, _, _ => []

/-- `for k := range attrTypes { … }`: the attributes are visited in the order `ord names`; the first failure ends the loop;
the struct the target holds afterwards has, per tagged field, the decoded attribute of its name -/
def objectIntoFields (rec : Rec) (ord : List String → List String) (v : Value) (T : GoTy) (tv : GoVal) : Res GoVal :=
  match v.ty, v.v.unmark1 with
  | .object names atys _, .smap ks cs =>
    if ks != names then .unmodelled
    else
      (match T with
       | .struct tags tys =>
         mapRes (fun gs => GoVal.struct tags (assemble names gs (effTags tags) tys))
           (combSched (ord names) names (attrDecodes rec v.v.marks1 names atys cs (effTags tags) tys))
       | .bigInt | .bigFloat | .cval => if names.isEmpty then .ok tv else .err "unsupported attribute %q"
       | _ => .unmodelled)
  | _, _ => .unmodelled

/-! ### fromCtyTuple: the positional loop (translated; these are the `reflect`/`cty` calls in its body) -/

/-- `ty.TupleElementTypes()` -/
def tupleElementTypes : Ty → Res (List Ty)
  | .tuple es => .ok es
  | _ => .panic "not a tuple type"

/-- `target.Type().NumField()` -/
def numField : GoTy → Res Int
  | .struct _ tys => .ok tys.length
  | .bigInt => .ok 2
  | .bigFloat => .ok 7
  | .cval => .ok 2
  | _ => .panic "reflect: NumField of non-struct type"

/-- `val.Index(cty.NumberIntVal(int64(i)))` on a tuple: the member with the tuple's marks merged in -/
def valIndex (v : Value) (i : Int) : Res Value :=
  if !v.isKnown then .unmodelled
  else match v.ty, v.v.unmark1 with
    | .tuple es, .seq cs =>
      if i < 0 then .panic "index out of range"
      else match es[i.toNat]?, cs[i.toNat]? with
        | some ety, some c => .ok ⟨ety, pushMarks v.v.marks1 c⟩
        | _, _ => .panic "index out of range"
    | _, _ => .unmodelled

/-- `target.Field(i).CanSet()`: the fields of a `GoTy.struct` are exported; those of big.Int, big.Float, cty.Value are not -/
def fieldCanSet (T : GoTy) (i : Int) : Res Bool :=
  match T with
  | .struct _ tys => if 0 ≤ i ∧ i.toNat < tys.length then .ok true else .panic "reflect: Field index out of range"
  | .bigInt => if 0 ≤ i ∧ i < 2 then .ok false else .panic "reflect: Field index out of range"
  | .bigFloat => if 0 ≤ i ∧ i < 7 then .ok false else .panic "reflect: Field index out of range"
  | .cval => if 0 ≤ i ∧ i < 2 then .ok false else .panic "reflect: Field index out of range"
  | _ => .panic "reflect: call of reflect.Value.Field on a Value of another kind"

/-- `err := fromCtyValue(ev, target.Field(i), path)`: the field is decoded in place; the struct the target holds afterwards -/
def intoField (rec : Rec) (T : GoTy) (tv : GoVal) (i : Int) (ev : Value) : Res GoVal :=
  match T, tv with
  | .struct _ tys, .struct tags gs =>
    if i < 0 then .panic "reflect: Field index out of range"
    else match tys[i.toNat]? with
      | some Ti => mapRes (fun g => GoVal.struct tags (gs.set i.toNat g)) (rec ev Ti)
      | none => .panic "reflect: Field index out of range"
  | _, _ => .unmodelled

/-- `for i := range xs { body }` where the body either falls through (`.ok` of the new target state) or leaves the
function with an error or a panic: the iterations from `i` on, `n` of them -/
def forRangeFrom (body : Int → GoVal → Res GoVal) : Nat → Nat → GoVal → Res GoVal
  | _, 0, s => .ok s
  | i, n + 1, s =>
    match body i s with
    | .ok s' => forRangeFrom body (i + 1) n s'
    | .err c => .err c
    | .panic w => .panic w
    | .unmodelled => .unmodelled

/-- `for i := range xs` over a slice of `n` elements -/
def forRange (n : Nat) (body : Int → GoVal → Res GoVal) (s : GoVal) : Res GoVal := forRangeFrom body 0 n s

end GoctyGo
end CtyModel
