/-
Paths (cty/path.go) and what they rest on: `Value.RawEquals` (value_ops.go) and
the two facts about a set-typed value that this model takes from the
implementation instead of re-deriving them (`SetOracle`).

`Path` = list of `PathStep`; `PathStep` = `GetAttrStep{Name}` | `IndexStep{Key}`.
`Path.apply`, `PathStep.apply` follow `Path.Apply`, `IndexStep.Apply`,
`GetAttrStep.Apply` branch for branch and are built from the operation methods
`isNull`, `hasIndex`, `index`, `getAttr` of `Ops2.lean`; a Go panic is `.panic`.

Core Lean only: the driver links this file.
-/
import CtyModel.Ops2
namespace CtyModel

/-- What the model is told about cty's set rules rather than computing it:
`hash e m` is `setRules{e}.Hash(m)` (crc32 over `%q`-style hash bytes) of a
mark-free member payload, and `iter e ids ms` is the order in which
`ElementIterator` / `Values()` delivers the members of the set value
`⟨.set e, .sset ids ms⟩` (bucket order, then `sort.SliceStable` by
`setRules.Less`).  The harness reads both off the real implementation for every
set it meets; theorems quantify over the oracle and name the contract they need
(`Lemmas/WalkBase.lean`: `IterPerm`, `SetsOk`). -/
structure SetOracle where
  hash : Ty → Payload → Int
  iter : Ty → List Int → List Payload → List Payload

/-- the oracle of a model in which sets iterate in storage order (used in examples) -/
def SetOracle.storage (hash : Ty → Payload → Int := fun _ _ => 0) : SetOracle :=
  ⟨hash, fun _ _ ms => ms⟩

namespace Value

/-! ### RawEquals -/

def boundRawEqual : Option Bound → Option Bound → Bool
  | none, none => true
  | some a, some b => Num.rawEqual a.v b.v && a.incl == b.incl
  | _, _ => false

/-- `unknownValRefinement.rawEqual`, preceded by the nil tests of `RawEquals` -/
def rfnRawEqual : Rfn → Rfn → Bool
  | .unref, .unref => true
  | .nullable a, .nullable b => a == b
  | .str a p, .str b q => a == b && p == q
  | .num a lo hi, .num b lo' hi' => a == b && boundRawEqual lo lo' && boundRawEqual hi hi'
  | .coll a l h, .coll b l' h' => a == b && l == l' && h == h'
  | _, _ => false

abbrev RawRec := Ty → Payload → Ty → Payload → Res Bool

/-- pairwise with one element type, same length already established -/
def rawAll (rec : RawRec) (e : Ty) : List Payload → List Payload → Res Bool
  | x :: xs, y :: ys =>
    match rec e x e y with
    | .ok true => rawAll rec e xs ys
    | r => r
  | _, _ => .ok true

/-- pairwise with per-position types (tuple elements, object attributes in name order) -/
def rawZip (rec : RawRec) : List Ty → List Payload → List Payload → Res Bool
  | t :: ts, x :: xs, y :: ys =>
    match rec t x t y with
    | .ok true => rawZip rec ts xs ys
    | r => r
  | _, _, _ => .ok true

/-- map branch: every key of the receiver is in the other map with a raw-equal element -/
def rawMap (rec : RawRec) (e : Ty) : List String → List Payload → List String → List Payload → Res Bool
  | k :: ks, x :: xs, ky, ys =>
    match lookupKey k ky ys with
    | none => .ok false
    | some y =>
      match rec e x e y with
      | .ok true => rawMap rec e ks xs ky ys
      | r => r
  | _, _, _, _ => .ok true

/-- `val.RawEquals(other)`; `fuel` bounds the nesting depth -/
def rawEqualsFuel (X : SetOracle) : Nat → RawRec
  | 0, _, _, _, _ => .unmodelled
  | fuel + 1, ta, a, tb, b =>
    if !(ta.equals tb) then .ok false
    else if a.isMarked != b.isMarked || a.marks1 != b.marks1 then .ok false
    else
      let rec' := rawEqualsFuel X fuel
      match a.unmark1, b.unmark1 with
      | .unk ra, .unk rb => .ok (rfnRawEqual ra rb)
      | .unk _, _ => .ok false
      | _, .unk _ => .ok false
      | .null, .null => .ok true
      | .null, _ => .ok false
      | _, .null => .ok false
      | x, y =>
        match ta with
        | .dyn => .ok true
        | .number | .bool | .string => (equalsP ta x tb y).map (·.isTrue)
        | .object _ ts _ =>
          match x, y with
          | .smap _ xs, .smap _ ys => rawZip rec' ts xs ys
          | _, _ => .panic "payload is not a map"
        | .tuple ts =>
          match x, y with
          | .seq xs, .seq ys => rawZip rec' ts xs ys
          | _, _ => .panic "payload is not a slice"
        | .list e =>
          match x, y with
          | .seq xs, .seq ys => if xs.length == ys.length then rawAll rec' e xs ys else .ok false
          | _, _ => .panic "payload is not a slice"
        | .set e =>
          match x, y with
          | .sset ix xs, .sset iy ys =>
            -- AsValueSlice of both: members in iteration order
            let l1 := X.iter e ix xs
            let l2 := X.iter e iy ys
            if l1.length == l2.length then rawAll rec' e l1 l2 else .ok false
          | _, _ => .panic "payload is not a set"
        | .map e =>
          match x, y with
          | .smap kx xs, .smap ky ys =>
            if xs.length == ys.length then rawMap rec' e kx xs ky ys else .ok false
          | _, _ => .panic "payload is not a map"
        | .capsule _ => .unmodelled      -- pointer identity of the encapsulated Go value

def rawEqualsP (X : SetOracle) (ta : Ty) (a : Payload) (tb : Ty) (b : Payload) : Res Bool :=
  rawEqualsFuel X (max a.depth b.depth + 1) ta a tb b

/-- `Value.RawEquals` -/
def rawEquals (X : SetOracle) (a b : Value) : Res Bool := rawEqualsP X a.ty a.v b.ty b.v

def strVal (s : String) : Value := ⟨.string, .s s⟩

end Value

/-! ### path steps -/

/-- `PathStep`: the closed interface with its two implementations -/
inductive PathStep where
  | getAttr (name : String)      -- `GetAttrStep{Name: name}`
  | index (key : Value)          -- `IndexStep{Key: key}`
  deriving Repr, Inhabited, BEq

/-- `Path` = `[]PathStep` -/
abbrev Path := List PathStep

namespace PathStep

def isIndex : PathStep → Bool
  | .index _ => true
  | _ => false

/-- `Type.ElementType()`: panics unless the type is a collection type -/
def elementType : Ty → Res Ty
  | .list e | .set e | .map e => .ok e
  | _ => .panic "ElementType on non-collection type"

def isListOrTuple : Ty → Bool
  | .list _ | .tuple _ => true
  | _ => false
def isMap : Ty → Bool
  | .map _ => true
  | _ => false
def isTuple : Ty → Bool
  | .tuple _ => true
  | _ => false
def isObject : Ty → Bool
  | .object _ _ _ => true
  | _ => false

/-- `IndexStep.Apply` / `GetAttrStep.Apply` -/
def apply (s : PathStep) (val : Value) : Res Value :=
  match s with
  | .index key =>
    if val.isNull then .err "cannot index a null value"
    else
      let kindOk : Res Unit :=
        match key.ty with
        | .number => if isListOrTuple val.ty then .ok () else .err "not a list type"
        | .string => if isMap val.ty then .ok () else .err "not a map type"
        | _ => .err "key value not number or string"
      match kindOk with
      | .ok () =>
        if key.isNull then .err "key value is null"
        else
        match val.hasIndex key with
        | .ok has =>
          let has := has.unmark
          if !has.isKnown then
            -- an unknown index into a tuple: no particular element type
            if isTuple val.ty then .ok Value.dynVal
            else (elementType val.ty).map Value.unknown
          else if !has.isTrue then .err "value does not have given index key"
          else val.index key
        | .err c => .err c
        | .panic w => .panic w
        | .unmodelled => .unmodelled
      | .err c => .err c
      | .panic w => .panic w
      | .unmodelled => .unmodelled
  | .getAttr name =>
    if val.isNull then .err "cannot access attributes on a null value"
    else
      match val.ty with
      | .object ns _ _ =>
        if !(ns.contains name) then .err "object has no attribute"
        else val.getAttr name
      | _ => .err "not an object type"

end PathStep

namespace Path

/-- `Path.Apply`: the steps in turn; the first error ends it -/
def apply : Path → Value → Res Value
  | [], val => .ok val
  | s :: rest, val =>
    match s.apply val with
    | .ok v => apply rest v
    | .err c => .err c
    | .panic w => .panic w
    | .unmodelled => .unmodelled

/-- `Path.LastStep`: all steps but the last applied, and the last step (`none` = Go's nil) -/
def lastStep (p : Path) (val : Value) : Res (Value × Option PathStep) :=
  match p.getLast? with
  | none => .ok (val, none)
  | some l => (apply p.dropLast val).map fun v => (v, some l)

/-- `Path.Equals`: same length and stepwise the same step type with equal name /
`RawEquals` key -/
def equals (X : SetOracle) : Path → Path → Res Bool
  | [], [] => .ok true
  | .getAttr a :: p, .getAttr b :: q => if a == b then equals X p q else .ok false
  | .index a :: p, .index b :: q =>
    match Value.rawEquals X a b with
    | .ok true => equals X p q
    | r => r
  | _, _ => .ok false

/-- `Path.HasPrefix` -/
def hasPrefix (X : SetOracle) (p pre : Path) : Res Bool :=
  if pre.length > p.length then .ok false else equals X (p.take pre.length) pre

/-- `Path.Copy` (a fresh slice with the same steps) -/
def copy (p : Path) : Path := p

/-- `Path.Index`, `IndexInt`, `IndexString`, `GetAttr` and the `…Path` starters -/
def index (p : Path) (v : Value) : Path := p ++ [.index v]
def indexInt (p : Path) (i : Int) : Path := p.index (Value.intVal i)
def indexString (p : Path) (s : String) : Path := p.index (Value.strVal s)
def getAttr (p : Path) (name : String) : Path := p ++ [.getAttr name]
def indexPath (v : Value) : Path := index [] v
def indexIntPath (i : Int) : Path := indexInt [] i
def indexStringPath (s : String) : Path := indexString [] s
def getAttrPath (name : String) : Path := getAttr [] name

end Path

/-! ### wire codec -/
namespace PathStep
def toSexp : PathStep → Sexp
  | .getAttr n => .list [.atom "a", Sexp.encStr n]
  | .index k => .list [.atom "i", k.toSexp]
def ofSexp : Sexp → Option PathStep
  | .list [.atom "a", n] => (Sexp.decStr n).map .getAttr
  | .list [.atom "i", k] => (Value.ofSexp k).map .index
  | _ => none
end PathStep
namespace Path
def toSexp (p : Path) : Sexp := .list (p.map PathStep.toSexp)
def ofSexp : Sexp → Option Path
  | .list l => l.mapM PathStep.ofSexp
  | _ => none
end Path

end CtyModel
