/-
The marks API of `cty.Value` (cty/marks.go), the mark handling of the collection
constructors (cty/value_init.go), of the conversion wrapper
(cty/convert/conversion.go `getConversion`) and the table of operation methods
whose mark prologues (cty/value_ops.go) property C04 is about.

Everything here is a transliteration that the harness (harness/c04.go) diffs
against /repo through `Driver/HMarks.lean`; specifications and lemmas live in
`Lemmas/Marks*.lean`, the property theorems in `Props/C04.lean`.

Mark sets are sorted duplicate-free lists of mark names (`Marks.lean`).
Core Lean only: the driver links this file.
-/
import CtyModel.Ops2
import CtyModel.SetImpl
namespace CtyModel

/-- union of a slice of mark sets (`WithMarks(marks...)`, `NewValueMarks`) -/
def unionAllMarks (mss : List (List String)) : List String := mss.foldr unionMarks []

namespace Value

/-! ### cty/marks.go -/

/-- `Value.Mark(mark)`: an existing marker layer is unwrapped and its marks are
retained, so there is never more than one layer. (String marks only, so the
`ValueMarks`-argument panic cannot arise.) -/
def mark (v : Value) (m : String) : Value :=
  ⟨v.ty, .marked (insertMark m v.v.marks1) v.v.unmark1⟩

/-- `Value.WithMarks(marks ...ValueMarks)`: `len(marks) == 0` and `markCount == 0`
both return the receiver unchanged -/
def withMarksV (v : Value) (mss : List (List String)) : Value :=
  if mss.length == 0 then v else v.withMarks (unionAllMarks mss)

/-- `Value.Unmark()`: `(value, marks)`; an unmarked receiver is returned verbatim with nil marks -/
def unmarkPair (v : Value) : Value × List String :=
  if !v.isMarked then (v, []) else (v.unmark, v.marks)

/-- `Value.UnmarkDeep()`: `(value, superset of all marks)` -/
def unmarkDeepPair (v : Value) : Value × List String := (v.unmarkDeep, v.marksDeep)

/-- `Value.HasMark(mark)` -/
def hasMark (v : Value) (m : String) : Bool := v.marks.contains m

/-- `ValueMarks.Equal`: same length and every mark of the first is in the second -/
def marksEqual (a b : List String) : Bool := a.length == b.length && a.all b.contains

/-- `Value.HasSameMarks(other)` -/
def hasSameMarks (a b : Value) : Bool :=
  if a.isMarked != b.isMarked then false
  else if a.isMarked then marksEqual a.marks b.marks
  else true

/-- `Value.WithSameMarks(srcs ...Value)`: the receiver's own marks plus the
top-level marks of every source; no sources or no marks at all → receiver unchanged -/
def withSameMarks (v : Value) (srcs : List Value) : Value :=
  if srcs.length == 0 then v
  else
    let all := unionMarks v.marks (unionAllMarks (srcs.map Value.marks))
    if all.isEmpty then v else ⟨v.ty, .marked all v.v.unmark1⟩

/-! ### paths (cty/path.go), as far as marks need them -/

/-- a path step: `IndexStep{Key: NumberIntVal(i)}` (list / tuple),
`IndexStep{Key: StringVal(k)}` (map), `GetAttrStep{Name: n}` (object) -/
inductive Step where
  | idx (i : Nat)
  | key (k : String)
  | attr (n : String)
  deriving Repr, DecidableEq, Inhabited

abbrev Path := List Step

/-- `cty.PathValueMarks` -/
structure PVM where
  path : Path
  marks : List String
  deriving Repr, DecidableEq, Inhabited

/-- element type of a collection type (`dyn` when the type has none) -/
def elemTy : Ty → Ty
  | .list e | .set e | .map e => e
  | _ => .dyn

/-!
### `Value.UnmarkDeepWithPaths` = `TransformWithTransformer(val, &unmarkTransformer{})`

`transform` (cty/walk.go) calls `Enter` (which unmarks the node and records
`(path, marks)` when `len(marks) > 0`), stops at null / unknown, otherwise
transforms the members in iteration order (list and tuple by index, map by
ascending key, object attributes in Go-map order — the model uses ascending
names and the harness compares the records as a set) and rebuilds the
collection with the constructor of its kind.

Members of a set never contain marks (`SetVal` hoists them — C04.setVal_hoists —
and hashing a member that contains a mark panics), so below a set node `Enter`
records nothing and `SetVal` rebuilds the very same set: the model returns it
as it is.  A marker directly inside a marker cannot be built through the API
(`Mark` / `WithMarks` merge into the existing layer); the model records each layer.
-/
mutual
def unmarkPaths (t : Ty) (path : Path) : Payload → Payload × List PVM
  | .marked ms r =>
    let q := unmarkPaths t path r
    (q.1, (if ms.length > 0 then [⟨path, ms⟩] else []) ++ q.2)
  | .seq vs =>
    match t with
    | .tuple es => let q := unmarkPathsZip es path 0 vs; (.seq q.1, q.2)
    | t => let q := unmarkPathsAll (elemTy t) path 0 vs; (.seq q.1, q.2)
  | .smap ks vs =>
    match t with
    | .object _ ts _ => let q := unmarkPathsObj ts path ks vs; (.smap ks q.1, q.2)
    | t => let q := unmarkPathsMap (elemTy t) path ks vs; (.smap ks q.1, q.2)
  | p => (p, [])
/-- list members, `IndexStep{NumberIntVal(i)}` -/
def unmarkPathsAll (e : Ty) (path : Path) : Nat → List Payload → List Payload × List PVM
  | _, [] => ([], [])
  | i, v :: vs =>
    let q := unmarkPaths e (path ++ [.idx i]) v
    let r := unmarkPathsAll e path (i + 1) vs
    (q.1 :: r.1, q.2 ++ r.2)
/-- tuple members -/
def unmarkPathsZip (es : List Ty) (path : Path) : Nat → List Payload → List Payload × List PVM
  | _, [] => ([], [])
  | i, v :: vs =>
    let q := unmarkPaths (es.headD .dyn) (path ++ [.idx i]) v
    let r := unmarkPathsZip es.tail path (i + 1) vs
    (q.1 :: r.1, q.2 ++ r.2)
/-- map members, `IndexStep{StringVal(k)}` -/
def unmarkPathsMap (e : Ty) (path : Path) : List String → List Payload → List Payload × List PVM
  | k :: ks, v :: vs =>
    let q := unmarkPaths e (path ++ [.key k]) v
    let r := unmarkPathsMap e path ks vs
    (q.1 :: r.1, q.2 ++ r.2)
  | _, vs => (vs, [])
/-- object attributes, `GetAttrStep{n}` -/
def unmarkPathsObj (ts : List Ty) (path : Path) : List String → List Payload → List Payload × List PVM
  | k :: ks, v :: vs =>
    let q := unmarkPaths (ts.headD .dyn) (path ++ [.attr k]) v
    let r := unmarkPathsObj ts.tail path ks vs
    (q.1 :: r.1, q.2 ++ r.2)
  | _, vs => (vs, [])
end

/-- `Value.UnmarkDeepWithPaths()` -/
def unmarkDeepWithPaths (v : Value) : Value × List PVM :=
  let q := unmarkPaths v.ty [] v.v
  (⟨v.ty, q.1⟩, q.2)

/-!
### `Value.MarkWithPaths(pvm)` = `TransformWithTransformer(val, &applyPathValueMarksTransformer{pvm})`

`Enter` is the identity; `transform` peels the node's own marks off, transforms
the members, rebuilds the collection and re-applies the peeled marks; `Exit`
then adds the marks of the FIRST record whose path equals the node's path.
Because `WithMarks` merges into one layer and the union is idempotent and
commutative, "re-apply own marks, then add the record's marks" is computed here
as "add the record's marks to the unmarked node, then re-apply the own marks".

Below a non-empty set the paths are `IndexStep{Key: member}` and rebuilding
goes through `SetVal` (which hoists); the model answers `.unmodelled` when some
record could reach below a set node (its path strictly extends the set's path),
and otherwise returns the set as it is.
-/
def firstMarksAt (pvm : List PVM) (path : Path) : Option (List String) :=
  (pvm.find? (fun e => e.path == path)).map (·.marks)

/-- `applyPathValueMarksTransformer.Exit` -/
def exitMark (pvm : List PVM) (path : Path) (p : Payload) : Payload :=
  match firstMarksAt pvm path with
  | some ms => p.withMarks ms
  | none => p

/-- some record's path strictly extends `path` -/
def reachesBelow (pvm : List PVM) (path : Path) : Bool :=
  pvm.any fun e => path.length < e.path.length && path.isPrefixOf e.path

mutual
def markPaths (pvm : List PVM) (t : Ty) (path : Path) : Payload → Res Payload
  | .marked ms r => (markPaths pvm t path r).map (·.withMarks ms)
  | .seq vs =>
    match t with
    | .tuple es => (markPathsZip pvm es path 0 vs).map fun kids => exitMark pvm path (.seq kids)
    | t => (markPathsAll pvm (elemTy t) path 0 vs).map fun kids => exitMark pvm path (.seq kids)
  | .smap ks vs =>
    match t with
    | .object _ ts _ => (markPathsObj pvm ts path ks vs).map fun kids => exitMark pvm path (.smap ks kids)
    | t => (markPathsMap pvm (elemTy t) path ks vs).map fun kids => exitMark pvm path (.smap ks kids)
  | .sset ids vs =>
    if !vs.isEmpty && reachesBelow pvm path then .unmodelled
    else .ok (exitMark pvm path (.sset ids vs))
  | p => .ok (exitMark pvm path p)
def markPathsAll (pvm : List PVM) (e : Ty) (path : Path) : Nat → List Payload → Res (List Payload)
  | _, [] => .ok []
  | i, v :: vs =>
    match markPaths pvm e (path ++ [.idx i]) v with
    | .ok q => (markPathsAll pvm e path (i + 1) vs).map (q :: ·)
    | .err c => .err c
    | .panic w => .panic w
    | .unmodelled => .unmodelled
def markPathsZip (pvm : List PVM) (es : List Ty) (path : Path) : Nat → List Payload → Res (List Payload)
  | _, [] => .ok []
  | i, v :: vs =>
    match markPaths pvm (es.headD .dyn) (path ++ [.idx i]) v with
    | .ok q => (markPathsZip pvm es.tail path (i + 1) vs).map (q :: ·)
    | .err c => .err c
    | .panic w => .panic w
    | .unmodelled => .unmodelled
def markPathsMap (pvm : List PVM) (e : Ty) (path : Path) : List String → List Payload → Res (List Payload)
  | k :: ks, v :: vs =>
    match markPaths pvm e (path ++ [.key k]) v with
    | .ok q => (markPathsMap pvm e path ks vs).map (q :: ·)
    | .err c => .err c
    | .panic w => .panic w
    | .unmodelled => .unmodelled
  | _, vs => .ok vs
def markPathsObj (pvm : List PVM) (ts : List Ty) (path : Path) : List String → List Payload → Res (List Payload)
  | k :: ks, v :: vs =>
    match markPaths pvm (ts.headD .dyn) (path ++ [.attr k]) v with
    | .ok q => (markPathsObj pvm ts.tail path ks vs).map (q :: ·)
    | .err c => .err c
    | .panic w => .panic w
    | .unmodelled => .unmodelled
  | _, vs => .ok vs
end

/-!
### `Value.UnmarkDeep` as `transform` really computes it: sets are REBUILT

`transform` replaces every non-empty set node by `SetVal(members in iteration
order)`.  The members keep their buckets, but inside a bucket the slice order
becomes the iteration order — `Values()`: bucket order, then `sort.SliceStable`
by `setRules.Less` — instead of the order in which the members were once added.
That changes the payload only when one bucket holds several members that `Less`
puts in another order than they are stored in (members whose hash bytes collide
under crc32); `RawEquals` and every accessor go through `Values()` and cannot
tell.  `stripMarks` (Marks.lean) leaves sets as they are; the two agree up to
that re-ordering (`Lemmas/MarksSets`: `sameSets_unmarkDeepR`).

`bytesLess` is `bytes.Compare(makeSetHashBytes(a), makeSetHashBytes(b)) < 0`, the
order `Less` uses for element types that are not primitive (an oracle).
-/

/-- `setRules{ety}.Less(a, b)` on mark-free member payloads -/
def memberLess (bytesLess : Ty → Payload → Payload → Bool) (ety : Ty) (a b : Payload) : Bool :=
  if a == b then false
  else if b.isNull && !a.isNull then true
  else if a.isNull then false
  else if a.isKnown && !b.isKnown then true
  else if !a.isKnown then false
  else match ety with
    | .string => (match a, b with
      | .s x, .s y => decide (x < y)
      | _, _ => false)
    | .bool => (match a, b with
      | .b x, .b y => y || !x
      | _, _ => false)
    | .number => (match a, b with
      | .n x, .n y => decide (Num.cmp x y < 0)
      | _, _ => false)
    | _ => bytesLess ety a b

/-- `SetVal(Values())`: the members in iteration order (stable sort by `Less`),
added one by one to a fresh bucket map (stable regrouping by bucket id) -/
def rebuildSet (less : Payload → Payload → Bool) (ids : List Int) (vs : List Payload) : List Int × List Payload :=
  let sorted := SetImpl.sortStable (fun a b => less a.2 b.2) (ids.zip vs)
  let regrouped := SetImpl.sortStable (fun a b => decide (a.1 < b.1)) sorted
  (regrouped.map (·.1), regrouped.map (·.2))

mutual
def unmarkDeepR (bl : Ty → Payload → Payload → Bool) (t : Ty) : Payload → Payload
  | .marked _ r => unmarkDeepR bl t r
  | .seq vs =>
    match t with
    | .tuple es => .seq (unmarkDeepRZip bl es vs)
    | t => .seq (unmarkDeepRAll bl (elemTy t) vs)
  | .smap ks vs =>
    match t with
    | .object _ ts _ => .smap ks (unmarkDeepRZip bl ts vs)
    | t => .smap ks (unmarkDeepRAll bl (elemTy t) vs)
  | .sset ids vs =>
    let r := rebuildSet (memberLess bl (elemTy t)) ids (unmarkDeepRAll bl (elemTy t) vs)
    .sset r.1 r.2
  | p => p
def unmarkDeepRAll (bl : Ty → Payload → Payload → Bool) (e : Ty) : List Payload → List Payload
  | [] => []
  | v :: vs => unmarkDeepR bl e v :: unmarkDeepRAll bl e vs
def unmarkDeepRZip (bl : Ty → Payload → Payload → Bool) : List Ty → List Payload → List Payload
  | _, [] => []
  | ts, v :: vs => unmarkDeepR bl (ts.headD .dyn) v :: unmarkDeepRZip bl ts.tail vs
end

/-- `Value.UnmarkDeep()`, sets rebuilt -/
def unmarkDeepRPair (bl : Ty → Payload → Payload → Bool) (v : Value) : Value × List String :=
  (⟨v.ty, unmarkDeepR bl v.ty v.v⟩, v.marksDeep)

/-- `Value.MarkWithPaths(pvm)` -/
def markWithPaths (v : Value) (pvm : List PVM) : Res Value :=
  (markPaths pvm v.ty [] v.v).map fun p => ⟨v.ty, p⟩

/-! ### collection constructors (cty/value_init.go) -/

/-- one step of the element-type loop shared by `ListVal`, `MapVal`, `SetVal`:
`none` = "inconsistent element types" -/
def elemTypeStep (acc : Ty) (t : Ty) : Option Ty :=
  if acc.isDyn then some t
  else if !t.isDyn && !(acc.equals t) then none
  else some acc

/-- the element-type loop -/
def elemTypeLoop : Ty → List Value → Res Ty
  | acc, [] => .ok acc
  | acc, v :: vs =>
    match elemTypeStep acc v.ty with
    | none => .panic "inconsistent element types"
    | some a => elemTypeLoop a vs

def payloadsOf : List Value → List Payload
  | [] => []
  | v :: vs => v.v :: payloadsOf vs

/-- `cty.ListVal`: no mark handling at all — a marked element keeps its marks
inside the list, the list itself is unmarked -/
def listVal (vals : List Value) : Res Value :=
  if vals.isEmpty then .panic "must not call ListVal with empty slice"
  else (elemTypeLoop .dyn vals).map fun et => ⟨.list et, .seq (payloadsOf vals)⟩

/-- `cty.MapVal` for keys in ascending order (already normalised): no mark handling -/
def mapVal (keys : List String) (vals : List Value) : Res Value :=
  if vals.isEmpty then .panic "must not call MapVal with empty map"
  else (elemTypeLoop .dyn vals).map fun et => ⟨.map et, .smap keys (payloadsOf vals)⟩

/-- `s.vals[h] = append(s.vals[h], x)` on the flattened set (bucket ids
ascending, slice order within a bucket) -/
def setInsert (h : Int) (x : Payload) : List Int → List Payload → List Int × List Payload
  | j :: js, y :: ys =>
    if h < j then (h :: j :: js, x :: y :: ys)
    else let r := setInsert h x js ys; (j :: r.1, y :: r.2)
  | _, _ => ([h], [x])

/-- `set.NewSetFromSlice`: `Add` every element in turn; `hashes` are the
implementation's bucket ids of the (unmarked) elements — an oracle column, as in
`hasElement`; `none` = hashing the element panics -/
def setAddAll (e : Ty) : List Payload → List (Option Int) → List Int → List Payload → Res (List Int × List Payload)
  | [], _, ids, vs => .ok (ids, vs)
  | _ :: _, [], _, _ => .unmodelled
  | _ :: _, none :: _, _, _ => .panic "hash of element panics"
  | x :: xs, some h :: hs, ids, vs =>
    match setHas equalsP e h x ids vs with
    | .ok true => setAddAll e xs hs ids vs
    | .ok false => let r := setInsert h x ids vs; setAddAll e xs hs r.1 r.2
    | .err c => .err c
    | .panic w => .panic w
    | .unmodelled => .unmodelled

/-- the loop of `SetVal`: every element is unmarked deeply, its marks are set
aside (`markSets = append(markSets, marks)` when `len(marks) > 0`), then the
element-type step runs on the unmarked element -/
def setValLoop : Ty → List Value → Res (Ty × List Payload × List (List String))
  | acc, [] => .ok (acc, [], [])
  | acc, v :: vs =>
    let val := if v.marksDeep.length > 0 then v.unmarkDeep else v
    let ms : List (List String) := if v.marksDeep.length > 0 then [v.marksDeep] else []
    match elemTypeStep acc val.ty with
    | none => .panic "inconsistent set element types"
    | some a =>
      match setValLoop a vs with
      | .ok (t, ps, mss) => .ok (t, val.v :: ps, ms ++ mss)
      | .err c => .err c
      | .panic w => .panic w
      | .unmodelled => .unmodelled

/-- `cty.SetVal`: element marks (at any depth) move to the set -/
def setVal (vals : List Value) (hashes : List (Option Int)) : Res Value :=
  if vals.isEmpty then .panic "must not call SetVal with empty slice"
  else
    match setValLoop .dyn vals with
    | .ok (et, ps, mss) =>
      match setAddAll et ps hashes [] [] with
      | .ok (ids, vs) => .ok ((⟨.set et, .sset ids vs⟩ : Value).withMarksV mss)
      | .err c => .err c
      | .panic w => .panic w
      | .unmodelled => .unmodelled
    | .err c => .err c
    | .panic w => .panic w
    | .unmodelled => .unmodelled

/-! ### the conversion wrapper (cty/convert/conversion.go, `getConversion`)

```go
ret = func(in cty.Value, path cty.Path) (cty.Value, error) {
    if in.IsMarked() {
        in, inMarks := in.Unmark()
        v, err := ret(in, path)
        if v != cty.NilVal { v = v.WithMarks(inMarks) }
        return v, err
    }
    … // dynamic target / unknown / null pass-through / conv(in, path)
```
Everything below the `IsMarked` branch is the parameter `inner` (an arbitrary
function: the theorems hold for every conversion); nested members go through the
same wrapper of their own element conversion. -/
def convWrap (inner : Value → Res Value) (v : Value) : Res Value :=
  if v.isMarked then (inner v.unmark).map (·.withMarks v.marks) else inner v

end Value

/-! ### the operation methods of `cty.Value` that C04 quantifies over -/

/-- The operation methods that return a `Value`: eighteen with a mark prologue of
their own and the three that are compositions of those (`NotEqual` =
`Equals.Not`, `LessThanOrEqualTo` = `LessThan.Or(Equals)`, `GreaterThanOrEqualTo`
= `GreaterThan.Or(Equals)`).  `getAttr` carries its name argument, `hasElement`
the bucket id of the deeply unmarked needle (oracle column). -/
inductive Op where
  | equals | add | sub | mul | div | mod | neg | abs | not | and | or | lt | gt
  | index | hasIndex | length
  | getAttr (name : String)
  | hasElement (needleHash : Option Int)
  | notEqual | le | ge
  deriving Repr, BEq, DecidableEq

namespace Op

/-- run an operation method on its operand tuple (receiver first);
a tuple of the wrong length is outside the model -/
def run : Op → List Value → Res Value
  | .equals, [a, b] => Value.equals a b
  | .add, [a, b] => Value.add a b
  | .sub, [a, b] => Value.sub a b
  | .mul, [a, b] => Value.mul a b
  | .div, [a, b] => Value.div a b
  | .mod, [a, b] => Value.mod a b
  | .neg, [a] => Value.neg a
  | .abs, [a] => Value.abs a
  | .not, [a] => Value.not a
  | .and, [a, b] => Value.and a b
  | .or, [a, b] => Value.or a b
  | .lt, [a, b] => Value.lessThan a b
  | .gt, [a, b] => Value.greaterThan a b
  | .index, [a, b] => Value.index a b
  | .hasIndex, [a, b] => Value.hasIndex a b
  | .length, [a] => Value.length a
  | .getAttr n, [a] => Value.getAttr a n
  | .hasElement h, [a, b] => Value.hasElement a b h
  | .notEqual, [a, b] => Value.notEqual a b
  | .le, [a, b] => Value.lessThanOrEqualTo a b
  | .ge, [a, b] => Value.greaterThanOrEqualTo a b
  | _, _ => .unmodelled

/-- The marks of operand number `i` that the method promises to keep on its
result: the top-level marks, and for `Equals` (both operands), the three methods
built on it, and the needle of `HasElement` the marks at every depth. -/
def promised : Op → Nat → Value → List String
  | .equals, _, a => a.marksDeep
  | .notEqual, _, a => a.marksDeep
  | .le, _, a => a.marksDeep
  | .ge, _, a => a.marksDeep
  | .hasElement _, 1, a => a.marksDeep
  | _, _, a => a.marks

end Op

/-! ### the property predicates, as the driver evaluates them on the
implementation's own outputs (`mk.judge`) -/

def subsetMarks (a b : List String) : Bool := a.all b.contains

/-- outcome class of a run -/
def Res.cls {α} : Res α → Nat
  | .ok _ => 0 | .err _ => 1 | .panic _ => 2 | .unmodelled => 3

/-- `marked` = outcome on the marked operands, `clean` = outcome on the deeply
unmarked operands: same outcome class, same result after `UnmarkDeep`
(non-interference); every promised mark is on the result (no loss); every mark
anywhere in the result is somewhere in an operand (no invention) -/
def opJudge (op : Op) (args : List Value) (marked clean : Res Value) : Bool :=
  marked.cls == clean.cls &&
  (match marked, clean with
   | .ok m, .ok c =>
     m.unmarkDeep == c &&
     (args.zipIdx.all fun ai => subsetMarks (op.promised ai.2 ai.1) m.marks) &&
     subsetMarks m.marksDeep (unionAllMarks (args.map Value.marksDeep))
   | _, _ => true)

end CtyModel
