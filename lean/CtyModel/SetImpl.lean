/-
SetImpl — the generic hash-bucket set of package `cty/set` (set.go, ops.go,
rules.go, iterator.go), over abstract membership `Rules` exactly as the Go
package is generic over `Rules[T]`.

Go keeps `vals map[int][]T`.  The model keeps the same map as an association
list `(bucket id, members in slice order)` in ascending id order with no empty
bucket (Go creates a bucket only to append to it at once, and `Remove` deletes a
bucket that becomes empty).  Go never observes map order except through
`Values`, which sorts the bucket ids first, so the ascending list *is* the
observable content of the map (the harness reads it with `set.VerifBuckets`).

Every operation below is a transliteration of the Go method of the same name:
same lookups, same scan order, same bucket-append behaviour, `Remove`
rebuilding the bucket without the first equivalent member, the set-algebra
methods iterating `Values()` (hence in `Less` order for `OrderedRules`) and
`Add`ing into a fresh set.  Specifications (`abs`, `Inv`, …) live in
`Lemmas/SetRefine*.lean`; property theorems in `Props/C03.lean`.

Not modelled: `mustHaveSameRules` (one `Rules` value is shared by construction,
so the incompatible-rules panic cannot arise); slice capacity / backing-array
sharing after `Copy` (a C20 matter — `copy` here is the *snapshot* the API
documents).

Core Lean only: the driver links this file.
-/
namespace CtyModel

/-- `set.Rules[T]` (+ `set.OrderedRules[T]` when `less` is present). -/
structure Rules (α : Type) where
  hash : α → Int
  equiv : α → α → Bool
  /-- `OrderedRules.Less`, if the rules implement it (then `Values` sorts). -/
  less : Option (α → α → Bool) := none

/-- `set.Set[T]` without its `rules` field: the bucket map, ascending by id. -/
structure SetImpl (α : Type) where
  buckets : List (Int × List α)
  deriving Repr, DecidableEq

namespace SetImpl
variable {α : Type}

/-! ### the Go map `vals`: lookup, assignment, delete -/

/-- `bucket, ok := s.vals[h]` -/
def lookup : List (Int × List α) → Int → Option (List α)
  | [], _ => none
  | (k, b) :: rest, h => if k = h then some b else lookup rest h

/-- `s.vals[h] = b` (keeps the list ascending by id) -/
def setBucket : List (Int × List α) → Int → List α → List (Int × List α)
  | [], h, b => [(h, b)]
  | (k, c) :: rest, h, b =>
    if h < k then (h, b) :: (k, c) :: rest
    else if h = k then (k, b) :: rest
    else (k, c) :: setBucket rest h b

/-- `delete(s.vals, h)` -/
def delBucket : List (Int × List α) → Int → List (Int × List α)
  | [], _ => []
  | (k, c) :: rest, h => if k = h then rest else (k, c) :: delBucket rest h

/-! ### set.go / ops.go -/

/-- `NewSet(rules)` -/
def empty : SetImpl α := ⟨[]⟩

/-- `Set.Add`: scan the bucket of `hash x` for an equivalent member
(`Equivalent(val, ev)`, in slice order); if none, append. -/
def add (R : Rules α) (s : SetImpl α) (x : α) : SetImpl α :=
  let hv := R.hash x
  let bucket := (lookup s.buckets hv).getD []
  if bucket.any (fun ev => R.equiv x ev) then s
  else ⟨setBucket s.buckets hv (bucket ++ [x])⟩

/-- `Set.Remove`: no bucket → no-op; otherwise rebuild the bucket without the
*first* equivalent member; an emptied bucket is deleted from the map. -/
def remove (R : Rules α) (s : SetImpl α) (x : α) : SetImpl α :=
  let hv := R.hash x
  match lookup s.buckets hv with
  | none => s
  | some bucket =>
    if bucket.any (fun ev => R.equiv x ev) then
      let newBucket := bucket.eraseP (fun ev => R.equiv x ev)
      if newBucket.isEmpty then ⟨delBucket s.buckets hv⟩
      else ⟨setBucket s.buckets hv newBucket⟩
    else s

/-- `Set.Has` -/
def has (R : Rules α) (s : SetImpl α) (x : α) : Bool :=
  match lookup s.buckets (R.hash x) with
  | none => false
  | some bucket => bucket.any (fun ev => R.equiv x ev)

/-- `Set.Copy`: a fresh map receiving every `(k, v)` of the receiver.  (Go ranges
over the map in arbitrary order; assignments to distinct keys commute, the
model takes ascending order.) -/
def copy (s : SetImpl α) : SetImpl α :=
  ⟨s.buckets.foldl (fun acc kv => setBucket acc kv.1 kv.2) []⟩

/-- `Set.Length`: sum of the bucket lengths. -/
def length (s : SetImpl α) : Nat :=
  s.buckets.foldl (fun count kv => count + kv.2.length) 0

/-- The first half of `Set.Values`: buckets in ascending id order, slice order
inside.  This is all of `Values` when the rules are not `OrderedRules`. -/
def values (s : SetImpl α) : List α :=
  s.buckets.flatMap (fun kv => kv.2)

/-- Inner loop of Go's `insertionSort` (sort/zsortfunc.go): the new element
travels left while it is `less` than its left neighbour.  `acc` is the sorted
prefix *reversed* (its head is the left neighbour). -/
def insertBack (less : α → α → Bool) (x : α) : List α → List α
  | [] => [x]
  | y :: ys => if less x y then y :: insertBack less x ys else x :: y :: ys

/-- `sort.SliceStable`.  Exactly Go's algorithm for up to 20 elements (one
insertion-sort block, for *any* `less`); for longer inputs Go merges blocks
with `symMerge`, which yields this same list whenever `less` is a strict weak
order (the stable sorted arrangement is then unique). -/
def sortStable (less : α → α → Bool) (l : List α) : List α :=
  (l.foldl (fun acc x => insertBack less x acc) []).reverse

/-- `Set.Values` for `OrderedRules`: `values` then `sort.SliceStable` by `Less`. -/
def valuesSorted (less : α → α → Bool) (s : SetImpl α) : List α :=
  sortStable less (values s)

/-- `Set.Values()` / `Iterator` / `EachValue` as Go dispatches it:
`if orderRules, ok := s.rules.(OrderedRules[T]); ok { sort.SliceStable … }`. -/
def iter (R : Rules α) (s : SetImpl α) : List α :=
  match R.less with
  | none => values s
  | some less => valuesSorted less s

/-- `for v in l { if p(v) { rs.Add(v) } }` — the loop body shared by the four
set-algebra methods. -/
def addWhere (R : Rules α) (p : α → Bool) (rs : SetImpl α) (l : List α) : SetImpl α :=
  l.foldl (fun rs v => if p v then add R rs v else rs) rs

/-- `NewSetFromSlice` -/
def fromList (R : Rules α) (l : List α) : SetImpl α :=
  addWhere R (fun _ => true) empty l

/-- `Set.Union` -/
def union (R : Rules α) (s1 s2 : SetImpl α) : SetImpl α :=
  let rs := addWhere R (fun _ => true) empty (iter R s1)
  addWhere R (fun _ => true) rs (iter R s2)

/-- `Set.Intersection` -/
def intersection (R : Rules α) (s1 s2 : SetImpl α) : SetImpl α :=
  addWhere R (fun v => has R s2 v) empty (iter R s1)

/-- `Set.Subtract` -/
def subtract (R : Rules α) (s1 s2 : SetImpl α) : SetImpl α :=
  addWhere R (fun v => !has R s2 v) empty (iter R s1)

/-- `Set.SymmetricDifference` -/
def symmetricDifference (R : Rules α) (s1 s2 : SetImpl α) : SetImpl α :=
  let rs := addWhere R (fun v => !has R s2 v) empty (iter R s1)
  addWhere R (fun v => !has R s1 v) rs (iter R s2)

end SetImpl

/-! ### operation histories

A history acts on a file of set variables ("registers"), so that the binary
operations and `Copy` can mix several live sets.  A register never assigned is
the empty set. -/

/-- One call of the `cty/set` API on the register file. -/
inductive SetOp (α : Type) where
  | add (i : Nat) (x : α)                      -- `r[i].Add(x)`
  | remove (i : Nat) (x : α)                   -- `r[i].Remove(x)`
  | has (i : Nat) (x : α)                      -- `r[i].Has(x)`            → bool
  | length (i : Nat)                           -- `r[i].Length()`          → nat
  | values (i : Nat)                           -- `r[i].Values()`          → list
  | copy (dst src : Nat)                       -- `r[dst] = r[src].Copy()`
  | union (dst a b : Nat)                      -- `r[dst] = r[a].Union(r[b])`
  | intersection (dst a b : Nat)
  | subtract (dst a b : Nat)
  | symmetricDifference (dst a b : Nat)
  deriving Repr

/-- What a call returns to the caller. -/
inductive SetOut (α : Type) where
  | none
  | bool (b : Bool)
  | nat (n : Nat)
  | list (l : List α)
  deriving Repr, DecidableEq

namespace SetImpl
variable {α : Type}

/-- register read (unassigned = empty set) -/
def getReg : List (SetImpl α) → Nat → SetImpl α
  | [], _ => empty
  | s :: _, 0 => s
  | _ :: t, i + 1 => getReg t i

/-- register write (pads with empty sets) -/
def putReg : List (SetImpl α) → Nat → SetImpl α → List (SetImpl α)
  | [], 0, v => [v]
  | [], i + 1, v => empty :: putReg [] i v
  | _ :: t, 0, v => v :: t
  | s :: t, i + 1, v => s :: putReg t i v

/-- one API call -/
def step (R : Rules α) (op : SetOp α) (st : List (SetImpl α)) : List (SetImpl α) × SetOut α :=
  match op with
  | .add i x => (putReg st i (add R (getReg st i) x), .none)
  | .remove i x => (putReg st i (remove R (getReg st i) x), .none)
  | .has i x => (st, .bool (has R (getReg st i) x))
  | .length i => (st, .nat (length (getReg st i)))
  | .values i => (st, .list (iter R (getReg st i)))
  | .copy d s => (putReg st d (copy (getReg st s)), .none)
  | .union d a b => (putReg st d (union R (getReg st a) (getReg st b)), .none)
  | .intersection d a b => (putReg st d (intersection R (getReg st a) (getReg st b)), .none)
  | .subtract d a b => (putReg st d (subtract R (getReg st a) (getReg st b)), .none)
  | .symmetricDifference d a b =>
    (putReg st d (symmetricDifference R (getReg st a) (getReg st b)), .none)

/-- a whole history on a register file: final registers and one output per call -/
def runRegs (R : Rules α) : List (SetOp α) → List (SetImpl α) → List (SetImpl α) × List (SetOut α)
  | [], st => (st, [])
  | op :: ops, st =>
    let r := step R op st
    let rest := runRegs R ops r.1
    (rest.1, r.2 :: rest.2)

/-- a history started on one set held in register 0 (other registers empty):
the final content of register 0 and the outputs -/
def run (R : Rules α) (ops : List (SetOp α)) (s : SetImpl α) : SetImpl α × List (SetOut α) :=
  let r := runRegs R ops [s]
  (getReg r.1 0, r.2)

/-! ### concrete `Rules Int` used by the examples in `Props/C03` and by the
correspondence harness (`harness/c03set.go` defines the same functions in Go) -/
namespace Sample

/-- lawful; 3 buckets (ids −1, 0, 1), 6 classes, 2 classes per bucket -/
def m3e6 : Rules Int := { hash := fun x => x % 3 - 1, equiv := fun x y => x % 6 == y % 6 }

/-- lawful; 2 buckets, 12 classes, 6 classes per bucket (long buckets) -/
def m2e12 : Rules Int := { hash := fun x => x % 2, equiv := fun x y => x % 12 == y % 12 }

/-- lawful and ordered by a strict total order on the classes (descending class) -/
def ordTotal : Rules Int :=
  { hash := fun x => x % 3 - 1, equiv := fun x y => x % 6 == y % 6,
    less := some (fun a b => b % 6 < a % 6) }

/-- lawful and ordered by a *partial* order with ties (the two classes of a bucket tie);
a strict weak order, so every stable sort agrees on it -/
def ordTies : Rules Int :=
  { hash := fun x => x % 3 - 1, equiv := fun x y => x % 6 == y % 6,
    less := some (fun a b => a % 3 < b % 3) }

/-- UNLAWFUL: 0 and 2 are equivalent but hash to different buckets -/
def unlawful : Rules Int := { hash := fun x => x % 3, equiv := fun x y => x % 2 == y % 2 }

def byName : String → Option (Rules Int)
  | "m3e6" => some m3e6
  | "m2e12" => some m2e12
  | "ordTotal" => some ordTotal
  | "ordTies" => some ordTies
  | "unlawful" => some unlawful
  | _ => none

end Sample
end SetImpl
end CtyModel
