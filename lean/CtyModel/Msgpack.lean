/-
Model of package `cty/msgpack` (marshal.go, unmarshal.go, unknown.go, dynamic.go,
infinity.go, type_implied.go) at ITEM level — property C16 (and the decoder
half of C17).

A MessagePack document is modelled as the tree of items that the wire format
delimits (`Item`).  The byte-level codec of `vmihailenco/msgpack` is NOT
modelled: the harness turns the real bytes into an item tree (and item trees
into bytes) with its own small reader/writer, so that library is an oracle that
is itself cross-checked on every run.  What IS modelled, branch for branch:

* `marshal`  — mark rejection, the dynamic wrapper `[typeJSON, value]`, unknown
  values as extension items with a refinement map (keys 1–6, prefix truncation
  at `maxPrefixLength`, bounds), null, number encoding selection
  (int64 / float64-if-exact-and-not-whole / all digits of a whole number beyond int64 /
  shortest decimal string), collections.
* `Unmarshal` / `unmarshal` — the exported function takes the optional-attribute annotations
  off the requested type and calls the recursive one: per target type, what every `Decode*` call of the library
  accepts from every item kind (as far as the Go code relies on it), length and
  shape checks, number decoding, replay of the refinement map through the
  refinement builder of `Refine.lean`, `ListVal`/`MapVal`/`SetVal`/`TupleVal`/
  `ObjectVal` element-type inference (with their panics).
* `impliedType`.

External functions are fields of `Ext` (never axioms): Unicode normalisation,
`ctystrings.SafeKnownPrefix` on the byte-cut prefix, and the construction of a
set from its decoded members (`cty.SetVal`: hashing and de-duplication belong to
property C03).  Where the Go decoder gets out of step with the item structure
(an extension item where a map header is expected) the model answers `.unmodelled`.

Core Lean only: the driver links this file.
-/
import CtyModel.Refine
import CtyModel.NumFloat
import CtyModel.NumText
import CtyModel.TyJson
namespace CtyModel
namespace Msgpack
open Refine

/-! ## Items -/

/-- what `DecodeMapLen` finds at the start of an extension body -/
inductive ExtHdr where
  | map (n : Nat)     -- a map header announcing `n` entries
  | nil               -- the nil item (`DecodeMapLen` answers -1)
  | ext               -- an extension header (the library skips it and reads on: out of step)
  | other             -- any other item, or no bytes at all: "not a map"
  deriving Repr, Inhabited, BEq, DecidableEq

inductive Item where
  | nil
  | bool (b : Bool)
  | int (i : Int)                 -- fixint, int8 … int64
  | uint (u : Nat)                -- uint8 … uint64
  | f32 (x : Num)                 -- float32, not NaN; the value as a `Num` of precision 53
  | f64 (x : Num)                 -- float64, not NaN
  | fnan                          -- a NaN of either width
  | str (s : String)              -- fixstr, str8 … str32 (valid UTF-8)
  | bin (b : List UInt8)          -- bin8 … bin32, bytes that are not a JSON document
  | binj (j : Json)               -- bin whose bytes are one JSON document (lexed by encoding/json)
  | arr (xs : List Item)
  | map (ks vs : List Item)       -- parallel lists, document order
  /-- extension item: type code, payload length in bytes, and — what the decoder
  makes of the payload — the header found by `DecodeMapLen` followed by the flat
  sequence of complete items after it (`stream`; empty unless the decoder looks) -/
  | ext (code : Int) (len : Nat) (hdr : ExtHdr) (stream : List Item)
  deriving Repr, Inhabited, BEq

/-- external functions the codec sits on -/
structure Ext where
  /-- `cty.NormalizeString` (Unicode NFC) -/
  norm : String → String
  /-- `ctystrings.SafeKnownPrefix` applied to the first `maxPrefixLength-1` bytes of a prefix;
  `none` = the oracle has no answer (or the answer is not valid UTF-8) -/
  safePrefix : List UInt8 → Option String
  /-- `cty.SetVal`: the set payload built from decoded members of a given element type -/
  setOf : Ty → List Payload → Res Payload

/-! ## Limits and refinement keys (unknown.go) -/
def maxPrefixLength : Nat := 256
def maxExtLen : Nat := 1024
def unknownWithRefinementsExt : Int := 12
def keyNullness : Int := 1
def keyStringPrefix : Int := 2
def keyNumberMin : Int := 3
def keyNumberMax : Int := 4
def keyLengthMin : Int := 5
def keyLengthMax : Int := 6

def minI64 : Int := -9223372036854775808
def maxI64 : Int := 9223372036854775807

/-! ## Sizes of compactly encoded items (what the library's encoder writes) -/

def intSize (i : Int) : Nat :=
  if i ≥ 0 then
    (if i ≤ 127 then 1 else if i ≤ 255 then 2 else if i ≤ 65535 then 3 else if i ≤ 4294967295 then 5 else 9)
  else if i ≥ -32 then 1 else if i ≥ -128 then 2 else if i ≥ -32768 then 3
  else if i ≥ -2147483648 then 5 else 9

def strHdr (n : Nat) : Nat := if n < 32 then 1 else if n < 256 then 2 else if n < 65536 then 3 else 5
def binHdr (n : Nat) : Nat := if n < 256 then 2 else if n < 65536 then 3 else 5
def seqHdr (n : Nat) : Nat := if n < 16 then 1 else if n < 65536 then 3 else 5
def extHdrSize (n : Nat) : Nat :=
  if n = 1 ∨ n = 2 ∨ n = 4 ∨ n = 8 ∨ n = 16 then 2 else if n < 256 then 3 else if n < 65536 then 4 else 6

mutual
/-- bytes the library's encoder writes for an item it produced itself (the JSON
bytes of a `binj` are not modelled and count 0: such an item never occurs inside
an extension body, the only place where sizes matter) -/
def encSize : Item → Nat
  | .nil => 1
  | .bool _ => 1
  | .int i => intSize i
  | .uint u => intSize u
  | .f32 _ => 5
  | .f64 _ => 9
  | .fnan => 9
  | .str s => strHdr (bytes s).length + (bytes s).length
  | .bin b => binHdr b.length + b.length
  | .binj _ => 0
  | .arr xs => seqHdr xs.length + encSizeL xs
  | .map ks vs => seqHdr ks.length + encSizeL ks + encSizeL vs
  | .ext _ len _ _ => extHdrSize len + len
def encSizeL : List Item → Nat
  | [] => 0
  | x :: xs => encSize x + encSizeL xs
end

/-! ## Numbers -/

/-- the encoding the `cty.Number` case of `marshal` selects -/
inductive Route where
  | inf (neg : Bool)          -- `RawEquals(PositiveInfinity / NegativeInfinity)` → float64 ±Inf
  | int (i : Int)             -- `bf.Int64()` exact
  | f64 (x : Num)             -- `bf.Float64()` exact and not a whole number
  | str (s : String)          -- `bf.Text('f', 0)` (whole, beyond int64) or `bf.Text('f', -1)`
  deriving Repr, BEq, DecidableEq

/-- `x.Text('f', 0)` (math/big `%f` with precision 0): the exact decimal expansion of the
number, rounded to zero fractional digits (`d.round(d.exp + 0)`), printed without a point.
For a whole number that is all of its digits. -/
def textF0 : Num → String
  | .inf n => if n then "-Inf" else "+Inf"
  | .fin n m e _ =>
    let s := if n then "-" else ""
    if m = 0 then s ++ "0"
    else
      let d := Num.Dec.ofME m e
      s ++ Num.fmtF 0 (d.round d.exp)

/-- the `default:` branch of the Number case: `Int64()` exact, else `Float64()` exact and
not whole, else — since /repo 986ad55 — all digits of a whole number, else the shortest text -/
def route (x : Num) : Route :=
  match x with
  | .inf n => .inf n
  | _ =>
    match x.toInt? with
    | some i => if minI64 ≤ i ∧ i ≤ maxI64 then .int i else .str (textF0 x)
    | none =>
      let f := Num.toF64 x
      if f.2 then .f64 f.1 else .str (Num.textF x)

/-- `EncodeInt` (always compact): non-negative values above 127 use the unsigned family -/
def encInt (i : Int) : Item := if i > 127 then .uint i.toNat else .int i

def encNum (x : Num) : Item :=
  match route x with
  | .inf n => .f64 (.inf n)
  | .int i => encInt i
  | .f64 f => .f64 f
  | .str s => .str s

/-! ### `cty.ParseNumberVal` = `big.ParseFloat(s, 10, 512, ToNearestEven)`

Modelled: an optional sign, decimal digits with at most one point (at least one
digit), and the spellings of infinity.  The value is the correctly rounded
512-bit number — math/big divides the exact integer mantissa by an exact power
of five as long as that power fits 576 bits (at most 248 fractional digits), and
by `pow5`'s rounded power beyond.  Exponents (`e`, `p`): `.unmodelled`.  Anything else made only
of the characters `0-9 . + - _` is a syntax error. -/

def isDigit (c : Char) : Bool := '0' ≤ c && c ≤ '9'

def digitsVal : List Char → Nat → Nat
  | [], acc => acc
  | c :: cs, acc => digitsVal cs (acc * 10 + (c.toNat - 48))

/-- `z.Mul(x, y)` at precision `p` (finite operands) -/
def mulRound (a b : Num) (p : Nat) : Num :=
  match a, b with
  | .fin na ma ea _, .fin nb mb eb _ => Num.round (na != nb) (ma * mb) (ea + eb) p
  | _, _ => a

/-- the square-and-multiply loop of math/big's `pow5`: `z` at 576 bits, `f` at 640 -/
def pow5Loop : Nat → Nat → Num → Num → Num
  | 0, _, z, _ => z
  | fuel + 1, n, z, f =>
    if n = 0 then z
    else pow5Loop fuel (n / 2) (if n % 2 = 1 then mulRound z f 576 else z) (mulRound f f 640)

/-- `p.pow5(k)` for `k > 27` with `p` at 576 bits: no longer exact once 5^k needs more
than 576 bits (k > 248), and math/big then divides by the ROUNDED power -/
def pow5 (k : Nat) : Num :=
  pow5Loop 64 (k - 27) (Num.mk false (5 ^ 27) 0 576) (Num.mk false 5 0 640)

/-- the divisor `5^k · 2^k` as math/big computes it for more than 248 fractional digits -/
def pow10Rounded (k : Nat) : Num :=
  match pow5 k with
  | .fin _ m e _ => .fin false m (e + k) 512
  | x => x

def parseUnsigned (neg : Bool) (cs : List Char) : Res Num :=
  let ip := cs.takeWhile isDigit
  let rest := cs.drop ip.length
  match rest with
  | [] =>
    if ip.isEmpty then .err "number" else .ok (Num.round neg (digitsVal ip 0) 0 512)
  | '.' :: fr =>
    if fr.all isDigit then
      if ip.isEmpty && fr.isEmpty then .err "number"
      else
        let k := fr.length
        let n := digitsVal (ip ++ fr) 0
        if k = 0 then .ok (Num.round neg n 0 512)
        else if k > 248 then
          (if k > 100000 then .unmodelled else Num.quo (.fin neg n 0 512) (pow10Rounded k))
        else Num.quo (.fin neg n 0 512) (.fin false (5 ^ k) k 512)
    else if fr.all fun c => isDigit c || c == '.' || c == '+' || c == '-' || c == '_' then .err "number"
    else .unmodelled
  | _ =>
    if rest.all fun c => isDigit c || c == '.' || c == '+' || c == '-' || c == '_' then .err "number"
    else .unmodelled

def parseChars (cs : List Char) : Res Num :=
  let body (neg : Bool) (cs : List Char) : Res Num :=
    if cs = ['I', 'n', 'f'] ∨ cs = ['i', 'n', 'f'] then .ok (.inf neg) else parseUnsigned neg cs
  match cs with
  | '-' :: rest => body true rest
  | '+' :: rest => body false rest
  | _ => body false cs

def parseNumber (s : String) : Res Num := parseChars s.toList

/-! ## `marshal` -/

/-- `{0xd4, 0, 0}`: fixext1, type 0, one zero byte -/
def plainUnknown : Item := .ext 0 1 .other []

/-- one numeric-bound entry of the refinement map: key, then `[number, inclusive]`
(written by a nested call of `marshal` with a tuple type) -/
def boundEntry (key : Int) : Option Bound → List Item
  | none => []
  | some b => [.int key, .arr [encNum b.v, .bool b.incl]]

/-- the type-specific entries of the refinement map -/
def rfnEntries (E : Ext) (vt : Ty) (r : Rfn) : Res (List Item) :=
  match vt with
  | .number =>
    match r with
    | .num _ lo hi => .ok (boundEntry keyNumberMin lo ++ boundEntry keyNumberMax hi)
    | _ => .ok []
  | .string =>
    match r with
    | .str _ p =>
      if p = "" then .ok []
      else if (bytes p).length > maxPrefixLength then
        match E.safePrefix ((bytes p).take (maxPrefixLength - 1)) with
        | some q => .ok [.int keyStringPrefix, .str q]
        | none => .unmodelled
      else .ok [.int keyStringPrefix, .str p]
    | _ => .ok []
  | .list _ | .set _ | .map _ =>
    match r with
    | .coll _ lo hi =>
      .ok ((if lo ≠ 0 then [.int keyLengthMin, encInt lo] else []) ++
           (if hi ≠ Refine.maxInt then [.int keyLengthMax, encInt hi] else []))
    | _ => .ok []
  | _ => .ok []

/-- `marshalUnknownValue(val.Range())` for an unknown value of type `vt` with refinement `r` -/
def marshalUnknown (E : Ext) (vt : Ty) (r : Rfn) : Res Item :=
  if vt.isDyn then .ok plainUnknown
  else
    match rfnEntries E vt r with
    | .ok sp =>
      let stream := (if r.nullness = .f then [.int keyNullness, .bool false] else []) ++ sp
      if stream.isEmpty then .ok plainUnknown
      else .ok (.ext unknownWithRefinementsExt (seqHdr (stream.length / 2) + encSizeL stream)
                  (.map (stream.length / 2)) stream)
    | .err e => .err e
    | .panic w => .panic w
    | .unmodelled => .unmodelled

/-- the dynamic wrapper around an already encoded value -/
def wrapDyn (vt : Ty) (inner : Res Item) : Res Item :=
  match Ty.toJson vt with
  | .ok j =>
    (match inner with
     | .ok it => .ok (.arr [.binj j, it])
     | r => r)
  | .err _ => .err "failed to serialize type"
  | .panic w => .panic w
  | .unmodelled => .unmodelled

def strItems : List String → List Item
  | [] => []
  | k :: ks => .str k :: strItems ks

/-! `marshalP vt p ct` is `marshal(val, ct, …)` for `val = Value{vt, p}` *after* the
test "ty == DynamicPseudoType && val.Type() != DynamicPseudoType" came out false;
`child` is the full function (with that test) as applied to members. -/
mutual
def marshalP (E : Ext) (vt : Ty) (p : Payload) (ct : Ty) : Res Item :=
  match p with
  | .marked _ _ => .err "value has marks"
  | .bad _ => .unmodelled
  | .unk r => marshalUnknown E vt r
  | .null => .ok .nil
  | .b v =>
    (match ct with
     | .bool => .ok (.bool v)
     | _ => .unmodelled)
  | .n x =>
    (match ct with
     | .number => .ok (encNum x)
     | _ => .unmodelled)
  | .s v =>
    (match ct with
     | .string => .ok (.str v)
     | _ => .unmodelled)
  | .caps =>
    (match ct with
     | .capsule _ => .err "capsule types not supported"
     | _ => .unmodelled)
  | .seq vs =>
    (match ct, vt with
     | .list ce, .list ve => (marshalAll E ve vs ce).map .arr
     | .tuple ces, .tuple ves =>
       if ces.length = vs.length ∧ ves.length = vs.length then (marshalZip E ves vs ces).map .arr
       else .unmodelled
     | _, _ => .unmodelled)
  | .sset _ vs =>
    (match ct, vt with
     | .set ce, .set ve => (marshalAll E ve vs ce).map .arr
     | _, _ => .unmodelled)
  | .smap ks vs =>
    (match ct, vt with
     | .map ce, .map ve =>
       if ks.length = vs.length then (marshalAll E ve vs ce).map fun its => .map (strItems ks) its
       else .unmodelled
     | .object cns cts _, .object vns vts _ =>
       if cns = ks ∧ vns = ks ∧ cts.length = vs.length ∧ vts.length = vs.length then
         (marshalZip E vts vs cts).map fun its => .map (strItems ks) its
       else .unmodelled
     | _, _ => .unmodelled)
/-- members of a list, set or map: one element type on each side -/
def marshalAll (E : Ext) (ve : Ty) : List Payload → Ty → Res (List Item)
  | [], _ => .ok []
  | p :: ps, ce =>
    let head : Res Item :=
      match p with
      | .marked _ _ => .err "value has marks"
      | _ => if ce.isDyn && !ve.isDyn then wrapDyn ve (marshalP E ve p ve) else marshalP E ve p ce
    match head with
    | .ok it => (marshalAll E ve ps ce).map (it :: ·)
    | .err e => .err e
    | .panic w => .panic w
    | .unmodelled => .unmodelled
/-- members of a tuple or object: positionwise types -/
def marshalZip (E : Ext) : List Ty → List Payload → List Ty → Res (List Item)
  | ve :: ves, p :: ps, ce :: ces =>
    let head : Res Item :=
      match p with
      | .marked _ _ => .err "value has marks"
      | _ => if ce.isDyn && !ve.isDyn then wrapDyn ve (marshalP E ve p ve) else marshalP E ve p ce
    match head with
    | .ok it => (marshalZip E ves ps ces).map (it :: ·)
    | .err e => .err e
    | .panic w => .panic w
    | .unmodelled => .unmodelled
  | _, _, _ => .ok []
end

/-- `marshal(val, ty, path, enc)` -/
def marshalV (E : Ext) (v : Value) (ct : Ty) : Res Item :=
  match v.v with
  | .marked _ _ => .err "value has marks"
  | _ => if ct.isDyn && !v.ty.isDyn then wrapDyn v.ty (marshalP E v.ty v.v v.ty) else marshalP E v.ty v.v ct

/-- `Marshal(val, ty)`: a value whose type does not conform is first converted
(`convert.Convert`), which this slice does not model -/
def marshal (E : Ext) (v : Value) (ct : Ty) : Res Item :=
  if v.v.isMarked then .err "value has marks"     -- conversion keeps marks, `marshal` then refuses
  else if Ty.conformErrs ct v.ty ≠ 0 then .unmodelled
  else marshalV E v ct

/-! ## what the library's `Decode*` calls accept -/

/-- `DecodeInt64` (and `DecodeInt` on a 64-bit platform): nil is 0, the unsigned
family wraps around -/
def decInt64 : Item → Option Int
  | .nil => some 0
  | .int i => some i
  | .uint u => some (if (u : Int) > maxI64 then (u : Int) - 18446744073709551616 else u)
  | _ => none

/-- `DecodeBool`: nil is false -/
def decBool : Item → Option Bool
  | .nil => some false
  | .bool b => some b
  | _ => none

/-- `DecodeString`: the str and bin families and nil.  `.err "utf8"`: bytes that
are not UTF-8 (the model's strings are); `.unmodelled`: a `binj`, whose bytes the
model does not have; `.err "string"`: any other item -/
def decString : Item → Res String
  | .nil => .ok ""
  | .str s => .ok s
  | .bin b =>
    (match String.fromUTF8? (ByteArray.mk b.toArray) with
     | some s => .ok s
     | none => .err "utf8")
  | .binj _ => .unmodelled
  | _ => .err "string"

/-! ## Value constructors used by the decoder (value_init.go) -/

/-- the element type `ListVal` / `SetVal` / `MapVal` infer.  The decoder first asks
`CanListVal` / `CanSetVal` / `CanMapVal` (the same walk) and reports members of
different types as an error -/
def elemTy : List Value → Ty → Res Ty
  | [], acc => .ok acc
  | v :: vs, acc =>
    if acc.isDyn then elemTy vs v.ty
    else if !v.ty.isDyn && !(acc.equals v.ty) then .err "all elements must have the same type"
    else elemTy vs acc

def payloads : List Value → List Payload
  | [] => []
  | v :: vs => v.v :: payloads vs
def types : List Value → List Ty
  | [] => []
  | v :: vs => v.ty :: types vs

def listVal (vs : List Value) : Res Value :=
  (elemTy vs .dyn).map fun e => ⟨.list e, .seq (payloads vs)⟩

def setVal (E : Ext) (vs : List Value) : Res Value :=
  (elemTy vs .dyn).bind fun e => (E.setOf e (payloads vs)).map fun p => ⟨.set e, p⟩

def tupleVal (vs : List Value) : Value := ⟨.tuple (types vs), .seq (payloads vs)⟩

/-- `m[k] = v` on a Go map kept as parallel lists in ascending key order -/
def insertKV {α : Type} (k : String) (v : α) : List String → List α → List String × List α
  | n :: ns, u :: us =>
    if k < n then (k :: n :: ns, v :: u :: us)
    else if k = n then (n :: ns, v :: us)
    else
      let r := insertKV k v ns us
      (n :: r.1, u :: r.2)
  | _, _ => ([k], [v])

/-- do two keys of an ascending list coincide after normalisation?  (then the
constructor's result depends on Go map order; not modelled) -/
def normCollides (E : Ext) : List String → Bool
  | a :: b :: rest => E.norm a == E.norm b || (rest.any fun c => E.norm a == E.norm c) || normCollides E (b :: rest)
  | _ => false

def mapVal (E : Ext) (ks : List String) (vs : List Value) : Res Value :=
  if normCollides E ks || ks.map E.norm != ks then .unmodelled
  else (elemTy vs .dyn).map fun e => ⟨.map e, .smap ks (payloads vs)⟩

def objectVal (E : Ext) (ks : List String) (vs : List Value) : Res Value :=
  if normCollides E ks || ks.map E.norm != ks then .unmodelled
  else .ok ⟨.object ks (types vs) (ks.map fun _ => false), .smap ks (payloads vs)⟩

/-! ## `unmarshal` -/

def isCollection : Ty → Bool
  | .list _ | .set _ | .map _ => true
  | _ => false

/-- the `cty.Number` case of `unmarshalPrimitive` (nil and extension items were
dealt with before) -/
def unmarshalNumber : Item → Res Num
  | .int i => .ok (Num.ofInt i 64)
  | .uint u => .ok (Num.ofNat u 64)
  | .f32 x | .f64 x => .ok x
  | .fnan => .err "number is required"
  | it =>
    match decString it with
    | .ok s => (match parseNumber s with
      | .ok x => .ok x
      | .err _ => .err "number is required"
      | .panic w => .panic w
      | .unmodelled => .unmodelled)
    | .err _ => .err "number is required"          -- also bytes that are not UTF-8
    | .panic w => .panic w
    | .unmodelled => .unmodelled

def boundTy : Ty := .tuple [.number, .bool]

/-- the deferred `recover()` of `unmarshalUnknownValue`: a panic of the refinement
builder (contradictory refinements) comes back as an error -/
def recoverErr {α : Type} : Res α → Res α
  | .panic _ => .err "invalid refinements for unknown value"
  | r => r

/-- `(&ty).UnmarshalJSON(typeJSON)`.  cty/json.go now rejects an optional attribute that the
object type does not declare with an error; `Ty.ofJson` (TyJson.lean, property C07's) may
still describe the earlier panic, which is mapped here so that this model follows the code. -/
def typeOfJson (E : Ext) (j : Json) : Res Ty :=
  match Ty.ofJson E.norm j with
  | .panic _ => .err "invalid object type"
  | r => r

def isListTy : Ty → Bool
  | .list _ => true
  | _ => false

/-- The three variables `notNull, minLen, maxLen` that `unmarshalUnknownValue` keeps next to the
builder since /repo bb6ac26, as they stand after the loop over `n` announced entries of `stream`
went through: `notNull` is set by a nullness entry that says "not null", `minLen` / `maxLen`
are moved by every length bound that tightens them (`if bound > minLen`, `if bound < maxLen`). -/
def lenFacts : Nat → List Item → Bool × Int × Int → Bool × Int × Int
  | n + 1, k :: v :: rest, f =>
    (match decInt64 k with
     | none => f
     | some key =>
       if key = keyNullness then
         lenFacts n rest (match decBool v with
                          | some false => (true, f.2.1, f.2.2)
                          | _ => f)
       else if key = keyLengthMin then
         lenFacts n rest (match decInt64 v with
                          | some b => (f.1, (if b > f.2.1 then b else f.2.1), f.2.2)
                          | none => f)
       else if key = keyLengthMax then
         lenFacts n rest (match decInt64 v with
                          | some b => (f.1, f.2.1, (if b < f.2.2 then b else f.2.2))
                          | none => f)
       else lenFacts n rest f)
  | _, _, f => f

/-- `notNull && ty.IsListType() && minLen == maxLen && minLen > 0` (/repo bb6ac26): the
refinements describe a list of known length, which the refinement builder would turn into a
KNOWN list of that many unknown elements; the decoder refuses it before `NewValue`. -/
def knownLenList (ty : Ty) (n : Nat) (stream : List Item) : Bool :=
  let f := lenFacts n stream (false, 0, Refine.maxInt)
  f.1 && isListTy ty && f.2.1 == f.2.2 && decide (f.2.1 > 0)

/-! How the refinement builder's `Value.Equals` on numbers is answered is a parameter
(`Refine.EqOracle`): the driver runs the decoder with `textOracle` (what the code does)
and with `partialOracle` (exact, the instance the theorems are stated for). -/
section Oracle
variable [O : EqOracle]

mutual
def unmarshal (E : Ext) (it : Item) (ty : Ty) : Res Value :=
  match it with
  | .ext code len hdr stream =>
    -- unmarshalUnknownValue (under its deferred recover)
    recoverErr
      (if len ≤ 1 then .ok (Value.unknown ty)
       else if code ≠ unknownWithRefinementsExt then .err "unsupported extension type"
       else if len > maxExtLen then .err "oversize unknown value refinement"
       else
         match hdr with
         | .other => .err "not a map"
         | .ext => .unmodelled
         | .nil =>
           if ty.isDyn then .ok (Value.unknown ty)
           else (Refine.init (Value.unknown ty)).bind Refine.newValue
         | .map n =>
           if ty.isDyn then .ok (Value.unknown ty)
           else (Refine.init (Value.unknown ty)).bind fun b => (rfnLoop E ty n stream b).bind fun b' =>
             if knownLenList ty n stream then .err "invalid refinements for unknown value: a list of known length"
             else Refine.newValue b')
  | .nil => .ok (Value.null ty)          -- also for the placeholder: `DecodeArrayLen` answers -1
  | .bool b =>
    (match ty with
     | .bool => .ok ⟨.bool, .b b⟩
     | .dyn => .err "array"
     | .capsule _ => .err "unsupported type"
     | _ => .err "wrong kind")
  | .int _ | .uint _ | .f32 _ | .f64 _ | .fnan =>
    (match ty with
     | .number => (unmarshalNumber it).map fun x => ⟨.number, .n x⟩
     | .dyn => .err "array"
     | .capsule _ => .err "unsupported type"
     | _ => .err "wrong kind")
  | .str _ | .bin _ | .binj _ =>
    (match ty with
     | .number => (unmarshalNumber it).map fun x => ⟨.number, .n x⟩
     | .string =>
       (match decString it with
        | .ok s => .ok ⟨.string, .s (E.norm s)⟩
        | .err _ => .err "string is required"     -- also bytes that are not UTF-8 (`utf8.ValidString`)
        | .panic w => .panic w
        | .unmodelled => .unmodelled)
     | .dyn => .err "array"
     | .capsule _ => .err "unsupported type"
     | _ => .err "wrong kind")
  | .arr xs =>
    (match ty with
     | .dyn =>
       -- unmarshalDynamic
       (match xs with
        | [tj, body] =>
          let tyr : Res Ty :=
            match tj with
            | .binj j => typeOfJson E j
            | .nil => .err "unexpected end of JSON input"
            | .bin _ | .str _ => .unmodelled      -- JSON lexing of raw bytes is not modelled
            | _ => .err "bytes"
          (match tyr with
           | .ok ty' => unmarshal E body ty'.stripOpt     -- `ty.WithoutOptionalAttributesDeep()`
           | .err e => .err e
           | .panic w => .panic w
           | .unmodelled => .unmodelled)
        | _ => .err "dynamic value array must have exactly two elements")
     | .list e =>
       if xs.isEmpty then .ok ⟨.list e, .seq []⟩
       else (unmarshalAll E xs e).bind listVal
     | .set e =>
       if xs.isEmpty then .ok ⟨.set e, .sset [] []⟩
       else (unmarshalAll E xs e).bind (setVal E)
     | .tuple es =>
       if xs.length ≠ es.length then .err "a tuple of that length is required"
       else if xs.isEmpty then .ok ⟨.tuple [], .seq []⟩
       else (unmarshalZip E xs es).map tupleVal
     | .capsule _ => .err "unsupported type"
     | _ => .err "wrong kind")
  | .map ks vs =>
    (match ty with
     | .map e =>
       if ks.isEmpty then .ok ⟨.map e, .smap [] []⟩
       else (unmarshalEntries E ks vs e [] []).bind fun r => mapVal E r.1 r.2
     | .object ns ts os =>
       if ks.length ≠ ts.length then .err "an object with that many attributes is required"
       else if ks.isEmpty then .ok ⟨.object [] [] [], .smap [] []⟩
       else (unmarshalAttrs E ks vs ns ts os [] []).bind fun r => objectVal E r.1 r.2
     | .dyn => .err "array"
     | .capsule _ => .err "unsupported type"
     | _ => .err "wrong kind")
/-- members of a list or set -/
def unmarshalAll (E : Ext) : List Item → Ty → Res (List Value)
  | [], _ => .ok []
  | x :: xs, e =>
    match unmarshal E x e with
    | .ok v => (unmarshalAll E xs e).map (v :: ·)
    | .err c => .err c
    | .panic w => .panic w
    | .unmodelled => .unmodelled
/-- members of a tuple (lengths already checked) -/
def unmarshalZip (E : Ext) : List Item → List Ty → Res (List Value)
  | x :: xs, e :: es =>
    (match unmarshal E x e with
     | .ok v => (unmarshalZip E xs es).map (v :: ·)
     | .err c => .err c
     | .panic w => .panic w
     | .unmodelled => .unmodelled)
  | _, _ => .ok []
/-- entries of a cty map: `vals[key] = val`, later duplicates overwrite; a key that is
not a string is an error -/
def unmarshalEntries (E : Ext) : List Item → List Item → Ty → List String → List Value →
    Res (List String × List Value)
  | k :: ks, v :: vs, e, accK, accV =>
    (match decString k with
     | .ok key =>
       (match unmarshal E v e with
        | .ok val =>
          let r := insertKV key val accK accV
          unmarshalEntries E ks vs e r.1 r.2
        | .err c => .err c
        | .panic w => .panic w
        | .unmodelled => .unmodelled)
     | .err "utf8" => .unmodelled              -- a key that is not UTF-8 (the model's strings are)
     | .err _ => .err "non-string key in map"
     | .panic w => .panic w
     | .unmodelled => .unmodelled)
  | _, _, _, accK, accV => .ok (accK, accV)
/-- entries of an object -/
def unmarshalAttrs (E : Ext) : List Item → List Item → List String → List Ty → List Bool →
    List String → List Value → Res (List String × List Value)
  | k :: ks, v :: vs, ns, ts, os, accK, accV =>
    (match decString k with
     | .ok key =>
       (match Ty.find key ns ts os with
        | none => .err "unsupported attribute"
        | some (aty, _) =>
          if accK.contains key then .err "duplicate attribute" else
          (match unmarshal E v aty with
           | .ok val =>
             let r := insertKV key val accK accV
             unmarshalAttrs E ks vs ns ts os r.1 r.2
           | .err c => .err c
           | .panic w => .panic w
           | .unmodelled => .unmodelled))
     | .err _ => .err "all keys must be strings"
     | .panic w => .panic w
     | .unmodelled => .unmodelled)
  | _, _, _, _, _, accK, accV => .ok (accK, accV)
/-- the loop over the entries of a refinement map: `n` entries still announced,
`stream` the items not yet consumed.  The value of an unrecognised key is skipped. -/
def rfnLoop (E : Ext) (ty : Ty) : Nat → List Item → Builder → Res Builder
  | 0, _, b => .ok b
  | _ + 1, [], _ => .err "non-integer key in map"
  | n + 1, k :: rest, b =>
    match decInt64 k with
    | none => .err "non-integer key in map"
    | some key =>
      if key = keyNullness then
        (match rest with
         | [] => .err "null refinement is not boolean"
         | v :: rest' =>
           (match decBool v with
            | none => .err "null refinement is not boolean"
            | some isNull =>
              (match Refine.step b (if isNull then .null else .notNull) with
               | .ok b' => rfnLoop E ty n rest' b'
               | .err c => .err c
               | .panic w => .panic w
               | .unmodelled => .unmodelled)))
      else if key = keyStringPrefix then
        if !ty.isString then .err "string prefix refinement for non-string type"
        else
          (match rest with
           | [] => .err "string prefix refinement is not string"
           | v :: rest' =>
             (match decString v with
              | .ok s =>
                (match Refine.step b (.stringPrefixFull (E.norm s)) with
                 | .ok b' => rfnLoop E ty n rest' b'
                 | .err c => .err c
                 | .panic w => .panic w
                 | .unmodelled => .unmodelled)
              | .unmodelled => .unmodelled
              | _ => .err "string prefix refinement is not string or not valid UTF-8"))
      else if key = keyLengthMin ∨ key = keyLengthMax then
        if !isCollection ty then .err "length bound refinement for non-collection type"
        else
          (match rest with
           | [] => .err "length bound refinement must be integer"
           | v :: rest' =>
             (match decInt64 v with
              | none => .err "length bound refinement must be integer"
              | some bound =>
                (match Refine.step b (if key = keyLengthMin then .lenLower bound else .lenUpper bound) with
                 | .ok b' => rfnLoop E ty n rest' b'
                 | .err c => .err c
                 | .panic w => .panic w
                 | .unmodelled => .unmodelled)))
      else if key = keyNumberMin ∨ key = keyNumberMax then
        if !ty.isNumber then .err "numeric bound refinement for non-number type"
        else
          (match rest with
           | [] => .err "bound refinement must be [number, bool] array"
           | v :: rest' =>
             (match unmarshal E v boundTy with
              | .ok raw =>
                if raw.isNull || !raw.isKnown then .err "bound refinement must be [number, bool] array"
                else
                  (match raw.v with
                   | .seq [.n x, .b isInc] =>
                     (match Refine.step b (if key = keyNumberMin then .numLower (.known x) isInc
                                           else .numUpper (.known x) isInc) with
                      | .ok b' => rfnLoop E ty n rest' b'
                      | .err c => .err c
                      | .panic w => .panic w
                      | .unmodelled => .unmodelled)
                   | _ => .err "bound refinement must be [number, bool] array")
              | .err _ => .err "bound refinement must be [number, bool] array"
              | .panic w => .panic w
              | .unmodelled => .unmodelled))
      else
        (match rest with
         | [] => .err "failed to decode msgpack extension body"
         | _ :: rest' => rfnLoop E ty n rest' b)
end

/-- `Unmarshal(b, ty)`: optional-attribute annotations are taken off the requested type
first (`ty.WithoutOptionalAttributesDeep()`, /repo afdc0a2), so the type of the result
never carries them; `unmarshal` is the unexported recursive function. -/
def Unmarshal (E : Ext) (it : Item) (ty : Ty) : Res Value := unmarshal E it ty.stripOpt

end Oracle

/-! ## `ImpliedType` (type_implied.go) -/

mutual
def impliedType (E : Ext) : Item → Res Ty
  | .nil | .ext _ _ _ _ => .ok .dyn
  | .bool _ => .ok .bool
  | .int _ | .uint _ | .f32 _ | .f64 _ | .fnan => .ok .number
  | .str _ => .ok .string
  | .bin _ | .binj _ => .err "unsupported msgpack code"
  | .arr xs => if xs.isEmpty then .ok (.tuple []) else (impliedAll E xs).map .tuple
  | .map ks vs =>
    (impliedAttrs E ks vs [] []).bind fun r =>
      if normCollides E r.1 || r.1.map E.norm != r.1 then .unmodelled
      else .ok (.object r.1 r.2 (r.1.map fun _ => false))
def impliedAll (E : Ext) : List Item → Res (List Ty)
  | [] => .ok []
  | x :: xs =>
    match impliedType E x with
    | .ok t => (impliedAll E xs).map (t :: ·)
    | .err c => .err c
    | .panic w => .panic w
    | .unmodelled => .unmodelled
def impliedAttrs (E : Ext) : List Item → List Item → List String → List Ty → Res (List String × List Ty)
  | k :: ks, v :: vs, accK, accT =>
    (match decString k with
     | .ok key =>
       (match impliedType E v with
        | .ok t =>
          let r := insertKV key t accK accT       -- `atys[k] = aty`: a later duplicate overwrites
          impliedAttrs E ks vs r.1 r.2
        | .err c => .err c
        | .panic w => .panic w
        | .unmodelled => .unmodelled)
     | .err "utf8" => .unmodelled                -- an attribute name that is not UTF-8
     | .err c => .err c
     | .panic w => .panic w
     | .unmodelled => .unmodelled)
  | _, _, accK, accT => .ok (accK, accT)
end

end Msgpack
end CtyModel
