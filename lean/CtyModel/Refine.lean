/-
Model of refinements (cty/unknown_refinement.go, cty/value_range.go,
cty/ctystrings/prefix.go) — property C05.

* `init`, `step`, `newValue` follow `Value.Refine`, the `RefinementBuilder`
  methods and `NewValue` branch for branch; a Go panic is `.panic`.
* `Value.range` and the `ValueRange` accessors follow `Value.Range()`.
* `γ`, `den` are the SPECIFICATION: which concrete values a refinement admits,
  and which concrete values satisfy a stated constraint.  They are written
  without reference to the builder; `Props/C05.lean` relates the two.
* `safeKnownPrefix` is the trimming logic of `ctystrings.SafeKnownPrefix` over
  oracle columns (NFC form, `norm.NFC.LastBoundary`, the advances reported by
  textseg's grapheme scanner) — Unicode itself is not modelled.

`Value.Equals` on two known numbers (`rawNumberEqual`) compares exact integers
exactly and everything else by math/big's shortest decimal text, which depends
on the precision.  How that question is answered is a PARAMETER of the model
(`class EqOracle`), with two instances:

* `textOracle`    — `Num.rawEqual`, the transliteration of `rawNumberEqual`
                    (CtyModel/NumText.lean): what the code does, always answers;
* `partialOracle` — exact comparison, and NO answer (`none` → `.unmodelled`)
                    exactly when the answer could depend on the text (two
                    non-integers of the same sign and different precision).

Both are diffed against the code (`rfn.run` / `rfn.runx`).  The theorems of
`Props/C05.lean` hold for every oracle that is exact wherever it answers
(`class ExactOracle`, a law as a structure field); `partialOracle` is one, and
`textOracle` is not — which is a recorded finding, with counterexample theorems.
-/
import CtyModel.Marks
import CtyModel.NumText
namespace CtyModel
namespace Refine

/-- `math.MaxInt` on the 64-bit platforms the harness runs on -/
def maxInt : Int := 9223372036854775807

/-- bucket id of an unknown set member: CRC-32/IEEE of "?" (`appendSetHashBytes`) -/
def unknownBucket : Int := 1684325040

/-- the bytes of a Go string -/
def bytes (s : String) : List UInt8 := s.toUTF8.toList

/-! ## Builder calls -/

/-- a numeric bound argument.  `negInf`/`posInf` are the *singleton* values
`cty.NegativeInfinity`/`cty.PositiveInfinity` (the builder compares against them
with Go `!=`, i.e. by pointer); `known (.inf _)` is any other infinite number. -/
inductive NumArg where
  | known (n : Num)
  | negInf | posInf
  | unknown
  | null
  deriving Repr, BEq, DecidableEq, Inhabited

/-- the public methods of `RefinementBuilder`.  String prefixes arrive already
normalised by the real `cty.NormalizeString`; for `StringPrefix` the argument
is the real `ctystrings.SafeKnownPrefix` of the caller's prefix (oracle). -/
inductive RefineCall where
  | notNull
  | null
  | numLower (a : NumArg) (incl : Bool)
  | numUpper (a : NumArg) (incl : Bool)
  | numRangeInclusive (lo hi : NumArg)
  | lenLower (n : Int)
  | lenUpper (n : Int)
  | collectionLength (n : Int)
  | stringPrefix (safe : String)
  | stringPrefixFull (nfc : String)
  deriving Repr, BEq, DecidableEq, Inhabited

/-- `RefinementBuilder{orig, marks, wip}`; `wip = .unref` is Go's nil -/
structure Builder where
  orig : Value
  marks : List String
  wip : Rfn
  deriving Repr, Inhabited, BEq

/-- `v == cty.DynamicVal` (Go struct equality: the type is the placeholder and the
payload is the unrefined `unknown` singleton) -/
def isDynVal (v : Value) : Bool :=
  match v.ty, v.v with
  | .dyn, .unk .unref => true
  | _, _ => false

def Builder.isDyn (b : Builder) : Bool := isDynVal b.orig

/-! ## Comparisons of known numbers as the builder performs them -/

/-- could `rawNumberEqual a b` depend on the shortest decimal text? -/
def needsText (a b : Num) : Bool :=
  match a, b with
  | .fin na _ ea pa, .fin nb _ eb pb => decide (ea < 0) && decide (eb < 0) && pa != pb && na == nb
  | _, _ => false

/-- how `a.Equals(b)` answers for two known, non-null numbers; `none` = no answer -/
class EqOracle where
  eq : Num → Num → Option Bool

/-- an oracle that is exact wherever it answers (a law, not an axiom: every theorem
that needs it takes it as a hypothesis, and `partialOracle` is an instance) -/
class ExactOracle extends EqOracle where
  exact : ∀ a b t, eq a b = some t → (t = true ↔ Num.cmp a b = 0)

/-- exact comparison, and no answer where the answer could depend on the decimal text -/
def numEqPartial (a b : Num) : Option Bool :=
  if needsText a b then none else some (Num.cmp a b == 0)

@[reducible] def partialOracle : EqOracle := ⟨numEqPartial⟩

/-- what the code does: `rawNumberEqual` -/
@[reducible] def textOracle : EqOracle := ⟨fun a b => some (Num.rawEqual a b)⟩

instance exactPartialOracle : ExactOracle where
  toEqOracle := partialOracle
  exact := by
    intro a b t h
    change numEqPartial a b = some t at h
    unfold numEqPartial at h
    split at h
    · cases h
    · simp only [Option.some.injEq] at h
      subst h
      simp

section Oracle
variable [O : EqOracle]

/-- `a.Equals(b)` for known non-null numbers, as the oracle answers it -/
def numEq? (a b : Num) : Option Bool := O.eq a b

/-- `a.GreaterThan(b)` / `a.LessThan(b)`: `big.Float.Cmp` -/
def gt (a b : Num) : Bool := decide (Num.cmp a b > 0)
def lt (a b : Num) : Bool := decide (Num.cmp a b < 0)

/-- `a.GreaterThanOrEqualTo(b)` = `GreaterThan.Or(Equals)` -/
def ge? (a b : Num) : Option Bool := if gt a b then some true else numEq? a b
/-- `a.LessThanOrEqualTo(b)` = `LessThan.Or(Equals)` -/
def le? (a b : Num) : Option Bool := if lt a b then some true else numEq? a b

def optRes {α} : Option α → Res α
  | some a => .ok a
  | none => .unmodelled

/-! ## `Value.Refine()` -/

/-- does a refinement struct of this kind belong on an unknown value of this type? -/
def kindOk (t : Ty) : Rfn → Bool
  | .unref => true
  | .nullable _ => match t with
    | .bool | .tuple _ | .object _ _ _ | .capsule _ => true
    | _ => false
  | .str _ _ => match t with
    | .string => true
    | _ => false
  | .num _ _ _ => match t with
    | .number => true
    | _ => false
  | .coll _ _ _ => match t with
    | .list _ | .set _ | .map _ => true
    | _ => false

/-- `setNull` -/
def setNull (n : Tri) : Rfn → Rfn
  | .unref => .unref
  | .nullable _ => .nullable n
  | .str _ p => .str n p
  | .num _ lo hi => .num n lo hi
  | .coll _ lo hi => .coll n lo hi

/-- the fresh work-in-progress refinement chosen by the `switch` in `Refine` -/
def freshWip (u : Value) : Rfn :=
  match u.ty with
  | .string => .str .u ""
  | .number => .num .u none none
  | .list _ | .set _ | .map _ => .coll .u 0 maxInt
  | .bool | .tuple _ | .object _ _ _ | .capsule _ => .nullable .u
  | .dyn => if u.isNull then .nullable .t else .unref

/-- `v.Refine()`.  Values the well-formedness rules exclude (two marker layers, a
refinement struct of the wrong kind for the type) are not modelled. -/
def init (v : Value) : Res Builder :=
  let u := v.unmark
  if u.v.isMarked then .unmodelled else
  match u.v with
  | .bad _ => .unmodelled
  | .unk r =>
    if r ≠ .unref then
      -- already refined: start from a copy of the existing refinement
      if kindOk u.ty r then .ok ⟨u, v.marks, r⟩ else .unmodelled
    else .ok ⟨u, v.marks, freshWip u⟩     -- for cty.DynamicVal: orig = DynamicVal, wip = nil
  | _ => .ok ⟨u, v.marks, freshWip u⟩

/-! ## Builder methods -/

/-- `NotNull` after `refineable()` -/
def stepNotNull (b : Builder) : Res Builder :=
  if b.orig.isKnown && b.orig.isNull then .panic "refining null value as non-null"
  else if b.wip.nullness = .t then .panic "refining null value as non-null"
  else .ok { b with wip := setNull .f b.wip }

/-- `Null` after `refineable()` -/
def stepNull (b : Builder) : Res Builder :=
  if b.orig.isKnown && !b.orig.isNull then .panic "refining non-null value as null"
  else if b.wip.nullness = .f then .panic "refining non-null value as null"
  else .ok { b with wip := setNull .t b.wip }

/-- upper bound of the receiver as `Value.Range()` reports it to `GreaterThan` -/
def origUpper : Rfn → Num
  | .num _ _ (some h) => h.v
  | _ => .inf false
def origLower : Rfn → Num
  | .num _ (some l) _ => l.v
  | _ => .inf true

/-- is `min.GreaterThan(b.orig)` (inclusive) resp. `min.GreaterThanOrEqualTo(b.orig)`
(exclusive) known and true?  For an unknown receiver both reduce to the range
short-cut of `GreaterThan`: `min > upper bound of orig`. -/
def origRejectsLower (orig : Value) (m : Num) (incl : Bool) : Res Bool :=
  match orig.v with
  | .n x => if incl then .ok (gt m x) else optRes (ge? m x)
  | .null => .panic "nil *big.Float"
  | .unk r0 => .ok (gt m (origUpper r0))
  | _ => .unmodelled

def origRejectsUpper (orig : Value) (m : Num) (incl : Bool) : Res Bool :=
  match orig.v with
  | .n x => if incl then .ok (lt m x) else optRes (le? m x)
  | .null => .panic "nil *big.Float"
  | .unk r0 => .ok (lt m (origLower r0))
  | _ => .unmodelled

/-- Go's `ok`: is the new lower bound at least as tight as the recorded one? -/
def lowerTighter? (m : Num) (incl : Bool) : Option Bound → Option Bool
  | none => some true
  | some w => if incl && !w.incl then some (gt m w.v) else ge? m w.v

def upperTighter? (m : Num) (incl : Bool) : Option Bound → Option Bool
  | none => some true
  | some w => if incl && !w.incl then some (lt m w.v) else le? m w.v

/-- `assertConsistentBounds`: `some false` = panic -/
def consistent? : Option Bound → Option Bound → Option Bool
  | some lo, some hi => if lo.incl && hi.incl then le? lo.v hi.v else some (lt lo.v hi.v)
  | _, _ => some true

/-- body of `NumberRangeLowerBound` for a known, non-null bound `m`; `store = false`
for the singleton `cty.NegativeInfinity`, which is never recorded -/
def lowerCore (b : Builder) (n : Tri) (lo hi : Option Bound) (m : Num) (incl store : Bool) : Res Builder :=
  match origRejectsLower b.orig m incl with
  | .ok true => .panic "refining to be >= / >"
  | .ok false =>
    match lowerTighter? m incl lo with
    | none => .unmodelled
    | some false => .ok b                      -- existing refinement is more constrained
    | some true =>
      let lo' := if store then some ⟨m, incl⟩ else lo
      match consistent? lo' hi with
      | none => .unmodelled
      | some false => .panic "lower bound is greater than upper bound"
      | some true => .ok { b with wip := .num n lo' hi }
  | .err e => .err e
  | .panic w => .panic w
  | .unmodelled => .unmodelled

def upperCore (b : Builder) (n : Tri) (lo hi : Option Bound) (m : Num) (incl store : Bool) : Res Builder :=
  match origRejectsUpper b.orig m incl with
  | .ok true => .panic "refining to be <= / <"
  | .ok false =>
    match upperTighter? m incl hi with
    | none => .unmodelled
    | some false => .ok b
    | some true =>
      let hi' := if store then some ⟨m, incl⟩ else hi
      match consistent? lo hi' with
      | none => .unmodelled
      | some false => .panic "lower bound is greater than upper bound"
      | some true => .ok { b with wip := .num n lo hi' }
  | .err e => .err e
  | .panic w => .panic w
  | .unmodelled => .unmodelled

/-- `NumberRangeLowerBound` after `refineable()` -/
def stepNumLower (b : Builder) (a : NumArg) (incl : Bool) : Res Builder :=
  match b.wip with
  | .num n lo hi =>
    match a with
    | .unknown => .ok b
    | .null => .panic "number range lower bound must not be null"
    | .known m => lowerCore b n lo hi m incl true
    | .negInf => lowerCore b n lo hi (.inf true) incl false
    | .posInf => lowerCore b n lo hi (.inf false) incl true
  | _ => .panic "cannot refine numeric bounds"

/-- `NumberRangeUpperBound` after `refineable()` -/
def stepNumUpper (b : Builder) (a : NumArg) (incl : Bool) : Res Builder :=
  match b.wip with
  | .num n lo hi =>
    match a with
    | .unknown => .ok b
    | .null => .panic "number range upper bound must not be null"
    | .known m => upperCore b n lo hi m incl true
    | .negInf => upperCore b n lo hi (.inf true) incl true
    | .posInf => upperCore b n lo hi (.inf false) incl false
  | _ => .panic "cannot refine numeric bounds"

/-- the possible lengths `(least, greatest)` of a known collection as
`b.orig.Length()` reports them: exact, except for a set with several members of
which some are unknown (`1 ≤ length ≤ stored members`). -/
def knownLength (orig : Value) : Res (Nat × Nat) :=
  match orig.ty, orig.v with
  | .list _, .seq vs => .ok (vs.length, vs.length)
  | .map _, .smap ks _ => .ok (ks.length, ks.length)
  | .set _, .sset _ vs =>
    if vs.length == 1 || Payload.whollyKnownL vs then .ok (vs.length, vs.length) else .ok (1, vs.length)
  | _, .null => .panic "Length of null"
  | _, _ => .unmodelled

/-- `CollectionLengthLowerBound` after `refineable()` -/
def stepLenLower (b : Builder) (n : Int) : Res Builder :=
  match b.wip with
  | .coll nl lo hi =>
    let cont : Res Builder :=
      if lo > n then .ok b                      -- existing refinement is more constrained
      else if hi < n then .panic "length upper bound is less than lower bound"
      else .ok { b with wip := .coll nl n hi }
    if b.orig.isKnown then
      match knownLength b.orig with
      | .ok (_, most) => if n > (most : Int) then .panic "refining collection with lower bound" else cont
      | .err e => .err e
      | .panic w => .panic w
      | .unmodelled => .unmodelled
    else cont
  | _ => .panic "cannot refine collection length bounds"

/-- `CollectionLengthUpperBound` after `refineable()` -/
def stepLenUpper (b : Builder) (n : Int) : Res Builder :=
  match b.wip with
  | .coll nl lo hi =>
    let cont : Res Builder :=
      if hi < n then .ok b
      else if n < lo then .panic "length upper bound is less than lower bound"
      else .ok { b with wip := .coll nl lo n }
    if b.orig.isKnown then
      match knownLength b.orig with
      | .ok (least, _) => if n < (least : Int) then .panic "refining collection with upper bound" else cont
      | .err e => .err e
      | .panic w => .panic w
      | .unmodelled => .unmodelled
    else cont
  | _ => .panic "cannot refine collection length bounds"

/-- `have[:matchLen] != new[:matchLen]` with `matchLen = min(len(have), len(new))` -/
def overlapDiffers (a b : List UInt8) : Bool :=
  let m := min a.length b.length
  a.take m != b.take m

/-- `StringPrefixFull` after `refineable()`; `p` is already normalised -/
def stepPrefix (b : Builder) (p : String) : Res Builder :=
  match b.wip with
  | .str n q =>
    let cont : Res Builder :=
      if overlapDiffers (bytes q) (bytes p) then .panic "inconsistent with previous refined prefix"
      else .ok { b with wip := .str n (if (bytes p).length > (bytes q).length then p else q) }
    if b.orig.isKnown && !b.orig.isNull then
      match b.orig.v with
      | .s known => if !(bytes p).isPrefixOf (bytes known) then .panic "inconsistent with known value" else cont
      | _ => .unmodelled
    else cont
  | _ => .panic "cannot refine string prefix"

/-- one builder method other than the two-call shorthands, after `refineable()` -/
def step1 (b : Builder) : RefineCall → Res Builder
  | .notNull => stepNotNull b
  | .null => stepNull b
  | .numLower a incl => stepNumLower b a incl
  | .numUpper a incl => stepNumUpper b a incl
  | .lenLower n => stepLenLower b n
  | .lenUpper n => stepLenUpper b n
  | .stringPrefix p => stepPrefix b p
  | .stringPrefixFull p => stepPrefix b p
  | .numRangeInclusive lo hi => (stepNumLower b lo true).bind fun b' => stepNumUpper b' hi true
  | .collectionLength n => (stepLenLower b n).bind fun b' => stepLenUpper b' n

/-- one builder method call.  `refineable()`: `cty.DynamicVal` silently ignores
the call; a receiver that supports no refinement panics. -/
def step (b : Builder) (c : RefineCall) : Res Builder :=
  if b.isDyn then .ok b
  else if b.wip = .unref then .panic "cannot refine this value"
  else step1 b c

/-- a chain of builder calls -/
def run (b : Builder) : List RefineCall → Res Builder
  | [] => .ok b
  | c :: cs => (step b c).bind fun b' => run b' cs

/-- like `run`, also reporting the index of the call that did not return -/
def runIdx (b : Builder) (i : Nat) : List RefineCall → Res Builder × Nat
  | [] => (.ok b, i)
  | c :: cs =>
    match step b c with
    | .ok b' => runIdx b' (i + 1) cs
    | r => (r, i)

/-! ## `NewValue` -/

/-- the collapse rules of `NewValue` for a definitely-non-null refinement; `none` =
no collapse -/
def collapse (ty : Ty) : Rfn → Res (Option Value)
  | .num _ (some lo) (some hi) =>
    if hi.incl && lo.incl then
      match numEq? lo.v hi.v with
      | none => .unmodelled
      | some true => .ok (some ⟨ty, .n lo.v⟩)
      | some false => .ok none
    else .ok none
  | .coll _ lo hi =>
    if lo = hi then
      if lo = 0 then
        match ty with
        | .list _ => .ok (some ⟨ty, .seq []⟩)
        | .set _ => .ok (some ⟨ty, .sset [] []⟩)
        | .map _ => .ok (some ⟨ty, .smap [] []⟩)
        | _ => .ok none
      else match ty with
        | .list _ => if lo < 0 then .panic "make: len out of range"
                     else .ok (some ⟨ty, .seq (List.replicate lo.toNat (.unk .unref))⟩)
        | .set _ => if lo = 1 then .ok (some ⟨ty, .sset [unknownBucket] [.unk .unref]⟩) else .ok none
        | _ => .ok none
    else .ok none
  | _ => .ok none

/-- `b.NewValue()` -/
def newValue (b : Builder) : Res Value :=
  if b.orig.isKnown || b.isDyn then .ok (b.orig.withMarks b.marks)
  else
    let unk : Value := ⟨b.orig.ty, .unk b.wip⟩
    match b.wip with
    | .unref => .panic "nil refinement"
    | _ =>
      match b.wip.nullness with
      | .t => .ok ((Value.null b.orig.ty).withMarks b.marks)
      | .u => .ok (unk.withMarks b.marks)
      | .f =>
        match collapse b.orig.ty b.wip with
        | .ok (some v) => .ok (v.withMarks b.marks)
        | .ok none => .ok (unk.withMarks b.marks)
        | .err e => .err e
        | .panic w => .panic w
        | .unmodelled => .unmodelled

/-- `v.Refine().<calls>.NewValue()` -/
def refine (v : Value) (cs : List RefineCall) : Res Value :=
  (init v).bind fun b => (run b cs).bind newValue

/-! ## `Value.Range()` and the `ValueRange` accessors -/

structure ValueRange where
  ty : Ty
  raw : Rfn
  deriving Repr, Inhabited, BEq

def isCollectionTy : Ty → Bool
  | .list _ | .set _ | .map _ => true
  | _ => false

/-- `v.Range()`: panics on a marked value; synthesises a refinement for a known one -/
def range (v : Value) : Res ValueRange :=
  match v.v with
  | .marked _ _ => .panic "Value.Range on marked value"
  | .bad _ => .unmodelled
  | .unk r => .ok ⟨v.ty, if r = .unref then .nullable .u else r⟩
  | .null => .ok ⟨v.ty, .nullable .t⟩
  | p =>
    match v.ty with
    | .string => match p with
      | .s s => .ok ⟨v.ty, .str .f s⟩
      | _ => .unmodelled
    | .number => match p with
      | .n x => .ok ⟨v.ty, .num .f (some ⟨x, true⟩) (some ⟨x, true⟩)⟩
      | _ => .unmodelled
    | .list _ | .set _ | .map _ =>
      match knownLength v with
      | .ok (least, most) =>
        if least = most then .ok ⟨v.ty, .coll .f least most⟩ else .ok ⟨v.ty, .coll .f 0 maxInt⟩
      | _ => .unmodelled
    | _ => .ok ⟨v.ty, .nullable .f⟩

namespace ValueRange

def definitelyNotNull (r : ValueRange) : Bool := r.raw.nullness = .f
def couldBeNull (r : ValueRange) : Bool := r.raw.nullness ≠ .f

/-- `NumberLowerBound`: `(none, _)` is an unknown number (type not yet known) -/
def numberLowerBound (r : ValueRange) : Res (Option Num × Bool) :=
  match r.ty with
  | .dyn => .ok (none, false)
  | .number =>
    match r.raw with
    | .num _ (some l) _ => .ok (some l.v, l.incl)
    | _ => .ok (some (.inf true), true)
  | _ => .panic "NumberLowerBound for non-number"

def numberUpperBound (r : ValueRange) : Res (Option Num × Bool) :=
  match r.ty with
  | .dyn => .ok (none, false)
  | .number =>
    match r.raw with
    | .num _ _ (some h) => .ok (some h.v, h.incl)
    | _ => .ok (some (.inf false), true)
  | _ => .panic "NumberUpperBound for non-number"

def stringPrefix (r : ValueRange) : Res String :=
  match r.ty with
  | .dyn => .ok ""
  | .string =>
    match r.raw with
    | .str _ p => .ok p
    | _ => .ok ""
  | _ => .panic "StringPrefix for non-string"

def lengthLowerBound (r : ValueRange) : Res Int :=
  match r.ty with
  | .dyn => .ok 0
  | t =>
    if isCollectionTy t then
      match r.raw with
      | .coll _ lo _ => .ok lo
      | _ => .ok 0
    else .panic "LengthLowerBound for non-collection"

def lengthUpperBound (r : ValueRange) : Res Int :=
  match r.ty with
  | .dyn => .ok maxInt
  | t =>
    if isCollectionTy t then
      match r.raw with
      | .coll _ _ hi => .ok hi
      | _ => .ok maxInt
    else .panic "LengthUpperBound for non-collection"

end ValueRange

/-! ## `ctystrings.SafeKnownPrefix` over oracle columns -/

/-- the rune list of `sequenceMustEndGraphemeCluster` (all ASCII, one byte each) -/
def delimiters : List UInt8 :=
  "-_:;/\\,.(){}[]|?!~ \t@#$%^&*+\"'".toList.map fun c => c.toNat.toUInt8

/-- `sequenceMustEndGraphemeCluster(suspect)` for a given delimiter table: the
sequence is a single code point and it is in the table.  (Every entry of the
table is one byte; a one-byte sequence is one code point.) -/
def mustEndCluster (delims : List UInt8) (suspect : List UInt8) : Bool :=
  match suspect with
  | [b] => delims.contains b
  | _ => false

/-- the scanning loop: `advances` are the successive results of
`textseg.ScanGraphemeClusters(remain, false)`; returns `(prevBoundary, thisBoundary)` -/
def scanLoop : List Nat → Nat → Nat → Nat → Nat × Nat
  | _, 0, prev, this => (prev, this)                     -- len(remain) == 0
  | [], _ + 1, prev, this => (prev, this)                -- oracle exhausted (does not happen)
  | 0 :: _, _ + 1, _, this => (this, this)               -- scanner cannot advance: stop here
  | (a + 1) :: rest, r + 1, _, this => scanLoop rest (r + 1 - (a + 1)) this (this + (a + 1))

/-- `SafeKnownPrefix`: `nfc` = the normalised prefix, `lastBoundary` =
`norm.NFC.LastBoundary(nfc)`, `advances` = the grapheme scanner's answers. -/
def safeKnownPrefix (delims : List UInt8) (nfc : List UInt8) (lastBoundary : Int) (advances : List Nat) :
    List UInt8 :=
  if lastBoundary ≠ -1 ∧ lastBoundary ≠ nfc.length then nfc.take lastBoundary.toNat
  else
    let pt := scanLoop advances nfc.length 0 0
    let suspect := (nfc.drop pt.1).take (pt.2 - pt.1)
    let prev := if mustEndCluster delims suspect then pt.2 else pt.1
    nfc.take prev

/-! ## SPECIFICATION: the concrete values a refinement admits

A concrete (wholly known) value, as far as a refinement can tell values apart:
null, a number, a string (its bytes), a collection (its length), anything else. -/
inductive Conc where
  | null
  | num (x : Num)
  | str (s : List UInt8)
  | coll (len : Nat)
  | other
  deriving Repr, BEq, DecidableEq, Inhabited

/-- does a concrete value of this shape conform to the type constraint? -/
def Conc.kindOk (t : Ty) : Conc → Bool
  | .null => true
  | .num _ => match t with
    | .number | .dyn => true
    | _ => false
  | .str _ => match t with
    | .string | .dyn => true
    | _ => false
  | .coll _ => match t with
    | .list _ | .set _ | .map _ | .dyn => true
    | _ => false
  | .other => match t with
    | .bool | .tuple _ | .object _ _ _ | .capsule _ | .dyn => true
    | _ => false

/-- `x` respects a lower bound (absent = unbounded): exact comparison -/
def aboveLower (lo : Option Bound) (x : Num) : Bool :=
  match lo with
  | none => true
  | some b => if b.incl then decide (Num.cmp x b.v ≥ 0) else decide (Num.cmp x b.v > 0)

def belowUpper (hi : Option Bound) (x : Num) : Bool :=
  match hi with
  | none => true
  | some b => if b.incl then decide (Num.cmp x b.v ≤ 0) else decide (Num.cmp x b.v < 0)

def nullOk (n : Tri) : Conc → Bool
  | .null => n != .f
  | _ => n != .t

/-- the constraint a refinement puts on a non-null value -/
def rangeOk : Rfn → Conc → Bool
  | .num _ lo hi, .num x => aboveLower lo x && belowUpper hi x
  | .str _ p, .str s => (bytes p).isPrefixOf s
  | .coll _ lo hi, .coll k => decide (lo ≤ (k : Int)) && decide ((k : Int) ≤ hi)
  | _, _ => true

/-- γ: the set of concrete values admitted by an unknown value of type constraint
`t` carrying refinement `r` -/
def γ (t : Ty) (r : Rfn) (c : Conc) : Bool :=
  c.kindOk t && nullOk r.nullness c && rangeOk r c

/-- ⟦c⟧: the concrete values that satisfy one stated constraint.  Range
constraints speak about the value "if it is not null" and about values of their
own kind. -/
def argLower (a : NumArg) (incl : Bool) (x : Num) : Bool :=
  match a with
  | .unknown => true
  | .null => false
  | .known m => aboveLower (some ⟨m, incl⟩) x
  | .negInf => aboveLower (some ⟨.inf true, incl⟩) x
  | .posInf => aboveLower (some ⟨.inf false, incl⟩) x

def argUpper (a : NumArg) (incl : Bool) (x : Num) : Bool :=
  match a with
  | .unknown => true
  | .null => false
  | .known m => belowUpper (some ⟨m, incl⟩) x
  | .negInf => belowUpper (some ⟨.inf true, incl⟩) x
  | .posInf => belowUpper (some ⟨.inf false, incl⟩) x

def den : RefineCall → Conc → Bool
  | .notNull, c => c != .null
  | .null, c => c == .null
  | .numLower a incl, .num x => argLower a incl x
  | .numUpper a incl, .num x => argUpper a incl x
  | .numRangeInclusive lo hi, .num x => argLower lo true x && argUpper hi true x
  | .lenLower n, .coll k => decide (n ≤ (k : Int))
  | .lenUpper n, .coll k => decide ((k : Int) ≤ n)
  | .collectionLength n, .coll k => decide (n = (k : Int))
  | .stringPrefix p, .str s => (bytes p).isPrefixOf s
  | .stringPrefixFull p, .str s => (bytes p).isPrefixOf s
  | _, _ => true

/-- γ of a builder: what its work-in-progress refinement admits -/
def γB (b : Builder) (c : Conc) : Bool := γ b.orig.ty b.wip c

/-- strip every top-level marker layer -/
def core : Payload → Payload
  | .marked _ r => core r
  | p => p

/-- the concrete values a *known* payload stands for, at the granularity of `Conc` -/
def knownAdmits (t : Ty) (p : Payload) (c : Conc) : Bool :=
  match p, c with
  | .null, .null => true
  | .n v, .num x => Num.cmp x v == 0
  | .s v, .str s => s == bytes v
  | .seq vs, .coll k => isCollectionTy t && k == vs.length
  | .seq _, .other => !isCollectionTy t
  | .smap ks _, .coll k => isCollectionTy t && k == ks.length
  | .smap _ _, .other => !isCollectionTy t
  | .sset _ vs, .coll k =>
    if vs.length ≤ 1 || Payload.whollyKnownL vs then k == vs.length else decide (1 ≤ k) && decide (k ≤ vs.length)
  | .b _, .other => true
  | .caps, .other => true
  | _, _ => false

/-- γ of a value: an unknown value admits what its refinement admits, a known
value admits the concrete values it stands for; marks are ignored -/
def γV (v : Value) (c : Conc) : Bool :=
  match core v.v with
  | .unk r => γ v.ty r c
  | p => c.kindOk v.ty && knownAdmits v.ty p c

/-- the `Conc` a wholly-known value is, when it determines one -/
def concOf (v : Value) : Option Conc :=
  match core v.v with
  | .null => some .null
  | .n x => some (.num x)
  | .s s => some (.str (bytes s))
  | .seq vs => some (if isCollectionTy v.ty then .coll vs.length else .other)
  | .smap ks _ => some (if isCollectionTy v.ty then .coll ks.length else .other)
  | .sset _ vs => if vs.length ≤ 1 || Payload.whollyKnownL vs then some (.coll vs.length) else none
  | .b _ => some .other
  | .caps => some .other
  | _ => none

/-! ## `ValueRange.Includes` for a known, unmarked, wholly-known argument -/

/-- `r.Includes(v)`; `.t`/`.f` are `cty.True`/`cty.False`, `.u` the unknown result -/
def includes (r : ValueRange) (v : Value) : Res Tri :=
  if v.v.isMarked || !v.whollyKnown then .unmodelled else
  if r.raw.nullness = .t then .ok (if v.isNull then .t else .f)
  else if r.raw.nullness = .f && v.isNull then .ok .f
  else if v.isNull then .ok .t
  else if Ty.conformErrs r.ty v.ty ≠ 0 then .ok .f
  else
    match r.raw, v.v with
    | .str _ p, .s s => .ok (if (bytes p).isPrefixOf (bytes s) then .u else .f)
    | .str _ _, _ => .unmodelled
    | .coll _ lo hi, _ =>
      match knownLength v with
      | .ok (k, _) => .ok (if (k : Int) < lo || hi < (k : Int) then .f else .u)
      | _ => .unmodelled
    | .num _ lo hi, .n x =>
      -- bounds as the accessors report them; `>=` is `GreaterThan.Or(Equals)`
      let (lv, li) := match lo with
        | some l => (l.v, l.incl)
        | none => (Num.inf true, true)
      let (hv, hi') := match hi with
        | some h => (h.v, h.incl)
        | none => (Num.inf false, true)
      match (if li then ge? x lv else some (gt x lv)), (if hi' then le? x hv else some (lt x hv)) with
      | some a, some b => .ok (if !a || !b then .f else .u)
      | _, _ => .unmodelled
    | .num _ _ _, _ => .unmodelled
    | _, _ => .ok .u

end Oracle

end Refine
end CtyModel
