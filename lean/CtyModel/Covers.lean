/-
`Covers a c` — the abstract value `a` admits the concrete-or-less-abstract value
`c` (DESIGN §3.6).  This is the SPECIFICATION side of property C01: it is
written in plain vocabulary (type shape, nullness, exact comparison of numbers,
byte prefixes, possible lengths), without reference to the control flow of any
operation method, and it is executable so that the driver can evaluate it on the
real implementation's outputs (`judge.c01.*` in Driver/HCovers.lean): the
theorems of Props/C01.lean and the search of harness/c01.go speak about this one
definition.

* `a` unknown with type constraint `t` and refinement `r`: `c`'s type matches `t`
  wherever `t` is not the placeholder, and `r` does not exclude `c` — nullness;
  numeric bounds with their inclusiveness against the exact `Num.cmp`; byte
  prefix; length bounds against every length `c` can still have.  If `c` is
  itself unknown, its own range lies inside `a`'s.
* `a` known: `c` has the same shape and the children are covered pairwise; a
  known leaf admits exactly itself.  Set members are matched by a surjection
  from the members of `a` onto the members of `c` (several abstract members may
  stand for the same concrete member; every abstract member stands for one).
* Marks are not part of the relation (they are property C04's subject): both
  sides are compared with every marker removed.
* Known numbers: a RESULT admits a result when the two numbers have the same exact
  value (`Covers`: `Num.cmp = 0`; precision and the sign of zero are not part of a
  number's value).  A weakened OPERAND keeps the known numbers of the operand it
  weakens as they are (`CoversX`: the identical `big.Float`), because the result
  of cty arithmetic depends on the precision of its operands.

`Weaken o w` is the inductive relation of the C01 quantifier: `w` arises from `o`
by replacing any subset of sub-values, at any depth, by unknowns that are true of
what they replace (`Rfn.TrueOf`), or the whole operand by `cty.DynamicVal`.
`weaken_covers : Weaken o w → CoversX w o` is proved in Lemmas/CoversWeaken.lean.
-/
import CtyModel.Ops2
import CtyModel.TySpec
namespace CtyModel

namespace Cov
/-- two known numbers are the same: identical (`exact`), or equal in exact value -/
def numEq (exact : Bool) (x y : Num) : Bool := if exact then decide (x = y) else Num.cmp x y == 0
end Cov

namespace Cov

def negInfB : Bound := ⟨.inf true, true⟩
def posInfB : Bound := ⟨.inf false, true⟩

/-- the lower bound `a` (absent = −∞, inclusive) excludes nothing that the lower
bound `c` lets through -/
def loInside (a c : Option Bound) : Bool :=
  let a := a.getD negInfB
  let c := c.getD negInfB
  if a.incl || !c.incl then decide (Num.cmp a.v c.v ≤ 0) else decide (Num.cmp a.v c.v < 0)

/-- the upper bound `a` (absent = +∞, inclusive) excludes nothing that the upper
bound `c` lets through -/
def hiInside (a c : Option Bound) : Bool :=
  let a := a.getD posInfB
  let c := c.getD posInfB
  if a.incl || !c.incl then decide (Num.cmp c.v a.v ≤ 0) else decide (Num.cmp c.v a.v < 0)

/-- a known number is the one-point range `[x, x]` -/
def pt (x : Num) : Option Bound := some ⟨x, true⟩

/-- smallest and largest number of members a known collection payload can have
once its unknown members are known (only set members can coalesce) -/
def possibleLen : Payload → Option (Int × Int)
  | .seq vs => some (vs.length, vs.length)
  | .smap _ vs => some (vs.length, vs.length)
  | .sset _ vs =>
    if vs.length ≤ 1 || Payload.whollyKnownL vs then some (vs.length, vs.length)
    else some (1, vs.length)
  | _ => none

/-- the range of the unknown `rc` lies inside the range of `r` (nullness aside) -/
def rfnInside (r rc : Rfn) : Bool :=
  match r with
  | .unref | .nullable _ => true
  | .num _ lo hi =>
    (match rc with
     | .num _ lo' hi' => loInside lo lo' && hiInside hi hi'
     | _ => loInside lo none && hiInside hi none)
  | .str _ p =>
    (match rc with
     | .str _ p' => Value.hasPrefix p' p
     | _ => Value.hasPrefix "" p)
  | .coll _ lo hi =>
    (match rc with
     | .coll _ lo' hi' => decide (lo ≤ lo') && decide (hi' ≤ hi)
     | _ => decide (lo ≤ 0) && decide (maxInt ≤ hi))

/-- the refinement `r` does not exclude the known, non-null payload `p` -/
def rfnAdmitsKnown (r : Rfn) (p : Payload) : Bool :=
  match r with
  | .unref | .nullable _ => true
  | .num _ lo hi =>
    (match p with
     | .n x => loInside lo (pt x) && hiInside hi (pt x)
     | _ => false)
  | .str _ pfx =>
    (match p with
     | .s s => Value.hasPrefix s pfx
     | _ => false)
  | .coll _ lo hi =>
    (match possibleLen p with
     | some (l, h) => decide (lo ≤ l) && decide (h ≤ hi)
     | none => false)

/-- an unknown with refinement `r` admits the (mark-free) payload `c` -/
def admits (r : Rfn) (c : Payload) : Bool :=
  match c with
  | .null => r.nullness != .f
  | .unk rc =>
    if rc.nullness == .t then r.nullness != .f
    else if r.nullness == .t then false
    else (r.nullness == .u || rc.nullness == .f) && rfnInside r rc
  | .marked _ _ => false
  | p => r.nullness != .t && rfnAdmitsKnown r p

/-- try every way of taking one member `c` out of a list: `p c rest` -/
def anySplit (p : Payload → List Payload → Bool) : List Payload → List Payload → Bool
  | _, [] => false
  | l, c :: r => p c (l.reverse ++ r) || anySplit p (c :: l) r

mutual
/-- `coversP exact a c` on mark-free payloads (types are compared once, at the top) -/
def coversP (exact : Bool) : Payload → Payload → Bool
  | .unk r, c => admits r c
  | .null, c => (match c with | .null => true | _ => false)
  | .b x, c => (match c with | .b y => x == y | _ => false)
  | .n x, c => (match c with | .n y => numEq exact x y | _ => false)
  | .s x, c => (match c with | .s y => x == y | _ => false)
  | .caps, c => (match c with | .caps => true | _ => false)
  | .seq as, c => (match c with | .seq cs => coversL exact as cs | _ => false)
  | .smap ks as, c => (match c with | .smap ks' cs => ks == ks' && coversL exact as cs | _ => false)
  | .sset _ as, c => (match c with | .sset _ cs => coversS exact as cs | _ => false)
  | .marked _ a, c => coversP exact a c
  | .bad _, _ => false
/-- pairwise, same length -/
def coversL (exact : Bool) : List Payload → List Payload → Bool
  | [], cs => cs.isEmpty
  | a :: as, cs => (match cs with | c :: cs => coversP exact a c && coversL exact as cs | [] => false)
/-- set members: a surjection from the abstract members onto the concrete members
along `coversP` (the abstract member `a` stands for some `c`; `c` is then either
used up or left for further abstract members that coalesce with `a`) -/
def coversS (exact : Bool) : List Payload → List Payload → Bool
  | [], cs => cs.isEmpty
  | a :: as, cs =>
    anySplit (fun c rest => coversP exact a c && (coversS exact as rest || coversS exact as cs)) [] cs
end

end Cov

def CoversG (exact : Bool) (a c : Value) : Bool :=
  Ty.matches a.ty c.ty && Cov.coversP exact a.v.stripMarks c.v.stripMarks

/-- `Covers a c`: the abstract value `a` admits `c` -/
def Covers (a c : Value) : Bool := CoversG false a c

/-- `CoversX w o`: `w` admits `o` and every known number of `w` is the number of `o`
itself — the relation between a weakened operand and the operand it weakens -/
def CoversX (w o : Value) : Bool := CoversG true w o

/-! ## The quantifier of C01: weakenings -/

/-- the bytes of `p` are a prefix of the bytes of `s` -/
def BytePrefix (p s : String) : Prop := p.toUTF8.toList <+: s.toUTF8.toList

/-- The refinement `r` is TRUE OF the sub-value `p` it is about to replace (`p`
null or known at its top; members of `p` may be unknown).  Written as a
proposition in plain vocabulary, independently of `Cov.admits`. -/
def Rfn.TrueOf (r : Rfn) (p : Payload) : Prop :=
  match p with
  | .null => r.nullness ≠ .f
  | .unk _ | .marked _ _ | .bad _ => False
  | p =>
    r.nullness ≠ .t ∧
    (match r with
     | .unref | .nullable _ => True
     | .num _ lo hi => ∃ x, p = .n x ∧
        (∀ b, lo = some b → if b.incl then Num.cmp b.v x ≤ 0 else Num.cmp b.v x < 0) ∧
        (∀ b, hi = some b → if b.incl then Num.cmp x b.v ≤ 0 else Num.cmp x b.v < 0)
     | .str _ pfx => ∃ s, p = .s s ∧ BytePrefix pfx s
     | .coll _ lo hi => ∃ l h, Cov.possibleLen p = some (l, h) ∧ lo ≤ l ∧ h ≤ hi)

/-- leaves that a weakening may leave alone -/
def Payload.isLeaf : Payload → Bool
  | .null | .unk _ | .b _ | .n _ | .s _ | .caps => true
  | _ => false

mutual
/-- `WeakenP o w`: payload `w` is a weakening of payload `o` (same type) -/
inductive WeakenP : Payload → Payload → Prop
  /-- a leaf is left alone -/
  | leaf {p} : p.isLeaf = true → WeakenP p p
  /-- a sub-value is replaced by an unknown that is true of it -/
  | toUnk {p r} : Rfn.TrueOf r p.stripMarks → WeakenP p (.unk r)
  /-- list / tuple: members weakened independently -/
  | seq {vs ws} : WeakenL vs ws → WeakenP (.seq vs) (.seq ws)
  /-- map / object: members weakened independently, keys kept -/
  | smap {ks vs ws} : WeakenL vs ws → WeakenP (.smap ks vs) (.smap ks ws)
  /-- set: members weakened independently (bucket ids follow the new members) -/
  | sset {ids ids' vs ws} : WeakenL vs ws → WeakenP (.sset ids vs) (.sset ids' ws)
  /-- marks play no part: a marker may be dropped from or added to either side -/
  | markL {ms p w} : WeakenP p w → WeakenP (.marked ms p) w
  | markR {ms p w} : WeakenP p w → WeakenP p (.marked ms w)
inductive WeakenL : List Payload → List Payload → Prop
  | nil : WeakenL [] []
  | cons {v w vs ws} : WeakenP v w → WeakenL vs ws → WeakenL (v :: vs) (w :: ws)
end

/-- `Weaken o w`: the operand `w` is a weakening of the operand `o` — some subset
of its sub-values, at any depth, replaced by unknowns true of them, or the whole
operand replaced by `cty.DynamicVal` -/
inductive Weaken : Value → Value → Prop
  | inside {t p w} : WeakenP p w → Weaken ⟨t, p⟩ ⟨t, w⟩
  | dyn (o : Value) : Weaken o Value.dynVal

/-! ## Soundness of an operation = monotonicity w.r.t. `Covers`

The operands `o` of the property's quantifier are concrete (wholly known) values;
`w` ranges over everything that covers them exactly (`CoversX`), which includes
every weakening (`weaken_covers`); the weakened result must admit (`Covers`) the
concrete result. -/

/-- at most one marker layer at the top of the value — the representation
invariant of cty marks (`Value.Mark`/`WithMarks` merge into an existing marker,
a `marker` never wraps a `marker`) -/
def Value.flatMarks (v : Value) : Bool := !v.unmark.isMarked

/-- a value of the dynamic pseudo-type is unknown or null (`cty.DynamicVal`,
`cty.NullVal(cty.DynamicPseudoType)`): no constructor gives it a known payload -/
def Value.dynOK (v : Value) : Bool := !v.ty.isDyn || !v.isKnown || v.isNull

/-- lengths are Go `int`s: a tuple type, an object type or a collection payload has
at most `math.MaxInt` members -/
def Value.lenFits (v : Value) : Bool :=
  (match v.ty with
   | .tuple es => decide ((es.length : Int) ≤ maxInt)
   | .object ns _ _ => decide ((ns.length : Int) ≤ maxInt)
   | _ => true) &&
  (match Cov.possibleLen v.v.unmark1 with
   | some (_, h) => decide (h ≤ maxInt)
   | none => true)

/-- what the C01 theorems assume of an operand beyond what they state: the
representation invariants of `cty.Value` that the operation methods rely on — a
well-formed type, at most one marker layer, no known payload of the placeholder
type, lengths within Go's `int`.  (Every value built by cty's constructors satisfies them; property C06.) -/
def Value.wfc (v : Value) : Bool := v.flatMarks && v.ty.wf && v.dynOK && v.lenFits

def Sound₁ (op : Value → Res Value) : Prop :=
  ∀ o w r, o.whollyKnown = true → o.wfc = true → w.wfc = true → CoversX w o = true → op o = .ok r →
    ∃ r', op w = .ok r' ∧ Covers r' r = true

def Sound₂ (op : Value → Value → Res Value) : Prop :=
  ∀ o₁ o₂ w₁ w₂ r, o₁.whollyKnown = true → o₂.whollyKnown = true →
    o₁.wfc = true → o₂.wfc = true → w₁.wfc = true → w₂.wfc = true →
    CoversX w₁ o₁ = true → CoversX w₂ o₂ = true → op o₁ o₂ = .ok r →
    ∃ r', op w₁ w₂ = .ok r' ∧ Covers r' r = true

/-- the same, over the weakenings of the property's quantifier only (implied by
`Sound` through `weaken_covers`) -/
def SoundW₁ (op : Value → Res Value) : Prop :=
  ∀ o w r, o.whollyKnown = true → o.wfc = true → w.wfc = true → Weaken o w → op o = .ok r →
    ∃ r', op w = .ok r' ∧ Covers r' r = true

def SoundW₂ (op : Value → Value → Res Value) : Prop :=
  ∀ o₁ o₂ w₁ w₂ r, o₁.whollyKnown = true → o₂.whollyKnown = true →
    o₁.wfc = true → o₂.wfc = true → w₁.wfc = true → w₂.wfc = true →
    Weaken o₁ w₁ → Weaken o₂ w₂ → op o₁ o₂ = .ok r →
    ∃ r', op w₁ w₂ = .ok r' ∧ Covers r' r = true

/-! ## The search predicate (evaluated by the driver on implementation outputs) -/

inductive Verdict where
  | pass
  | skip (why : String)     -- the weakened tuple does not cover the concrete one: not a case of the property
  | fail (why : String)
  deriving Repr, BEq, DecidableEq

def coversAll : List Value → List Value → Bool
  | [], [] => true
  | w :: ws, o :: os => CoversX w o && coversAll ws os
  | _, _ => false

/-- C01's soundness clause on one paired run: operands `os`, weakened operands
`ws`, the implementation's outcome on each -/
def judgeSound (os ws : List Value) (ro rw : Res Value) : Verdict :=
  if !os.all Value.whollyKnown then .skip "concrete operands are not wholly known"
  else if !coversAll ws os then .skip "weakened operands do not cover the concrete ones"
  else match ro with
    | .ok r =>
      (match rw with
       | .ok r' => if Covers r' r then .pass else .fail "result-not-covered"
       | _ => .fail "weakened-call-fails")
    | _ => .pass

def isNeverNullOp (op : String) : Bool :=
  ["equals", "notequal", "add", "sub", "mul", "div", "mod", "neg", "abs", "lt", "gt", "le", "ge", "not", "and", "or",
   "length", "hasindex", "haselement"].contains op

/-- C01's converse clauses on one run: wholly known operands give a wholly known
result; arithmetic / comparison / logic / length / membership results are never null -/
def judgeKnown (op : String) (os : List Value) (ro : Res Value) : Verdict :=
  match ro with
  | .ok r =>
    if isNeverNullOp op && r.isNull then .fail "null-result"
    else if os.all Value.whollyKnown && !r.whollyKnown then .fail "spontaneous-unknown"
    else .pass
  | _ => .pass

end CtyModel
