/-
Outcomes of modelled Go calls.  A Go panic is a *value* of the model, so
"never panics" is a statement `f x ≠ .panic`.
-/
namespace CtyModel

/-- Outcome of a modelled call. `err`/`panic` carry a short class tag which is
compared with the implementation only where a property speaks of it. -/
inductive Res (α : Type) where
  | ok (a : α)
  | err (cls : String)
  | panic (why : String)
  | unmodelled
  deriving Repr, BEq, DecidableEq

namespace Res
def map {α β} (f : α → β) : Res α → Res β
  | .ok a => .ok (f a)
  | .err c => .err c
  | .panic w => .panic w
  | .unmodelled => .unmodelled

def bind {α β} (r : Res α) (f : α → Res β) : Res β :=
  match r with
  | .ok a => f a
  | .err c => .err c
  | .panic w => .panic w
  | .unmodelled => .unmodelled

instance : Monad Res where
  pure := .ok
  bind := bind

def isOk {α} : Res α → Bool
  | .ok _ => true
  | _ => false

def isPanic {α} : Res α → Bool
  | .panic _ => true
  | _ => false

@[simp] theorem bind_ok {α β} (a : α) (f : α → Res β) : (Res.ok a >>= f) = f a := rfl
@[simp] theorem bind_err {α β} (c : String) (f : α → Res β) : (Res.err c >>= f) = .err c := rfl
@[simp] theorem bind_panic {α β} (c : String) (f : α → Res β) : (Res.panic c >>= f) = .panic c := rfl
@[simp] theorem bind_unmodelled {α β} (f : α → Res β) : (Res.unmodelled >>= f) = .unmodelled := rfl
@[simp] theorem pure_eq {α} (a : α) : (pure a : Res α) = .ok a := rfl
end Res

/-- Three-valued logic: the result of an operation whose answer may be unknown. -/
inductive Tri where
  | f | t | u
  deriving Repr, BEq, DecidableEq, Inhabited

end CtyModel
