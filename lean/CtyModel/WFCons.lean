/-
C06 — the constructors and accessors of `cty.Value` that the other model files
do not already contain (cty/value_init.go, cty/marks.go, cty/value_ops.go).
`ListVal`, `MapVal`, `TupleVal`, `ObjectVal` are in `Gocty.lean` (the ones
`gocty.ToCtyValue` calls); here are the primitives, the empty collections,
`SetVal`, `Mark`, and the accessors `AsString`, `LengthInt`, `ElementIterator`.

`NormalizeString` (Unicode NFC) is the parameter `norm`.  The hash of a set
member (`setRules.Hash`: CRC-32 of `appendSetHashBytes`) is an oracle column
`hs`, one per member, as in `Value.hasElement`.

Core Lean only: the driver links this file.
-/
import CtyModel.WF
import CtyModel.Gocty
import CtyModel.SetImpl
import CtyModel.Function
namespace CtyModel
namespace Value

/-- `cty.StringVal(s)` -/
def stringVal (norm : String → String) (s : String) : Value := ⟨.string, .s (norm s)⟩
/-- `cty.ListValEmpty(e)`, `cty.MapValEmpty(e)`, `cty.SetValEmpty(e)` -/
def listValEmpty (e : Ty) : Value := ⟨.list e, .seq []⟩
def mapValEmpty (e : Ty) : Value := ⟨.map e, .smap [] []⟩
def setValEmpty (e : Ty) : Value := ⟨.set e, .sset [] []⟩
/-- `cty.EmptyTupleVal`, `cty.EmptyObjectVal` -/
def emptyTupleVal : Value := ⟨.tuple [], .seq []⟩
def emptyObjectVal : Value := ⟨.object [] [] [], .smap [] []⟩
/-- `cty.CapsuleVal(ty, ptr)` for a capsule type -/
def capsuleVal (id : Nat) : Value := ⟨.capsule id, .caps⟩

/-- `val.Mark(m)`: a new marker around the real value, carrying the old marks and `m` -/
def mark1 (v : Value) (m : String) : Value :=
  match v.v with
  | .marked ms r => ⟨v.ty, .marked (insertMark m ms) r⟩
  | p => ⟨v.ty, .marked [m] p⟩

/-! ### `cty.SetVal` -/

/-- `setRules{ety}` over (payload, oracle hash) pairs -/
def setRules (e : Ty) : Rules (Payload × Int) :=
  { hash := fun x => x.2, equiv := fun x y => equivP e x.1 y.1 }

/-- bucket id of every member, in `Values()` order -/
def flatIds (bs : List (Int × List (Payload × Int))) : List Int :=
  bs.flatMap fun kv => kv.2.map fun _ => kv.1

/-- can `Equals` be evaluated (no panic, nothing unmodelled) on every pair of members? -/
def pairsOk (e : Ty) (ps : List Payload) : Bool :=
  ps.all fun x => ps.all fun y => (equalsP e x e y).isOk

/-- the member as the loop of `SetVal` stores it: deeply unmarked if it carried marks -/
def setMember (w : Value) : Value := if w.marksDeep.length > 0 then w.unmarkDeep else w

/-- `cty.SetVal(ws)`; `hs` = the implementation's hash of every (unmarked) member -/
def setValH (ws : List Value) (hs : List Int) : Res Value :=
  if ws.isEmpty then .panic "must not call SetVal with empty slice"
  else
    let us := ws.map setMember
    let markSets := (ws.filter fun w => w.marksDeep.length > 0).map marksDeep
    match Gocty.elemTypeOf .dyn us with
    | .ok et =>
      if !pairsOk et (Gocty.payloads us) then .unmodelled
      else
        let s := SetImpl.fromList (setRules et) ((Gocty.payloads us).zip hs)
        .ok (Fn.withMarkSets ⟨.set et, .sset (flatIds s.buckets) ((SetImpl.values s).map (·.1))⟩ markSets)
    | .err c => .err c
    | .panic w => .panic w
    | .unmodelled => .unmodelled

/-! ### accessors (value_ops.go) -/

/-- `val.AsString()` -/
def asString (v : Value) : Res String :=
  if v.isMarked then .panic "value is marked" else
  if !v.ty.isString then .panic "not a string" else
  match v.v with
  | .s x => .ok x
  | .unk _ => .panic "value is not known"
  | .null => .panic "value is null"
  | _ => .panic "payload is not a string"

/-- `val.LengthInt()` -/
def lengthInt (v : Value) : Res Nat :=
  if v.isMarked then .panic "value is marked" else
  match v.ty with
  | .tuple es => .ok es.length
  | .object ns _ _ => .ok ns.length
  | .list _ | .set _ | .map _ =>
    if !v.isKnown then .panic "value is not known"
    else if v.isNull then .panic "value is null"
    else match v.ty, v.v with
      | .list _, .seq vs => .ok vs.length
      | .map _, .smap _ vs => .ok vs.length
      | .set _, .sset _ vs => .ok vs.length
      | _, _ => .panic "payload does not match type"
  | _ => .panic "not a collection"

def zipVals : List Ty → List Payload → List Value
  | t :: ts, p :: ps => ⟨t, p⟩ :: zipVals ts ps
  | _, _ => []

/-- `val.ElementIterator()` run to the end: the members, each with the type the
container's type gives it.  (Keys are not modelled: list indices, map keys,
attribute names, set members themselves.) -/
def elements (v : Value) : Res (List Value) :=
  if v.isMarked then .panic "value is marked" else
  if !v.isKnown then .panic "value is not known" else
  if v.isNull then .panic "value is null" else
  match v.ty, v.v with
  | .list e, .seq vs => .ok (vs.map fun p => ⟨e, p⟩)
  | .map e, .smap _ vs => .ok (vs.map fun p => ⟨e, p⟩)
  | .set e, .sset _ vs => .ok (vs.map fun p => ⟨e, p⟩)
  | .tuple es, .seq vs => if es.length == vs.length then .ok (zipVals es vs) else .panic "index out of range"
  | .object ns ts _, .smap ks vs =>
    if ns.all (fun k => ks.contains k) && ts.length == vs.length && ks == ns then .ok (zipVals ts vs)
    else .unmodelled      -- a map payload whose keys are not the type's: iteration reads nil interfaces
  | .list _, _ | .map _, _ | .set _, _ | .tuple _, _ | .object _ _ _, _ => .panic "payload does not match type"
  | _, _ => .panic "not iterable"

end Value
end CtyModel
