/-
The Lean side of the Go→Lean translation of cty/msgpack/unknown.go done by
`extract/translate_mpunknown.go` (output: `Generated/MpUnknownFns.lean`, properties C16/C17).

The translator rewrites the bodies of `marshalUnknownValue` and `unmarshalUnknownValue`
statement by statement.  What it cannot take from the source is *how the Go data of those
functions is read as model data* and *what the untranslated callees do*; both are fixed
here, once (the GIVEN API — every definition of this file is part of the trusted reading,
none is generated):

* what an encoder has written is a list of tokens (`Buf`): complete items of the
  hand-written item model (`Msgpack.Item`), a map header, an extension header.
  `bytes.Buffer` + `msgpack.NewEncoder(&buf)` is such a list; `buf.Len()` is its size in
  bytes as the library's compact encoder writes it (`Msgpack.encSize`, `seqHdr`);
  `enc.Writer().Write(buf.Bytes())` appends one list to another.  I/O errors of the
  underlying writer are NOT modelled (every write reports `nil`; the harness marshals into
  memory) — the `if err != nil` branches of the source are translated all the same.
* `cty.ValueRange` is `Refine.ValueRange`; its accessors answer with Go values
  (`RefineGo.GoVal`: a model `Value`, or one of the singletons `cty.NegativeInfinity` /
  `cty.PositiveInfinity`, which the source compares with `!=`, i.e. by pointer);
* a Go `string` is a `GoStr`: text the model has as a `String`, or the bytes cut out of one
  by `s[:n]` (which need not be UTF-8); `ctystrings.SafeKnownPrefix` is the field
  `safePrefix` of `Msgpack.Ext` (an oracle column of the harness);
* the nested `marshal(val, ty, path, enc)` / `unmarshal(dec, ty, path)` calls are the
  hand-written `Msgpack.marshalV` / `D17.unmarshal`; `cty.TupleVal`, `cty.BoolVal`,
  `cty.Tuple` are the model's constructors;
* a decoder is the list of items it has not read yet, after the header `DecodeMapLen` finds
  (`RDec`); the outer decoder is positioned at ONE extension item (`Dec`), whose body
  `io.ReadAtLeast` hands over whole (the item tree was lexed by the harness: a body cut short
  is not an item tree).  `Decode*` accept what `Msgpack.decInt64/decBool/decString` accept;
* `*RefinementBuilder` is `Refine.Builder` and its methods are `Refine.step` calls.

Core only (imported by the generated file).
-/
import CtyModel.d17Msgpack
import CtyModel.RefineGo
namespace CtyModel
namespace MpGo
open Refine Msgpack RefineGo

/-! ## errors -/

/-- a Go `error` value: `none` = nil -/
abbrev GoErr := Option String

/-- `path.NewErrorf(format, …)`: the format string stands for the message -/
def newErrorf (format : String) : String := format
/-- `path.NewError(err)` -/
def newError (e : GoErr) : String := e.getD ""

/-! ## what an encoder has written -/

inductive Tok where
  | item (it : Item)                       -- one complete item
  | mapLen (n : Int)                       -- `EncodeMapLen(n)`: a map header, the entries follow
  | extHdr (code : Int) (len : Int)        -- `EncodeExtHeader(code, len)`: the body follows
  | zeros (n : Int)                        -- `make([]byte, n)`: n zero bytes
  | body (hdr : ExtHdr) (stream : List Item)  -- the bytes of an extension body, as the harness lexes them
  deriving Repr, Inhabited, BEq

abbrev Buf := List Tok

def tokSize : Tok → Nat
  | .item it => encSize it
  | .mapLen n => seqHdr n.toNat
  | .extHdr _ n => extHdrSize n.toNat
  | .zeros n => n.toNat
  | .body _ _ => 0                         -- never measured (only buffers an encoder wrote are)

def bufSize : Buf → Nat
  | [] => 0
  | t :: ts => tokSize t + bufSize ts

/-- `var b bytes.Buffer` -/
def emptyBuf : Buf := []
/-- `b.Len()` -/
def bufLen (b : Buf) : Int := bufSize b
/-- `b.Bytes()` -/
def bufBytes (b : Buf) : Buf := b

/-- `enc.EncodeInt(i)` (compact); the error of a write into memory is nil -/
def encodeInt (enc : Buf) (i : Int) : Buf := enc ++ [.item (encInt i)]
/-- `enc.EncodeBool(b)` -/
def encodeBool (enc : Buf) (b : Bool) : Buf := enc ++ [.item (.bool b)]
/-- `enc.EncodeMapLen(n)` -/
def encodeMapLen (enc : Buf) (n : Int) : Buf := enc ++ [.mapLen n]
/-- `enc.Encode(unknownVal)`: `unknownType.MarshalMsgpack` answers the fixext1 bytes `{0xd4, 0, 0}` -/
def encodeUnknownVal (enc : Buf) : Buf × GoErr := (enc ++ [.item plainUnknown], none)
/-- `enc.EncodeExtHeader(code, len)` -/
def encodeExtHeader (enc : Buf) (code : Int) (len : Int) : Buf × GoErr := (enc ++ [.extHdr code len], none)
/-- `enc.Writer().Write(bytes)`: the encoder's state, the count, the error -/
def writerWrite (enc : Buf) (bs : Buf) : Buf × Int × GoErr := (enc ++ bs, bufLen bs, none)

/-- the complete items of a token list (no headers among them) -/
def itemsOf : Buf → Option (List Item)
  | [] => some []
  | .item it :: ts => (itemsOf ts).map (it :: ·)
  | _ :: _ => none

/-- the item a token list is, if it is one: a complete item, or an extension header followed by
a map header and the complete items of the body (the byte length is the header's word) -/
def assemble : Buf → Res Item
  | [.item it] => .ok it
  | .extHdr code len :: .mapLen n :: rest =>
    (match itemsOf rest with
     | some its => .ok (.ext code len.toNat (.map n.toNat) its)
     | none => .unmodelled)
  | _ => .unmodelled

/-! ## Go strings -/

inductive GoStr where
  | text (s : String)
  | raw (bs : List UInt8)
  deriving Repr, Inhabited, BEq

def GoStr.bytes : GoStr → List UInt8
  | .text s => Refine.bytes s
  | .raw bs => bs

/-- a string literal -/
def strLit (s : String) : GoStr := .text s
/-- `a == b` on strings -/
def strEq : GoStr → GoStr → Bool
  | .text a, .text b => a == b
  | a, b => a.bytes == b.bytes
/-- `len(s)` -/
def strLen (s : GoStr) : Int := s.bytes.length
/-- `s[:n]` -/
def strSliceTo (s : GoStr) (n : Int) : Res GoStr :=
  if 0 ≤ n ∧ n ≤ strLen s then .ok (.raw (s.bytes.take n.toNat)) else .panic "slice bounds out of range"
/-- `ctystrings.SafeKnownPrefix(s)`: the oracle column (no answer, or an answer that is not UTF-8: not modelled) -/
def safeKnownPrefix (E : Ext) (s : GoStr) : Res GoStr :=
  match E.safePrefix s.bytes with
  | some q => .ok (.text q)
  | none => .unmodelled
/-- `enc.EncodeString(s)`: the item model has strings that are UTF-8 only -/
def encodeString (enc : Buf) (s : GoStr) : Res Buf :=
  match s with
  | .text t => .ok (enc ++ [.item (.str t)])
  | .raw _ => .unmodelled

/-! ## `cty.ValueRange` (value_range.go, not translated) -/

def typeConstraint (r : ValueRange) : Ty := r.ty
def definitelyNotNull (r : ValueRange) : Bool := r.definitelyNotNull

/-- `rng.NumberLowerBound()`: the recorded bound, or the singleton `cty.NegativeInfinity` -/
def numberLowerBound (r : ValueRange) : Res (GoVal × Bool) :=
  match r.ty with
  | .dyn => .ok (.v ⟨.number, .unk .unref⟩, false)
  | .number =>
    match r.raw with
    | .num _ (some l) _ => .ok (.v ⟨.number, .n l.v⟩, l.incl)
    | _ => .ok (.negInf, true)
  | _ => .panic "NumberLowerBound for non-number"

def numberUpperBound (r : ValueRange) : Res (GoVal × Bool) :=
  match r.ty with
  | .dyn => .ok (.v ⟨.number, .unk .unref⟩, false)
  | .number =>
    match r.raw with
    | .num _ _ (some h) => .ok (.v ⟨.number, .n h.v⟩, h.incl)
    | _ => .ok (.posInf, true)
  | _ => .panic "NumberUpperBound for non-number"

def stringPrefix (r : ValueRange) : Res GoStr := r.stringPrefix.map .text
def lengthLowerBound (r : ValueRange) : Res Int := r.lengthLowerBound
def lengthUpperBound (r : ValueRange) : Res Int := r.lengthUpperBound

/-! ## values and types -/

/-- `cty.TupleVal(vals)` -/
def tupleVal (vs : List GoVal) : Res GoVal :=
  match toValues vs with
  | some xs => .ok (.v (Msgpack.tupleVal xs))
  | none => .unmodelled

/-- `marshal(val, ty, path, enc)` as a STATEMENT (the error result is discarded by the source): what
`enc` holds afterwards.  An error return — bytes possibly half written — is not modelled. -/
def marshalStmt (E : Ext) (enc : Buf) (v : GoVal) (ty : Ty) : Res Buf :=
  match toValue? v with
  | none => .unmodelled
  | some x =>
    match marshalV E x ty with
    | .ok it => .ok (enc ++ [.item it])
    | .err _ => .unmodelled
    | .panic w => .panic w
    | .unmodelled => .unmodelled

/-! ## decoders -/

/-- the outer decoder of `unmarshalUnknownValue`: positioned at one item; after `DecodeExtHeader`, at
the body of an extension item; after the body was read, past it -/
inductive Dec where
  | atItem (it : Item)
  | atBody (len : Nat) (hdr : ExtHdr) (stream : List Item)
  | past
  deriving Repr, Inhabited

/-- a decoder over an extension body -/
inductive RDec where
  | fresh (hdr : ExtHdr) (stream : List Item)   -- nothing read yet
  | items (stream : List Item)                  -- after the map header: the complete items not yet read
  | lost                                        -- after a failed read (the source returns then), or not a body at all
  deriving Repr, Inhabited

/-- `dec.DecodeExtHeader()`: type code, body length, error -/
def decodeExtHeader : Dec → Res (Dec × Int × Int × GoErr)
  | .atItem (.ext code len hdr stream) => .ok (.atBody len hdr stream, code, len, none)
  | .atItem _ => .ok (.past, 0, 0, some "not an extension item")
  | _ => .unmodelled

/-- `make([]byte, n)` -/
def makeBytes (n : Int) : Res Buf := if n < 0 then .panic "makeslice: len out of range" else .ok [.zeros n]

/-- `io.ReadAtLeast(dec.Buffered(), body, len(body))` for a `body` that is as long as the extension header
said: the whole body (an item tree has all the bytes its headers announce); the decoder, the content of
`body`, the count, the error -/
def readBody (dec : Dec) (body : Buf) : Res (Dec × Buf × Int × GoErr) :=
  match dec, body with
  | .atBody len hdr stream, [.zeros n] => if n = len then .ok (.past, [.body hdr stream], n, none) else .unmodelled
  | _, _ => .unmodelled

/-- `msgpack.NewDecoder(bytes.NewReader(body))` -/
def newBodyDecoder : Buf → RDec
  | [.body hdr stream] => .fresh hdr stream
  | _ => .lost

/-- `rfnDec.DecodeMapLen()`: nil answers -1; an extension header is skipped by the library, which reads on
out of step with the item structure (not modelled) -/
def decodeMapLen : RDec → Res (RDec × Int × GoErr)
  | .fresh (.map n) s => .ok (.items s, n, none)
  | .fresh .nil s => .ok (.items s, -1, none)
  | .fresh .other _ => .ok (.lost, 0, some "not a map")
  | _ => .unmodelled

/-- `rfnDec.DecodeInt64()` -/
def decodeInt64 : RDec → Res (RDec × Int × GoErr)
  | .items (k :: rest) =>
    (match decInt64 k with
     | some i => .ok (.items rest, i, none)
     | none => .ok (.lost, 0, some "not an integer"))
  | .items [] => .ok (.lost, 0, some "EOF")
  | _ => .unmodelled
/-- `rfnDec.DecodeInt()` (int is 64 bits wide) -/
def decodeInt : RDec → Res (RDec × Int × GoErr) := decodeInt64

/-- `rfnDec.DecodeBool()` -/
def decodeBool : RDec → Res (RDec × Bool × GoErr)
  | .items (v :: rest) =>
    (match decBool v with
     | some b => .ok (.items rest, b, none)
     | none => .ok (.lost, false, some "not a boolean"))
  | .items [] => .ok (.lost, false, some "EOF")
  | _ => .unmodelled

/-- `rfnDec.DecodeString()`: the str and bin families and nil; the bytes are not checked (the caller does) -/
def decodeString : RDec → Res (RDec × GoStr × GoErr)
  | .items (v :: rest) =>
    (match v with
     | .nil => .ok (.items rest, .text "", none)
     | .str s => .ok (.items rest, .text s, none)
     | .bin b =>
       (match String.fromUTF8? (ByteArray.mk b.toArray) with
        | some s => .ok (.items rest, .text s, none)
        | none => .ok (.items rest, .raw b, none))
     | .binj _ => .unmodelled
     | _ => .ok (.lost, .text "", some "not a string"))
  | .items [] => .ok (.lost, .text "", some "EOF")
  | _ => .unmodelled

/-- `utf8.ValidString(s)` -/
def utf8ValidString : GoStr → Bool
  | .text _ => true
  | .raw b => (String.fromUTF8? (ByteArray.mk b.toArray)).isSome

/-- `rfnDec.Skip()`: one complete item -/
def decSkip : RDec → Res (RDec × GoErr)
  | .items (_ :: rest) => .ok (.items rest, none)
  | .items [] => .ok (.lost, some "EOF")
  | _ => .unmodelled

/-- `cty.DynamicVal` -/
def dynamicVal : GoVal := .v ⟨.dyn, .unk .unref⟩
/-- `cty.Zero` -/
def zeroVal : GoVal := numberIntVal 0

section Oracle
variable [O : EqOracle]

/-- `unmarshal(rfnDec, ty, nil)`: the hand-written decoder on the next complete item -/
def unmarshalNested (E : Ext) (d : RDec) (ty : Ty) : Res (RDec × GoVal × GoErr) :=
  match d with
  | .items (v :: rest) =>
    (match D17.unmarshal E v ty with
     | .ok x => .ok (.items rest, .v x, none)
     | .err c => .ok (.lost, dynamicVal, some c)
     | .panic w => .panic w
     | .unmodelled => .unmodelled)
  | .items [] => .ok (.lost, dynamicVal, some "EOF")
  | _ => .unmodelled

/-- `v.Refine()` -/
def valRefine (v : GoVal) : Res Builder := (toValue v).bind Refine.init
def builderNull (b : Builder) : Res Builder := Refine.step b .null
def builderNotNull (b : Builder) : Res Builder := Refine.step b .notNull
/-- `b.StringPrefixFull(s)`: the builder normalises its argument (`cty.NormalizeString` = `E.norm`) -/
def builderStringPrefixFull (E : Ext) (b : Builder) (s : GoStr) : Res Builder :=
  match s with
  | .text t => Refine.step b (.stringPrefixFull (E.norm t))
  | .raw _ => .unmodelled
def builderLenLower (b : Builder) (n : Int) : Res Builder := Refine.step b (.lenLower n)
def builderLenUpper (b : Builder) (n : Int) : Res Builder := Refine.step b (.lenUpper n)

/-- a `cty.Value` as the argument of a numeric-bound method -/
def toNumArg : GoVal → Option NumArg
  | .negInf => some .negInf
  | .posInf => some .posInf
  | .nilVal => none
  | .v x =>
    match x.v with
    | .n m => some (.known m)
    | .unk _ => some .unknown
    | .null => some .null
    | _ => none

def builderNumLower (b : Builder) (v : GoVal) (inc : Bool) : Res Builder :=
  match toNumArg v with
  | some a => Refine.step b (.numLower a inc)
  | none => .unmodelled
def builderNumUpper (b : Builder) (v : GoVal) (inc : Bool) : Res Builder :=
  match toNumArg v with
  | some a => Refine.step b (.numUpper a inc)
  | none => .unmodelled
/-- `b.NewValue()` -/
def builderNewValue (b : Builder) : Res GoVal := (Refine.newValue b).map .v

end Oracle

/-- the position a known whole number names -/
def idxOf : GoVal → Option Nat
  | .v x =>
    (match x.v with
     | .n m => (match m.toInt? with
       | some i => if 0 ≤ i then some i.toNat else none
       | none => none)
     | _ => none)
  | _ => none

/-- `v.Index(i)` on a known tuple with a known index (anything else the source reaches is a list, map or
unknown value: not modelled) -/
def valIndex (v : GoVal) (i : GoVal) : Res GoVal :=
  match v, idxOf i with
  | .v ⟨.tuple tys, .seq ps⟩, some k =>
    (match tys[k]?, ps[k]? with
     | some t, some p => .ok (.v ⟨t, p⟩)
     | _, _ => .panic "index out of range")
  | _, _ => .unmodelled

/-- the deferred `recover()` wrapper: a panic of the body becomes the handler's result -/
def recoverWith {α : Type} (handler : Res α) : Res α → Res α
  | .panic _ => handler
  | r => r

end MpGo
end CtyModel
