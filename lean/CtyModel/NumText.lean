/-
Decimal text of numbers: transliteration of math/big's `decimal`, `roundShortest`,
`Text('f', -1)` (cty's number equality and JSON encoding) and `String()` =
`Text('g', 10)` (cty's set hash).  Digits are kept as a list of naturals 0..9.
-/
import CtyModel.Num
namespace CtyModel
namespace Num

/-- decimal digits of a natural number, most significant first (empty for 0) -/
def digitsFuel : Nat → Nat → List Nat → List Nat
  | 0, _, acc => acc
  | fuel + 1, n, acc => if n = 0 then acc else digitsFuel fuel (n / 10) (n % 10 :: acc)

def digits (n : Nat) : List Nat := digitsFuel (n.log2 + 2) n []

def trimZeros (ds : List Nat) : List Nat := (ds.reverse.dropWhile (· == 0)).reverse

/-- math/big `decimal`: value = 0.d₁d₂… × 10^exp, no trailing zeros -/
structure Dec where
  mant : List Nat
  exp : Int
  deriving Repr, BEq, DecidableEq

namespace Dec
def digitAt (d : Dec) (i : Int) : Nat :=
  if 0 ≤ i ∧ i < d.mant.length then d.mant.getD i.toNat 0 else 0

def trim (d : Dec) : Dec :=
  let m := trimZeros d.mant
  if m.isEmpty then ⟨[], 0⟩ else ⟨m, d.exp⟩

/-- exact decimal expansion of `m · 2^e` -/
def ofME (m : Nat) (e : Int) : Dec :=
  if m = 0 then ⟨[], 0⟩
  else if e ≥ 0 then
    let ds := digits (m * 2 ^ e.toNat)
    ⟨trimZeros ds, ds.length⟩
  else
    let k := (-e).toNat
    let ds := digits (m * 5 ^ k)
    ⟨trimZeros ds, (ds.length : Int) - k⟩

def roundDown (d : Dec) (n : Nat) : Dec :=
  if n ≥ d.mant.length then d else trim ⟨d.mant.take n, d.exp⟩

/-- increment the last of the first `n` digits, with carry -/
def roundUp (d : Dec) (n : Nat) : Dec :=
  if n ≥ d.mant.length then d
  else
    -- drop trailing 9s of the kept prefix
    let kept := (d.mant.take n).reverse.dropWhile (· ≥ 9)
    match kept with
    | [] => ⟨[1], d.exp + 1⟩
    | x :: rest => ⟨(( x + 1) :: rest).reverse, d.exp⟩

def shouldRoundUp (d : Dec) (n : Nat) : Bool :=
  if d.mant.getD n 0 = 5 ∧ n + 1 = d.mant.length then
    n > 0 ∧ (d.mant.getD (n - 1) 0) % 2 ≠ 0
  else d.mant.getD n 0 ≥ 5

def round (d : Dec) (n : Int) : Dec :=
  if n < 0 ∨ n ≥ d.mant.length then d
  else if shouldRoundUp d n.toNat then roundUp d n.toNat else roundDown d n.toNat
end Dec

/-- the digit loop of `roundShortest` -/
def shortestLoop (d lower upper : Dec) (inclusive : Bool) : Nat → List Nat → Dec
  | _, [] => d
  | i, m :: rest =>
    let l := lower.digitAt i
    let u := upper.digitAt i
    let okdown := l != m || (inclusive && i + 1 == lower.mant.length)
    let okup := m != u && (inclusive || m + 1 < u || i + 1 < upper.mant.length)
    if okdown && okup then d.round (i + 1)
    else if okdown then d.roundDown (i + 1)
    else if okup then d.roundUp (i + 1)
    else shortestLoop d lower upper inclusive (i + 1) rest

/-- `roundShortest(&d, x)` for x = mant·2^exp at precision prec (mant > 0) -/
def roundShortest (mant : Nat) (exp : Int) (prec : Nat) : Dec :=
  let d := Dec.ofME mant exp
  let bl := bitlen mant
  -- mantissa scaled to exactly prec+1 bits
  let sh := prec + 1 - bl
  let M := mant <<< sh
  let E := exp - sh
  let lower := Dec.ofME (M - 1) E
  let upper := Dec.ofME (M + 1) E
  let inclusive := (M / 2) % 2 == 0
  shortestLoop d lower upper inclusive 0 d.mant

def digitChar (n : Nat) : Char := Char.ofNat (48 + n)

/-- `fmtF(buf, prec, d)` -/
def fmtF (prec : Nat) (d : Dec) : String :=
  let ip : List Nat :=
    if d.exp > 0 then
      let m := min d.mant.length d.exp.toNat
      d.mant.take m ++ List.replicate (d.exp.toNat - m) 0
    else [0]
  let fp : List Nat := (List.range prec).map fun (i : Nat) => d.digitAt (d.exp + (i : Int))
  String.ofList (ip.map digitChar ++ (if prec > 0 then '.' :: fp.map digitChar else []))

def natStr (n : Nat) : String := toString n

/-- `fmtE(buf, 'e', prec, d)` -/
def fmtE (prec : Nat) (d : Dec) : String :=
  let first := digitChar (d.mant.getD 0 0)
  let frac : List Char :=
    if prec > 0 then
      let m := min d.mant.length (prec + 1)
      let ds := (d.mant.take m).drop 1
      '.' :: (ds.map digitChar ++ List.replicate (prec - ds.length) '0')
    else []
  let exp : Int := if d.mant.isEmpty then 0 else d.exp - 1
  let sign := if exp < 0 then '-' else '+'
  let ea := exp.natAbs
  String.ofList (first :: frac) ++ "e" ++ String.ofList [sign] ++ (if ea < 10 then "0" else "") ++ natStr ea

/-- `x.Text('f', -1)` -/
def textF : Num → String
  | .inf n => if n then "-Inf" else "+Inf"
  | .fin n m e p =>
    let s := if n then "-" else ""
    if m = 0 then s ++ "0"
    else
      let d := roundShortest m e p
      s ++ fmtF (d.mant.length - d.exp).toNat d

/-- `x.String()` = `x.Text('g', 10)` -/
def textG10 : Num → String
  | .inf n => if n then "-Inf" else "+Inf"
  | .fin n m e _ =>
    let s := if n then "-" else ""
    let d := (Dec.ofME m e).round 10
    let prec := 10
    let eprec := if prec > d.mant.length ∧ (d.mant.length : Int) ≥ d.exp then d.mant.length else prec
    let exp := d.exp - 1
    if exp < -4 ∨ exp ≥ eprec then
      let prec := if prec > d.mant.length then d.mant.length else prec
      s ++ fmtE (prec - 1) d
    else
      let prec : Int := if (prec : Int) > d.exp then d.mant.length else prec
      s ++ fmtF (prec - d.exp).toNat d

/-- `rawNumberEqual` (cty/primitive_type.go) -/
def rawEqual (a b : Num) : Bool :=
  if a.sign != b.sign then false
  else
    let ai := a.isInt
    let bi := b.isInt
    if ai != bi then false
    else if ai then a.truncInt == b.truncInt
    else
      let fix := fun s => if s == "-0" then "0" else s
      fix (textF a) == fix (textF b)

end Num
end CtyModel
