/-
The Lean side of the Go→Lean translation of cty/path.go and cty/path_set.go done by
`extract/translate_path.go` (output: `Generated/PathFns.lean`, property C19).

The translator rewrites the bodies of `GetAttrStep.Apply`, `IndexStep.Apply`,
`Path.Apply`, `Path.LastStep`, `Path.Equals`, `Path.HasPrefix`, `Path.Copy`, the path
constructors, `pathSetRules.Hash`, `Equivalent`, `SameRules` and the `PathSet` methods
that are more than a forwarded call.  What it cannot take from the source is *how a Go
value of package cty is read as a model value* and *what the untranslated callees
do*; both are fixed here, once (the GIVEN API — every definition of this file is part
of the trusted reading, none is generated):

* a `cty.Value` is a model `Value` (`cty.NilVal` is outside the model: `v == NilVal`
  reads as `false`); the `Value` methods the steps call — `IsNull`, `IsKnown`, `Type`,
  `HasIndex`, `Index`, `GetAttr`, `Unmark`, `True`, `Equals`, `RawEquals` —
  are the functions of the hand-written operations model (`Ops.lean`, `Ops2.lean`,
  `Path.lean`), `False` is the negation of `True` as in value_ops.go; `UnknownVal`, `DynamicVal`, `NumberIntVal`, `StringVal` are its constructors;
* a `Path` is a `List PathStep`; the closed interface `PathStep` is the inductive with
  the two implementations `GetAttrStep{Name}` = `.getAttr name` and `IndexStep{Key}` =
  `.index key` — a step inside a `Path` is never the nil interface, so a `default:` arm
  of a type switch that already lists both implementations is unreachable and not
  translated; a `PathStep` RESULT may be nil: `Option PathStep`;
* a slice under construction (`make(Path, n)`) is a `List (Option PathStep)`,
  `none` = the nil step; capacity is not modelled (`s[:i:i]` is `s[:i]` with its bounds checks);
* Go `int` is `Int` (no overflow: the only ints are lengths and indices);
* an `error` value is read as its class tag (a `String`, compared with the
  implementation nowhere): `errors.New(s)` has tag `s`, `fmt.Errorf(format, …)` has the
  tag of its first `error` argument (wrapping keeps the class) and otherwise the text of
  `format` before its first verb; arguments that are not errors are not evaluated.
  A function result `(T, error)` is `Res T`, `err != nil` is `Res.err tag`;
* the `hash.Hash64` made by `crc64.New(crc64.MakeTable(crc64.ISO))` is read as the list
  of bytes written to it so far, `Sum64` as `PathSet.crc64` of them, `int(uint64)` as
  `PathSet.toInt64`; `[]byte(s)` as the UTF-8 bytes of `s`;
* `set.Rules[Path]` values are `RulesImpl` (is it `pathSetRules{}` or anything else);
* the wrapped `set.Set[Path]` of a `PathSet` is a `SetImpl (List PathStep)` with its model operations, the
  set's rules a parameter `R`; a method without a result returns the new state of its receiver's set;
  `for it := s.Iterator(); it.Next();` ranges over `SetImpl.iter R s`;
* a callback parameter is a `Walk.WalkCb`, and a function that takes one threads the log of its invocations
  (section "callbacks" below); `ElementIterator` delivers the model's `Walk.children` (section "element iteration").

Core only (imported by the generated file).
-/
import CtyModel.PathSet
import CtyModel.Walk
namespace CtyModel
namespace PathGo

/-! ### error values as class tags -/

/-- `errors.New(s)` -/
def errorsNew (s : String) : String := s

def dropTrail : List Char → List Char
  | [] => []
  | c :: cs =>
    match dropTrail cs with
    | [] => if c == ' ' then [] else [c]
    | r => c :: r

/-- the text of a format string before its first verb, without trailing spaces -/
def fmtClass (f : String) : String := String.ofList (dropTrail (f.toList.takeWhile (· != '%')))

/-- `fmt.Errorf(format, …)`, given the tags of those arguments that are errors -/
def errorf (format : String) (errArgs : List String) : String :=
  match errArgs with
  | e :: _ => e
  | [] => fmtClass format

/-- `x, err := f(…)`: continue according to whether `err` is nil -/
def callE {α β} (r : Res α) (kOk : α → Res β) (kErr : String → Res β) : Res β :=
  match r with
  | .ok a => kOk a
  | .err e => kErr e
  | .panic w => .panic w
  | .unmodelled => .unmodelled

@[simp] theorem callE_ok {α β} (a : α) (k : α → Res β) (k' : String → Res β) : callE (.ok a) k k' = k a := rfl
@[simp] theorem callE_err {α β} (e : String) (k : α → Res β) (k' : String → Res β) :
    callE (.err e : Res α) k k' = k' e := rfl
@[simp] theorem callE_panic {α β} (w : String) (k : α → Res β) (k' : String → Res β) :
    callE (.panic w : Res α) k k' = .panic w := rfl
@[simp] theorem callE_unmodelled {α β} (k : α → Res β) (k' : String → Res β) :
    callE (.unmodelled : Res α) k k' = .unmodelled := rfl

/-- `v.False()`: "the opposite of True" (value_ops.go: `return !val.True()`) -/
def valFalse (v : Value) : Bool := !v.isTrue

/-! ### `Type` tests -/
def isNumber : Ty → Bool
  | .number => true
  | _ => false
def isString : Ty → Bool
  | .string => true
  | _ => false
def isBool : Ty → Bool
  | .bool => true
  | _ => false
def isListType : Ty → Bool
  | .list _ => true
  | _ => false
def isSetType : Ty → Bool
  | .set _ => true
  | _ => false
def isMapType : Ty → Bool
  | .map _ => true
  | _ => false
def isTupleType : Ty → Bool
  | .tuple _ => true
  | _ => false
def isObjectType : Ty → Bool
  | .object _ _ _ => true
  | _ => false

/-- `t.HasAttribute(name)`: panics unless `t` is an object type -/
def hasAttribute : Ty → String → Res Bool
  | .object ns _ _, name => .ok (ns.contains name)
  | _, _ => .panic "HasAttribute on non-object Type"

/-! ### slices of steps -/

/-- `xs[i]` -/
def sliceGet (xs : List PathStep) (i : Int) : Res PathStep :=
  if i < 0 then .panic "index out of range"
  else match xs[i.toNat]? with
    | some s => .ok s
    | none => .panic "index out of range"

/-- `xs[:hi]` -/
def sliceTo (xs : List PathStep) (hi : Int) : Res (List PathStep) :=
  if hi < 0 || hi > (xs.length : Int) then .panic "slice bounds out of range"
  else .ok (xs.take hi.toNat)

/-- `xs[:hi:max]` (capacity = length) -/
def sliceTo3 (xs : List PathStep) (hi max : Int) : Res (List PathStep) :=
  if hi < 0 || hi > max || max > (xs.length : Int) then .panic "slice bounds out of range"
  else .ok (xs.take hi.toNat)

/-- `make(Path, n)` -/
def sliceMake (n : Int) : Res (List (Option PathStep)) :=
  if n < 0 then .panic "makeslice: len out of range" else .ok (List.replicate n.toNat none)

/-- `copy(dst, src)` -/
def sliceCopy : List (Option PathStep) → List PathStep → List (Option PathStep)
  | _ :: ds, s :: ss => some s :: sliceCopy ds ss
  | ds, _ => ds

/-- `xs[i] = v` -/
def sliceSet (xs : List (Option PathStep)) (i : Int) (v : PathStep) : Res (List (Option PathStep)) :=
  if i < 0 || i ≥ (xs.length : Int) then .panic "index out of range" else .ok (xs.set i.toNat (some v))

/-- a constructed slice handed on as a `Path`: every element must have been assigned -/
def sliceDone : List (Option PathStep) → Res (List PathStep)
  | [] => .ok []
  | some s :: xs => (sliceDone xs).map (s :: ·)
  | none :: _ => .unmodelled

/-- `make([]Path, 0, n)` -/
def makePaths (n : Int) : Res (List (List PathStep)) :=
  if n < 0 then .panic "makeslice: cap out of range" else .ok []

/-! ### callbacks: the log of invocations (cty/walk.go)

A function that takes a callback `cb func(Path, Value) (bool, error)` is read as in the hand-written `Walk.lean`:
the callback is a `Walk.WalkCb` (its answer may depend on the invocations made so far), the function takes the
log of invocations so far and returns the log at its end together with its outcome. -/

/-- a step that cannot call the callback: a panic ends the function with the log as it stands -/
def bindT {α β} (log : List Walk.Visit) (r : Res α) (k : α → List Walk.Visit × Res β) : List Walk.Visit × Res β :=
  match r with
  | .ok a => k a
  | .err c => (log, .err c)
  | .panic w => (log, .panic w)
  | .unmodelled => (log, .unmodelled)

/-- `x, err := cb(path, val)`: `log'` is the log with this invocation, however it ends -/
def callCb {α β} (log' : List Walk.Visit) (r : Res α) (kOk : α → List Walk.Visit × Res β)
    (kErr : String → List Walk.Visit × Res β) : List Walk.Visit × Res β :=
  match r with
  | .ok a => kOk a
  | .err e => kErr e
  | .panic w => (log', .panic w)
  | .unmodelled => (log', .unmodelled)

/-- `x, err := f(…, cb)` for a function that takes the callback -/
def callT {α β} (r : List Walk.Visit × Res α) (kOk : List Walk.Visit → α → List Walk.Visit × Res β)
    (kErr : List Walk.Visit → String → List Walk.Visit × Res β) : List Walk.Visit × Res β :=
  match r with
  | (l, .ok a) => kOk l a
  | (l, .err e) => kErr l e
  | (l, .panic w) => (l, .panic w)
  | (l, .unmodelled) => (l, .unmodelled)

/-! ### element iteration (cty/element_iterator.go) -/

/-- `v.AsString()`: panics unless `v` is a known, non-null, unmarked string -/
def asString (v : Value) : Res String :=
  match v.ty, v.v with
  | .string, .s s => .ok s
  | _, _ => .panic "AsString on a value that is not a known string"

/-- `v.CanIterateElements()` (`canElementIterator`): unmarked, of a collection or structural type -/
def canIterateElements (v : Value) : Bool :=
  !v.isMarked && (isListType v.ty || isMapType v.ty || isSetType v.ty || isTupleType v.ty || isObjectType v.ty)

/-- the key an `ElementIterator` delivers for the member a step of the model's `children` leads to:
the attribute name as a string value for an object, the index / key / member itself otherwise -/
def stepKey : PathStep → Value
  | .getAttr n => Value.strVal n
  | .index k => k

/-- `for it := v.ElementIterator(); it.Next(); { k, e := it.Element() }` on a known, non-null, unmarked value:
the (key, element) pairs in iteration order — the model's `Walk.children` (list/tuple by index, map/object by
sorted key, set in `X.iter` order with the member as its own key) -/
def elements (X : SetOracle) (v : Value) : List (Value × Value) :=
  (Walk.children X v).map fun sc => (stepKey sc.1, sc.2)

/-! ### `hash/crc64` -/

/-- a `hash.Hash64` over the ISO table: the bytes written so far -/
abbrev Hash64 := List UInt8

/-- `crc64.New(crc64Table)` -/
def crcNew : Hash64 := []
/-- `h.Write(bs)` -/
def crcWrite (h : Hash64) (bs : List UInt8) : Hash64 := h ++ bs
/-- `h.Sum64()` -/
def crcSum64 (h : Hash64) : Nat := PathSet.crc64 h
/-- `int(u)` for a `uint64` -/
def intOfUint64 (u : Nat) : Int := PathSet.toInt64 u
/-- `[]byte(s)` -/
def bytes (s : String) : List UInt8 := s.toUTF8.toList

/-! ### `set.Rules[Path]` -/

/-- a value of the interface `set.Rules[Path]`: `pathSetRules{}` or anything else -/
inductive RulesImpl where
  | pathSetRules
  | other
  deriving Repr, DecidableEq

end PathGo
end CtyModel
