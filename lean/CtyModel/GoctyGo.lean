/-
The GIVEN API of the translation of cty/gocty/out.go's scalar decoders
(`extract/translate_gocty.go` → `Generated/GoctyFns.lean`): what the translated
source text calls but the translator does not look into.  These definitions are
ASSUMED to be what the libraries do; they are the hand-written model's own
vocabulary (`Num`, `GoTy`, `GoVal`, `Gocty.int64Exact`, `Gocty.uint64Exact`,
`Num.toF64`, `Num.f64to32`, `Num.isInt`, `Num.toInt?`), so that a statement
about the translated text is a statement in the model's terms.

How Go data is read
* `*big.Float` is a `Num`; `*big.Int` is an `Option Int` (`none` = nil pointer);
  `int`, `int64`, `uint64` are `Int` (the translator inserts `wrapInt` at every
  explicit conversion); `float64`/`float32` are `Num` (finite or ±Inf: a NaN can not arise
  from `Float64()`); `big.Accuracy` is `Accuracy`; `reflect.Kind` is `Kind`.
* the decoding target `target reflect.Value` is a pair: its static type
  `target_ : GoTy` (what `Kind()`, `Type()` report) and the value it currently
  holds `target_v : GoVal` (updated by `SetInt` …).  A function with an `error` result
  returns `Res GoVal`: `.ok g` = returned nil and the target now holds `g`;
  `.err` = a non-nil error; `.panic` = a Go panic.
* another `reflect.Value` (the operand of `target.Set`) is an `RV`.
* `reflect.Type` is a `GoTy`; the four package-level `reflect.Type` variables of
  cty/gocty/helpers.go are `NamedTy` (the translator checks their definitions).
* `cty.Path` is erased; an error value is its format string.

Core only (imported by the generated file).
-/
import CtyModel.Gocty
namespace CtyModel
namespace GoctyGo
open Gocty

/-- `big.Accuracy` -/
inductive Accuracy where
  | below | exact | above
  deriving Repr, DecidableEq, Inhabited

/-- `reflect.Kind` (the constants a `GoTy` can have, and the others the source names) -/
inductive Kind where
  | kInvalid | kBool | kInt | kInt8 | kInt16 | kInt32 | kInt64
  | kUint | kUint8 | kUint16 | kUint32 | kUint64 | kUintptr
  | kFloat32 | kFloat64 | kComplex64 | kComplex128
  | kArray | kChan | kFunc | kInterface | kMap | kPtr | kSlice | kString | kStruct | kUnsafePointer
  deriving Repr, DecidableEq, Inhabited

/-- `target.Kind()` / `target.Type().Kind()` -/
def kindOf : GoTy → Kind
  | .int .w8 true => .kInt8 | .int .w16 true => .kInt16 | .int .w32 true => .kInt32
  | .int .w64 true => .kInt64 | .int .wInt true => .kInt
  | .int .w8 false => .kUint8 | .int .w16 false => .kUint16 | .int .w32 false => .kUint32
  | .int .w64 false => .kUint64 | .int .wInt false => .kUint
  | .float true => .kFloat32 | .float false => .kFloat64
  | .str => .kString | .bool => .kBool
  | .slice _ => .kSlice | .array _ _ => .kArray | .map _ => .kMap | .ptr _ => .kPtr
  | .struct _ _ => .kStruct | .bigInt => .kStruct | .bigFloat => .kStruct | .cval => .kStruct

/-- `t.Bits()`: panics unless the kind is a sized numeric one -/
def typeBits : GoTy → Res Int
  | .int w _ => .ok (w.bits : Int)
  | .float is32 => .ok (if is32 then 32 else 64)
  | _ => .panic "reflect: Bits of non-arithmetic Type"

/-- Go's integer conversion to a `bits`-wide type: the value modulo 2^bits, in the type's range -/
def wrapInt (bits : Nat) (signed : Bool) (i : Int) : Int :=
  let m : Int := 2 ^ bits
  let r := i % m
  if signed && r ≥ m / 2 then r - m else r

/-! ### `*big.Float` methods (math/big is trusted; these are the model's functions) -/

/-- accuracy of a truncation toward zero that was not exact (`makeAcc(x.neg)`) -/
def truncAcc (x : Num) : Accuracy := if x.signbit then .above else .below

def clamp (lo hi : Int) (i : Int) : Int := if i < lo then lo else if i > hi then hi else i

/-- `trunc(x)` saturated to `[lo, hi]`; ±Inf saturate too -/
def truncClamp (lo hi : Int) (x : Num) : Int :=
  match x.truncInt with
  | some k => clamp lo hi k
  | none => if x.signbit then lo else hi

/-- `bf.Int64()`: exact = `Gocty.int64Exact`; otherwise the truncated, saturated value -/
def bfInt64 (x : Num) : Int × Accuracy :=
  match int64Exact x with
  | some k => (k, .exact)
  | none => (truncClamp (-9223372036854775808) 9223372036854775807 x, truncAcc x)

/-- `bf.Uint64()`: exact = `Gocty.uint64Exact` (math/big's own notion, which admits some
non-integers); otherwise the truncated, saturated value -/
def bfUint64 (x : Num) : Int × Accuracy :=
  match uint64Exact x with
  | some k => (k, .exact)
  | none => (truncClamp 0 18446744073709551615 x, truncAcc x)

/-- accuracy of a rounded result `r` of `x` whose exactness flag is `exact` -/
def roundAcc (exact : Bool) (r x : Num) : Accuracy :=
  if exact then .exact else if Num.cmp r x < 0 then .below else .above

/-- `bf.Float64()` = `Num.toF64` -/
def bfFloat64 (x : Num) : Num × Accuracy := ((Num.toF64 x).1, roundAcc (Num.toF64 x).2 (Num.toF64 x).1 x)

/-- `bf.Float32()` = `Num.toF32` -/
def bfFloat32 (x : Num) : Num × Accuracy := ((Num.toF32 x).1, roundAcc (Num.toF32 x).2 (Num.toF32 x).1 x)

/-- `bf.Int(nil)`: the truncation as a fresh `*big.Int`; nil for ±Inf -/
def bfInt (x : Num) : Option Int × Accuracy :=
  match x.toInt? with
  | some k => (some k, .exact)
  | none => (x.truncInt, truncAcc x)

/-- `bf.IsInt()` -/
def bfIsInt (x : Num) : Bool := x.isInt
/-- `bf.IsInf()` -/
def bfIsInf (x : Num) : Bool := x.isInf
/-- `bf.Sign()` -/
def bfSign (x : Num) : Int := x.sign
/-- `bf.Cmp(y)` -/
def bfCmp (x y : Num) : Int := Num.cmp x y

/-- `math.IsInf(f, sign)` -/
def mathIsInf (f : Num) (sign : Int) : Bool :=
  match f with
  | .inf n => decide (sign = 0) || (decide (sign > 0) && !n) || (decide (sign < 0) && n)
  | _ => false

/-- `float32(f)` for a float64 `f` -/
def toFloat32 (f : Num) : Num := Num.f64to32 f
/-- `float64(f)` (exact) -/
def toFloat64 (f : Num) : Num := f

/-! ### `cty.Value` methods -/

/-- `val.AsBigFloat()` -/
def asBigFloat (v : Value) : Res Num :=
  if v.isMarked then .panic "value is marked, so must be unmarked first"
  else match v.ty, v.v with
    | .number, .n x => .ok x
    | .number, .null => .panic "value is null"
    | .number, .unk _ => .panic "value is unknown"
    | .number, _ => .unmodelled
    | _, _ => .panic "not a number"

/-- `val.True()` -/
def valTrue (v : Value) : Res Bool :=
  if v.isMarked then .panic "value is marked, so must be unmarked first"
  else match v.ty, v.v with
    | .bool, .b x => .ok x
    | .bool, .null => .panic "can't use a null value as a Go bool"
    | .bool, .unk _ => .panic "value is unknown"
    | .bool, _ => .unmodelled
    | _, _ => .panic "not bool"

/-- `val.AsString()` -/
def asString (v : Value) : Res String :=
  if v.isMarked then .panic "value is marked, so must be unmarked first"
  else match v.ty, v.v with
    | .string, .s x => .ok x
    | .string, .null => .panic "value is null"
    | .string, .unk _ => .panic "value is unknown"
    | .string, _ => .unmodelled
    | _, _ => .panic "not a string"

/-! ### `reflect` -/

/-- `target.SetInt(i)` with `i : int64`: panics unless the kind is a signed integer one; stores `intN(i)` -/
def setInt (T : GoTy) (i : Int) : Res GoVal :=
  match T with
  | .int w true => .ok (.int (wrapInt w.bits true i))
  | _ => .panic "reflect: call of reflect.Value.SetInt on a Value of another kind"

/-- `target.SetUint(u)` with `u : uint64` -/
def setUint (T : GoTy) (u : Int) : Res GoVal :=
  match T with
  | .int w false => .ok (.int (wrapInt w.bits false u))
  | _ => .panic "reflect: call of reflect.Value.SetUint on a Value of another kind"

/-- `target.SetFloat(f)` with `f : float64`: a float32 target stores `float32(f)` -/
def setFloat (T : GoTy) (f : Num) : Res GoVal :=
  match T with
  | .float is32 => .ok (.flt (if is32 then Num.f64to32 f else f))
  | _ => .panic "reflect: call of reflect.Value.SetFloat on a Value of another kind"

/-- `target.SetBool(b)` -/
def setBool (T : GoTy) (b : Bool) : Res GoVal :=
  match T with
  | .bool => .ok (.bool b)
  | _ => .panic "reflect: call of reflect.Value.SetBool on a Value of another kind"

/-- `target.SetString(s)` -/
def setString (T : GoTy) (s : String) : Res GoVal :=
  match T with
  | .str => .ok (.str s)
  | _ => .panic "reflect: call of reflect.Value.SetString on a Value of another kind"

/-- `math.MaxFloat32` -/
def maxFloat32 : Num := .fin false 16777215 104 Num.fprec

/-- `target.OverflowFloat(f)` -/
def overflowFloat (T : GoTy) (f : Num) : Res Bool :=
  match T with
  | .float true => .ok (!f.isInf && decide (Num.cmp (Num.abs f) maxFloat32 > 0))
  | .float false => .ok false
  | _ => .panic "reflect: call of reflect.Value.OverflowFloat on a Value of another kind"

/-- the package-level `reflect.Type` variables of cty/gocty/helpers.go -/
inductive NamedTy where
  | valueType      -- reflect.TypeOf(cty.Value{})
  | setType        -- reflect.TypeOf(set.Set[interface{}]{})   (no `GoTy` is this type)
  | bigFloatType   -- reflect.TypeOf(big.Float{})
  | bigIntType     -- reflect.TypeOf(big.Int{})
  deriving Repr, DecidableEq

/-- is the `GoTy` the named type?  (`GoTy` has no defined types, and a struct type declared
elsewhere can not have the unexported fields of these, so assignability and convertibility
between a `GoTy` and a named type both come down to identity) -/
def isNamed : GoTy → NamedTy → Bool
  | .cval, .valueType => true
  | .bigFloat, .bigFloatType => true
  | .bigInt, .bigIntType => true
  | _, _ => false

/-- `t.AssignableTo(n)` -/
def assignableTo (t : GoTy) (n : NamedTy) : Bool := isNamed t n
/-- `n.ConvertibleTo(t)` -/
def convertibleTo (n : NamedTy) (t : GoTy) : Bool := isNamed t n

/-- a `reflect.Value` other than the target -/
inductive RV where
  | invalid                          -- the zero Value
  | mk (ty : GoTy) (v : GoVal)
  deriving Repr, Inhabited

/-- `reflect.ValueOf(bf)` for `bf : *big.Float` (never nil here) -/
def valueOfBigFloat (x : Num) : RV := .mk (.ptr .bigFloat) (.ptr (.bigFloat x))
/-- `reflect.ValueOf(bi)` for `bi : *big.Int` -/
def valueOfBigInt : Option Int → RV
  | some k => .mk (.ptr .bigInt) (.ptr (.bigInt k))
  | none => .mk (.ptr .bigInt) .nilPtr

/-- `v.Elem()`: of a nil pointer the zero Value; panics on a non-pointer -/
def rvElem : RV → Res RV
  | .mk (.ptr e) (.ptr g) => .ok (.mk e g)
  | .mk (.ptr _) .nilPtr => .ok .invalid
  | .mk (.ptr _) _ => .unmodelled
  | _ => .panic "reflect: call of reflect.Value.Elem on a non-pointer Value"

/-- `v.Convert(t)`: modelled for the big-number struct types (convertible only to themselves) -/
def rvConvert : RV → GoTy → Res RV
  | .invalid, _ => .panic "reflect: call of reflect.Value.Convert on zero Value"
  | .mk .bigFloat g, t =>
    if isNamed t .bigFloatType then .ok (.mk t g) else .panic "reflect.Value.Convert: value of type big.Float cannot be converted"
  | .mk .bigInt g, t =>
    if isNamed t .bigIntType then .ok (.mk t g) else .panic "reflect.Value.Convert: value of type big.Int cannot be converted"
  | .mk _ _, _ => .unmodelled

/-- `target.Set(v)`: modelled for the special struct types (assignable only from themselves) -/
def rvSet (T : GoTy) : RV → Res GoVal
  | .invalid => .panic "reflect: call of reflect.Value.Set on zero Value"
  | .mk .bigFloat g => if isNamed T .bigFloatType then .ok g else .panic "reflect.Set: value of type big.Float is not assignable"
  | .mk .bigInt g => if isNamed T .bigIntType then .ok g else .panic "reflect.Set: value of type big.Int is not assignable"
  | .mk _ _ => .unmodelled

/-- `path.NewErrorf(format, …)`: the error's class is its format string (arguments are not evaluated) -/
def newErrorf (format : String) : String := format

end GoctyGo
end CtyModel
