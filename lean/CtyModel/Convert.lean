/-
Model of package `cty/convert`: conversion.go, conversion_primitive.go,
conversion_collection.go, conversion_object.go, conversion_tuple.go,
conversion_dynamic.go, conversion_capsule.go and `Convert`, `GetConversion`,
`GetConversionUnsafe` of public.go — property C08.

The Go code answers a type pair with a *closure* (`conversion`) that captures
element conversions built the same way.  The model answers with a first-order
tree, `Plan`, one constructor per closure the Go code can return, holding
exactly what that closure captures; `applyStep` is the body of the closures.
`gck` = `getConversionKnown`, `getConv` = `getConversion` (it adds the wrapper
`Plan.wrap`: marks, dynamic target, unknown / null pass-through).

Parameters (`Env`), not modelled here:
* `unify`  — the *type* result of `convert.unify(types, uns)` (unify.go,
  property C09; `none` = `cty.NilType`).  The conversion files only ever use
  that first result.
* `hash`, `equiv`, `less` — `setRules.Hash / Equivalent / Less`
  (cty/set_internals.go: crc32 of the hash bytes, `Equals == True`, the
  iteration order of set members).  The bucket logic of `set.Set.Add` and the
  stable sort of `set.Set.Values` *are* modelled (`setAdd`, `setValues`).
Capsule types are modelled without conversion callbacks
(`CapsuleOps.ConversionTo/ConversionFrom == nil`), so the capsule branch of
`getConversionKnown` always answers nil.

`applyStep` re-enters `getConversion` at run time (`dynamicFixup`,
`conversionUnifyListElements/CollectionElements`), so `apply` is indexed by
fuel; out of fuel is `.unmodelled`.  Theorems hold for every fuel.

A Go `map[string]…` is kept as ascending parallel lists; where the Go code
ranges over such a map the model visits it in key order (the results do not
depend on the order, except which of several errors is reported — errors are
never compared by text).
-/
import CtyModel.Refine
import CtyModel.NumText
import CtyModel.JsonNum
namespace CtyModel
namespace Convert

/-- what the conversion code takes from elsewhere -/
structure Env where
  /-- type result of `unify(types, uns)` for a non-empty list; `none` = NilType -/
  unify : Bool → List Ty → Option Ty
  /-- `setRules{ety}.Hash(member)` -/
  hash : Ty → Payload → Res Int
  /-- `setRules{ety}.Equivalent(a, b)` -/
  equiv : Ty → Payload → Payload → Res Bool
  /-- `setRules{ety}.Less(a, b)` -/
  less : Ty → Payload → Payload → Bool

/-- `unify` including its degenerate case `len(types) == 0 → NilType` -/
def Env.unifyG (E : Env) (uns : Bool) (ts : List Ty) : Option Ty :=
  if ts.isEmpty then none else E.unify uns ts

/-! ## The closures, first order -/

inductive Plan where
  /-- a nil `conversion`: "no conversion required" -/
  | nil
  /-- conversionMapToObject: entry of `elemConvs` that is present and nil
  (optional attribute the map element type cannot convert to) -/
  | impossible
  /-- conversionObjectToObject: name without entry in `attrConvs` -/
  | absent
  /-- the closure `ret` built by `getConversion(in, out, uns)` around `conv` -/
  | wrap (out : Ty) (conv : Plan)
  | dynPass
  | dynFixup (want : Ty)
  | numToStr | boolToStr | strToNum | strToBool
  /-- `attrConvs` (keys = the attribute names of `in`, `.absent` where the Go map has
  no entry), and `out`'s attribute types / optional set -/
  | objToObj (keys : List String) (convs : List Plan)
      (outNames : List String) (outTys : List Ty) (outOpts : List Bool)
  | tupToTup (convs : List Plan)
  | collToList (ety : Ty) (conv : Plan)
  | collToSet (ety : Ty) (conv : Plan)
  | collToMap (ety : Ty) (conv : Plan)
  | emptyToSet (ety : Ty)
  | tupToSet (convs : List Plan)
  | emptyToList (ety : Ty)
  | tupToList (convs : List Plan) (uns : Bool)
  | emptyToMap (ety : Ty)
  | objToMap (keys : List String) (convs : List Plan) (mapEty : Ty) (uns : Bool)
  | mapToObj (names : List String) (tys : List Ty) (opts : List Bool) (convs : List Plan)
  deriving Repr, Inhabited, BEq

/-! ## `getConversionKnown` / `getConversion` -/

def isPrim : Ty → Bool
  | .bool | .number | .string => true
  | _ => false

/-- `primitiveConversionsSafe[in][out]` -/
def primSafe : Ty → Ty → Option Plan
  | .number, .string => some .numToStr
  | .bool, .string => some .boolToStr
  | _, _ => none

/-- `primitiveConversionsUnsafe[in][out]` -/
def primUnsafe : Ty → Ty → Option Plan
  | .string, .number => some .strToNum
  | .string, .bool => some .strToBool
  | _, _ => none

/-- `every required attribute of out exists in in` (the `return nil` of the first
branch of the loop in conversionObjectToObject) -/
def requiredPresent : List String → List Bool → List String → Bool
  | n :: ns, o :: os, inNames => (o || inNames.contains n) && requiredPresent ns os inNames
  | _, _, _ => true

/-- the loop of conversionMapToObject over the object's attributes; `f` is
`getConversionKnown(mapEty, ·, uns)` (only reached with `uns = true`) -/
def mapToObjConvs (f : Ty → Option Plan) (mapEty : Ty) : List Ty → List Bool → Option (List Plan)
  | o :: os, opt :: opts =>
    if o.equals mapEty then (mapToObjConvs f mapEty os opts).map (Plan.nil :: ·)
    else match f o with
      | some c => (mapToObjConvs f mapEty os opts).map (Plan.wrap o c :: ·)
      | none => if opt then (mapToObjConvs f mapEty os opts).map (Plan.impossible :: ·) else none
  | _, _ => some []

/-- the element type a tuple → list / set conversion settles on
(`listEty, _ = unify(tupleEtys, uns)` and the all-dynamic check) -/
def seqTargetEty (E : Env) (uns : Bool) (tupleEtys : List Ty) (ety : Ty) : Option Ty :=
  if ety.isDyn then
    match E.unifyG uns tupleEtys with
    | none => none
    | some u => if u.isDyn && !(tupleEtys.all fun t => t.equals .dyn) then none else some u
  else some ety

/-- the element type an object → map conversion settles on -/
def mapTargetEty (E : Env) (uns : Bool) (atys : List Ty) (ety : Ty) : Option Ty :=
  if ety.isDyn then E.unifyG uns atys else some ety

mutual
/-- `getConversionKnown(in, out, uns)`; `none` = nil.  The wrapped
`getConversion(a, b, uns)` is `(gck a b uns).map (.wrap b)`. -/
def gck (E : Env) : (inT out : Ty) → (uns : Bool) → Option Plan
  | inT, out, uns =>
    if out.isDyn then some .dynPass
    else if uns && inT.isDyn then some (.dynFixup out)
    else if isPrim inT && isPrim out then
      match primSafe inT out with
      | some c => some c
      | none => if uns then primUnsafe inT out else none
    else
      match out, inT with
      | .object on ot oo, .object inn it _ =>
        if !requiredPresent on oo inn then none
        else (gcObj E inn it on ot oo uns).map fun cs => .objToObj inn cs on ot oo
      | .tuple ots, .tuple its =>
        if its.length != ots.length then none
        else (gcZip E its ots uns).map .tupToTup
      | .list oe, .list ie =>
        if ie.equals oe then some (.collToList oe .nil)
        else (gck E ie oe uns).map fun c => .collToList oe (.wrap oe c)
      | .list oe, .set ie =>
        if ie.equals oe then some (.collToList oe .nil)
        else (gck E ie oe uns).map fun c => .collToList oe (.wrap oe c)
      | .set oe, .list ie =>
        if !uns then none
        else if ie.equals oe then some (.collToSet oe .nil)
        else (gck E ie oe uns).map fun c => .collToSet oe (.wrap oe c)
      | .set oe, .set ie =>
        if ie.equals oe then some (.collToSet oe .nil)
        else (gck E ie oe uns).map fun c => .collToSet oe (.wrap oe c)
      | .map oe, .map ie =>
        (gck E ie oe uns).map fun c => .collToMap oe (.wrap oe c)
      | .list oe, .tuple its =>
        if its.isEmpty then some (.emptyToList oe)
        else match seqTargetEty E uns its oe with
          | none => none
          | some le => (gcAll E its le uns).map fun cs => .tupToList cs uns
      | .set oe, .tuple its =>
        if its.isEmpty then some (.emptyToSet oe)
        else match seqTargetEty E uns its oe with
          | none => none
          | some se => (gcAll E its se uns).map .tupToSet
      | .map oe, .object inn it _ =>
        if it.isEmpty then some (.emptyToMap oe)
        else match mapTargetEty E uns it oe with
          | none => none
          | some me => (gcAll E it me uns).map fun cs => .objToMap inn cs me uns
      | .object on ot oo, .map ie =>
        if !uns then none
        else (mapToObjConvs (fun o => gck E ie o uns) ie ot oo).map fun cs => .mapToObj on ot oo cs
      -- `in.IsCapsuleType() || out.IsCapsuleType()`: uns only, never to itself, and only
      -- through CapsuleOps.ConversionTo / ConversionFrom, which the modelled capsule
      -- types do not have; and the `default` branch.
      | _, _ => none
termination_by structural inT => inT
/-- element conversions towards one target type (tuple → list / set, object → map):
`if ety.Equals(target) { continue }; elemConvs[i] = getConversion(ety, target, uns)` -/
def gcAll (E : Env) : List Ty → Ty → Bool → Option (List Plan)
  | [], _, _ => some []
  | t :: ts, target, uns =>
    if t.equals target then (gcAll E ts target uns).map (Plan.nil :: ·)
    else match gck E t target uns with
      | none => none
      | some c => (gcAll E ts target uns).map (Plan.wrap target c :: ·)
termination_by structural ts => ts
/-- position-wise element conversions (tuple → tuple) -/
def gcZip (E : Env) : List Ty → List Ty → Bool → Option (List Plan)
  | t :: ts, o :: os, uns =>
    if t.equals o then (gcZip E ts os uns).map (Plan.nil :: ·)
    else match gck E t o uns with
      | none => none
      | some c => (gcZip E ts os uns).map (Plan.wrap o c :: ·)
  | _, _, _ => some []
termination_by structural ts => ts
/-- `attrConvs` of conversionObjectToObject, listed along the attributes of `in` -/
def gcObj (E : Env) : List String → List Ty → List String → List Ty → List Bool → Bool → Option (List Plan)
  | n :: ns, t :: ts, on, ot, oo, uns =>
    match Ty.find n on ot oo with
    | none => (gcObj E ns ts on ot oo uns).map (Plan.absent :: ·)
    | some (oty, _) =>
      if t.equals oty then (gcObj E ns ts on ot oo uns).map (Plan.nil :: ·)
      else match gck E t oty uns with
        | none => none
        | some c => (gcObj E ns ts on ot oo uns).map (Plan.wrap oty c :: ·)
  | _, _, _, _, _, _ => some []
termination_by structural _ ts => ts
end

/-- `getConversion(in, out, uns)` -/
def getConv (E : Env) (inT out : Ty) (uns : Bool) : Option Plan :=
  (gck E inT out uns).map (.wrap out)

/-! ## Value constructors and observers used by the closures -/

/-- the element type `ListVal / SetVal / MapVal` (and `Can…Val`) settle on;
`none` = inconsistent element types -/
def elemTyAcc : Ty → List Ty → Option Ty
  | acc, [] => some acc
  | acc, t :: ts =>
    if acc.isDyn then elemTyAcc t ts
    else if !t.isDyn && !(acc.equals t) then none
    else elemTyAcc acc ts

def elemTyOf (vs : List Value) : Option Ty := elemTyAcc .dyn (vs.map (·.ty))

/-- `cty.CanListVal / CanSetVal / CanMapVal` -/
def canCollVal (vs : List Value) : Bool := (elemTyOf vs).isSome

/-- `cty.ListVal` -/
def listVal (vs : List Value) : Res Value :=
  if vs.isEmpty then .panic "must not call ListVal with empty slice"
  else match elemTyOf vs with
    | none => .panic "inconsistent list element types"
    | some t => .ok ⟨.list t, .seq (vs.map (·.v))⟩

/-- `cty.MapVal` -/
def mapVal (keys : List String) (vs : List Value) : Res Value :=
  if vs.isEmpty then .panic "must not call MapVal with empty map"
  else match elemTyOf vs with
    | none => .panic "inconsistent map element types"
    | some t => .ok ⟨.map t, .smap keys (vs.map (·.v))⟩

/-- `cty.ObjectVal` (names ascending) -/
def objectVal (names : List String) (vs : List Value) : Value :=
  ⟨.object names (vs.map (·.ty)) (vs.map fun _ => false), .smap names (vs.map (·.v))⟩

/-- `cty.TupleVal` -/
def tupleVal (vs : List Value) : Value := ⟨.tuple (vs.map (·.ty)), .seq (vs.map (·.v))⟩

def resMapCons {α} (a : α) (r : Res (List α)) : Res (List α) := r.map (a :: ·)

/-- `set.Set.Add(val)` with `hv = Hash(val)`, on the flattened bucket map (ids
ascending, the members of one bucket adjacent in slice order) -/
def setAdd (E : Env) (ety : Ty) (h : Int) (x : Payload) : List (Int × Payload) → Res (List (Int × Payload))
  | [] => .ok [(h, x)]
  | (j, y) :: rest =>
    if j < h then resMapCons (j, y) (setAdd E ety h x rest)
    else if j = h then
      match E.equiv ety x y with
      | .ok true => .ok ((j, y) :: rest)
      | .ok false => resMapCons (j, y) (setAdd E ety h x rest)
      | .err c => .err c
      | .panic w => .panic w
      | .unmodelled => .unmodelled
    else .ok ((h, x) :: (j, y) :: rest)

/-- `set.NewSetFromSlice(setRules{ety}, raw)` -/
def newSetAcc (E : Env) (ety : Ty) : List Payload → List (Int × Payload) → Res (List (Int × Payload))
  | [], acc => .ok acc
  | x :: xs, acc =>
    match E.hash ety x with
    | .ok h =>
      match setAdd E ety h x acc with
      | .ok acc' => newSetAcc E ety xs acc'
      | .err c => .err c
      | .panic w => .panic w
      | .unmodelled => .unmodelled
    | .err c => .err c
    | .panic w => .panic w
    | .unmodelled => .unmodelled

def newSet (E : Env) (ety : Ty) (raw : List Payload) : Res Payload :=
  (newSetAcc E ety raw []).map fun bs => .sset (bs.map (·.1)) (bs.map (·.2))

/-- union of the deep marks of a list of values -/
def marksOfAll : List Value → List String
  | [] => []
  | v :: vs => unionMarks v.marksDeep (marksOfAll vs)

/-- `cty.SetVal`: members lose their marks, which are re-applied to the set -/
def setVal (E : Env) (vs : List Value) : Res Value :=
  if vs.isEmpty then .panic "must not call SetVal with empty slice"
  else match elemTyOf vs with
    | none => .panic "inconsistent set element types"
    | some t => (newSet E t (vs.map fun v => v.v.stripMarks)).map fun p =>
        (Value.mk (.set t) p).withMarks (marksOfAll vs)

/-- insertion before the first member that is greater: one step of a stable sort -/
def insertSorted (lt : Payload → Payload → Bool) (x : Payload) : List Payload → List Payload
  | [] => [x]
  | y :: ys => if lt x y then x :: y :: ys else y :: insertSorted lt x ys

/-- `set.Set.Values()`: members in bucket order, then `sort.SliceStable` by `Less` -/
def setValues (E : Env) (ety : Ty) (members : List Payload) : List Payload :=
  members.foldl (fun acc x => insertSorted (E.less ety) x acc) []

def zipTys : List Ty → List Payload → List Value
  | t :: ts, p :: ps => ⟨t, p⟩ :: zipTys ts ps
  | _, _ => []

/-- the values `val.ElementIterator()` yields, in order (for a known, non-null,
unmarked collection / tuple / object value) -/
def elemsOf (E : Env) (v : Value) : Res (List Value) :=
  match v.ty, v.v with
  | .list e, .seq ps => .ok (ps.map fun p => ⟨e, p⟩)
  | .set e, .sset _ ps => .ok ((setValues E e ps).map fun p => ⟨e, p⟩)
  | .map e, .smap _ ps => .ok (ps.map fun p => ⟨e, p⟩)
  | .tuple ts, .seq ps => .ok (zipTys ts ps)
  | .object _ ts _, .smap _ ps => .ok (zipTys ts ps)
  | _, _ => .panic "ElementIterator"

/-- the keys the iterator yields for a map / object value -/
def keysOf (v : Value) : List String :=
  match v.v with
  | .smap ks _ => ks
  | _ => []

/-- `val.Type().ElementType()` -/
def elementType : Ty → Res Ty
  | .list e | .set e | .map e => .ok e
  | _ => .panic "ElementType on non-collection"

/-- `val.Length().IsKnown()` for a known list or set -/
def lengthKnown (v : Value) : Bool :=
  match v.ty, v.v with
  | .set _, .sset _ ps => ps.length == 1 || Payload.whollyKnownL ps
  | _, _ => true

/-- `if val.IsNull() { val = cty.NullVal(val.Type().WithoutOptionalAttributesDeep()).WithSameMarks(val) }` -/
def stripNull (v : Value) : Value :=
  if v.isNull then (Value.null v.ty.stripOpt).withMarks v.marks else v

def mapRes {α β} (f : α → Res β) : List α → Res (List β)
  | [] => .ok []
  | a :: as => (f a).bind fun b => (mapRes f as).bind fun bs => .ok (b :: bs)

/-- lookup in a Go `map[string]conversion` kept as parallel lists -/
def lookupPlan (k : String) : List String → List Plan → Option Plan
  | n :: ns, p :: ps => if n = k then some p else lookupPlan k ns ps
  | _, _ => none

def lookupVal (k : String) : List String → List Value → Option Value
  | n :: ns, v :: vs => if n = k then some v else lookupVal k ns vs
  | _, _ => none

/-! ## `dynamicReplace` (conversion_dynamic.go)

`in == cty.NilType` arises only from a failed `unify`; those two call sites pass
the element type through, as `dynamicReplace(NilType, out)` does. -/
mutual
def dynRepl (E : Env) : (inT out : Ty) → Res Ty
  | inT, out =>
    if inT.isDyn then .ok out
    else match out with
      | .dyn => .ok inT
      | .bool => .ok .bool
      | .number => .ok .number
      | .string => .ok .string
      | .capsule i => .ok (.capsule i)
      | .map oe =>
        match inT with
        | .map ie => (dynRepl E ie oe).map .map
        | .object _ its _ =>
          match E.unifyG true its with
          | none => .ok (.map oe)
          | some u => (dynRepl E u oe).map .map
        | _ => .ok (.map oe)
      | .object on ots oo =>
        match inT with
        | .map ie => (dynReplAll E ie ots).map fun ts => .object on ts (oo.map fun _ => false)
        | .object inn its ios => (dynReplObj E inn its ios on ots).map fun ts => .object on ts (oo.map fun _ => false)
        -- `if !in.IsMapType() && !in.IsObjectType() { return out }`
        | _ => .ok (.object on ots oo)
      | .set oe =>
        match inT with
        | .set ie => (dynRepl E ie oe).map .set
        | .list ie => (dynRepl E ie oe).map .set
        | .tuple its =>
          match E.unifyG true its with
          | none => .ok (.set oe)
          | some u => (dynRepl E u oe).map .set
        | _ => .ok (.set oe)
      | .list oe =>
        match inT with
        | .set ie => (dynRepl E ie oe).map .list
        | .list ie => (dynRepl E ie oe).map .list
        | .tuple its =>
          match E.unifyG true its with
          | none => .ok (.list oe)
          | some u => (dynRepl E u oe).map .list
        | _ => .ok (.list oe)
      | .tuple ots =>
        -- `if !in.IsTupleType() || in.Length() != out.Length() { return out }`
        match inT with
        | .tuple its => if its.length != ots.length then .ok (.tuple ots) else (dynReplTup E inT 0 ots).map .tuple
        | _ => .ok (.tuple ots)
termination_by structural _ out => out
/-- `dynamicReplace(in.ElementType(), attrType)` for every attribute of out -/
def dynReplAll (E : Env) : Ty → List Ty → Res (List Ty)
  | _, [] => .ok []
  | ie, o :: os =>
    match dynRepl E ie o with
    | .ok t => (dynReplAll E ie os).map (t :: ·)
    | .err c => .err c
    | .panic w => .panic w
    | .unmodelled => .unmodelled
termination_by structural _ os => os
/-- object → object: attributes `in` lacks keep out's type -/
def dynReplObj (E : Env) : List String → List Ty → List Bool → List String → List Ty → Res (List Ty)
  | inn, its, ios, n :: ns, o :: os =>
    match Ty.find n inn its ios with
    | none => (dynReplObj E inn its ios ns os).map (o :: ·)
    | some (ity, _) =>
      match dynRepl E ity o with
      | .ok t => (dynReplObj E inn its ios ns os).map (t :: ·)
      | .err c => .err c
      | .panic w => .panic w
      | .unmodelled => .unmodelled
  | _, _, _, _, _ => .ok []
termination_by structural _ _ _ _ os => os
/-- `dynamicReplace(in.TupleElementType(ix), out.TupleElementType(ix))` for ix = 0 … -/
def dynReplTup (E : Env) : Ty → Nat → List Ty → Res (List Ty)
  | _, _, [] => .ok []
  | inT, ix, o :: os =>
    match inT with
    | .tuple its =>
      match its[ix]? with
      | none => .panic "index out of range"
      | some i =>
        match dynRepl E i o with
        | .ok t => (dynReplTup E inT (ix + 1) os).map (t :: ·)
        | .err c => .err c
        | .panic w => .panic w
        | .unmodelled => .unmodelled
    | _ => .panic "TupleElementType on non-tuple Type"
termination_by structural _ _ os => os
end

/-! ## `prepareUnknownResult` (conversion.go) -/

open Refine in
def prepareUnknownResult (src : Refine.ValueRange) (target : Ty) : Res Value :=
  let ret0 : Value := Value.unknown target
  (if src.definitelyNotNull then Refine.refine ret0 [.notNull] else .ok ret0).bind fun ret =>
  match src.ty, target with
  | .object ns _ _, .map _ => Refine.refine ret [.collectionLength ns.length]
  | .tuple ts, .list _ => Refine.refine ret [.collectionLength ts.length]
  | .tuple ts, .set _ =>
    if ts.length ≤ 1 then Refine.refine ret [.collectionLength ts.length]
    else Refine.refine ret [.lenLower 1, .lenUpper ts.length]
  | st, tt =>
    if Refine.isCollectionTy st && Refine.isCollectionTy tt then
      src.lengthLowerBound.bind fun lo => src.lengthUpperBound.bind fun hi =>
        let lower : List RefineCall := match tt with
          | .set _ => if lo > 0 then [.lenLower 1] else []
          | _ => [.lenLower lo]
        Refine.refine ret (lower ++ [.lenUpper hi])
    else .ok ret

/-- `cty.ParseNumberVal(s)`: `Num.parse512` (JsonNum.lean), preceded by the one check of
math/big's `scanExponent` that `parse512` leaves out — the exponent digits go
through `strconv.ParseInt(…, 10, 64)`, so an exponent outside the int64 range is an
error whatever the mantissa is ("0e99999999999999999999" is not a number). -/
def parseNumber (s : String) : Res Num :=
  match Num.scanLit s with
  | some l =>
    if l.exp > 9223372036854775807 ∨ l.exp < -9223372036854775808 then .err "exponent out of range"
    else Num.parse512 s
  | none => Num.parse512 s

/-! ## The closure bodies -/

abbrev Rec := Plan → Value → Res Value

/-- `if conv != nil { val, err = conv(val, path) }` -/
def applyOpt (rec : Rec) (p : Plan) (v : Value) : Res Value :=
  match p with
  | .nil => .ok v
  | p => rec p v

/-- position-wise element conversions `elemConvs[i]` followed by `post` -/
def applyZip (rec : Rec) (post : Value → Value) : List Plan → List Value → Res (List Value)
  | _, [] => .ok []
  | [], _ :: _ => .panic "index out of range"
  | p :: ps, v :: vs =>
    (applyOpt rec p v).bind fun v' => (applyZip rec post ps vs).bind fun vs' => .ok (post v' :: vs')

/-- conversionUnifyListElements / conversionUnifyCollectionElements -/
def unifyElems (E : Env) (rec : Rec) (uns : Bool) (vs : List Value) : Res (List Value) :=
  match E.unifyG uns (vs.map (·.ty)) with
  | none => .err "cannot find a common base type for all elements"
  | some u =>
    mapRes (fun v =>
      if v.ty.equals u then .ok v
      else match getConv E v.ty u uns with
        | none => .panic "call of nil conversion"
        | some p => rec p v) vs

def isCollOrObj : Ty → Bool
  | .list _ | .set _ | .map _ | .object _ _ _ => true
  | _ => false

/-- attribute loop of conversionObjectToObject: converted attributes in `attrConvs` -/
def objAttrLoop (rec : Rec) (keys : List String) (convs : List Plan) :
    List String → List Value → Res (List String × List Value)
  | n :: ns, v :: vs =>
    match lookupPlan n keys convs with
    | none | some .absent => objAttrLoop rec keys convs ns vs
    | some p =>
      (applyOpt rec p v).bind fun v' => (objAttrLoop rec keys convs ns vs).bind fun r =>
        .ok (n :: r.1, stripNull v' :: r.2)
  | _, _ => .ok ([], [])

/-- second loop of conversionObjectToObject + `ObjectVal`: the result has the
attributes in `attrVals` plus a null for each missing optional one -/
def objFill (names : List String) (vals : List Value) :
    List String → List Ty → List Bool → List String × List Value
  | n :: ns, t :: ts, o :: os =>
    let r := objFill names vals ns ts os
    match lookupVal n names vals with
    | some v => (n :: r.1, v :: r.2)
    | none => if o then (n :: r.1, Value.null t.stripOpt :: r.2) else r
  | _, _, _ => ([], [])

/-- element loop of conversionMapToObject -/
def mapObjLoop (rec : Rec) (names : List String) (tys : List Ty) (opts : List Bool) (convs : List Plan) :
    List String → List Value → Res (List String × List Value)
  | k :: ks, v :: vs =>
    if !names.contains k then mapObjLoop rec names tys opts convs ks vs
    else
      let step : Res Value := match lookupPlan k names convs with
        | some .impossible => .err "map element type is incompatible with attribute"
        | some .nil | none => .ok v
        | some p => rec p v
      step.bind fun v' => (mapObjLoop rec names tys opts convs ks vs).bind fun r =>
        .ok (k :: r.1, stripNull v' :: r.2)
  | _, _ => .ok ([], [])

/-- second loop of conversionMapToObject -/
def mapObjFill (keys : List String) (vals : List Value) :
    List String → List Ty → List Bool → Res (List Value)
  | n :: ns, t :: ts, o :: os =>
    match lookupVal n keys vals with
    | some v => (mapObjFill keys vals ns ts os).map (v :: ·)
    | none =>
      if o then (mapObjFill keys vals ns ts os).map (Value.null t.stripOpt :: ·)
      else .err "map has no element for required attribute"
  | _, _, _ => .ok []

/-- `Convert(in, want)` with the conversion call left to `rec` -/
def convertWith (E : Env) (rec : Rec) (v : Value) (want : Ty) : Res Value :=
  if v.ty.equals want.stripOpt then .ok v
  else match getConv E v.ty want true with
    | none => .err "mismatch"
    | some p => rec p v

/-- one closure body; `rec` stands for every call of another closure -/
def applyStep (E : Env) (rec : Rec) : Plan → Value → Res Value
  | .nil, _ => .panic "call of nil conversion"
  | .impossible, _ => .panic "call of nil conversion"
  | .absent, _ => .panic "call of nil conversion"
  | .wrap out conv, v =>
    if v.isMarked then
      match rec (.wrap out conv) v.unmark with
      | .ok r => .ok (r.withMarks v.marks)
      | other => other
    else if out.isDyn then .ok v
    else if !v.isKnown || v.isNull then
      let out' := out.stripOpt
      match dynRepl E v.ty out' with
      | .ok t =>
        if !v.isKnown then (Refine.range v).bind fun rng => prepareUnknownResult rng t
        else .ok (Value.null t)
      | .err c => .err c
      | .panic w => .panic w
      | .unmodelled => .unmodelled
    else rec conv v
  | .dynPass, v => .ok v
  | .dynFixup want, v =>
    match convertWith E rec v want with
    | .ok r => .ok r
    | .err _ => .err "dynamicFixup"
    | other => other
  | .numToStr, v =>
    match v.v with
    | .n x => .ok ⟨.string, .s (Num.textF x)⟩
    | _ => .panic "AsBigFloat"
  | .boolToStr, v =>
    match v.v with
    | .b x => .ok ⟨.string, .s (if x then "true" else "false")⟩
    | _ => .panic "True"
  | .strToNum, v =>
    match v.v with
    | .s s => (parseNumber s).map fun x => ⟨.number, .n x⟩
    | _ => .panic "AsString"
  | .strToBool, v =>
    match v.v with
    | .s s =>
      if s = "true" || s = "1" then .ok ⟨.bool, .b true⟩
      else if s = "false" || s = "0" then .ok ⟨.bool, .b false⟩
      else .err "a bool is required"
    | _ => .panic "AsString"
  | .objToObj keys convs on ot oo, v =>
    (elemsOf E v).bind fun es =>
    (objAttrLoop rec keys convs (keysOf v) es).bind fun r =>
      let f := objFill r.1 r.2 on ot oo
      .ok (objectVal f.1 f.2)
  | .tupToTup convs, v =>
    (elemsOf E v).bind fun es => (applyZip rec id convs es).bind fun es' => .ok (tupleVal es')
  | .collToList ety conv, v =>
    if !lengthKnown v then
      -- a set holding unknown members: the number of elements of the list is not known
      if ety.isDyn then (elementType v.ty).bind fun ie => .ok (Value.unknown (.list ie.stripOpt))
      else .ok (Value.unknown (.list ety.stripOpt))
    else
      (elemsOf E v).bind fun es =>
      (mapRes (fun e => (applyOpt rec conv e).map stripNull) es).bind fun es' =>
        if es'.isEmpty then
          -- `if ety.HasDynamicTypes() { … dynamicReplace(val.Type().ElementType(), ety.WithoutOptionalAttributesDeep()) }`
          if ety.hasDyn then (elementType v.ty).bind fun ie => (dynRepl E ie ety.stripOpt).bind fun t => .ok ⟨.list t, .seq []⟩
          else .ok ⟨.list ety.stripOpt, .seq []⟩
        else if !canCollVal es' then .err "element types must all match for conversion to list"
        else listVal es'
  | .collToSet ety conv, v =>
    (elemsOf E v).bind fun es =>
    (mapRes (fun e => (applyOpt rec conv e).map stripNull) es).bind fun es' =>
      if es'.isEmpty then
        if ety.hasDyn then (elementType v.ty).bind fun ie => (dynRepl E ie ety.stripOpt).bind fun t => .ok ⟨.set t, .sset [] []⟩
        else .ok ⟨.set ety.stripOpt, .sset [] []⟩
      else if !canCollVal es' then .err "element types must all match for conversion to set"
      else setVal E es'
  | .collToMap ety conv, v =>
    (elemsOf E v).bind fun es =>
    -- keys of a map are strings: `Convert(key, cty.String)` is the identity
    (mapRes (fun e => applyOpt rec conv e) es).bind fun es' =>
      if es'.isEmpty then
        if ety.hasDyn then (elementType v.ty).bind fun ie => (dynRepl E ie ety.stripOpt).bind fun t => .ok ⟨.map t, .smap [] []⟩
        else .ok ⟨.map ety.stripOpt, .smap [] []⟩
      else
        (if isCollOrObj ety then unifyElems E rec false es' else .ok es').bind fun es'' =>
          if !canCollVal es'' then .err "element types must all match for conversion to map"
          else mapVal (keysOf v) es''
  | .emptyToSet ety, _ => .ok ⟨.set ety.stripOpt, .sset [] []⟩
  | .tupToSet convs, v =>
    (elemsOf E v).bind fun es => (applyZip rec stripNull convs es).bind fun es' =>
      if !canCollVal es' then .err "element types must all match for conversion to set"
      else setVal E es'
  | .emptyToList ety, _ => .ok ⟨.list ety.stripOpt, .seq []⟩
  | .tupToList convs uns, v =>
    (elemsOf E v).bind fun es => (applyZip rec id convs es).bind fun es' =>
    (unifyElems E rec uns es').bind fun es'' =>
      if !canCollVal es'' then .err "element types must all match for conversion to list"
      else listVal es''
  | .emptyToMap ety, _ => .ok ⟨.map ety.stripOpt, .smap [] []⟩
  | .objToMap keys convs mapEty uns, v =>
    (elemsOf E v).bind fun es =>
    (applyZip rec id ((keysOf v).map fun k => (lookupPlan k keys convs).getD .nil) es).bind fun es' =>
    (if isCollOrObj mapEty then unifyElems E rec uns es' else .ok es').bind fun es'' =>
      if !canCollVal es'' then .err "attribute types must all match for conversion to map"
      else mapVal (keysOf v) es''
  | .mapToObj names tys opts convs, v =>
    (elemsOf E v).bind fun es =>
    (mapObjLoop rec names tys opts convs (keysOf v) es).bind fun r =>
    (mapObjFill r.1 r.2 names tys opts).bind fun vals => .ok (objectVal names vals)

/-- a conversion applied to a value; the fuel bounds the nesting of closure calls -/
def apply (E : Env) : Nat → Plan → Value → Res Value
  | 0, _, _ => .unmodelled
  | fuel + 1, p, v => applyStep E (apply E fuel) p v

/-! ## public.go -/

/-- `convert.Convert(in, want)` -/
def convert (E : Env) (fuel : Nat) (v : Value) (want : Ty) : Res Value :=
  convertWith E (apply E fuel) v want

/-- `convert.GetConversion(in, out)`; `none` = nil -/
def getConversion (E : Env) (inT out : Ty) : Option Plan := getConv E inT out false

/-- `convert.GetConversionUnsafe(in, out)` -/
def getConversionUnsafe (E : Env) (inT out : Ty) : Option Plan := getConv E inT out true

end Convert
end CtyModel
