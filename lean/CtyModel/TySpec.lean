/-
Specification vocabulary for types, written independently of the Go control
flow: placeholder occurrence, "conforms" as *equality up to optional annotations
after filling placeholders*, optional-annotation erasure.
-/
import CtyModel.Ty
namespace CtyModel
namespace Ty

/-! `matches c t`: the constraint `c` and the type `t` have the same shape
wherever `c` is not the placeholder (optional annotations are not looked at). -/
mutual
def «matches» : (c t : Ty) → Bool
  | .dyn, _ => true
  | .bool, .bool => true
  | .number, .number => true
  | .string, .string => true
  | .capsule i, .capsule j => i == j
  | .list c, .list t => «matches» c t
  | .set c, .set t => «matches» c t
  | .map c, .map t => «matches» c t
  | .tuple cs, .tuple ts => matchesL cs ts
  | .object cn ct _, .object tn tt _ => cn == tn && matchesL ct tt
  | _, _ => false
def matchesL : List Ty → List Ty → Bool
  | [], [] => true
  | c :: cs, t :: ts => «matches» c t && matchesL cs ts
  | _, _ => false
end

/-! `fill c t`: replace each placeholder of the constraint by the corresponding
part of the type (positions where the shapes differ are left alone). -/
mutual
def fill : (c t : Ty) → Ty
  | .dyn, t => t
  | .list c, .list t => .list (fill c t)
  | .set c, .set t => .set (fill c t)
  | .map c, .map t => .map (fill c t)
  | .tuple cs, .tuple ts => .tuple (fillL cs ts)
  | .object cn ct co, .object _ tt _ => .object cn (fillL ct tt) co
  | c, _ => c
def fillL : List Ty → List Ty → List Ty
  | c :: cs, t :: ts => fill c t :: fillL cs ts
  | cs, _ => cs
end

/-- The placeholder occurs somewhere inside the type. -/
inductive Occurs : Ty → Prop
  | here : Occurs .dyn
  | list {e} : Occurs e → Occurs (.list e)
  | set {e} : Occurs e → Occurs (.set e)
  | map {e} : Occurs e → Occurs (.map e)
  | tuple {es e} : e ∈ es → Occurs e → Occurs (.tuple es)
  | object {ns ts os e} : e ∈ ts → Occurs e → Occurs (.object ns ts os)

/-! A capsule type occurs somewhere inside the type. -/
mutual
def hasCapsule : Ty → Bool
  | .capsule _ => true
  | .list e | .set e | .map e => hasCapsule e
  | .tuple es => hasCapsuleL es
  | .object _ ts _ => hasCapsuleL ts
  | _ => false
def hasCapsuleL : List Ty → Bool
  | [] => false
  | t :: ts => hasCapsule t || hasCapsuleL ts
end

end Ty
end CtyModel
