/-
The Lean side of the Go→Lean translation of the operation methods of cty/value_ops.go
(and helper.go) done by `extract/translate_ops.go` (output: `Generated/OpsFns.lean`,
properties C02 / C01 / C04).

The translator rewrites the BODIES of `Value.Not`, `And`, `Or`, `Negate`, `Absolute`,
`Add`, `Subtract`, `Multiply`, `Divide`, `Modulo`, `LessThan`, `GreaterThan`,
`LessThanOrEqualTo`, `GreaterThanOrEqualTo`, `typeCheck`, `mustTypeCheck` and
`forceShortCircuitType` statement by statement.  What it cannot take from the source
is how a Go value is read as a model value and what the untranslated callees do; both
are fixed here, once (the GIVEN API: every definition of this file is part of the
trusted reading, none is generated), in the vocabulary of the hand-written
transliteration layer `CtyModel/Ops.lean`, `Ops2.lean` and the `Num` model:

* a `cty.Value` is a `Value`; `ValueMarks` is the sorted list of mark names; `*Value`
  (the short-circuit pointer of `mustTypeCheck`) is `Option Value`, `nil` = `none`;
  `Type` is `Ty`; a Go `error` is `Option String` (its text);
* `*big.Float` is a `Num`; a receiver made by `new(big.Float)` / `&big.Float{}` is
  the zero of precision 0, and a method that writes its receiver (`z.Add(x, y)`, …)
  returns the receiver's new value: at receiver precision 0 the operation takes the
  operands' larger precision (`Num.add`, `Num.quo`, …), at a fixed precision it is the
  model's `Num.addP` / `Num.mulP` / `Num.setIntP`.  The translator only lets such a
  method write a variable that was made fresh in the same body (never an operand);
* `ValueRange` is `Value.VRange`; `Value.Range`, `NumberLowerBound`,
  `NumberUpperBound`, `TypeConstraint` are the hand-written `Value.range`,
  `VRange.numLower`, `VRange.numUpper` (an unknown bound is `UnknownVal(Number)`);
* `numericRangeArithmetic(Value.M, a, b)` is read with the METHOD NAME `M` as data: its
  corner evaluations `wrapOp(M)(x, y)` are the hand-written `cornerPlain` / `cornerMul`
  analyses of what a call of `M` on two bounds answers (the recursion through the
  function value is not unfolded), and the refiner it returns is the pair of bounds it
  would set (computed when the refiner is built: nothing can fail in between);
* `RefineWith`, `RefineNotNull`, `Refine().NotNull().NumberRangeInclusive(…).NewValue()`
  are given on the shapes the operation methods present (a fresh unknown of type bool
  or number, or the range-refined unknown number that `RefineWith` answers) and are
  `Res.unmodelled` elsewhere; `NewValue`'s collapse of a closed one-point range into
  the known number is `Value.numRangeResult`;
* `Value.Equals` is the hand-written `Value.equals`; `Type.Equals` is `Ty.equals`; the test
  `_, unknown := v.v.(*unknownType)` is `Value.isUnk`; an error made by `fmt.Errorf` is the
  constant head of its format string.

Core only (imported by the generated file).
-/
import CtyModel.Ops2
namespace CtyModel
namespace OpsGo
open Value

/-! ### marks -/
def isMarked (v : Value) : Bool := v.isMarked
/-- `v.Unmark()` -/
def unmark (v : Value) : Res (Value × List String) := .ok (v.unmark, v.marks)
/-- union of the argument list of `WithMarks(m…)` -/
def unionAll : List (List String) → List String
  | [] => []
  | [m] => m
  | m :: ms => unionMarks m (unionAll ms)
/-- `v.WithMarks(m…)` -/
def withMarks (v : Value) (ms : List (List String)) : Value := v.withMarks (unionAll ms)

/-! ### observers -/
def isKnown (v : Value) : Bool := v.isKnown
/-- `v.True()` on the result of a comparison -/
def isTrue (v : Value) : Res Bool :=
  if v.isMarked then .panic "value is marked" else
  if !v.ty.isBool then .panic "not bool" else
  match v.v with
  | .b x => .ok x
  | .unk _ => .panic "value is not known"
  | .null => .panic "value is null"
  | _ => .unmodelled
/-- `v.False()` -/
def isFalse (v : Value) : Res Bool := (isTrue v).map (!·)
/-- `v.v.(bool)` -/
def asBool (v : Value) : Res Bool := Value.asBool v
/-- `v.v.(*big.Float)` -/
def asFloat (v : Value) : Res Num := Value.asNum v
/-- `v == cty.True` / `v == cty.False` (struct equality) -/
def eqBoolLit (v : Value) (b : Bool) : Bool := Value.isLitBool v b
/-- `v.RawEquals(cty.Zero)` on an unmarked operand -/
def rawEqualsZero (v : Value) : Bool := Value.rawEqualsZero v
/-- `v.RawEquals(cty.PositiveInfinity)` on an unmarked operand -/
def rawEqualsPosInf (v : Value) : Bool :=
  v.ty.isNumber && (match v.v with | .n (.inf false) => true | _ => false)
/-- `v.RawEquals(cty.NegativeInfinity)` on an unmarked operand -/
def rawEqualsNegInf (v : Value) : Bool :=
  v.ty.isNumber && (match v.v with | .n (.inf true) => true | _ => false)
/-- `a.Equals(b)` -/
def equals (a b : Value) : Res Value := Value.equals a b

/-! ### pointers to values, errors -/
/-- `*p` / `p.f` -/
def deref (p : Option Value) : Res Value :=
  match p with
  | some v => .ok v
  | none => .panic "nil pointer dereference"
def errText : Option String → String
  | some s => s
  | none => "nil"

/-- an error value made by `fmt.Errorf(format, …)`: the constant head of its format string (the text before the first
`:` or `%`); the arguments are not evaluated -/
def errorf (head : String) : Option String := some head

/-! ### refinements, on the shapes the operation methods present -/
/-- `v.RefineNotNull()` -/
def refineNotNull (v : Value) : Res Value :=
  match v.ty, v.v with
  | .bool, .unk .unref => .ok unkBool
  | .number, .unk .unref => .ok unkNumNotNull
  | .number, .unk (.num _ lo hi) => .ok (numRangeResult (lo.map (·.v)) (hi.map (·.v)))
  | _, _ => .unmodelled

/-- what a refiner built by `numericRangeArithmetic` does: the inclusive bounds it sets -/
structure Refiner where
  lo : Option Num
  hi : Option Num

/-- `v.RefineWith(r)` -/
def refineWith (v : Value) (r : Refiner) : Res Value :=
  match v.ty, v.v with
  | .number, .unk .unref => .ok ⟨.number, .unk (.num .u (r.lo.map (⟨·, true⟩)) (r.hi.map (⟨·, true⟩)))⟩
  | _, _ => .unmodelled

/-- the method expressions `Value.Add`, `Value.Subtract`, `Value.Multiply` as data -/
inductive Method where
  | add | subtract | multiply

/-- `wrapOp(Value.M)` on two bounds -/
def Method.corner : Method → Option Num → Option Num → Option Num
  | .add => cornerPlain Num.add
  | .subtract => cornerPlain Num.sub
  | .multiply => cornerMul

/-- `numericRangeArithmetic(Value.M, a, b)` -/
def numericRangeArithmetic (m : Method) (ra rb : VRange) : Res Refiner := do
  let aMin ← ra.numLower
  let aMax ← ra.numUpper
  let bMin ← rb.numLower
  let bMax ← rb.numUpper
  let cs := [m.corner aMin bMin, m.corner aMin bMax, m.corner aMax bMin, m.corner aMax bMax]
  let newMin := mostOf (fun v r => Num.cmp v r < 0) cs
  let newMax := mostOf (fun v r => Num.cmp v r > 0) cs
  let lo := match newMin with
    | some m => if Num.rawEqual m (.inf true) then none else some m
    | none => none
  let hi := match newMax with
    | some m => if Num.rawEqual m (.inf false) then none else some m
    | none => none
  pure ⟨lo, hi⟩

/-- `*RefinementBuilder`, for the one chain the operation methods write -/
structure Builder where
  orig : Value
  notNull : Bool
  lo : Option Num
  hi : Option Num

/-- `v.Refine()` -/
def refine (v : Value) : Res Builder :=
  match v.ty, v.v with
  | .number, .unk .unref => .ok ⟨v, false, none, none⟩
  | _, _ => .unmodelled
def Builder.notNull' (b : Builder) : Res Builder := .ok { b with notNull := true }
/-- a bound argument: a known number is a bound, `UnknownVal(Number)` is no bound -/
def boundArg (v : Value) : Res (Option Num) :=
  match v.ty, v.v with
  | .number, .n x => .ok (some x)
  | .number, .unk .unref => .ok none
  | _, _ => .unmodelled
def Builder.numberRangeInclusive (b : Builder) (lo hi : Value) : Res Builder := do
  let l ← boundArg lo
  let h ← boundArg hi
  pure { b with lo := l, hi := h }
def Builder.newValue (b : Builder) : Res Value :=
  if b.notNull then .ok (numRangeResult b.lo b.hi) else .unmodelled

/-! ### ValueRange -/
def range (v : Value) : Res VRange := v.range
def typeConstraint (r : VRange) : Ty := r.ty
def boundValue : Option Num → Value
  | some x => numVal x
  | none => unknown .number
/-- `r.NumberLowerBound()` (the inclusive flag is not used by the translated methods) -/
def numberLowerBound (r : VRange) : Res (Value × Bool) := (r.numLower).map fun o => (boundValue o, true)
def numberUpperBound (r : VRange) : Res (Value × Bool) := (r.numUpper).map fun o => (boundValue o, true)

/-! ### `*big.Float` -/
namespace Float
/-- `new(big.Float)`, `&big.Float{}` -/
def new : Num := .fin false 0 0 0
/-- `z.SetPrec(p)`: rounds only if the mantissa does not fit -/
def setPrec (z : Num) (p : Nat) : Num :=
  match z with
  | .fin n m e _ => if Num.bitlen m ≤ p then .fin n m e p else Num.round n m e p
  | .inf n => .inf n
/-- `z.Set(x)` for the value part of `Neg`, `Abs` -/
def set (z x : Num) : Num := if z.prec = 0 then x else setPrec x z.prec
def neg (z x : Num) : Num := Num.neg (set z x)
def abs (z x : Num) : Num := Num.abs (set z x)
/-- `z.Copy(x)`: value and precision of `x` -/
def copy (_z x : Num) : Num := x
def setInt (z : Num) (i : Int) : Num := Num.setIntP i z.prec
def add (z x y : Num) : Res Num := if z.prec = 0 then Num.add x y else Num.addP x y z.prec
def sub (z x y : Num) : Res Num := if z.prec = 0 then Num.sub x y else Num.addP x (Num.neg y) z.prec
def mul (z x y : Num) : Res Num := if z.prec = 0 then Num.mulP x y (max x.prec y.prec) else Num.mulP x y z.prec
def quo (z x y : Num) : Res Num := if z.prec = 0 then Num.quo x y else .unmodelled
/-- `x.Int(nil)`: truncation toward zero; the accuracy is not used -/
def int (x : Num) : Res (Int × Unit) :=
  match x.truncInt with
  | some q => .ok (q, ())
  | none => .panic "Int of Inf"
end Float

end OpsGo
end CtyModel
