/-
Specification vocabulary for C08, written without reference to the Go control
flow: which type pairs are convertible (`Convertible`), and the Bool-valued
predicates of the property clauses, which the harness also evaluates (through the
driver's `cv.judge`) on the outputs of the real implementation.
-/
import CtyModel.Convert
import CtyModel.TySpec
namespace CtyModel
namespace Convert

/-! ## The property predicates -/

/-- clause "the result's type conforms to the requested type":
`want.TestConformance(result.Type())` reports no error -/
def conformsTo (want : Ty) (r : Value) : Bool := Ty.conformErrs want r.ty == 0

/-- clause "free of optional-attribute annotations" -/
def noOptional (r : Value) : Bool := !r.ty.hasOpt

/-! clause "free of placeholders the input already resolved": every placeholder in
the result type sits at a position where the input type has a placeholder too,
or that has no counterpart in the input type (an attribute the input lacks).
Positions correspond across kind changes: the element position of a list / set
to every element position of a tuple, the element position of a map to every
attribute of an object.  (An attribute of an object built from a map has no
counterpart in the map's *type* — whether the key exists is a matter of the
value — so nothing is demanded of it.) -/
mutual
def resolvedIn : (inT r : Ty) → Bool
  | inT, r =>
    match r with
    | .dyn => inT.isDyn
    | .list re | .set re | .map re =>
      match inT with
      | .list ie | .set ie | .map ie => resolvedIn ie re
      | .tuple its | .object _ its _ => resolvedAllL its re
      | _ => true
    | .tuple rs =>
      match inT with
      | .tuple its => resolvedZip its rs
      | _ => true
    | .object rn rts ros =>
      match inT with
      | .object inn its _ => resolvedFields inn its rn rts ros
      | _ => true
    | _ => true
termination_by structural inT => inT
/-- the element / attribute positions of the input against the one result position
they all map to: demanded only where they agree on a single type (otherwise the
type alone does not determine what the placeholder stands for) -/
def resolvedAllL : List Ty → Ty → Bool
  | [], _ => true
  | it :: its, re => if its.all (fun t => t.equals it) then resolvedIn it re else true
termination_by structural its => its
def resolvedZip : List Ty → List Ty → Bool
  | it :: its, r :: rs => resolvedIn it r && resolvedZip its rs
  | _, _ => true
termination_by structural its => its
/-- attributes present on both sides -/
def resolvedFields : List String → List Ty → List String → List Ty → List Bool → Bool
  | n :: ns, it :: its, rn, rts, ros =>
    (match Ty.find n rn rts ros with
     | some (r, _) => resolvedIn it r
     | none => true) && resolvedFields ns its rn rts ros
  | _, _, _, _, _ => true
termination_by structural _ its => its
end

/-- a known value that `NewValue` may produce from an unknown collection whose length
is exactly known: every member is unknown (this includes the empty collection) -/
def allMembersUnknown (r : Value) : Bool :=
  match r.v.unmark1 with
  | .seq ps | .smap _ ps | .sset _ ps => ps.all fun p => !p.isKnown
  | _ => false

/-- clause "for unknown or null input returns an unknown or null of the target type",
shape part: a null stays null; an unknown stays unknown (or becomes the known
collection of unknown members its exactly-known length determines, or null if the
input's refinement says it is null) -/
def passThroughShape (v r : Value) : Bool :=
  if !v.isKnown then !r.isKnown || r.isNull || allMembersUnknown r
  else if v.isNull then r.isNull
  else true

/-- clause "… whose refinements admit the conversion of every admitted input":
`r` is the result for an unknown input, `r'` the result for a known input that the
unknown admitted -/
def admitsResult (r r' : Value) : Bool :=
  if !r.isKnown then
    match r.v.unmark1, Refine.concOf r' with
    | .unk rf, some c => Refine.nullOk rf.nullness c && Refine.rangeOk rf c
    | _, _ => true
  else if r.isNull then r'.isNull
  else true

/-- the clauses of the property that speak about one successful conversion;
returns the names of the clauses that fail -/
def judge (v : Value) (want : Ty) (r : Value) : List String :=
  (if conformsTo want r then [] else ["conforms"]) ++
  (if noOptional r then [] else ["no-optional"]) ++
  (if resolvedIn v.ty r.ty then [] else ["resolves"]) ++
  (if want.isDyn || passThroughShape v r then [] else ["pass-through"])

/-! ## Well-typed values (what every value built through cty's constructors is) -/

mutual
/-- the payload is one the type can have, at every depth: constructors match,
tuple / object widths match, object keys are the attribute names, at most one
marker layer per node.  (Known non-null values never have the placeholder type.) -/
def wtP : Ty → Payload → Bool
  | _, .null => true
  | _, .unk _ => true
  | t, .marked _ r => !r.isMarked && wtP t r
  | .bool, .b _ => true
  | .number, .n _ => true
  | .string, .s _ => true
  | .capsule _, .caps => true
  | .list e, .seq ps => wtAll e ps
  | .set e, .sset ids ps => ids.length == ps.length && wtAll e ps
  | .map e, .smap ks ps => ks.length == ps.length && wtAll e ps
  | .tuple ts, .seq ps => wtZip ts ps
  | .object ns ts _, .smap ks ps => ks == ns && wtZip ts ps
  | _, _ => false
termination_by structural _ p => p
def wtAll : Ty → List Payload → Bool
  | _, [] => true
  | e, p :: ps => wtP e p && wtAll e ps
termination_by structural _ ps => ps
def wtZip : List Ty → List Payload → Bool
  | [], [] => true
  | t :: ts, p :: ps => wtP t p && wtZip ts ps
  | _, _ => false
termination_by structural _ ps => ps
end

/-- a well-formed value: well-formed type without optional-attribute annotations
(C06), payload of that type -/
def Value.wt (v : Value) : Bool := v.ty.wf && !v.ty.hasOpt && wtP v.ty v.v

mutual
/-- every set inside the value has a known length (`Length().IsKnown()`): it has at
most one member or no unknown member at any depth -/
def setsLenKnown : Payload → Bool
  | .marked _ r => setsLenKnown r
  | .seq ps => setsLenKnownL ps
  | .smap _ ps => setsLenKnownL ps
  | .sset _ ps => (ps.length ≤ 1 || Payload.whollyKnownL ps) && setsLenKnownL ps
  | _ => true
def setsLenKnownL : List Payload → Bool
  | [] => true
  | p :: ps => setsLenKnown p && setsLenKnownL ps
end

/-! ## What the theorems assume of the parameters -/

/-- the law of the `unify` parameter used by the C08 theorems (a statement about
unify.go that property C09 owns; the harness probes it on the real
`convert.Unify / UnifyUnsafe`): types that are all the same unify to that type. -/
structure UnifyLaws (E : Env) : Prop where
  same : ∀ (uns : Bool) (t : Ty) (ts : List Ty), ts ≠ [] → (∀ x ∈ ts, x = t) →
    t.wf = true → t.hasOpt = false → E.unify uns ts = some t

/-- what the set parameters are asked about by the conversions these theorems cover: a payload
the element type can have, holding no mark at any depth (`SetVal` unmarks its members deeply
before they reach `setRules`) and no unknown (the no-panic / totality theorems are about
wholly-known values).  Go's `Value.Hash` panics on a marked value, and `setRules.Equivalent`
on payloads of the wrong Go kind — both outside this domain. -/
def memberOK (t : Ty) (p : Payload) : Bool := wtP t p && !p.containsMarked && p.whollyKnown

/-- the set parameters never panic or report an error on well-typed, mark-free, wholly-known
members of a well-formed element type (they may be `.unmodelled`).  Proved for the driver's
environment `Env.concrete U` in `Lemmas/ConvertD08SetEnv.lean`. -/
structure SetLaws (E : Env) : Prop where
  hash_ok : ∀ t p, t.wf = true → memberOK t p = true →
    (∃ h, E.hash t p = .ok h) ∨ E.hash t p = .unmodelled
  equiv_ok : ∀ t a b, t.wf = true → memberOK t a = true → memberOK t b = true →
    (∃ r, E.equiv t a b = .ok r) ∨ E.equiv t a b = .unmodelled

/-- the simplest environment satisfying the laws: types unify only when they are all
the same; every member hashes to bucket 0 and no two members are equivalent -/
def Env.simple : Env :=
  { unify := fun _ ts => match ts with
      | [] => none
      | t :: rest => if rest.all (fun x => x.equals t) then some t else none
    hash := fun _ _ => .ok 0
    equiv := fun _ _ _ => .ok false
    less := fun _ _ _ => false }

end Convert
end CtyModel
