/-
The total exact equality oracle for the refinement model (C05): `a.Equals(b)` on two known numbers answered by
`big.Float.Cmp` alone.  Core only: the driver runs the model under it (`rfn.runi`) on the inputs where
`Lemmas/d05Bridge.lean` proves the code's `rawNumberEqual` coincides with it, and the theorems of `Props/C05.lean`
name it.
-/
import CtyModel.Refine
namespace CtyModel
namespace Refine
namespace D05

/-- exact comparison, always answering -/
@[reducible] def idealOracle : EqOracle := ⟨fun a b => some (Num.cmp a b == 0)⟩

/-- an integer (exponent ≥ 0) or an infinity: the numbers for which `rawNumberEqual` never consults the text -/
def intLike : Num → Bool
  | .fin _ _ e _ => decide (e ≥ 0)
  | .inf _ => true

end D05
end Refine
end CtyModel
