/-
`Marshal(val, ty)` of cty/msgpack with its non-conforming path (`convert.Convert` first),
and the decidable well-shapedness predicates under which `marshal` is proved total
(`Lemmas/d16MarshalLemmas.lean`).  Core Lean only.
-/
import CtyModel.MsgpackSpec
import CtyModel.Convert
namespace CtyModel
namespace Msgpack

/-- `Marshal(val, ty)` including its non-conforming path; since /repo e88f24e a value
that contains a mark anywhere is refused BEFORE the conversion is attempted -/
def marshalC (E : Ext) (C : Convert.Env) (fuel : Nat) (v : Value) (ct : Ty) : Res Item :=
  if v.containsMarked then .err "value has marks, so it cannot be serialized"
  else if Ty.conformErrs ct v.ty ≠ 0 then
    match Convert.convert C fuel v ct with
    | .ok v' => marshalV E v' ct
    | .err e => .err e
    | .panic w => .panic w
    | .unmodelled => .unmodelled
  else marshalV E v ct

def SafeTotal (E : Ext) : Prop := ∀ bs, (E.safePrefix bs).isSome = true

mutual
def confShape : Ty → Ty → Bool
  | .dyn, _ => true
  | .bool, .bool => true
  | .number, .number => true
  | .string, .string => true
  | .capsule i, .capsule j => i == j
  | .list c, .list t => confShape c t
  | .set c, .set t => confShape c t
  | .map c, .map t => confShape c t
  | .tuple cs, .tuple ts => confShapeL cs ts
  | .object cn cts _, .object vn vts _ => cn == vn && confShapeL cts vts
  | _, _ => false
def confShapeL : List Ty → List Ty → Bool
  | [], [] => true
  | c :: cs, t :: ts => confShape c t && confShapeL cs ts
  | _, _ => false
end

mutual
def shapeP (t : Ty) : Payload → Bool
  | .null => true
  | .unk _ => true
  | .marked _ _ => true
  | .bad _ => false
  | .b _ => (match t with | .bool => true | _ => false)
  | .n _ => (match t with | .number => true | _ => false)
  | .s _ => (match t with | .string => true | _ => false)
  | .caps => (match t with | .capsule _ => true | _ => false)
  | .seq vs =>
    (match t with
     | .list e => shapeAll e vs
     | .tuple es => es.length == vs.length && shapeZip es vs
     | _ => false)
  | .sset _ vs =>
    (match t with
     | .set e => shapeAll e vs
     | _ => false)
  | .smap ks vs =>
    (match t with
     | .map e => ks.length == vs.length && shapeAll e vs
     | .object ns ts _ => ns == ks && ts.length == vs.length && shapeZip ts vs
     | _ => false)
def shapeAll (e : Ty) : List Payload → Bool
  | [] => true
  | p :: ps => shapeP e p && shapeAll e ps
def shapeZip : List Ty → List Payload → Bool
  | t :: ts, p :: ps => shapeP t p && shapeZip ts ps
  | _, _ => true
end

example :
    confShape (.object ["a", "b"] [.dyn, .bool] [false, true])
      (.object ["a", "b"] [.list .string, .bool] [false, false]) = true := by decide

example :
    shapeP (.object ["a", "b"] [.list .string, .bool] [false, false])
      (.smap ["a", "b"] [.seq [.marked ["m"] (.s "x"), .unk .unref, .s "y"], .b true]) = true := by decide

end Msgpack
end CtyModel
