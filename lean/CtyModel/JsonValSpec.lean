/-
C15 — specification vocabulary for the JSON round trip, written independently of the
Go control flow: which payload a type dictates, "same value" (`RawEquals` on set-free
known values), which numbers survive their own decimal text, where a constraint lets a
null or an empty collection keep its type, and the round-trip check itself.
All predicates are `Bool` functions, so concrete instances are decided by `decide` and the
driver can evaluate them on the harness's cases (core Lean only: the driver links this file).
-/
import CtyModel.JsonVal
import CtyModel.TySpec
namespace CtyModel
namespace JsonVal

/-! ### well-formedness: the payload constructor is the one the type dictates
(an unknown may stand anywhere, a marker wraps a payload of the same type) -/
mutual
def wfP : Ty → Payload → Bool
  | _, .null => true
  | _, .unk _ => true
  | t, .marked _ r => wfP t r
  | .bool, .b _ => true
  | .number, .n _ => true
  | .string, .s _ => true
  | .list e, .seq vs => wfAll e vs
  | .set e, .sset ids vs => ids.length == vs.length && wfAll e vs
  | .map e, .smap ks vs => ks.length == vs.length && Ty.strictAsc ks && wfAll e vs
  | .tuple es, .seq vs => es.length == vs.length && wfZip es vs
  | .object ns ts _, .smap ks vs => ks == ns && ts.length == vs.length && wfZip ts vs
  | _, _ => false
def wfAll : Ty → List Payload → Bool
  | _, [] => true
  | e, v :: vs => wfP e v && wfAll e vs
def wfZip : List Ty → List Payload → Bool
  | t :: ts, v :: vs => wfP t v && wfZip ts vs
  | _, _ => true
end

/-! no set type anywhere -/
mutual
def setFree : Ty → Bool
  | .set _ => false
  | .list e | .map e => setFree e
  | .tuple es => setFreeL es
  | .object _ ts _ => setFreeL ts
  | _ => true
def setFreeL : List Ty → Bool
  | [] => true
  | t :: ts => setFree t && setFreeL ts
end

/-- `NumOK` for one number: finite, and `Text('f', -1)` re-parsed at 512 bits is a number
`rawNumberEqual` to it.  (The text is the shortest that identifies the number at its OWN
precision, the parse is at 512 bits: a float64 such as 1e23 fails.) -/
def numOK (n : Num) : Bool :=
  !n.isInf &&
    match Num.parse512 (Num.textF n) with
    | .ok n' => Num.rawEqual n' n
    | _ => false

mutual
def numsOK : Payload → Bool
  | .n x => numOK x
  | .marked _ r => numsOK r
  | .seq vs | .smap _ vs | .sset _ vs => numsOKL vs
  | _ => true
def numsOKL : List Payload → Bool
  | [] => true
  | v :: vs => numsOK v && numsOKL vs
end

/-! an infinite number occurs somewhere -/
mutual
def hasInf : Payload → Bool
  | .n x => x.isInf
  | .marked _ r => hasInf r
  | .seq vs | .smap _ vs | .sset _ vs => hasInfL vs
  | _ => false
def hasInfL : List Payload → Bool
  | [] => false
  | v :: vs => hasInf v || hasInfL vs
end

/-! every string value and map key is a fixed point of `norm` (what `cty.StringVal` /
`cty.MapVal` establish; part of well-formedness, an oracle column in the harness) -/
mutual
def strsFixed (norm : String → String) : Payload → Bool
  | .s x => norm x == x
  | .marked _ r => strsFixed norm r
  | .seq vs | .sset _ vs => strsFixedL norm vs
  | .smap ks vs => ks.all (fun k => norm k == k) && strsFixedL norm vs
  | _ => true
def strsFixedL (norm : String → String) : List Payload → Bool
  | [] => true
  | v :: vs => strsFixed norm v && strsFixedL norm vs
end

/-! ### where the constraint keeps the type of a null / an empty collection

`null` and `[]`/`{}` carry no type information in JSON.  Against the placeholder itself
the encoder writes the type next to the value; against a constraint that only CONTAINS
the placeholder it does not.  `exactK t vt p`: every null and every empty list/set/map
inside `p` sits at a constraint position that is the placeholder or equals its type.
`exactK` compares with `Ty.equals`, annotations included: it is applied to the constraint
the DECODER works with, i.e. after `Unmarshal` has dropped the optional-attribute
annotations (`exact` below). -/
mutual
def exactK (t vt : Ty) : Payload → Bool
  | .null => Ty.equals t vt
  | .seq vs =>
    match t, vt with
    | .list e, .list ve => if vs.isEmpty then Ty.equals e ve else exactAll e ve vs
    | .tuple es, .tuple ves => exactZip es ves vs
    | _, _ => false
  | .smap _ vs =>
    match t, vt with
    | .map e, .map ve => if vs.isEmpty then Ty.equals e ve else exactAll e ve vs
    | .object _ ts _, .object _ vts _ => exactZip ts vts vs
    | _, _ => false
  | .sset _ vs =>
    match t, vt with
    | .set e, .set ve => if vs.isEmpty then Ty.equals e ve else exactAll e ve vs
    | _, _ => false
  | _ => true
def exactAll (e ve : Ty) : List Payload → Bool
  | [] => true
  | v :: vs => (if e.isDyn then exactK ve ve v else exactK e ve v) && exactAll e ve vs
def exactZip : List Ty → List Ty → List Payload → Bool
  | e :: es, ve :: ves, v :: vs => (if e.isDyn then exactK ve ve v else exactK e ve v) && exactZip es ves vs
  | _, _, _ => true
end

/-- every null and every empty list/set/map of the value sits at a position of the
constraint that is the placeholder itself or — optional-attribute annotations aside — the
value's own type there.  Since /repo afdc0a2 `Unmarshal` drops the annotations of the
requested type, so an ANNOTATED constraint position no longer costs a null / an empty
collection its type; only a placeholder nested inside the position's constraint does. -/
def exact (t vt : Ty) (p : Payload) : Bool :=
  if t.isDyn then exactK vt vt p else exactK t.stripOpt vt p

/-! ### "equal value": structural, numbers by `rawNumberEqual` (`RawEquals` away from sets) -/
mutual
def sameP : Payload → Payload → Bool
  | .null, .null => true
  | .b x, .b y => x == y
  | .s x, .s y => x == y
  | .n x, .n y => Num.rawEqual x y
  | .seq xs, .seq ys => sameL xs ys
  | .smap k1 xs, .smap k2 ys => k1 == k2 && sameL xs ys
  | .sset i1 xs, .sset i2 ys => i1 == i2 && sameL xs ys
  | _, _ => false
def sameL : List Payload → List Payload → Bool
  | [], [] => true
  | x :: xs, y :: ys => sameP x y && sameL xs ys
  | _, _ => false
end

/-- the round-trip check: Marshal succeeds, Unmarshal of its output with the same
constraint succeeds, the result has an `Equals` type and the same payload -/
def rtCheck (env : JEnv) (v : Value) (t : Ty) : Bool :=
  match marshal env v t with
  | .ok j =>
    match unmarshalTop env j t with
    | .ok v' => Ty.equals v'.ty v.ty && sameP v'.v v.v
    | _ => false
  | _ => false

/-! the bucket id stored with every set member is the one the hash oracle gives for it
(what `set.Add` establishes; the harness reads both from the same real function) -/
mutual
def setsCoherent (env : JEnv) : Ty → Payload → Bool
  | .set e, .sset ids vs => idsCoherent env e ids vs && setsCoherentAll env e vs
  | .list e, .seq vs => setsCoherentAll env e vs
  | .map e, .smap _ vs => setsCoherentAll env e vs
  | .tuple es, .seq vs => setsCoherentZip env es vs
  | .object _ ts _, .smap _ vs => setsCoherentZip env ts vs
  | _, _ => true
def setsCoherentAll (env : JEnv) : Ty → List Payload → Bool
  | _, [] => true
  | e, v :: vs => setsCoherent env e v && setsCoherentAll env e vs
def setsCoherentZip (env : JEnv) : List Ty → List Payload → Bool
  | t :: ts, v :: vs => setsCoherent env t v && setsCoherentZip env ts vs
  | _, _ => true
def idsCoherent (env : JEnv) : Ty → List Int → List Payload → Bool
  | e, i :: is, v :: vs => (match env.hkey e v with | some (h, _) => h == i | none => false) && idsCoherent env e is vs
  | _, [], [] => true
  | _, _, _ => false
end

/-! ### "plain decoding mirrors the value's structure": what a plain JSON reader sees in the
encoder's output for a value against its own placeholder-free type — null for null, the
same bool / string, the decimal text of the number, an array with one entry per element
(list, tuple), an object with exactly the value's keys (map, object) -/
mutual
def mirrors : Payload → Json → Bool
  | .null, .null => true
  | .b x, .bool y => x == y
  | .s x, .str y => x == y
  | .n x, .num l => l == Num.textF x
  | .seq vs, .arr js => mirrorsL vs js
  | .smap ks vs, .obj ks' js => ks == ks' && mirrorsL vs js
  | _, _ => false
def mirrorsL : List Payload → List Json → Bool
  | [], [] => true
  | v :: vs, j :: js => mirrors v j && mirrorsL vs js
  | _, _ => false
end

/-- the hypothesis list of the round-trip property except "attribute names are normalised"
(`Ty.namesFixed`, which lives with the C07 lemmas; `rtHyps` in
`Lemmas/JsonValSpec.lean` is this plus that).  The driver evaluates this part. -/
def rtHypsCore (env : JEnv) (v : Value) (t : Ty) : Bool :=
  Ty.wf t && Ty.wf v.ty && !Ty.hasOpt v.ty && wfP v.ty v.v && strsFixed env.norm v.v &&
  v.v.whollyKnown && !v.v.containsMarked && !Ty.hasCapsule v.ty && Ty.matches t v.ty && numsOK v.v

/-! ### documents -/

/-! the structural type of a document whose object keys have distinct normal forms in
ascending order: JSON null ↦ placeholder, array ↦ tuple, object ↦ object over the
normalised keys -/
mutual
def structTy (norm : String → String) : Json → Ty
  | .null => .dyn
  | .bool _ => .bool
  | .num _ => .number
  | .str _ => .string
  | .arr xs => .tuple (structTyL norm xs)
  | .obj ks vs => .object (ks.map norm) (structTyL norm vs) (ks.map fun _ => false)
def structTyL (norm : String → String) : List Json → List Ty
  | [] => []
  | x :: xs => structTy norm x :: structTyL norm xs
end

/-! documents covered by `doc_roundtrip_partial`: the NORMAL FORMS of the keys of every
object are strictly ascending (hence no duplicates, also none after normalisation), every
number literal parses to a number that satisfies `NumOK`.  Keys and strings need not be
normalised. -/
mutual
def docOK (env : JEnv) : Json → Bool
  | .null => true
  | .bool _ => true
  | .num l =>
    match Num.parse512 l with
    | .ok n => numOK n
    | _ => false
  | .str _ => true
  | .arr xs => docOKL env xs
  | .obj ks vs => Ty.strictAsc (ks.map env.norm) && ks.length == vs.length && docOKL env vs
def docOKL (env : JEnv) : List Json → Bool
  | [] => true
  | x :: xs => docOK env x && docOKL env xs
end

/-! the same document up to number spelling (numbers compared as 512-bit parses by
`rawNumberEqual`) -/
mutual
def jsonEquiv : Json → Json → Bool
  | .null, .null => true
  | .bool a, .bool b => a == b
  | .str a, .str b => a == b
  | .num a, .num b =>
    match Num.parse512 a, Num.parse512 b with
    | .ok x, .ok y => Num.rawEqual x y
    | _, _ => false
  | .arr xs, .arr ys => jsonEquivL xs ys
  | .obj k1 xs, .obj k2 ys => k1 == k2 && jsonEquivL xs ys
  | _, _ => false
def jsonEquivL : List Json → List Json → Bool
  | [], [] => true
  | x :: xs, y :: ys => jsonEquiv x y && jsonEquivL xs ys
  | _, _ => false
end

/-! `jsonNormEq norm d' d`: `d'` is `d` with every string and key replaced by its normal
form, up to number spelling -/
mutual
def jsonNormEq (norm : String → String) : Json → Json → Bool
  | .null, .null => true
  | .bool a, .bool b => a == b
  | .str a, .str b => a == norm b
  | .num a, .num b =>
    match Num.parse512 a, Num.parse512 b with
    | .ok x, .ok y => Num.rawEqual x y
    | _, _ => false
  | .arr xs, .arr ys => jsonNormEqL norm xs ys
  | .obj k1 xs, .obj k2 ys => k1 == k2.map norm && jsonNormEqL norm xs ys
  | _, _ => false
def jsonNormEqL (norm : String → String) : List Json → List Json → Bool
  | [], [] => true
  | x :: xs, y :: ys => jsonNormEq norm x y && jsonNormEqL norm xs ys
  | _, _ => false
end

/-- the document check: implied type, decode with it, re-encode, compare -/
def docCheck (env : JEnv) (d : Json) : Bool :=
  match impliedType env d with
  | .ok t =>
    match unmarshalTop env d t with
    | .ok v =>
      match marshal env v t with
      | .ok d' => jsonNormEq env.norm d' d
      | _ => false
    | _ => false
  | _ => false

/-! ### the full document statement: validity and equivalence up to key order -/

def sameImplied (env : JEnv) (a b : Json) : Bool :=
  match impliedType env a, impliedType env b with
  | .ok x, .ok y => x.equals y
  | _, _ => false

/-- members after (k, v) with the same normalised key have the same implied type -/
def agreeWith (env : JEnv) (k : String) (v : Json) : List String → List Json → Bool
  | k' :: ks, v' :: vs =>
    (if env.norm k' = env.norm k then sameImplied env v v' else true) && agreeWith env k v ks vs
  | _, _ => true

def noConflict (env : JEnv) : List String → List Json → Bool
  | k :: ks, v :: vs => agreeWith env k v ks vs && noConflict env ks vs
  | _, _ => true

/-! "valid JSON document with representable numbers and no conflicting duplicate keys" -/
mutual
def docValid (env : JEnv) : Json → Bool
  | .num l =>
    match Num.parse512 l with
    | .ok n => numOK n
    | _ => false
  | .arr xs => docValidL env xs
  | .obj ks vs => ks.length == vs.length && docValidL env vs && noConflict env ks vs
  | _ => true
def docValidL (env : JEnv) : List Json → Bool
  | [] => true
  | x :: xs => docValid env x && docValidL env xs
end

/-- insert a member into ascending parallel lists unless the key is already there (used
right-to-left: the last duplicate in document order stands, as in plain JSON decoding) -/
def insertMember (k : String) (v : Json) : List String → List Json → List String × List Json
  | n :: ns, u :: us =>
    if k < n then (k :: n :: ns, v :: u :: us)
    else if k = n then (n :: ns, u :: us)
    else
      let r := insertMember k v ns us
      (n :: r.1, u :: r.2)
  | _, _ => ([k], [v])

def sortMembers : List String → List Json → List String × List Json
  | k :: ks, v :: vs =>
    let r := sortMembers ks vs
    insertMember k v r.1 r.2
  | _, _ => ([], [])

/-! canonical form: keys normalised, sorted, last duplicate stands; strings normalised -/
mutual
def canon (env : JEnv) : Json → Json
  | .str s => .str (env.norm s)
  | .arr xs => .arr (canonL env xs)
  | .obj ks vs =>
    let r := sortMembers (ks.map env.norm) (canonL env vs)
    .obj r.1 r.2
  | j => j
def canonL (env : JEnv) : List Json → List Json
  | [] => []
  | x :: xs => canon env x :: canonL env xs
end

/-- the document check of the full statement: same document up to key order, number
spelling and string normalisation -/
def docCheckFull (env : JEnv) (d : Json) : Bool :=
  match impliedType env d with
  | .ok t =>
    match unmarshalTop env d t with
    | .ok v =>
      match marshal env v t with
      | .ok d' => jsonEquiv (canon env d') (canon env d)
      | _ => false
    | _ => false
  | _ => false

end JsonVal
end CtyModel
