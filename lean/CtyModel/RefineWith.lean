/-
The other entry points of cty/unknown_refinement.go (C05): `Value.RefineWith(refiners...)` and
`Value.RefineNotNull()`, following the Go control flow.  Core only (the driver runs them: `rfn.with`, `rfn.nn`).

A refiner callback is modelled by what it can do: apply builder calls to the builder it is given and then return
that builder (`same = true`) or some other builder (`same = false`; `RefineWith` panics).
-/
import CtyModel.Refine
namespace CtyModel
namespace Refine
namespace D05

structure Refiner where
  calls : List RefineCall
  same : Bool
  deriving Repr, Inhabited

section Oracle
variable [EqOracle]

/-- `for _, refiner := range refiners { builder = refiner(builder); if builder != origBuilder { panic } }` -/
def withLoop (b : Builder) : List Refiner → Res Builder
  | [] => .ok b
  | r :: rs =>
    (run b r.calls).bind fun b' =>
      if r.same then withLoop b' rs else .panic "refiner callback returned a different builder"

/-- `v.RefineWith(refiners...)`: with no refiner the receiver itself comes back (no builder is made) -/
def refineWith (v : Value) (rs : List Refiner) : Res Value :=
  if rs.isEmpty then .ok v
  else (init v).bind fun b => (withLoop b rs).bind newValue

/-- `v.RefineNotNull()` = `v.Refine().NotNull().NewValue()` -/
def refineNotNull (v : Value) : Res Value :=
  (init v).bind fun b => (step b .notNull).bind newValue

end Oracle

end D05
end Refine
end CtyModel
