/-
S-expressions: the wire format of the line protocol between the Go harness
(which runs the real go-cty) and the Lean model driver.  Atoms are runs of
characters other than space and parentheses; strings travel hex-encoded so the
format needs no quoting.
-/
namespace CtyModel

inductive Sexp where
  | atom (s : String)
  | list (xs : List Sexp)
  deriving Repr, Inhabited, BEq

namespace Sexp

mutual
partial def toStr : Sexp → String
  | .atom s => s
  | .list xs => "(" ++ " ".intercalate (xs.map toStr) ++ ")"
end

instance : ToString Sexp := ⟨toStr⟩

/-- Parser state: remaining characters. Returns parsed expressions up to the
matching `)` (or end of input at top level). -/
partial def parseList (cs : List Char) (acc : Array Sexp) (top : Bool) :
    Option (List Sexp × List Char) :=
  match cs with
  | [] => if top then some (acc.toList, []) else none
  | ' ' :: rest => parseList rest acc top
  | '\n' :: rest => parseList rest acc top
  | '\r' :: rest => parseList rest acc top
  | '\t' :: rest => parseList rest acc top
  | ')' :: rest => if top then none else some (acc.toList, rest)
  | '(' :: rest =>
    match parseList rest #[] false with
    | none => none
    | some (xs, rest') => parseList rest' (acc.push (.list xs)) top
  | _ =>
    let tok := cs.takeWhile (fun c => c != ' ' && c != '(' && c != ')' && c != '\n' && c != '\r' && c != '\t')
    let rest := cs.drop tok.length
    parseList rest (acc.push (.atom (String.ofList tok))) top

/-- Parse a whole line into a list of top-level expressions. -/
def parseLine (s : String) : Option (List Sexp) :=
  (parseList s.toList #[] true).map (·.1)

def hexDigit (n : Nat) : Char :=
  if n < 10 then Char.ofNat (48 + n) else Char.ofNat (87 + n)

def hexVal (c : Char) : Option Nat :=
  if '0' ≤ c ∧ c ≤ '9' then some (c.toNat - 48)
  else if 'a' ≤ c ∧ c ≤ 'f' then some (c.toNat - 87)
  else none

def bytesToHex (bs : List UInt8) : String :=
  String.ofList (bs.flatMap fun b => [hexDigit (b.toNat / 16), hexDigit (b.toNat % 16)])

def hexToBytes : List Char → Option (List UInt8)
  | [] => some []
  | a :: b :: rest => do
    let x ← hexVal a
    let y ← hexVal b
    let r ← hexToBytes rest
    pure (UInt8.ofNat (x * 16 + y) :: r)
  | _ => none

/-- Strings are written `x<hex of UTF-8 bytes>`. -/
def encStr (s : String) : Sexp := .atom ("x" ++ bytesToHex s.toUTF8.toList)

def decStr : Sexp → Option String
  | .atom a =>
    match a.toList with
    | 'x' :: hex => do
      let bs ← hexToBytes hex
      String.fromUTF8? (ByteArray.mk bs.toArray)
    | _ => none
  | _ => none

def decNat : Sexp → Option Nat
  | .atom a => a.toNat?
  | _ => none

def decInt : Sexp → Option Int
  | .atom a => a.toInt?
  | _ => none

def decBool : Sexp → Option Bool
  | .atom "0" => some false
  | .atom "1" => some true
  | _ => none

def encBool (b : Bool) : Sexp := .atom (if b then "1" else "0")
def encNat (n : Nat) : Sexp := .atom (toString n)
def encInt (n : Int) : Sexp := .atom (toString n)

end Sexp
end CtyModel
