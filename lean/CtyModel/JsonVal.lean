/-
Model of package `cty/json`: `marshal` (marshal.go), `unmarshal*` (unmarshal.go), the
public `Unmarshal` (value.go: `unmarshalTop`, which drops the optional-attribute annotations
of the requested type before decoding; `unmarshalDynamic` calls it for the wrapped value),
`impliedType` (type_implied.go), `SimpleJSONValue` (simple.go), at token-tree level.

TRUSTED BASE / ORACLES (nothing here is an axiom; each is a parameter or an input)

* `encoding/json`'s lexer is an ORACLE.  The byte level (escapes, whitespace, number
  syntax, UTF-8 validation, `json.Marshal` of a Go string) is not modelled.  The
  harness lexes the real bytes with `encoding/json`'s `Decoder` (Token API,
  `UseNumber`) into a `Json` tree (ordered keys, duplicates kept, numbers as their
  literal spelling) and the model works on that tree: `marshal` is compared with the
  lexed tree of the real output, `unmarshal`/`impliedType` receive the lexed tree of
  the real input.  Documents the lexer rejects have no tree and are outside the model.
* `JEnv.norm` stands for `cty.NormalizeString` (Unicode NFC).  The harness sends an
  NFC table for the strings of each case; theorems take "the strings of the value are
  fixed points of `norm`" as an explicit hypothesis.
* `JEnv.hkey` stands for the set-membership hash: bucket id (`Value.Hash`) and the
  hash bytes (hex) that `setRules.Less` compares for non-primitive element types.
  crc32 and `%q` quoting are not re-derived; the harness supplies the answers of the
  real functions for the members involved (a miss makes the model answer `.unmodelled`).
* `math/big` is modelled (`Num.textF`, `Num.parse512`) and diffed on every run.
* capsule payloads go through `encoding/json` reflection: `.unmodelled`.

`marshal` is modelled on the domain the public `Marshal` establishes before calling it
(the value's type conforms to the constraint); where Go would index out of range or
call an accessor of the wrong kind the model says `.panic`, but those branches are
outside the compared domain.  Object attributes are walked in lockstep (type and value
have the same ascending name list under conformance).
-/
import CtyModel.Ops
import CtyModel.TyJson
import CtyModel.JsonNum
namespace CtyModel
namespace JsonVal

structure JEnv where
  norm : String → String
  hkey : Ty → Payload → Option (Int × String)

/-! ## marshal.go -/

def isPrimTy : Ty → Bool
  | .bool | .number | .string => true
  | _ => false

/-- `setRules.Less` (cty/set_internals.go) for a primitive element type, on known or null
members (an unknown member makes `marshal` fail whatever the order is) -/
def primLess (ety : Ty) (a b : Payload) : Bool :=
  match a, b with
  | .null, _ => false
  | _, .null => true
  | .unk _, _ => false
  | _, .unk _ => true
  | .s x, .s y => ety.isString && decide (x < y)
  | .b x, .b y => ety.isBool && (!x && y)
  | .n x, .n y => ety.isNumber && !(Num.rawEqual x y) && decide (Num.cmp x y < 0)
  | _, _ => false

/-- the same for other element types: nulls last, then `bytes.Compare` of the hash bytes -/
def hexLess (a b : Payload × String) : Bool :=
  match a.1, b.1 with
  | .null, _ => false
  | _, .null => true
  | .unk _, _ => false
  | _, .unk _ => true
  | _, _ => decide (a.2 < b.2)

/-- insertion step of a stable sort (what `sort.SliceStable` computes for a strict weak order) -/
def insertBy {α} (less : α → α → Bool) (x : α) : List α → List α
  | [] => [x]
  | y :: ys => if less y x then y :: insertBy less x ys else x :: y :: ys

def sortStable {α} (less : α → α → Bool) : List α → List α
  | [] => []
  | x :: xs => insertBy less x (sortStable less xs)

def attachHex (env : JEnv) (ety : Ty) : List Payload → Option (List (Payload × String))
  | [] => some []
  | v :: vs =>
    match env.hkey ety v, attachHex env ety vs with
    | some (_, hex), some r => some ((v, hex) :: r)
    | _, _ => none

/-- `set.Values()` applied to data `xs` attached to the members `vs` (bucket order, as
stored): stably sorted by `Less` of the members -/
def setIterWith {α} (env : JEnv) (ety : Ty) (vs : List Payload) (xs : List α) : Option (List α) :=
  if isPrimTy ety then
    some ((sortStable (fun a b => primLess ety a.1 b.1) (vs.zip xs)).map (·.2))
  else if vs.length ≤ 1 then some xs
  else (attachHex env ety vs).map fun l =>
    (sortStable (fun a b => hexLess a.1 b.1) (l.zip xs)).map (·.2)

/-- the members in iteration order -/
def setIter (env : JEnv) (ety : Ty) (vs : List Payload) : Option (List Payload) :=
  setIterWith env ety vs vs

/-- prologue of `marshal`, run for every (sub)value: marks, unknown, dynamic wrapper.
`body t'` is the rest of `marshal` against the constraint `t'`. -/
def marshalEntry (t vt : Ty) (p : Payload) (body : Ty → Res Json) : Res Json :=
  if p.isMarked then .err "value has marks"
  else if !p.isKnown then .err "value is not known"
  else if t.isDyn && !vt.isDyn then
    -- marshalDynamic
    match vt.toJson with
    | .ok tj =>
      match body vt with
      | .ok j => .ok (.obj ["value", "type"] [j, tj])
      | .err _ => .err "failed to serialize value"
      | r => r
    | .err _ => .err "failed to serialize type"
    | .panic w => .panic w
    | .unmodelled => .unmodelled
  else body t

mutual
/-- `marshal` after its prologue: `p` is unmarked and known -/
def marshalKnown (env : JEnv) (t vt : Ty) : Payload → Res Json
  | .null => .ok .null
  | .bad _ => .unmodelled
  | .unk _ => .err "value is not known"
  | .marked _ _ => .err "value has marks"
  | .s x =>
    match t with
    | .string => .ok (.str x)
    | _ => .panic "payload does not match constraint"
  | .n x =>
    match t with
    | .number => if x.isInf then .err "cannot serialize infinity as JSON" else .ok (.num (Num.textF x))
    | _ => .panic "payload does not match constraint"
  | .b x =>
    match t with
    | .bool => .ok (.bool x)
    | _ => .panic "payload does not match constraint"
  | .caps =>
    match t with
    | .capsule _ => .unmodelled
    | _ => .panic "payload does not match constraint"
  | .seq vs =>
    match t, vt with
    | .list e, .list ve => (marshalAll env e ve vs).map .arr
    | .tuple es, .tuple ves => (marshalZip env es ves vs).map .arr
    | .dyn, _ => .err "cannot JSON-serialize dynamic"
    | _, _ => .panic "payload does not match constraint"
  | .sset _ vs =>
    match t, vt with
    | .set e, .set ve =>
      -- every member is marshalled (storage order), the results are emitted in iteration
      -- order; all failures are errors on the compared domain, so which one comes first
      -- is not observable
      match marshalAll env e ve vs with
      | .ok js =>
        match setIterWith env ve vs js with
        | some js' => .ok (.arr js')
        | none => .unmodelled
      | .err c => .err c
      | .panic w => .panic w
      | .unmodelled => .unmodelled
    | .dyn, _ => .err "cannot JSON-serialize dynamic"
    | _, _ => .panic "payload does not match constraint"
  | .smap ks vs =>
    match t, vt with
    | .map e, .map ve => (marshalAll env e ve vs).map (.obj ks)
    | .object ns ts _, .object _ vts _ =>
      if ns == ks then (marshalZip env ts vts vs).map (.obj ks)
      else .panic "attribute names of value and constraint differ"
    | .dyn, _ => .err "cannot JSON-serialize dynamic"
    | _, _ => .panic "payload does not match constraint"
/-- elements of a list / map against one element constraint -/
def marshalAll (env : JEnv) (e ve : Ty) : List Payload → Res (List Json)
  | [] => .ok []
  | v :: vs =>
    match marshalEntry e ve v (fun t' => marshalKnown env t' ve v) with
    | .ok j => (marshalAll env e ve vs).map (j :: ·)
    | .err c => .err c
    | .panic w => .panic w
    | .unmodelled => .unmodelled
/-- elements of a tuple / attributes of an object against per-position constraints -/
def marshalZip (env : JEnv) : List Ty → List Ty → List Payload → Res (List Json)
  | _, _, [] => .ok []
  | e :: es, ve :: ves, v :: vs =>
    match marshalEntry e ve v (fun t' => marshalKnown env t' ve v) with
    | .ok j => (marshalZip env es ves vs).map (j :: ·)
    | .err c => .err c
    | .panic w => .panic w
    | .unmodelled => .unmodelled
  | _, _, _ :: _ => .panic "index out of range"
end

/-- `marshal(val, t, path, b)` -/
def marshal (env : JEnv) (v : Value) (t : Ty) : Res Json :=
  marshalEntry t v.ty v.v (fun t' => marshalKnown env t' v.ty v.v)

/-- `Marshal(val, t)` (value.go) on its conforming branch; a non-conforming value goes
through `convert.Convert` first, which this slice does not model -/
def marshalTop (env : JEnv) (v : Value) (t : Ty) : Res Json :=
  if Ty.conformErrs t v.ty != 0 then .unmodelled else marshal env v t

/-! ## unmarshal.go -/

/-- `unmarshalPrimitive(tok, t, path)`; `j` is not `null` -/
def unmarshalPrim (env : JEnv) (j : Json) (t : Ty) : Res Value :=
  match t with
  | .bool =>
    match j with
    | .bool b => .ok ⟨.bool, .b b⟩
    | .str s =>
      -- convert.Convert(cty.StringVal(v), cty.Bool)
      let s' := env.norm s
      if s' = "true" ∨ s' = "1" then .ok ⟨.bool, .b true⟩
      else if s' = "false" ∨ s' = "0" then .ok ⟨.bool, .b false⟩
      else .err "a bool is required"
    | _ => .err "bool is required"
  | .number =>
    match j with
    | .num l => (Num.parse512 l).map fun n => ⟨.number, .n n⟩
    | .str l => (Num.parse512 l).map fun n => ⟨.number, .n n⟩
    | _ => .err "number is required"
  | .string =>
    match j with
    | .str s => .ok ⟨.string, .s (env.norm s)⟩
    | .num l => .ok ⟨.string, .s (env.norm l)⟩
    | .bool b => .ok ⟨.string, .s (if b then "true" else "false")⟩
    | _ => .err "string is required"
  | _ => .panic "unsupported primitive type"

/-- the element-type loop shared by `ListVal`, `SetVal`, `MapVal` (value_init.go):
starts at the placeholder, takes the first type seen, then every further type that is
not the placeholder itself must be `Equals` to it -/
def unifyElemTy : List Value → Ty → Res Ty
  | [], acc => .ok acc
  | v :: vs, acc =>
    if acc.isDyn then unifyElemTy vs v.ty
    else if !v.ty.isDyn && !(acc.equals v.ty) then .panic "inconsistent element types"
    else unifyElemTy vs acc

/-- `cty.CanListVal` / `CanSetVal` / `CanMapVal`: the same loop, answering whether the
constructor would accept the members -/
def canElemTy : List Value → Ty → Bool
  | [], _ => true
  | v :: vs, acc =>
    if acc.isDyn then canElemTy vs v.ty
    else if !v.ty.isDyn && !(acc.equals v.ty) then false
    else canElemTy vs acc

/-- the end of `unmarshalList`: `ListValEmpty(ety)` for no members, an error if
`CanListVal` refuses them (members decoded through the placeholder to different types),
else `cty.ListVal(vals)` -/
def listVal (ety : Ty) (vals : List Value) : Res Value :=
  if vals.isEmpty then .ok ⟨.list ety, .seq []⟩
  else if !canElemTy vals .dyn then .err "all list elements must have the same type"
  else (unifyElemTy vals .dyn).map fun e => ⟨.list e, .seq (vals.map (·.v))⟩

/-- `cty.TupleVal` / `cty.EmptyTupleVal` -/
def tupleVal (vals : List Value) : Value := ⟨.tuple (vals.map (·.ty)), .seq (vals.map (·.v))⟩

/-- `s.Add(x)` on the flattened bucket map (ids ascending, slice order within a bucket):
nothing happens if a member of bucket `h` is `Equivalent`, else append to bucket `h` -/
def setAdd (ety : Ty) (x : Payload) (h : Int) : List Int → List Payload → Res (List Int × List Payload)
  | i :: is, y :: ys =>
    if h < i then .ok (h :: i :: is, x :: y :: ys)
    else if h = i then
      match Value.equals ⟨ety, x⟩ ⟨ety, y⟩ with
      | .ok r =>
        if r.isKnown && r.isTrue then .ok (i :: is, y :: ys)
        else (setAdd ety x h is ys).map fun q => (i :: q.1, y :: q.2)
      | .err c => .err c
      | .panic w => .panic w
      | .unmodelled => .unmodelled
    else (setAdd ety x h is ys).map fun q => (i :: q.1, y :: q.2)
  | _, _ => .ok ([h], [x])

/-- `set.NewSetFromSlice(rules, vals)` -/
def setFromSlice (env : JEnv) (ety : Ty) : List Payload → List Int → List Payload → Res (List Int × List Payload)
  | [], is, ys => .ok (is, ys)
  | x :: xs, is, ys =>
    match env.hkey ety x with
    | none => .unmodelled
    | some (h, _) =>
      match setAdd ety x h is ys with
      | .ok q => setFromSlice env ety xs q.1 q.2
      | .err c => .err c
      | .panic w => .panic w
      | .unmodelled => .unmodelled

/-- the end of `unmarshalSet`: `SetValEmpty`, the `CanSetVal` error, or `cty.SetVal(vals)` -/
def setVal (env : JEnv) (ety : Ty) (vals : List Value) : Res Value :=
  if vals.isEmpty then .ok ⟨.set ety, .sset [] []⟩
  else if !canElemTy vals .dyn then .err "all set elements must have the same type"
  else
    match unifyElemTy vals .dyn with
    | .ok e => (setFromSlice env e (vals.map (·.v)) [] []).map fun q => ⟨.set e, .sset q.1 q.2⟩
    | .err c => .err c
    | .panic w => .panic w
    | .unmodelled => .unmodelled

/-- the Go map `vals[k] = el` filled in document order: one entry per distinct key,
holding the last value (order of the result is immaterial; it is the order of last
occurrence) -/
def lastWins : List String → List Value → List String × List Value
  | k :: ks, v :: vs =>
    let r := lastWins ks vs
    if r.1.contains k then r else (k :: r.1, v :: r.2)
  | _, _ => ([], [])

/-- insert into ascending parallel lists (keys distinct) -/
def insertKV (k : String) (v : Payload) : List String → List Payload → List String × List Payload
  | n :: ns, u :: us =>
    if k < n then (k :: n :: ns, v :: u :: us)
    else
      let r := insertKV k v ns us
      (n :: r.1, u :: r.2)
  | _, _ => ([k], [v])

def sortKV : List String → List Payload → List String × List Payload
  | k :: ks, v :: vs =>
    let r := sortKV ks vs
    insertKV k v r.1 r.2
  | _, _ => ([], [])

def hasDup : List String → Bool
  | [] => false
  | k :: ks => ks.contains k || hasDup ks

/-- the end of `unmarshalMap`: `MapValEmpty`, the `CanMapVal` error, or `cty.MapVal(vals)`.  Go ranges
over the map in random order; the element-type loop gives the same outcome in every
order (all non-placeholder types equal, or `CanMapVal` refuses).  Keys are normalised when stored;
two distinct keys with the same normal form make the stored value depend on the
iteration order: `.unmodelled`. -/
def mapVal (env : JEnv) (ety : Ty) (ks : List String) (vals : List Value) : Res Value :=
  let d := lastWins ks vals
  if d.1.isEmpty then .ok ⟨.map ety, .smap [] []⟩
  else if !canElemTy d.2 .dyn then .err "all map elements must have the same type"
  else
    match unifyElemTy d.2 .dyn with
    | .ok e =>
      let nks := d.1.map env.norm
      if hasDup nks then .unmodelled
      else
        let r := sortKV nks (d.2.map (·.v))
        .ok ⟨.map e, .smap r.1 r.2⟩
    | .err c => .err c
    | .panic w => .panic w
    | .unmodelled => .unmodelled

/-- the value stored under `k` by `vals[k] = el` in document order -/
def lookupLast (k : String) : List String → List Value → Option Value
  | n :: ns, v :: vs =>
    match lookupLast k ns vs with
    | some r => some r
    | none => if n = k then some v else none
  | _, _ => none

/-- "make sure we have a value for every attribute", then `cty.ObjectVal(vals)`:
attribute names are those of the constraint (already normalised, ascending) -/
def objectVal : List String → List Ty → List String → List Value → List Value
  | n :: ns, t :: ts, ks, vals =>
    (match lookupLast n ks vals with
     | some v => v
     | none => ⟨t, .null⟩) :: objectVal ns ts ks vals
  | _, _, _, _ => []

/-- first pass of `unmarshalDynamic` over the members: keys must be "type" or "value",
every "type" member is decoded at once (the last one stands); returns the type and
whether a "value" member was seen -/
def dynScan (env : JEnv) : List String → List Json → Option Ty → Bool → Res (Option Ty × Bool)
  | k :: ks, j :: js, t, hv =>
    if k = "type" then
      match Ty.ofJson env.norm j with
      | .ok t' => dynScan env ks js (some t') hv
      | .err _ => .err "failed to decode type for dynamic value"
      | .panic w => .panic w
      | .unmodelled => .unmodelled
    else if k = "value" then dynScan env ks js t true
    else .err "invalid key in dynamically-typed value"
  | _, _, t, hv => .ok (t, hv)

def errOf {α β} : Res α → Res β
  | .ok _ => .unmodelled
  | .err c => .err c
  | .panic w => .panic w
  | .unmodelled => .unmodelled

mutual
/-- `unmarshal(buf, t, path)` on the token tree of `buf` (the path only feeds error
messages) -/
def unmarshal (env : JEnv) : Json → Ty → Res Value
  | .null, t => .ok ⟨t, .null⟩
  | .obj ks vs, .dyn =>
    -- unmarshalDynamic
    match dynScan env ks vs none false with
    | .ok (none, _) => .err "missing type in dynamically-typed value"
    | .ok (some _, false) => .err "missing value in dynamically-typed value"
    | .ok (some t, true) =>
      match dynValue env ks vs t with
      | some r => r
      | none => .err "missing value in dynamically-typed value"
    | r => errOf r
  | _, .dyn => .err "missing expected {"
  | .arr xs, .list e =>
    match unmarshalAll env xs e with
    | .ok vals => listVal e vals
    | r => errOf r
  | _, .list _ => .err "missing expected ["
  | .arr xs, .set e =>
    match unmarshalAll env xs e with
    | .ok vals => setVal env e vals
    | r => errOf r
  | _, .set _ => .err "missing expected ["
  | .obj ks vs, .map e =>
    match unmarshalAll env vs e with
    | .ok vals => mapVal env e ks vals
    | r => errOf r
  | _, .map _ => .err "missing expected {"
  | .arr xs, .tuple es =>
    match unmarshalZip env xs es with
    | .ok vals =>
      if vals.length != es.length then .err "not enough tuple elements" else .ok (tupleVal vals)
    | r => errOf r
  | _, .tuple _ => .err "missing expected ["
  | .obj ks vs, .object ns ts os =>
    match unmarshalAttrs env ks vs ns ts os with
    | .ok vals =>
      let all := objectVal ns ts (ks.map env.norm) vals
      .ok ⟨.object ns (all.map (·.ty)) (ns.map fun _ => false), .smap ns (all.map (·.v))⟩
    | r => errOf r
  | _, .object _ _ _ => .err "missing expected {"
  | _, .capsule _ => .unmodelled
  | j, t => unmarshalPrim env j t
/-- array elements / map members against one element type, in document order -/
def unmarshalAll (env : JEnv) : List Json → Ty → Res (List Value)
  | [], _ => .ok []
  | j :: js, e =>
    match unmarshal env j e with
    | .ok v =>
      match unmarshalAll env js e with
      | .ok vs => .ok (v :: vs)
      | r => r
    | r => errOf r
/-- tuple elements against their positions; more elements than types is an error
reported when the surplus element is reached -/
def unmarshalZip (env : JEnv) : List Json → List Ty → Res (List Value)
  | [], _ => .ok []
  | _ :: _, [] => .err "too many tuple elements"
  | j :: js, e :: es =>
    match unmarshal env j e with
    | .ok v =>
      match unmarshalZip env js es with
      | .ok vs => .ok (v :: vs)
      | r => r
    | r => errOf r
/-- object members in document order: the NFC-normalised key must be an attribute of the
constraint (and the value is stored under the normalised key) -/
def unmarshalAttrs (env : JEnv) : List String → List Json → List String → List Ty → List Bool → Res (List Value)
  | k :: ks, j :: js, ns, ts, os =>
    match Ty.find (env.norm k) ns ts os with
    | none => .err "unsupported attribute"
    | some (aty, _) =>
      match unmarshal env j aty with
      | .ok v =>
        match unmarshalAttrs env ks js ns ts os with
        | .ok vs => .ok (v :: vs)
        | r => r
      | r => errOf r
  | _, _, _, _, _ => .ok []
/-- `Unmarshal(valBody, t)` for the last "value" member: the PUBLIC entry point (value.go), so
the decoded type descriptor loses its optional-attribute annotations first
(`t.WithoutOptionalAttributesDeep()`, /repo afdc0a2; `unmarshalTop` below is the same function) -/
def dynValue (env : JEnv) : List String → List Json → Ty → Option (Res Value)
  | k :: ks, j :: js, t =>
    match dynValue env ks js t with
    | some r => some r
    | none => if k = "value" then some (unmarshal env j t.stripOpt) else none
  | _, _, _ => none
end

/-- `Unmarshal(buf, t)` (value.go): optional-attribute annotations belong to type
constraints, the type of a value never carries them — they are dropped from the requested
type before decoding (/repo afdc0a2), so a null / an empty collection decoded against an
annotated constraint gets the constraint type WITHOUT the annotations -/
def unmarshalTop (env : JEnv) (j : Json) (t : Ty) : Res Value :=
  unmarshal env j t.stripOpt

/-! ## type_implied.go -/

def lookupTy (k : String) : List String → List Ty → Option Ty
  | n :: ns, t :: ts => if n = k then some t else lookupTy k ns ts
  | _, _ => none

def setTy (k : String) (t : Ty) : List String → List Ty → List Ty
  | n :: ns, u :: us => if n = k then t :: us else u :: setTy k t ns us
  | _, _ => []

/-- does a key after (k, t) have the same normal form and a type that is not `Equals`? -/
def conflictWith (norm : String → String) (k : String) (t : Ty) : List String → List Ty → Bool
  | k' :: ks, t' :: ts => (norm k' == norm k && !(t.equals t')) || conflictWith norm k t ks ts
  | _, _ => false

/-- two distinct keys with one normal form and different types: `cty.Object` keeps the type
of whichever Go's map iteration visits last -/
def normConflict (norm : String → String) : List String → List Ty → Bool
  | k :: ks, t :: ts => conflictWith norm k t ks ts || normConflict norm ks ts
  | _, _ => false

mutual
/-- `impliedTypeForTok` -/
def impliedType (env : JEnv) : Json → Res Ty
  | .null => .ok .dyn
  | .bool _ => .ok .bool
  | .num _ => .ok .number
  | .str _ => .ok .string
  | .arr xs => (impliedAll env xs).map .tuple
  | .obj ks vs =>
    match impliedMembers env ks vs [] [] with
    | .ok (aK, aT) =>
      -- cty.Object(atys): names normalised; a collision of normal forms is resolved by Go
      -- map iteration order, which matters only if the colliding members differ in type
      if normConflict env.norm aK aT then .unmodelled
      else
        let r := Ty.buildFields env.norm aK aT
        .ok (.object r.1 r.2 (r.1.map fun _ => false))
    | r => errOf r
/-- `impliedTupleType` -/
def impliedAll (env : JEnv) : List Json → Res (List Ty)
  | [] => .ok []
  | j :: js =>
    match impliedType env j with
    | .ok t =>
      match impliedAll env js with
      | .ok ts => .ok (t :: ts)
      | r => r
    | r => errOf r
/-- `impliedObjectType`: `atys` is kept as parallel lists in order of first occurrence -/
def impliedMembers (env : JEnv) : List String → List Json → List String → List Ty → Res (List String × List Ty)
  | k :: ks, j :: js, aK, aT =>
    match impliedType env j with
    | .ok aty =>
      match lookupTy k aK aT with
      | some ex =>
        if !(ex.equals aty) then .err "duplicate property in JSON object"
        else impliedMembers env ks js aK (setTy k aty aK aT)
      | none => impliedMembers env ks js (aK ++ [k]) (aT ++ [aty])
    | r => errOf r
  | _, _, aK, aT => .ok (aK, aT)
end

/-! ## simple.go -/

/-- `SimpleJSONValue.MarshalJSON` -/
def simpleMarshal (env : JEnv) (v : Value) : Res Json := marshalTop env v v.ty

/-- `SimpleJSONValue.UnmarshalJSON` -/
def simpleUnmarshal (env : JEnv) (j : Json) : Res Value :=
  match impliedType env j with
  | .ok t => unmarshalTop env j t
  | r => errOf r

end JsonVal
end CtyModel
