/-
Model of `(*big.Float).Float64()` / `Float32()` (math/big/float.go) and of Go's
`float32(f64)` conversion: round to nearest, ties to even, with gradual
underflow (subnormals), overflow to ±Inf, and the accuracy flag (`exact` =
`big.Exact`).  The result is again a `Num`; a float64/float32 value printed by
the harness is the `big.Float` obtained with `SetFloat64`, i.e. precision 53.
-/
import CtyModel.Num
namespace CtyModel
namespace Num

/-- precision that the harness' canonical form of a Go float carries -/
def fprec : Nat := 53

/-- `x.Float64()` for `mbits = 52, emin = -1022, emax = 1023`; `x.Float32()` for
`23, -126, 127`.  Follows the Go control flow: `e := x.exp - 1`; reduced
precision `p` below the normal range; underflow to ±0 for `p < 0` or `p == 0`
with mantissa exactly 0.5; smallest denormal for the rest of `p == 0`; else
round to `p` bits and overflow when the rounded exponent exceeds `emax`. -/
def toIEEE (mbits : Nat) (emin emax : Int) : Num → Num × Bool
  | .inf n => (.inf n, true)
  | .fin n m0 e0 _ =>
    let me := norm m0 e0
    let m := me.1
    let e := me.2
    if m = 0 then (.fin n 0 0 fprec, true)
    else
      let en : Int := e + (bitlen m : Int) - 1
      let p : Int := if en < emin then (mbits : Int) + 1 - emin + en else (mbits : Int) + 1
      if p < 0 ∨ (p = 0 ∧ m = 1) then (.fin n 0 0 fprec, false)
      else if p = 0 then (.fin n 1 (emin - (mbits : Int)) fprec, false)
      else
        let r := roundME m e p.toNat
        let en' : Int := r.2 + (bitlen r.1 : Int) - 1
        if en' > emax then (.inf n, false)
        else (mk n r.1 r.2 fprec, decide (bitlen m ≤ p.toNat))

/-- `bf.Float64()`: value and `accuracy == big.Exact` -/
def toF64 (x : Num) : Num × Bool := toIEEE 52 (-1022) 1023 x

/-- `bf.Float32()` (not used by gocty; the reference for what narrowing ought to check) -/
def toF32 (x : Num) : Num × Bool := toIEEE 23 (-126) 127 x

/-- Go's `float32(f)` for a float64 `f` (what `reflect.Value.SetFloat` does for a
float32 target): IEEE round-to-nearest-even, silently overflowing to ±Inf -/
def f64to32 (x : Num) : Num := (toF32 x).1

/-- is `x` (exactly) a float64 / float32 value in the harness' canonical form? -/
def isF64 (x : Num) : Bool :=
  match x with
  | .inf _ => true
  | .fin _ _ _ p => p == fprec && (toF64 x).2 && (toF64 x).1 == x
def isF32 (x : Num) : Bool :=
  match x with
  | .inf _ => true
  | .fin _ _ _ p => p == fprec && (toF32 x).2 && (toF32 x).1 == x

end Num
end CtyModel
