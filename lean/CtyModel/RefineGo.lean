/-
The Lean side of the Go→Lean translation of cty/unknown_refinement.go done by
`extract/translate_rfn.go` (output: `Generated/RefineFns.lean`, property C05).

The translator rewrites the bodies of `Value.Refine`, the `RefinementBuilder`
methods, `NewValue` and the methods of the four refinement structs.  What it cannot
take from the source is *how a Go value of package cty is read as a model value*
and *what the untranslated callees do*; both are fixed here, once (the GIVEN API —
every definition of this file is part of the trusted reading, none is generated):

* a `cty.Value` is a `GoVal`: a model `Value`, or one of the values the builder
  tells apart by Go's `==` (pointer identity, not representable in `Value`):
  `cty.NilVal`, `cty.NegativeInfinity`, `cty.PositiveInfinity`;
* `*RefinementBuilder` is `Refine.Builder`; the interface `unknownValRefinement`
  is `Rfn` (`nil` = `.unref`), its four implementations are the four other
  constructors; the fields `min`/`minInc` (`max`/`maxInc`) of `refinementNumber`
  are read off the `Option Bound` (`boundVal`, `boundInc`) and written back with
  `mkBound` (`cty.NilVal` = no bound);  `tristateBool` is `Tri`; `int` is `Int`;
  a Go `string` is a `String`, a slice of one its byte list; `[]Value` is
  `List GoVal`; `ValueMarks` is the sorted list of mark names;
* pointers to refinement structs are read as the struct's current value (the
  alias `wip := b.wip.(*refinementX)` is tracked by the translator); sharing between a
  builder and a finished value is the subject of C20, not of this translation;
* the operations of `Value` the builder calls (`GreaterThan`, `LessThan`,
  `GreaterThanOrEqualTo`, `LessThanOrEqualTo`, `Equals`, `Length`, `AsString`,
  `WithMarks`, `Unmark`, `RawEquals`, the constructors) are NOT translated: they are
  the functions below, written in the vocabulary of the hand-written model
  (`Refine.gt`, `lt`, `ge?`, `le?`, `numEq?`, `origUpper`, `origLower`,
  `knownLength`), defined on the operand shapes the builder can present and
  `Res.unmodelled` elsewhere;  `cty.NormalizeString` and
  `ctystrings.SafeKnownPrefix` are parameters (`class Strings`), the equality of
  numbers is the model's parameter `Refine.EqOracle`.

Core only (imported by the generated file).
-/
import CtyModel.Refine
import CtyModel.TyGo
namespace CtyModel
namespace RefineGo
open Refine

/-- a Go `cty.Value` as the refinement builder can tell values apart -/
inductive GoVal where
  | nilVal                 -- cty.NilVal, the zero Value
  | negInf | posInf        -- the singletons cty.NegativeInfinity / cty.PositiveInfinity
  | v (x : Value)          -- any other value
  deriving Repr, Inhabited, BEq

/-- the external string functions: `cty.NormalizeString`, `ctystrings.SafeKnownPrefix` -/
class Strings where
  normalizeString : String → String
  safeKnownPrefix : String → String

/-- the model value a Go value is, if it is one -/
def toValue? : GoVal → Option Value
  | .nilVal => none
  | .negInf => some ⟨.number, .n (.inf true)⟩
  | .posInf => some ⟨.number, .n (.inf false)⟩
  | .v x => some x

/-- storing a Go value in a field of the model's `Builder` -/
def toValue (g : GoVal) : Res Value := optRes (toValue? g)

/-- the number a known, non-null number value is -/
def num? : GoVal → Option Num
  | .negInf => some (.inf true)
  | .posInf => some (.inf false)
  | .v x => match x.v with
    | .n m => some m
    | _ => none
  | .nilVal => none

/-! ### comparisons with the named values of package cty (Go `==` on `Value`) -/
def isNilVal : GoVal → Bool
  | .nilVal => true
  | _ => false
def isNegInf : GoVal → Bool
  | .negInf => true
  | _ => false
def isPosInf : GoVal → Bool
  | .posInf => true
  | _ => false
/-- `g == cty.DynamicVal` -/
def isDynamicVal : GoVal → Bool
  | .v x => isDynVal x
  | _ => false

/-- `r == nil` for an `unknownValRefinement` -/
def isNil : Rfn → Bool
  | .unref => true
  | _ => false

/-! ### observers -/

/-- `v.IsKnown()` (`cty.NilVal.IsKnown()` is true) -/
def isKnown : GoVal → Bool
  | .v x => x.isKnown
  | _ => true

/-- `v.IsNull()` (`cty.NilVal.IsNull()` is true) -/
def isNull : GoVal → Bool
  | .nilVal => true
  | .v x => x.isNull
  | _ => false

/-- `v.Type()`, `v.ty` -/
def typeOf (g : GoVal) : Res Ty :=
  match toValue? g with
  | some x => .ok x.ty
  | none => .unmodelled

/-- `v.Unmark()`.  Values the well-formedness rules exclude (two marker layers, a
payload of a kind the type cannot have) are not modelled. -/
def unmark (g : GoVal) : Res (GoVal × List String) :=
  match g with
  | .v x =>
    match x.unmark.v with
    | .marked _ _ => .unmodelled
    | .bad _ => .unmodelled
    | _ => .ok (.v x.unmark, x.marks)
  | .nilVal => .unmodelled
  | g => .ok (g, [])

/-- `unk, isUnk := v.v.(*unknownType)`; `unk.refinement` -/
def unknownRefinement : GoVal → Option Rfn
  | .v x => match x.v with
    | .unk r => some r
    | _ => none
  | _ => none

/-- `v.WithMarks(marks)` -/
def withMarks (g : GoVal) (ms : List String) : Res GoVal :=
  match toValue? g with
  | some x => .ok (.v (x.withMarks ms))
  | none => .unmodelled

/-- `v.AsString()` -/
def asString : GoVal → Res String
  | .v x => match x.v with
    | .s s => .ok s
    | _ => .unmodelled
  | _ => .unmodelled

/-! ### constructors -/
def boolVal (t : Bool) : GoVal := .v ⟨.bool, .b t⟩
/-- the result of an operation on an unknown operand: `UnknownVal(Bool).RefineNotNull()` -/
def unknownBool : GoVal := .v ⟨.bool, .unk (.nullable .f)⟩
/-- `cty.NumberIntVal(i)` -/
def numberIntVal (i : Int) : GoVal := .v ⟨.number, .n (Num.ofInt i)⟩
/-- `cty.NullVal(t)` -/
def nullVal (t : Ty) : GoVal := .v (Value.null t)
/-- `cty.UnknownVal(t)` -/
def unknownVal (t : Ty) : GoVal := .v (Value.unknown t)
/-- `Value{ty: t, v: &unknownType{refinement: r}}` -/
def unknownWith (t : Ty) (r : Rfn) : GoVal := .v ⟨t, .unk r⟩
def listValEmpty (e : Ty) : GoVal := .v ⟨.list e, .seq []⟩
def setValEmpty (e : Ty) : GoVal := .v ⟨.set e, .sset [] []⟩
def mapValEmpty (e : Ty) : GoVal := .v ⟨.map e, .smap [] []⟩

/-- all elements as model values -/
def toValues : List GoVal → Option (List Value)
  | [] => some []
  | g :: gs =>
    match toValue? g, toValues gs with
    | some x, some xs => some (x :: xs)
    | _, _ => none

/-- `cty.ListVal(vals)`.  The element type is the first element's (the panic of
`ListVal` on inconsistent element types is not modelled: the builder passes copies
of one value). -/
def listVal (vs : List GoVal) : Res GoVal :=
  match toValues vs with
  | none => .unmodelled
  | some [] => .panic "must not call ListVal with empty slice"
  | some (x :: xs) => .ok (.v ⟨.list x.ty, .seq ((x :: xs).map (·.v))⟩)

/-- `cty.SetVal(vals)`, modelled for the one shape the builder constructs: a single
unrefined unknown element (bucket = CRC-32 of "?") -/
def setVal (vs : List GoVal) : Res GoVal :=
  match vs with
  | [] => .panic "must not call SetVal with empty slice"
  | [.v x] => match x.v with
    | .unk .unref => .ok (.v ⟨.set x.ty, .sset [unknownBucket] [.unk .unref]⟩)
    | _ => .unmodelled
  | _ => .unmodelled

/-! ### `Value` comparisons, as the hand-written model states them

The left operand is always a known, non-null number in the builder (a bound, a
recorded bound, `NumberIntVal`); the right operand is the value being refined
(known number, null, unknown with a range), a recorded bound, or a length. -/
section Cmp
variable [EqOracle]

/-- `a.GreaterThan(b)`: for an unknown `b`, the range short-cuts of `GreaterThan` -/
def greaterThan (a b : GoVal) : Res GoVal :=
  match num? a with
  | none => .unmodelled
  | some m =>
    match b with
    | .nilVal => .unmodelled
    | .negInf => .ok (boolVal (gt m (.inf true)))
    | .posInf => .ok (boolVal (gt m (.inf false)))
    | .v x =>
      match x.v with
      | .n y => .ok (boolVal (gt m y))
      | .null => .panic "nil *big.Float"
      | .unk r0 => .ok (if gt m (origUpper r0) then boolVal true else if lt m (origLower r0) then boolVal false else unknownBool)
      | _ => .unmodelled

/-- `a.LessThan(b)` -/
def lessThan (a b : GoVal) : Res GoVal :=
  match num? a with
  | none => .unmodelled
  | some m =>
    match b with
    | .nilVal => .unmodelled
    | .negInf => .ok (boolVal (lt m (.inf true)))
    | .posInf => .ok (boolVal (lt m (.inf false)))
    | .v x =>
      match x.v with
      | .n y => .ok (boolVal (lt m y))
      | .null => .panic "nil *big.Float"
      | .unk r0 => .ok (if lt m (origLower r0) then boolVal true else if gt m (origUpper r0) then boolVal false else unknownBool)
      | _ => .unmodelled

/-- `a.GreaterThanOrEqualTo(b)` = `a.GreaterThan(b).Or(a.Equals(b))`; no answer of the
equality oracle = `.unmodelled` -/
def greaterThanOrEqualTo (a b : GoVal) : Res GoVal :=
  match num? a with
  | none => .unmodelled
  | some m =>
    match b with
    | .nilVal => .unmodelled
    | .negInf => optRes ((ge? m (.inf true)).map boolVal)
    | .posInf => optRes ((ge? m (.inf false)).map boolVal)
    | .v x =>
      match x.v with
      | .n y => optRes ((ge? m y).map boolVal)
      | .null => .panic "nil *big.Float"
      | .unk r0 => .ok (if gt m (origUpper r0) then boolVal true else unknownBool)
      | _ => .unmodelled

/-- `a.LessThanOrEqualTo(b)` = `a.LessThan(b).Or(a.Equals(b))` -/
def lessThanOrEqualTo (a b : GoVal) : Res GoVal :=
  match num? a with
  | none => .unmodelled
  | some m =>
    match b with
    | .nilVal => .unmodelled
    | .negInf => optRes ((le? m (.inf true)).map boolVal)
    | .posInf => optRes ((le? m (.inf false)).map boolVal)
    | .v x =>
      match x.v with
      | .n y => optRes ((le? m y).map boolVal)
      | .null => .panic "nil *big.Float"
      | .unk r0 => .ok (if lt m (origLower r0) then boolVal true else unknownBool)
      | _ => .unmodelled

/-- `a.Equals(b)` for two known, non-null numbers -/
def equals (a b : GoVal) : Res GoVal :=
  match num? a, num? b with
  | some m, some y => optRes ((numEq? m y).map boolVal)
  | _, _ => .unmodelled

end Cmp

/-- `r.True()`: panics on an unknown (or null) value -/
def isTrue : GoVal → Res Bool
  | .v x => match x.v with
    | .b t => .ok t
    | .unk _ => .panic "value is not known"
    | .null => .panic "value is null"
    | _ => .unmodelled
  | _ => .unmodelled

/-- `r.False()` -/
def isFalse : GoVal → Res Bool
  | .v x => match x.v with
    | .b t => .ok (!t)
    | .unk _ => .panic "value is not known"
    | .null => .panic "value is null"
    | _ => .unmodelled
  | _ => .unmodelled

/-- `v.Length()` of a known collection: exact, except for a set with several members
of which some are unknown — an unknown number refined to `1 ≤ n ≤ stored members`
(`Refine.knownLength`) -/
def length : GoVal → Res GoVal
  | .v x =>
    match knownLength x with
    | .ok (least, most) =>
      if least = most then .ok (numberIntVal most)
      else .ok (.v ⟨.number, .unk (.num .f (some ⟨Num.ofInt least, true⟩) (some ⟨Num.ofInt most, true⟩))⟩)
    | .err e => .err e
    | .panic w => .panic w
    | .unmodelled => .unmodelled
  | _ => .unmodelled

/-- `a.RawEquals(b)` on recorded bounds: `cty.NilVal` equals only itself, two numbers
are compared by `rawNumberEqual` -/
def rawEquals (a b : GoVal) : Res Bool :=
  match a, b with
  | .nilVal, .nilVal => .ok true
  | .nilVal, _ => .ok false
  | _, .nilVal => .ok false
  | a, b =>
    match num? a, num? b with
    | some m, some y => .ok (Num.rawEqual m y)
    | _, _ => .unmodelled

/-! ### `refinementNumber`'s bound fields -/

/-- the field `min` / `max` -/
def boundVal : Option Bound → GoVal
  | none => .nilVal
  | some b => .v ⟨.number, .n b.v⟩

/-- the field `minInc` / `maxInc` (false next to an absent bound) -/
def boundInc : Option Bound → Bool
  | none => false
  | some b => b.incl

/-- the pair of fields as the model stores it; a non-number or an inclusive absent
bound has no representation -/
def mkBound (g : GoVal) (inc : Bool) : Res (Option Bound) :=
  match g with
  | .nilVal => if inc then .unmodelled else .ok none
  | g => match num? g with
    | some m => .ok (some ⟨m, inc⟩)
    | none => .unmodelled

/-! ### types -/
def isListType : Ty → Bool
  | .list _ => true
  | _ => false
def isSetType : Ty → Bool
  | .set _ => true
  | _ => false
def isMapType : Ty → Bool
  | .map _ => true
  | _ => false
def isObjectType : Ty → Bool
  | .object _ _ _ => true
  | _ => false
def isTupleType : Ty → Bool
  | .tuple _ => true
  | _ => false
def isCapsuleType : Ty → Bool
  | .capsule _ => true
  | _ => false
def isString : Ty → Bool
  | .string => true
  | _ => false
def isNumber : Ty → Bool
  | .number => true
  | _ => false
def isBool : Ty → Bool
  | .bool => true
  | _ => false

/-! ### Go strings and slices -/

/-- `len(s)` -/
def strLen (s : String) : Int := (bytes s).length

/-- `s[:n]` -/
def strTake (s : String) (n : Int) : Res (List UInt8) :=
  if 0 ≤ n ∧ n ≤ strLen s then .ok ((bytes s).take n.toNat) else .panic "slice bounds out of range"

/-- `strings.HasPrefix(s, p)` -/
def hasPrefix (s p : String) : Bool := (bytes p).isPrefixOf (bytes s)

/-- `make([]Value, n)` -/
def makeSlice (n : Int) : Res (List GoVal) :=
  if n < 0 then .panic "makeslice: len out of range" else .ok (List.replicate n.toNat .nilVal)

/-- `xs[i] = v` -/
def sliceSet (xs : List GoVal) (i : Int) (v : GoVal) : Res (List GoVal) :=
  if 0 ≤ i ∧ i.toNat < xs.length then .ok (xs.set i.toNat v) else .panic "index out of range"

/-! ### the tie's vocabulary: the Go value of a call argument of the hand-written model -/
def ofArg : NumArg → GoVal
  | .known m => .v ⟨.number, .n m⟩
  | .negInf => .negInf
  | .posInf => .posInf
  | .unknown => .v ⟨.number, .unk .unref⟩
  | .null => .v ⟨.number, .null⟩

end RefineGo
end CtyModel
