/-
Operation methods, continued: arithmetic (with range arithmetic on refined
unknowns), attribute / index / membership / length operations.
-/
import CtyModel.Ops
namespace CtyModel

namespace Num
/-- `z.Add(a, b)` for a receiver of fixed non-zero precision `p` -/
def addP (a b : Num) (p : Nat) : Res Num :=
  match add a b with
  | .ok (.fin n m e _) => .ok (round n m e p)
  | r => r
/-- `z.Mul(a, b)` for a receiver of fixed non-zero precision `p` -/
def mulP (a b : Num) (p : Nat) : Res Num :=
  match a, b with
  | .inf na, .fin nb mb _ _ => if mb = 0 then .panic "ErrNaN" else .ok (.inf (na != nb))
  | .fin na ma _ _, .inf nb => if ma = 0 then .panic "ErrNaN" else .ok (.inf (na != nb))
  | .inf na, .inf nb => .ok (.inf (na != nb))
  | .fin na ma ea _, .fin nb mb eb _ => .ok (round (na != nb) (ma * mb) (ea + eb) p)
/-- `z.SetInt(i)` for a receiver of precision `p` (0 → max(bitlen, 64)) -/
def setIntP (i : Int) (p : Nat) : Num :=
  let p' := if p = 0 then max (bitlen i.natAbs) 64 else p
  round (i < 0) i.natAbs 0 p'
end Num

namespace Value

/-- result of `UnknownVal(Number).Refine()…NumberRangeLowerBound(lo,true)
.NumberRangeUpperBound(hi,true)` followed by `RefineNotNull()`: collapses to the
known bound when both bounds are present and equal -/
def numRangeResult (lo hi : Option Num) : Value :=
  match lo, hi with
  | some l, some h =>
    if Num.rawEqual l h then numVal l
    else ⟨.number, .unk (.num .f (some ⟨l, true⟩) (some ⟨h, true⟩))⟩
  | _, _ => ⟨.number, .unk (.num .f (lo.map (⟨·, true⟩)) (hi.map (⟨·, true⟩)))⟩

/-- `mostNumberValue` over the four corner results; `none` = unknown -/
def mostOf (better : Num → Num → Bool) : List (Option Num) → Option Num
  | [] => none
  | none :: _ => none
  | some v :: rest =>
    rest.foldl (fun acc x => match acc, x with
      | some r, some v => some (if better v r then v else r)
      | _, _ => none) (some v)

/-- `wrapOp(op)(x, y)` of `numericRangeArithmetic` on two bounds; `none` stands for
`UnknownVal(Number)`, both as an operand (the bound of a dynamically typed operand)
and as the answer (a panic of `op` is caught and becomes an unknown number).  For
Add and Subtract a call on an unknown bound short-circuits to an unknown number
again, whatever the other bound is. -/
def cornerPlain (op : Num → Num → Res Num) (x y : Option Num) : Option Num :=
  match x, y with
  | some x, some y => (match op x y with | .ok r => some r | _ => none)
  | _, _ => none

/-- `numericRangeArithmetic(op, a, b)` applied to an unrefined unknown number,
then `RefineNotNull()`; `corner` is `wrapOp(op)` on two bounds -/
def rangeArithC (corner : Option Num → Option Num → Option Num) (a b : Value) : Res Value := do
  let ra ← a.range
  let rb ← b.range
  let aMin ← ra.numLower
  let aMax ← ra.numUpper
  let bMin ← rb.numLower
  let bMax ← rb.numUpper
  let cs := [corner aMin bMin, corner aMin bMax, corner aMax bMin, corner aMax bMax]
  let newMin := mostOf (fun v r => Num.cmp v r < 0) cs
  let newMax := mostOf (fun v r => Num.cmp v r > 0) cs
  let lo := match newMin with
    | some m => if Num.rawEqual m (.inf true) then none else some m
    | none => none
  let hi := match newMax with
    | some m => if Num.rawEqual m (.inf false) then none else some m
    | none => none
  pure (numRangeResult lo hi)

def rangeArith (op : Num → Num → Res Num) (a b : Value) : Res Value := rangeArithC (cornerPlain op) a b

def unkNumNotNull : Value := ⟨.number, .unk (.num .f none none)⟩

def addU (a b : Value) : Res Value := do
  match ← typeCheck .number [a, b] with
  | .none => pure (numVal (← Num.add (← asNum a) (← asNum b)))
  | _ => rangeArith Num.add a b
def add := binMarks addU

def negU (a : Value) : Res Value := do
  match ← typeCheck .number [a] with
  | .none => pure (numVal (Num.neg (← asNum a)))
  | _ => pure unkNumNotNull
def neg := unMarks negU

def subU (a b : Value) : Res Value := do
  match ← typeCheck .number [a, b] with
  | .none => pure (numVal (← Num.sub (← asNum a) (← asNum b)))
  | _ => rangeArith Num.sub a b
def sub := binMarks subU

/-- `v.RawEquals(cty.Zero)` for an unmarked operand: same type (so not the dynamic
pseudo-type), known, not null, and a number of sign 0 (`rawNumberEqual` compares
`Sign()` first, so either zero at any precision) -/
def rawEqualsZero (v : Value) : Bool :=
  v.ty.isNumber && (match v.v with | .n x => x.isZero | _ => false)

/-- `cty.Zero` = `big.NewFloat(0)`: a positive zero at precision 53 -/
def zeroNum : Num := .fin false 0 0 53
def zeroVal : Value := ⟨.number, .n zeroNum⟩

/-- `wrapOp(Value.Multiply)(x, y)` on two bounds (`none` = `UnknownVal(Number)`): with
an unknown bound the inner call is itself a short circuit and takes Multiply's zero
exit when the other bound is a zero (`other.RawEquals(Zero)`); otherwise it answers
an unknown number -/
def cornerMul (x y : Option Num) : Option Num :=
  match x, y with
  | some x, some y => (match Num.mulCty x y with | .ok r => some r | _ => none)
  | some x, none => if x.isZero then some zeroNum else none
  | none, some y => if y.isZero then some zeroNum else none
  | none, none => none

/-- Multiply. On a short circuit (an unknown or dynamically typed operand):
`if val.RawEquals(Zero) || other.RawEquals(Zero) { return Zero }` before the range
arithmetic (/repo 6d2fa5e; it was the pointer comparison `val == Zero` before, which
no harness case could take).  The corner products of the range arithmetic are
calls of this same method on the bounds: `cornerMul`. -/
def mulU (a b : Value) : Res Value := do
  match ← typeCheck .number [a, b] with
  | .none => pure (numVal (← Num.mulCty (← asNum a) (← asNum b)))
  | _ => if rawEqualsZero a || rawEqualsZero b then pure zeroVal else rangeArithC cornerMul a b
def mul := binMarks mulU

def divU (a b : Value) : Res Value := do
  match ← typeCheck .number [a, b] with
  | .none => pure (numVal (← Num.quo (← asNum a) (← asNum b)))
  | _ => pure unkNumNotNull
def div := binMarks divU

/-- Modulo; `val.RawEquals(PositiveInfinity) || …` (/repo 572b8ba; pointer
comparisons with the package-level infinities before): any infinite number -/
def modU (a b : Value) : Res Value := do
  match ← typeCheck .number [a, b] with
  | .none =>
    let isInfP := fun (p : Payload) => match p with | .n x => x.isInf | _ => false
    let isZeroP := fun (p : Payload) => match p with | .n x => x.isZero | _ => false
    if isInfP a.v || isInfP b.v then pure (numVal (← Num.mulCty (← asNum a) (← asNum b)))
    else if isZeroP b.v then pure a          -- other.RawEquals(Zero), before val's payload is touched
    else
      let x ← asNum a
      let y ← asNum b
      let rat ← Num.quo x y
      match rat.truncInt with
      | none => .panic "Int of Inf"
      | some q =>
        let w := Num.setIntP q x.prec
        let w ← Num.mulP y w w.prec
        let w ← Num.addP x (Num.neg w) w.prec
        pure (numVal w)
  | _ => pure unkNumNotNull
def mod := binMarks modU

def absU (a : Value) : Res Value := do
  match ← typeCheck .number [a] with
  | .none => pure (numVal (Num.abs (← asNum a)))
  | _ => pure ⟨.number, .unk (.num .f (some ⟨.fin false 0 0 53, true⟩) none)⟩  -- cty.Zero = NumberFloatVal(0)? no: 53-bit zero
def abs := unMarks absU

/-! ### GetAttr / Index / HasIndex / Length / HasElement -/

def getAttrU (v : Value) (name : String) : Res Value :=
  if v.ty.isDyn then .ok dynVal else
  match v.ty with
  | .object ns ts os =>
    match Ty.find name ns ts os with
    | none => .panic "no attribute"
    | some (aty, _) =>
      if !v.isKnown then .ok (unknown aty)
      else match v.v with
        | .smap ks vs =>
          match lookupKey name ks vs with
          | some p => .ok ⟨aty, p⟩
          | none => .ok ⟨aty, .null⟩          -- missing map entry reads as nil interface
        | _ => .panic "payload is not a map"
  | _ => .panic "not an object"
def getAttr (v : Value) (name : String) : Res Value :=
  if v.isMarked then (getAttrU v.unmark name).map (·.withMarks v.marks) else getAttrU v name

/-- `key.v.(*big.Float).Int64()` exact and non-negative -/
def keyIndex (k : Value) : Res (Option Nat) :=
  match k.v with
  | .n x =>
    match x.toInt? with
    | some i => .ok (if i < 0 || i > maxInt then none else some i.toNat)
    | none => .ok none
  | _ => .panic "key payload is not a number"

def indexU (v k : Value) : Res Value :=
  if v.ty.isDyn then .ok dynVal else
  match v.ty with
  | .list e =>
    if k.ty.isDyn then .ok (unknown e)
    else if !k.ty.isNumber then .panic "list key must be number"
    else if !k.isKnown then .ok (unknown e)
    else if !v.isKnown then .ok (unknown e)
    else do
      match ← keyIndex k with
      | none => .panic "list index must be non-negative integer"
      | some i =>
        match v.v with
        | .seq vs => (match vs[i]? with | some p => .ok ⟨e, p⟩ | none => .panic "index out of range")
        | _ => .panic "payload is not a slice"
  | .map e =>
    if k.ty.isDyn then .ok (unknown e)
    else if !k.ty.isString then .panic "map key must be string"
    else if !k.isKnown then .ok (unknown e)
    else if !v.isKnown then .ok (unknown e)
    else match k.v, v.v with
      | .s key, .smap ks vs => .ok ⟨e, (lookupKey key ks vs).getD .null⟩
      | _, _ => .panic "payload mismatch"
  | .tuple es =>
    if k.ty.isDyn then .ok dynVal
    else if !k.ty.isNumber then .panic "tuple key must be number"
    else if !k.isKnown then .ok dynVal
    else do
      match ← keyIndex k with
      | none => .panic "tuple index must be non-negative integer"
      | some i =>
        match es[i]? with
        | none => .panic "index out of range"
        | some ety =>
          if !v.isKnown then .ok (unknown ety)
          else match v.v with
            | .seq vs => (match vs[i]? with | some p => .ok ⟨ety, p⟩ | none => .panic "index out of range")
            | _ => .panic "payload is not a slice"
  | _ => .panic "not a list, map, or tuple type"
def index := binMarks indexU

def hasIndexU (v k : Value) : Res Value :=
  if v.ty.isDyn then .ok unkBool else
  match v.ty with
  | .list _ =>
    if k.ty.isDyn then .ok unkBool
    else if !k.ty.isNumber then .ok (boolVal false)
    else if !k.isKnown then .ok unkBool
    else if !v.isKnown then .ok unkBool
    else do
      match ← keyIndex k with
      | none => pure (boolVal false)
      | some i =>
        match v.v with
        | .seq vs => pure (boolVal (i < vs.length))
        | _ => .panic "payload is not a slice"
  | .map _ =>
    if k.ty.isDyn then .ok unkBool
    else if !k.ty.isString then .ok (boolVal false)
    else if !k.isKnown then .ok unkBool
    else if !v.isKnown then .ok unkBool
    else match k.v, v.v with
      | .s key, .smap ks _ => .ok (boolVal (ks.contains key))
      | _, _ => .panic "payload mismatch"
  | .tuple es =>
    if k.ty.isDyn then .ok unkBool
    else if !k.ty.isNumber then .ok (boolVal false)
    else if !k.isKnown then .ok unkBool
    else do
      match ← keyIndex k with
      | none => pure (boolVal false)
      | some i => pure (boolVal (i < es.length))
  | _ => .panic "not a list, map, or tuple type"
def hasIndex := binMarks hasIndexU

def lengthU (v : Value) : Res Value :=
  match v.ty with
  | .tuple es => .ok (intVal es.length)
  | .object ns _ _ => .ok (intVal ns.length)
  | _ =>
    if !v.isKnown then do
      let r ← v.range
      let lo ← r.lenLower
      let hi ← r.lenUpper
      pure (numRangeResult (some (Num.ofInt lo 64)) (some (Num.ofInt hi 64)))
    else match v.ty, v.v with
      | .set _, .sset _ vs =>
        if vs.length == 1 || Payload.whollyKnownL vs then .ok (intVal vs.length)
        else .ok (numRangeResult (some (Num.ofInt 1 64)) (some (Num.ofInt vs.length 64)))
      | .object ns _ _, _ => .ok (intVal ns.length)
      | _, .null => .panic "value is null"
      | .list _, .seq vs => .ok (intVal vs.length)
      | .map _, .smap _ vs => .ok (intVal vs.length)
      | _, _ => .panic "value is not a collection"
def length := unMarks lengthU

/-- HasElement; `elemHash` is the implementation's hash of the needle (`none`
when hashing it panics, e.g. because marks are nested inside it) -/
def hasElementU (v elem : Value) (elemHash : Option Int) : Res Value :=
  if v.isNull then .panic "HasElement on null" else
  if !v.isKnown then .ok unkBool else
  let early : Bool := match v.ty with
    | .set e => !elem.ty.isDyn && !e.isDyn && !(elem.ty.equals e)
    | _ => false
  if early then .ok (boolVal false) else
  match v.ty with
  | .set e =>
    if !elem.isKnown then .ok unkBool
    else
      let noMatch := if v.whollyKnown then boolVal false else unkBool
      if !(e.equals elem.ty) then .ok (boolVal false)
      else match v.v, elemHash with
        | .sset ids vs, some h =>
          (setHas equalsP e h elem.v ids vs).map fun found => if found then boolVal true else noMatch
        | .sset _ _, none => .panic "hash of needle panics"
        | _, _ => .panic "payload is not a set"
  | _ => .panic "not a set type"
def hasElement (v elem : Value) (elemHash : Option Int) : Res Value :=
  if v.isMarked || elem.containsMarked then
    (hasElementU v.unmark elem.unmarkDeep elemHash).map (·.withMarks (unionMarks v.marks elem.marksDeep))
  else hasElementU v elem elemHash

/-! ### LessThanOrEqualTo / GreaterThanOrEqualTo: `LessThan(other).Or(Equals(other))` -/
def lessThanOrEqualTo (a b : Value) : Res Value := do
  let l ← lessThan a b
  let e ← equals a b
  or l e
def greaterThanOrEqualTo (a b : Value) : Res Value := do
  let g ← greaterThan a b
  let e ← equals a b
  or g e

/-- NotEqual: `Equals(other).Not()` -/
def notEqual (a b : Value) : Res Value := do
  let e ← equals a b
  «not» e

end Value
end CtyModel
