/-
Specification vocabulary for the value half of C03 (statements only; the
transliterations they speak about are in `Ops.lean` and `SetRules.lean`).
-/
import CtyModel.SetRules
namespace CtyModel

/-- `rawNumberEqual` with the decimal text function left open: what the Go code
computes with `text := Text('f', -1)` (`Num.rawEqual = rawEqualWith Num.textF`). -/
def Num.rawEqualWith (text : Num → String) (a b : Num) : Bool :=
  if a.sign != b.sign then false
  else
    let ai := a.isInt
    let bi := b.isInt
    if ai != bi then false
    else if ai then a.truncInt == b.truncInt
    else
      let fix := fun s => if s == "-0" then "0" else s
      fix (text a) == fix (text b)

mutual
/-- no set type and no capsule type occurs (the frontier of the value theorems) -/
def Ty.plain : Ty → Bool
  | .set _ => false
  | .capsule _ => false
  | .list e => Ty.plain e
  | .map e => Ty.plain e
  | .tuple ts => Ty.plainL ts
  | .object _ ts _ => Ty.plainL ts
  | _ => true
def Ty.plainL : List Ty → Bool
  | [] => true
  | t :: ts => Ty.plain t && Ty.plainL ts
end

/-- the refinement struct the type dictates (`cty/unknown_refinement.go`:
`refinementString` for strings, `refinementNumber` for numbers,
`refinementCollection` for lists, sets and maps, `refinementNullable` otherwise) -/
def Rfn.fits : Ty → Rfn → Bool
  | _, .unref => true
  | _, .nullable _ => true
  | .string, .str _ _ => true
  | .number, .num _ _ _ => true
  | .list _, .coll _ _ _ => true
  | .set _, .coll _ _ _ => true
  | .map _, .coll _ _ _ => true
  | _, _ => false

mutual
/-- the payload is one the type can have (`Value` well-formedness, shape part):
the Go kind the type dictates at every level, tuple lengths and object keys as
in the type, map keys strictly ascending, at most one marker layer per node with
a non-empty mark set; `null` and unknown (with the refinement kind of the type) anywhere -/
def Payload.shaped : Ty → Payload → Bool
  | _, .null => true
  | t, .unk r => r.fits t
  | t, .marked ms r => !ms.isEmpty && !r.isMarked && Payload.shaped t r
  | t, .b _ => t.isBool
  | t, .n _ => t.isNumber
  | t, .s _ => t.isString
  | t, .seq vs =>
    match t with
    | .list e => Payload.shapedAll e vs
    | .tuple ts => Payload.shapedZip ts vs
    | _ => false
  | t, .smap ks vs =>
    match t with
    | .map e => ks.length == vs.length && Ty.strictAsc ks && Payload.shapedAll e vs
    | .object ns ts _ => decide (ks = ns) && Payload.shapedZip ts vs
    | _ => false
  | t, .sset ids vs =>
    match t with
    | .set e => ids.length == vs.length && Payload.shapedAll e vs
    | _ => false
  | t, .caps =>
    match t with
    | .capsule _ => true
    | _ => false
  | _, .bad _ => false
def Payload.shapedAll : Ty → List Payload → Bool
  | _, [] => true
  | e, v :: vs => Payload.shaped e v && Payload.shapedAll e vs
def Payload.shapedZip : List Ty → List Payload → Bool
  | [], [] => true
  | t :: ts, v :: vs => Payload.shaped t v && Payload.shapedZip ts vs
  | _, _ => false
end

/-- a well-formed value: well-formed type, payload of that type -/
def Value.shaped (v : Value) : Bool := v.ty.wf && v.v.shaped v.ty

mutual
/-- every number leaf of the payload is one of `ns` -/
def Payload.numsIn (ns : List Num) : Payload → Bool
  | .n x => ns.any fun y => decide (y = x)
  | .marked _ r => Payload.numsIn ns r
  | .seq vs => Payload.numsInL ns vs
  | .smap _ vs => Payload.numsInL ns vs
  | .sset _ vs => Payload.numsInL ns vs
  | _ => true
def Payload.numsInL (ns : List Num) : List Payload → Bool
  | [] => true
  | v :: vs => Payload.numsIn ns v && Payload.numsInL ns vs
end

/-- The side condition of `cty_rules_lawful_partial`: among the numbers `ns` that
may occur in set members, equality and the hashed text agree
(`rawNumberEqual x y → numHashText x = numHashText y`).  Decidable; false e.g. of
`[float64 3.9477794105, parse "3.9477794105"]`. -/
def HashCoherentNums (ns : List Num) : Bool :=
  ns.all fun x => ns.all fun y => !Num.rawEqual x y || numHashText x == numHashText y

/-- what `cty_rules_lawful_partial` admits as a set member of element type `e`:
well-formed, wholly known, no mark at any depth, numbers drawn from `ns` -/
def Payload.member (e : Ty) (ns : List Num) (p : Payload) : Bool :=
  p.shaped e && p.whollyKnown && !p.containsMarked && p.numsIn ns

end CtyModel

namespace CtyModel

/-! ### specification layer for `RawEquals` (L2)

`rawB t a b` is `Value{t,a}.RawEquals(Value{t,b})` written for proof: a total
Boolean function by structural recursion, no failure cases, no parameter for
nested sets.  `rawK_eq_rawB` (Lemmas/ValEqRaw) shows that the transliteration
`rawK` computes `.ok (rawB t a b)` on well-formed values of a plain type. -/
mutual
def rawB : Ty → Payload → Payload → Bool
  | t, .marked m p, q =>
    match q with
    | .marked m' q' => m == m' && rawB t p q'
    | _ => false
  | _, .unk r, q =>
    match q with
    | .unk r' => rfnRawEq r r'
    | _ => false
  | _, .null, q =>
    match q with
    | .null => true
    | _ => false
  | _, .b x, q =>
    match q with
    | .b y => x == y
    | _ => false
  | _, .n x, q =>
    match q with
    | .n y => Num.rawEqual x y
    | _ => false
  | _, .s x, q =>
    match q with
    | .s y => x == y
    | _ => false
  | t, .seq xs, q =>
    match t, q with
    | .list e, .seq ys => xs.length == ys.length && rawBAll e xs ys
    | .tuple ts, .seq ys => rawBZip ts xs ys
    | _, _ => false
  | t, .smap kx xs, q =>
    match t, q with
    | .map e, .smap ky ys => xs.length == ys.length && rawBMap e kx xs ky ys
    | .object _ ts _, .smap _ ys => rawBZip ts xs ys
    | _, _ => false
  | _, _, _ => false
def rawBAll : Ty → List Payload → List Payload → Bool
  | e, x :: xs, y :: ys => rawB e x y && rawBAll e xs ys
  | _, _, _ => true
def rawBZip : List Ty → List Payload → List Payload → Bool
  | t :: ts, x :: xs, y :: ys => rawB t x y && rawBZip ts xs ys
  | _, _, _ => true
def rawBMap : Ty → List String → List Payload → List String → List Payload → Bool
  | e, k :: ks, x :: xs, ky, ys =>
    match Value.lookupKey k ky ys with
    | none => false
    | some y => rawB e x y && rawBMap e ks xs ky ys
  | _, _, _, _, _ => true
end

end CtyModel
