/-
C20 — a small heap semantics for the Go objects cty values are made of.

What is modelled is the part of "values are immutable and safe to share" that is
LOGIC: which Go objects (backing arrays, maps, *big.Float, mark sets) every API
entry point reads, writes, freshly allocates, shares with its inputs and hands
back — its *aliasing signature* — over a heap with Go's slice semantics
(`append` writes in place when `len < cap`, else moves to a fresh array).  The Go
memory model and scheduler are NOT modelled (see Props/C20.lean for what that
leaves unproved).

  * `Word`   what a Go variable, interface slot, slice cell or map entry holds:
             an immediate (bool, immutable string, …) or a reference
             (`num a` = *big.Float, `slice arr off len cap` = slice header over
             backing array `arr`, `map a`, `set a` = set.Set (its bucket map),
             `marked m real` = marker{realV, marks}, `pair ty v` = a cty.Value
             stored in caller data, type words).
  * `Obj`    a heap object: owner tag + body (`array`, `gomap`, `bigfloat`,
             `markset`).  Strings are immutable and live in words.
  * `Owner`  ghost state: `lib` (library-owned, frozen: nobody may write), `libset`
             (the bucket map of the set inside a value: library-owned, frozen),
             `caller` (plain Go data the caller holds and may mutate), `helper`
             (the bucket map of a mutable helper set — ValueSet, PathSet),
             `bucket m` (a bucket backing array of the set whose map is `m`),
             `scratch` (the path buffer of a running Walk: the library keeps
             writing it).
  * `fp`     the fingerprint of a word: its deep content read through the heap.
  * `frozen` every object the fingerprint reads is library-owned.

This file is imported by the driver: core Lean only.
-/
import CtyModel.Basic
namespace CtyModel
namespace Heap

abbrev Addr := Nat

/-- key of a Go map: `map[string]…` (attributes, map elements) or `map[int][]T`
(the bucket map of `set.Set`) -/
inductive Key where
  | s (k : String)
  | i (k : Int)
  deriving DecidableEq, Repr, Inhabited

namespace Key
/-- a total order used only to keep model maps canonical (ascending keys), so that
the model of a Go map does not depend on insertion order -/
def lt : Key → Key → Bool
  | .i a, .i b => decide (a < b)
  | .i _, .s _ => true
  | .s _, .i _ => false
  | .s a, .s b => decide (a < b)
end Key

inductive Owner where
  | lib
  | libset
  | caller
  | helper
  | bucket (m : Addr)
  | scratch
  deriving DecidableEq, Repr, Inhabited

inductive Word where
  | null                                   -- nil payload / nil slice / nil map
  | unk (r : String)                       -- *unknownType; `r` = its refinement, opaque (see C05)
  | bool (b : Bool)
  | str (s : String)                       -- Go string: immutable
  | attr (s : String)                      -- GetAttrStep{Name}
  | num (a : Addr)                         -- *big.Float
  | slice (arr : Addr) (off len cap : Nat) -- slice header over backing array `arr`
  | map (a : Addr)                         -- map[string]…
  | set (a : Addr)                         -- set.Set[…]: its `vals map[int][]T`
  | marks (a : Addr)                       -- ValueMarks held by the caller
  | marked (m : Addr) (real : Word)        -- marker{realV, marks}
  | pair (t v : Word)                      -- cty.Value = (type, payload)
  | tprim (n : String)                     -- Bool, Number, String, DynamicPseudoType
  | tlist (e : Word) | tset (e : Word) | tmap (e : Word)
  | ttuple (elems : Word)                  -- typeTuple{ElemTypes []Type}
  | tobject (attrs : Word)                 -- typeObject{AttrTypes map[string]Type}
  deriving DecidableEq, Repr, Inhabited

inductive Body where
  | array (cells : List Word)
  | gomap (kvs : List (Key × Word))        -- keys ascending (canonical)
  | bigfloat (v : Int)
  | markset (ms : List String)             -- ascending (canonical)
  deriving DecidableEq, Repr, Inhabited

structure Obj where
  owner : Owner
  body : Body
  deriving DecidableEq, Repr, Inhabited

/-- the heap: object at address `a` is `mem[a]`; allocation appends -/
abbrev Mem := List Obj

/-! ### primitives -/

def alloc (m : Mem) (o : Owner) (b : Body) : Mem × Addr := (m ++ [⟨o, b⟩], m.length)

def ownerOf (m : Mem) (a : Addr) : Option Owner := (m[a]?).map (·.owner)

def bodyOf (m : Mem) (a : Addr) : Option Body := (m[a]?).map (·.body)

/-- overwrite the body of an existing object (an in-place write) -/
def setBody (m : Mem) (a : Addr) (b : Body) : Mem :=
  match m[a]? with
  | some o => m.set a { o with body := b }
  | none => m

/-- ghost step: ownership of an object passes to the library -/
def freeze (m : Mem) (a : Addr) : Mem :=
  match m[a]? with
  | some o => m.set a { o with owner := .lib }
  | none => m

/-- ghost step: a constructor has finished building the set whose bucket map is `a`;
from here on the map (and with it its bucket arrays) is library-owned -/
def publish (m : Mem) (a : Addr) : Mem :=
  match m[a]? with
  | some o => m.set a { o with owner := .libset }
  | none => m

def cellsOf (m : Mem) (a : Addr) : Option (List Word) :=
  match m[a]? with
  | some ⟨_, .array cs⟩ => some cs
  | _ => none

def kvsOf (m : Mem) (a : Addr) : Option (List (Key × Word)) :=
  match m[a]? with
  | some ⟨_, .gomap kvs⟩ => some kvs
  | _ => none

def floatOf (m : Mem) (a : Addr) : Option Int :=
  match m[a]? with
  | some ⟨_, .bigfloat v⟩ => some v
  | _ => none

def marksOf (m : Mem) (a : Addr) : Option (List String) :=
  match m[a]? with
  | some ⟨_, .markset ms⟩ => some ms
  | _ => none

/-! ### canonical Go maps and mark sets -/

def kvLookup (k : Key) : List (Key × Word) → Option Word
  | [] => none
  | (k', w) :: r => if k' = k then some w else kvLookup k r

/-- `m[k] = w` on a canonical (ascending) entry list -/
def kvInsert (k : Key) (w : Word) : List (Key × Word) → List (Key × Word)
  | [] => [(k, w)]
  | (k', w') :: r =>
    if k' = k then (k, w) :: r
    else if Key.lt k k' then (k, w) :: (k', w') :: r
    else (k', w') :: kvInsert k w r

def kvDelete (k : Key) : List (Key × Word) → List (Key × Word)
  | [] => []
  | (k', w') :: r => if k' = k then r else (k', w') :: kvDelete k r

def msInsert (x : String) : List String → List String
  | [] => [x]
  | y :: r => if y = x then y :: r else if x < y then x :: y :: r else y :: msInsert x r

def msUnion (a b : List String) : List String := a.foldl (fun acc x => msInsert x acc) b

/-! ### slices -/

/-- the cells a slice header shows: `cells[off : off+len]` -/
def window (cells : List Word) (off len : Nat) : List Word := (cells.drop off).take len

/-- the elements of a slice word (`nil` slice = no elements) -/
def sliceElems (m : Mem) : Word → Option (List Word)
  | .null => some []
  | .slice arr off len _ => (cellsOf m arr).map (window · off len)
  | _ => none

/-- Go's growth rule for `append` of ONE element to a full slice of `cap` 16-byte
elements (interfaces, cty.Value is larger but the histories only grow paths and
buckets): double below 256, and the size classes 16·2^k are exact, so the new
capacity is `max 1 (2·cap)`.  The harness compares every resulting `cap`. -/
def growCap (cap : Nat) : Nat := if cap = 0 then 1 else 2 * cap

/-- `append(s, x)`: in place when `len < cap` (WRITES cell `off+len` of the shared
backing array), otherwise a fresh array of `growCap cap` cells owned by `own`.
Returns the new heap and the new slice header. -/
def goAppend (m : Mem) (own : Owner) (s : Word) (x : Word) : Option (Mem × Word) :=
  match s with
  | .null =>
    let (m', a) := alloc m own (.array [x])
    some (m', .slice a 0 1 1)
  | .slice arr off len cap =>
    match cellsOf m arr with
    | none => none
    | some cells =>
      if len < cap then
        some (setBody m arr (.array (cells.set (off + len) x)), .slice arr off (len + 1) cap)
      else
        let nc := growCap cap
        let body := window cells off len ++ [x] ++ List.replicate (nc - len - 1) Word.null
        let (m', a) := alloc m own (.array body)
        some (m', .slice a 0 (len + 1) nc)
  | _ => none

/-! ### fingerprints -/

/-- tokens of a fingerprint (a flat, decidable-equality rendering of the deep
content of a word) -/
inductive Tok where
  | o (tag : String)
  | c
  | i (n : Int)
  | s (v : String)
  | cut                      -- fuel ran out (never happens on the acyclic heaps cty builds with enough fuel)
  | bad                      -- dangling address or body of the wrong kind
  deriving DecidableEq, Repr, Inhabited

def keyTok : Key → Tok
  | .s k => .s k
  | .i k => .i k

/-- the window of a slice header, each cell rendered by `g` -/
def fpSeq (g : Word → List Tok) (m : Mem) : Word → List Tok
  | .slice arr off len _ => match cellsOf m arr with
    | some cells => [.o "seq"] ++ ((window cells off len).map g).flatten ++ [.c]
    | none => [.bad]
  | _ => [.bad]

/-- the fingerprint: deep content of `w` read through the heap (slices show their
window only; maps in key order; a set shows its buckets in id order, each in
slice order).  Capacities, addresses and owners are NOT part of it. -/
def fp : Nat → Mem → Word → List Tok
  | 0, _, _ => [.cut]
  | f + 1, m, w =>
    match w with
    | .null => [.o "null", .c]
    | .unk r => [.o "unk", .s r, .c]
    | .bool b => [.o "b", .i (if b then 1 else 0), .c]
    | .str s => [.o "s", .s s, .c]
    | .attr s => [.o "attr", .s s, .c]
    | .num a => match floatOf m a with
      | some v => [.o "n", .i v, .c]
      | none => [.bad]
    | .slice .. => fpSeq (fp f m) m w
    | .map a => match kvsOf m a with
      | some kvs => [.o "map"] ++ (kvs.map fun kv => keyTok kv.1 :: fp f m kv.2).flatten ++ [.c]
      | none => [.bad]
    | .set a => match kvsOf m a with
      | some kvs => [.o "set"] ++ (kvs.map fun kv => keyTok kv.1 :: fpSeq (fp f m) m kv.2).flatten ++ [.c]
      | none => [.bad]
    | .marks a => match marksOf m a with
      | some ms => [.o "marks"] ++ ms.map .s ++ [.c]
      | none => [.bad]
    | .marked ms r => match marksOf m ms with
      | some l => [.o "mk"] ++ l.map .s ++ [.o "of"] ++ fp f m r ++ [.c, .c]
      | none => [.bad]
    | .pair t v => [.o "v"] ++ fp f m t ++ fp f m v ++ [.c]
    | .tprim n => [.o "tp", .s n, .c]
    | .tlist e => [.o "tl"] ++ fp f m e ++ [.c]
    | .tset e => [.o "te"] ++ fp f m e ++ [.c]
    | .tmap e => [.o "tm"] ++ fp f m e ++ [.c]
    | .ttuple e => [.o "tt"] ++ fp f m e ++ [.c]
    | .tobject e => [.o "to"] ++ fp f m e ++ [.c]

/-! ### frozen: everything the fingerprint reads is library-owned -/

/-- a library-owned object: owner `lib` / `libset`, or a bucket array of a
library-owned set -/
def frozenObj (m : Mem) (a : Addr) : Bool :=
  match ownerOf m a with
  | some .lib => true
  | some .libset => true
  | some (.bucket b) => ownerOf m b == some .libset
  | _ => false

/-- a bucket entry of the set whose map is `a`: a slice over an array tagged
`bucket a` all of whose cells satisfy `p` -/
def bucketOK (p : Word → Bool) (m : Mem) (a : Addr) : Word → Bool
  | .slice arr _ _ _ =>
    match m[arr]? with
    | some ⟨.bucket b, .array cells⟩ => b == a && cells.all p
    | _ => false
  | _ => false

/-- every object reachable from `w` is library-owned (to depth `fuel`) -/
def frozen : Nat → Mem → Word → Bool
  | 0, _, _ => true
  | f + 1, m, w =>
    match w with
    | .null | .unk _ | .bool _ | .str _ | .attr _ | .tprim _ => true
    | .num a => match m[a]? with
      | some ⟨.lib, .bigfloat _⟩ => true
      | _ => false
    | .slice arr _ _ _ => match m[arr]? with
      | some ⟨.lib, .array cells⟩ => cells.all (frozen f m)
      | _ => false
    | .map a => match m[a]? with
      | some ⟨.lib, .gomap kvs⟩ => kvs.all fun kv => frozen f m kv.2
      | _ => false
    | .set a => match m[a]? with
      | some ⟨.libset, .gomap kvs⟩ => kvs.all fun kv => bucketOK (frozen f m) m a kv.2
      | _ => false
    | .marks _ => false
    | .marked ms r => (match m[ms]? with
      | some ⟨.lib, .markset _⟩ => true
      | _ => false) && frozen f m r
    | .pair t v => frozen f m t && frozen f m v
    | .tlist e | .tset e | .tmap e | .ttuple e | .tobject e => frozen f m e

/-- a mutable helper set (ValueSet, PathSet) held by the caller is in order: its
bucket map is `helper`-owned, every bucket array is tagged with this map and
holds only frozen members -/
def helperOK (f : Nat) (m : Mem) : Word → Bool
  | .set a => match m[a]? with
    | some ⟨.helper, .gomap kvs⟩ => kvs.all fun kv => bucketOK (frozen f m) m a kv.2
    | _ => false
  | _ => true

end Heap
end CtyModel

namespace CtyModel
namespace Heap

/-! ### `cty/set`: the hash-bucket set over the heap

`a` is the address of `s.vals`; `own` is the owner tag of a bucket map created
here (`helper` for a ValueSet/PathSet the caller holds, `lib` for the set inside
a value).  Hashes are an oracle column (the real `Rules.Hash` of the member);
`Equivalent` is equality of fingerprints (exact for the member values the
histories use: whole numbers, strings, bools and lists/tuples of them, paths). -/

def eqFuel : Nat := 12

/-- `setRules.Equivalent`: `Equals` is known true — never when an unknown occurs
anywhere in a member (the comparison is unknown then) -/
def equivW (m : Mem) (x y : Word) : Bool :=
  let fx := fp eqFuel m x
  fx == fp eqFuel m y && !fx.contains (.o "unk")

/-- `pathSetRules.Equivalent`: same length and step-wise equal (so a nil path and
an empty one are the same member) -/
def equivPath (m : Mem) (x y : Word) : Bool :=
  match sliceElems m x, sliceElems m y with
  | some xs, some ys => xs.map (fp eqFuel m) == ys.map (fp eqFuel m)
  | _, _ => false

/-- the `Rules.Equivalent` of a set: values or paths -/
abbrev Equiv := Mem → Word → Word → Bool

/-- `NewSet` -/
def setNew (m : Mem) (own : Owner) : Mem × Addr := alloc m own (.gomap [])

/-- `Set.Add` (cty/set/ops.go): make the bucket if absent (`make([]T, 0, 1)`),
scan it for an equivalent member, otherwise `append` — IN PLACE when the bucket
has spare capacity. -/
def setAdd (eq : Equiv) (m : Mem) (a : Addr) (x : Word) (h : Int) : Option Mem :=
  match kvsOf m a with
  | none => none
  | some kvs =>
    let mb : Mem × Word :=
      match kvLookup (.i h) kvs with
      | some b => (m, b)
      | none =>
        let (m', arr) := alloc m (.bucket a) (.array [.null])
        (setBody m' a (.gomap (kvInsert (.i h) (.slice arr 0 0 1) kvs)), .slice arr 0 0 1)
    match sliceElems mb.1 mb.2 with
    | none => none
    | some elems =>
      if elems.any (eq mb.1 x) then some mb.1
      else
        match goAppend mb.1 (.bucket a) mb.2 x with
        | none => none
        | some (m2, b') =>
          match kvsOf m2 a with
          | none => none
          | some kvs2 => some (setBody m2 a (.gomap (kvInsert (.i h) b' kvs2)))

def setAddAll (eq : Equiv) (m : Mem) (a : Addr) : List Word → List Int → Option Mem
  | x :: xs, h :: hs => match setAdd eq m a x h with
    | some m' => setAddAll eq m' a xs hs
    | none => none
  | [], [] => some m
  | _, _ => none

def findIdx (p : Word → Bool) : List Word → Nat → Option Nat
  | [], _ => none
  | x :: xs, i => if p x then some i else findIdx p xs (i + 1)

/-- `Set.Remove`: the bucket without the member is a FRESH array
(`make([]T, 0, len-1)` + two appends); an emptied bucket is deleted. -/
def setRemove (eq : Equiv) (m : Mem) (a : Addr) (x : Word) (h : Int) : Option Mem :=
  match kvsOf m a with
  | none => none
  | some kvs =>
    match kvLookup (.i h) kvs with
    | none => some m
    | some b =>
      match sliceElems m b with
      | none => none
      | some elems =>
        match findIdx (eq m x) elems 0 with
        | none => some m
        | some i =>
          let rest := elems.take i ++ elems.drop (i + 1)
          if rest.isEmpty then some (setBody m a (.gomap (kvDelete (.i h) kvs)))
          else
            let (m', arr) := alloc m (.bucket a) (.array rest)
            some (setBody m' a (.gomap (kvInsert (.i h) (.slice arr 0 rest.length rest.length) kvs)))

def setHas (eq : Equiv) (m : Mem) (a : Addr) (x : Word) (h : Int) : Option Bool :=
  match kvsOf m a with
  | none => none
  | some kvs =>
    match kvLookup (.i h) kvs with
    | none => some false
    | some b => (sliceElems m b).map fun elems => elems.any (eq m x)

/-- copy the buckets one by one into the set at `a'` -/
def copyBuckets (m : Mem) (a' : Addr) : List (Key × Word) → Option Mem
  | [] => some m
  | (k, b) :: r =>
    match sliceElems m b, kvsOf m a' with
    | some elems, some kvs' =>
      -- nv := make([]T, len(v)); copy(nv, v); ret.vals[k] = nv
      let (m1, arr) := alloc m (.bucket a') (.array elems)
      copyBuckets (setBody m1 a' (.gomap (kvInsert k (.slice arr 0 elems.length elems.length) kvs'))) a' r
    | _, _ => none

/-- `Set.Copy` — the CURRENT code (/repo 877dbc3): every bucket gets its own
backing array (`make([]T, len(v)); copy`). -/
def setCopy (m : Mem) (own : Owner) (a : Addr) : Option (Mem × Addr) :=
  match kvsOf m a with
  | none => none
  | some kvs =>
    let (m1, a') := setNew m own
    (copyBuckets m1 a' kvs).map fun m2 => (m2, a')

/-- `Set.Copy` as it was BEFORE 877dbc3 (`ret.vals[k] = v`): the copy's buckets are
the receiver's slice headers, so both sets share every backing array.  Kept only
as the regression witness `C20.valueset_copy_add_old_counterexample`. -/
def setCopyOld (m : Mem) (own : Owner) (a : Addr) : Option (Mem × Addr) :=
  match kvsOf m a with
  | none => none
  | some kvs =>
    let (m1, a') := setNew m own
    some (setBody m1 a' (.gomap kvs), a')

/-- members in bucket-id order, slice order within a bucket -/
def setMembers (m : Mem) (a : Addr) : Option (List Word) :=
  match kvsOf m a with
  | none => none
  | some kvs => (kvs.mapM fun kv => sliceElems m kv.2).map List.flatten

/-- `xs` rearranged by the oracle permutation (the order `Set.Values` sorts into) -/
def applyPerm (xs : List Word) (perm : List Nat) : Option (List Word) :=
  if perm.length = xs.length then perm.mapM fun i => xs[i]? else none

end Heap
end CtyModel
