/-
The Lean side of the Go→Lean translation done by `extract/translate.go`.

The translator rewrites the bodies of `Type.Equals` (and the per-kind `Equals`
methods), `testConformance`, `Type.HasDynamicTypes`,
`Type.WithoutOptionalAttributesDeep` into `Generated/TyFns.lean`.  What it
cannot take from the source is *how a Go value of package cty is read as a
model value*; that reading is fixed here, once, as data-level vocabulary:

* a `cty.Type` is a `Ty`; `NilType` is outside the model;
* `map[string]Type` is a pair of parallel lists (keys ascending, the order in
  which the harness prints a Go map), `map[string]struct{}` over the same keys
  is the key list with a flag list; `for k, v := range m` walks them in that
  order (order-independence of the translated loops is a theorem about the
  hand-written model and transfers through the tie);
* `[]Type` is a `List Ty`; a slice under construction (`make([]Type, n)`) is a
  `List (Option Ty)`, `none` = the zero `Type`;
* a Go panic is `Res.panic`; `Res.unmodelled` = the recursion fuel ran out or a
  zero `Type` escaped (the tie theorems show neither happens).

Core only (imported by the generated file).
-/
import CtyModel.Ty
namespace CtyModel
namespace TyGo

/-! ### recursion fuel: number of nodes of a type -/
mutual
def size : Ty → Nat
  | .list e | .set e | .map e => size e + 1
  | .tuple es => sizeL es + 1
  | .object _ ts _ => sizeL ts + 1
  | _ => 1
def sizeL : List Ty → Nat
  | [] => 0
  | t :: ts => size t + sizeL ts
end

/-! ### Go maps -/

/-- `v, ok := m[k]` for `m : map[string]Type` -/
def mapLookup (k : String) : List String → List Ty → Option Ty
  | n :: ns, t :: ts => if n = k then some t else mapLookup k ns ts
  | _, _ => none

/-- `_, ok := m[k]` -/
def mapHas (k : String) (ns : List String) (ts : List Ty) : Bool := (mapLookup k ns ts).isSome

/-- `_, ok := s[k]` for `s : map[string]struct{}` stored as flags over the key list -/
def setMem (k : String) : List String → List Bool → Bool
  | n :: ns, o :: os => if n = k then o else setMem k ns os
  | _, _ => false

/-- `len(s)` for such a set -/
def setLen (os : List Bool) : Nat := (os.filter id).length

/-- `m[k] = v` (keys stay ascending) -/
def mapInsert (k : String) (v : Ty) : List String → List Ty → List String × List Ty
  | n :: ns, t :: ts =>
    if k = n then (n :: ns, v :: ts)
    else if k < n then (k :: n :: ns, v :: t :: ts)
    else ((mapInsert k v ns ts).1.cons n, (mapInsert k v ns ts).2.cons t)
  | _, _ => ([k], [v])

/-! ### Go slices -/

/-- `xs[i]` -/
def sliceGet (xs : List Ty) (i : Nat) : Res Ty :=
  match xs[i]? with
  | some t => .ok t
  | none => .panic "index out of range"

/-- `make([]Type, n)` -/
def sliceMake (n : Nat) : List (Option Ty) := List.replicate n none

/-- `xs[i] = v` -/
def sliceSet (xs : List (Option Ty)) (i : Nat) (v : Ty) : Res (List (Option Ty)) :=
  if i < xs.length then .ok (xs.set i (some v)) else .panic "index out of range"

/-- a constructed slice handed to a `cty` constructor: every element must have been assigned -/
def sliceDone : List (Option Ty) → Res (List Ty)
  | [] => .ok []
  | some t :: r =>
    match sliceDone r with
    | .ok ts => .ok (t :: ts)
    | _ => .unmodelled
  | none :: _ => .unmodelled

/-! ### the part of the public API of `cty.Type` that is taken as given

`IsCollectionType`/`ElementType` assert to the interface `collectionTypeImpl`
(outside the translated fragment); `Object` normalises attribute names, which
are already normalised when they come from a type. -/
def isCollectionType : Ty → Bool
  | .list _ | .set _ | .map _ => true
  | _ => false

def elementType : Ty → Res Ty
  | .list e | .set e | .map e => .ok e
  | _ => .panic "not a collection type"

/-- `cty.Object(m)`: no optional attributes -/
def mkObject (ks : List String) (vs : List Ty) : Ty := .object ks vs (ks.map fun _ => false)

end TyGo
end CtyModel
