/-
Concrete instances of the set-related parameters of `Convert.Env`, for the
correspondence driver: `setRules.Hash` (cty/set_internals.go `appendSetHashBytes`
+ hash/crc32), `setRules.Equivalent` (`Value.Equals == True`, from Ops.lean) and
`setRules.Less` (incl. its `RawEquals` pre-check).  The C08 theorems quantify over
every `Env` satisfying `SetLaws`; `Lemmas/ConvertD08SetEnv.lean` proves `SetLaws` of
`Env.concrete U` (this file's `hashC` / `equivC`), so they apply to the driver's environment.

`%q` quoting (strconv.Quote) is modelled for ASCII strings and a small printable
non-ASCII range only; any other character makes the hash `.unmodelled`, and the
driver refuses values holding such strings up front (`stringsModelled`), because
`Less` (a `Bool`) could not report it.  Capsule members are not
modelled (their identity is a Go pointer).
-/
import CtyModel.Convert
import CtyModel.Ops2
namespace CtyModel
namespace Convert

/-! ### CRC-32/IEEE (hash/crc32.ChecksumIEEE) -/
def crcBit (c : UInt32) : UInt32 := if c &&& 1 == 1 then (c >>> 1) ^^^ 0xEDB88320 else c >>> 1
def crcByte (crc : UInt32) (b : UInt8) : UInt32 :=
  crcBit (crcBit (crcBit (crcBit (crcBit (crcBit (crcBit (crcBit (crc ^^^ b.toUInt32))))))))
def crc32 (bs : List UInt8) : UInt32 := (bs.foldl crcByte 0xFFFFFFFF) ^^^ 0xFFFFFFFF

/-! ### `fmt.Sprintf("%q", s)` for ASCII strings -/
def hexLower (n : Nat) : Char := if n < 10 then Char.ofNat (48 + n) else Char.ofNat (87 + n)

def quoteChar (c : Char) : Option (List Char) :=
  let n := c.toNat
  if n ≥ 128 then
    -- strconv.IsPrint: modelled only for Latin-1 letters / signs and the fullwidth
    -- ASCII variants, all printable (written as themselves); anything else is not modelled
    if (0xA1 ≤ n ∧ n ≤ 0xFF ∧ n ≠ 0xAD) ∨ (0xFF01 ≤ n ∧ n ≤ 0xFF5E) then some [c] else none
  else if c = '"' then some ['\\', '"']
  else if c = '\\' then some ['\\', '\\']
  else if 32 ≤ n ∧ n ≤ 126 then some [c]
  else if n = 7 then some ['\\', 'a']
  else if n = 8 then some ['\\', 'b']
  else if n = 12 then some ['\\', 'f']
  else if n = 10 then some ['\\', 'n']
  else if n = 13 then some ['\\', 'r']
  else if n = 9 then some ['\\', 't']
  else if n = 11 then some ['\\', 'v']
  else some ['\\', 'x', hexLower (n / 16), hexLower (n % 16)]

def quote (s : String) : Option (List UInt8) :=
  (s.toList.mapM quoteChar).map fun parts =>
    (String.ofList ('"' :: parts.flatten ++ ['"'])).toUTF8.toList

def strBytes (s : String) : List UInt8 := s.toUTF8.toList

def joinRes (sep : List UInt8) : List (Res (List UInt8)) → Res (List UInt8)
  | [] => .ok []
  | r :: rs => r.bind fun b => (joinRes sep rs).bind fun bs => .ok (b ++ sep ++ bs)

/-- byte-wise lexicographic `bytes.Compare(a, b) < 0` -/
def bytesLt : List UInt8 → List UInt8 → Bool
  | [], [] => false
  | [], _ :: _ => true
  | _ :: _, [] => false
  | a :: as, b :: bs => if a < b then true else if a > b then false else bytesLt as bs

def insertBy (lt : Payload → Payload → Bool) (x : Payload) : List Payload → List Payload
  | [] => [x]
  | y :: ys => if lt x y then x :: y :: ys else y :: insertBy lt x ys

def zipWithTys : List Ty → List Payload → List (Ty × Payload)
  | t :: ts, p :: ps => (t, p) :: zipWithTys ts ps
  | _, _ => []

mutual
/-- `Value.RawEquals` on two mark-free payloads of the same type -/
def rawEqF : Nat → Ty → Payload → Payload → Bool
  | 0, _, _, _ => false
  | fuel + 1, ty, a, b =>
    match a, b with
    | .unk r1, .unk r2 => r1 == r2
    | .unk _, _ => false
    | _, .unk _ => false
    | .null, .null => true
    | .null, _ => false
    | _, .null => false
    | .n x, .n y => Num.rawEqual x y
    | .s x, .s y => x == y
    | .b x, .b y => x == y
    | .seq xs, .seq ys =>
      match ty with
      | .list e => xs.length == ys.length && (List.zipWith (rawEqF fuel e) xs ys).all id
      | .tuple ts => xs.length == ys.length &&
          (List.zipWith (fun (tp : Ty × Payload) y => rawEqF fuel tp.1 tp.2 y) (zipWithTys ts xs) ys).all id
      | _ => false
    | .smap kx xs, .smap ky ys =>
      match ty with
      | .map e => kx == ky && (List.zipWith (rawEqF fuel e) xs ys).all id
      | .object _ ts _ => kx == ky &&
          (List.zipWith (fun (tp : Ty × Payload) y => rawEqF fuel tp.1 tp.2 y) (zipWithTys ts xs) ys).all id
      | _ => false
    | .sset _ xs, .sset _ ys =>
      match ty with
      | .set e => xs.length == ys.length &&
          (List.zipWith (rawEqF fuel e) (sortedF fuel e xs) (sortedF fuel e ys)).all id
      | _ => false
    | _, _ => false
/-- `setRules{ty}.Less(a, b)` -/
def lessF : Nat → Ty → Payload → Payload → Bool
  | 0, _, _, _ => false
  | fuel + 1, ty, a, b =>
    if rawEqF fuel ty a b then false
    else
      let aNull := match a with | .null => true | _ => false
      let bNull := match b with | .null => true | _ => false
      let aUnk := match a with | .unk _ => true | _ => false
      let bUnk := match b with | .unk _ => true | _ => false
      -- nulls after everything else
      if bNull && !aNull then true
      else if aNull then false
      -- unknowns after known values
      else if !aUnk && bUnk then true
      else if aUnk then false
      else match ty, a, b with
        | .string, .s x, .s y => decide (x < y)
        | .bool, .b x, .b y => y || !x
        | .number, .n x, .n y => decide (Num.cmp x y < 0)
        | _, _, _ =>
          match hashBytesF fuel ty a, hashBytesF fuel ty b with
          | .ok h1, .ok h2 => bytesLt h1 h2
          | _, _ => false
/-- `Values()` of a set payload: bucket order, then stable sort by `Less` -/
def sortedF : Nat → Ty → List Payload → List Payload
  | 0, _, xs => xs
  | fuel + 1, ety, xs => xs.foldl (fun acc x => insertBy (lessF fuel ety) x acc) []
/-- `makeSetHashBytes` -/
def hashBytesF : Nat → Ty → Payload → Res (List UInt8)
  | 0, _, _ => .unmodelled
  | fuel + 1, ty, p =>
    match p with
    | .marked _ _ => .panic "can't take hash of value that has marks"
    | .unk _ => .ok (strBytes "?")
    | .null => .ok (strBytes "~")
    | .bad _ => .unmodelled
    | p =>
      match ty, p with
      | .number, .n x => .ok (strBytes (if x.sign == 0 then "0" else Num.textG10 x))
      | .bool, .b x => .ok (strBytes (if x then "T" else "F"))
      | .string, .s s => (match quote s with | some b => .ok b | none => .unmodelled)
      | .map e, .smap ks vs =>
        (joinRes (strBytes ";") ((List.zip ks vs).map fun kv =>
            (hashBytesF fuel .string (.s kv.1)).bind fun kb =>
              (hashBytesF fuel e kv.2).bind fun vb => .ok (kb ++ strBytes ":" ++ vb))).map
          fun b => strBytes "{" ++ b ++ strBytes "}"
      | .list e, .seq vs =>
        (joinRes (strBytes ";") (vs.map (hashBytesF fuel e))).map fun b => strBytes "[" ++ b ++ strBytes "]"
      | .set e, .sset _ vs =>
        (joinRes (strBytes ";") ((sortedF fuel e vs).map (hashBytesF fuel e))).map
          fun b => strBytes "[" ++ b ++ strBytes "]"
      | .object _ ts _, .smap _ vs =>
        (joinRes (strBytes ";") ((zipWithTys ts vs).map fun tp => hashBytesF fuel tp.1 tp.2)).map
          fun b => strBytes "<" ++ b ++ strBytes ">"
      | .tuple ts, .seq vs =>
        (joinRes (strBytes ";") ((zipWithTys ts vs).map fun tp => hashBytesF fuel tp.1 tp.2)).map
          fun b => strBytes "<" ++ b ++ strBytes ">"
      | .capsule _, .caps => .ok (strBytes "«?»")
      | _, _ => .panic "unsupported type in set hash"
end

mutual
/-- every string in the payload (values and map keys) can be quoted by the model -/
def stringsModelled : Payload → Bool
  | .s s => (quote s).isSome
  | .seq vs | .sset _ vs => stringsModelledL vs
  | .smap ks vs => ks.all (fun k => (quote k).isSome) && stringsModelledL vs
  | .marked _ r => stringsModelled r
  | _ => true
def stringsModelledL : List Payload → Bool
  | [] => true
  | v :: vs => stringsModelled v && stringsModelledL vs
end

def setFuel (p : Payload) : Nat := 4 * p.depth + 8

/-- `setRules{ety}.Hash(v)` -/
def hashC (ety : Ty) (p : Payload) : Res Int :=
  (hashBytesF (setFuel p) ety p).map fun b => ((crc32 b).toNat : Int)

/-- `setRules{ety}.Equivalent(a, b)` -/
def equivC (ety : Ty) (a b : Payload) : Res Bool :=
  match ety with
  | .capsule _ => .unmodelled
  | _ => (Value.equals ⟨ety, a⟩ ⟨ety, b⟩).map Value.isTrue

/-- `setRules{ety}.Less(a, b)` -/
def lessC (ety : Ty) (a b : Payload) : Bool := lessF (max (setFuel a) (setFuel b)) ety a b

/-- the environment of the correspondence driver, for a given model of `unify` -/
def Env.concrete (U : Bool → List Ty → Option Ty) : Env :=
  { unify := U, hash := hashC, equiv := equivC, less := lessC }

end Convert
end CtyModel
