/-
C06 — Every value the library returns is well-formed for its type.

`Value.WF nfc v` (CtyModel/WF.lean) is the executable predicate the driver's `wf`
verb evaluates on every value the REAL code produces (harness/c06.go); it reads
the property clause by clause.  `nfc` stands for `norm.NFC.IsNormalString`
(an oracle column in the harness, a parameter here).  The theorems below say
that the MODEL's constructors, operation methods and mark functions — the
transliterations the correspondence harness diffs against /repo — return
well-formed values whenever they return at all, given well-formed operands.

`Ty.ok nfc t` is the type-level part of WF: representation invariant, no
optional-attribute annotation anywhere, attribute names normalised.
-/
import CtyModel.Lemmas.WFCall
import CtyModel.Props.C02
import CtyModel.Lemmas.d06Cons
import CtyModel.Lemmas.d06WF
import CtyModel.Props.C17Json
import CtyModel.Lemmas.d06Convert
import CtyModel.Lemmas.d06Access
import CtyModel.Lemmas.d06Gocty
import CtyModel.Lemmas.d06WalkSets
import CtyModel.Lemmas.d06Stdlib
import CtyModel.Lemmas.d06WFStrict
import CtyModel.Lemmas.ConsFnsTie
import Lean
namespace CtyModel
namespace C06
open Value
variable {nfc : String → Bool}

/-! ## the judge: what the driver's `wf` verb prints is decided by `Value.WF` itself -/

/-- the harness reads `pass` exactly when the predicate of these theorems holds of the dumped value -/
theorem verdict_pass_iff (v : Value) : v.wfVerdict nfc = "pass" ↔ v.WF nfc = true := by
  unfold Value.wfVerdict
  split
  · simp [*]
  · rename_i h
    constructor
    · intro he
      have := congrArg String.length he
      simp [String.length_append] at this
      have h5 : "fail ".length = 5 := by decide
      have h4 : "pass".length = 4 := by decide
      omega
    · intro h'; exact absurd h' h

/-! ## constructors (cty/value_init.go) -/

/-- `BoolVal`, `True`, `False`: a bool payload under the bool type. -/
theorem wf_boolVal (b : Bool) : (boolVal b).WF nfc = true := Value.wf_boolVal b

/-- `NumberVal`, `NumberIntVal`, `NumberUIntVal`, `NumberFloatVal`, `ParseNumberVal`, `Zero`, the infinities:
a number payload under the number type. -/
theorem wf_numberVal (n : Num) : (numVal n).WF nfc = true := Value.wf_numVal n
theorem wf_numberIntVal (i : Int) : (intVal i).WF nfc = true := Value.wf_intVal i

/-- `StringVal`: the stored string is the normalised one ("strings … are NFC-normalized"), for any
normaliser whose results the NFC test accepts. -/
theorem wf_stringVal (norm : String → String) (hn : ∀ s, nfc (norm s) = true) (s : String) :
    (stringVal norm s).WF nfc = true := Value.wf_stringVal norm hn s

/-- `NullVal(t)`, `UnknownVal(t)`, `DynamicVal`: well-formed for every type that is itself acceptable as the
type of a value (no optional-attribute annotation, normalised attribute names). -/
theorem wf_nullVal {t : Ty} (h : t.ok nfc = true) : (Value.null t).WF nfc = true := Value.wf_nullOf h
theorem wf_unknownVal {t : Ty} (h : t.ok nfc = true) : (Value.unknown t).WF nfc = true := Value.wf_unknown h
theorem wf_dynamicVal : Value.dynVal.WF nfc = true := Value.wf_dynVal

/-- `ListVal`: whenever it returns, given well-formed members.  Members of the placeholder type
(`DynamicVal`, untyped nulls) are stored under the element type the others fix — "the dynamic placeholder being
allowed only for the documented cases". -/
theorem wf_listVal {ws : List Value} {r : Value} (h : Gocty.listVal ws = .ok r)
    (hws : ∀ w ∈ ws, w.WF nfc = true) : r.WF nfc = true := Value.wf_listVal h hws

/-- `MapVal`: as `ListVal`; the keys arrive normalised (`NormalizeString` in the constructor) and, a Go map
having distinct keys, strictly ascending in the model. -/
theorem wf_mapVal {ks : List String} {ws : List Value} {r : Value} (h : Gocty.mapVal ks ws = .ok r)
    (hws : ∀ w ∈ ws, w.WF nfc = true) (hlen : ks.length = ws.length) (hasc : Ty.strictAsc ks = true)
    (hk : ks.all nfc = true) : r.WF nfc = true := Value.wf_mapVal h hws hlen hasc hk

/-- `TupleVal`: "tuple lengths … match the type" — the type is assembled from the members' own types. -/
theorem wf_tupleVal {ws : List Value} (hws : ∀ w ∈ ws, w.WF nfc = true) : (Gocty.tupleVal ws).WF nfc = true :=
  Value.wf_tupleVal hws

/-- `ObjectVal`: "object attribute sets match the type"; attribute names arrive normalised. -/
theorem wf_objectVal {names : List String} {ws : List Value} (hws : ∀ w ∈ ws, w.WF nfc = true)
    (hlen : names.length = ws.length) (hasc : Ty.strictAsc names = true) (hk : names.all nfc = true) :
    (Gocty.objectVal names ws).WF nfc = true := Value.wf_objectVal hws hlen hasc hk

/-- `ListValEmpty`, `MapValEmpty`, `SetValEmpty`, `EmptyTupleVal`, `EmptyObjectVal`, `CapsuleVal`. -/
theorem wf_listValEmpty {e : Ty} (h : e.ok nfc = true) : (listValEmpty e).WF nfc = true := Value.wf_listValEmpty h
theorem wf_mapValEmpty {e : Ty} (h : e.ok nfc = true) : (mapValEmpty e).WF nfc = true := Value.wf_mapValEmpty h
theorem wf_setValEmpty {e : Ty} (h : e.ok nfc = true) : (setValEmpty e).WF nfc = true := Value.wf_setValEmpty h
theorem wf_emptyTupleVal : emptyTupleVal.WF nfc = true := Value.wf_emptyTupleVal
theorem wf_emptyObjectVal : emptyObjectVal.WF nfc = true := Value.wf_emptyObjectVal
theorem wf_capsuleVal (id : Nat) : (capsuleVal id).WF nfc = true := Value.wf_capsuleVal id

/-! ### `SetVal`: "sets hold no marked and no duplicate members"

The full statement — `SetVal` on well-formed members returns a well-formed set, whatever hashes the
implementation computed for the members — is FALSE of the code as it exists: `Set.Add` compares a new member
only with the members of its own hash bucket, and `setRules.Hash` (10 significant digits of the number) is
not coherent with `setRules.Equivalent` (shortest decimal text at the number's own precision).  It is kept
here as a `def`; `wf_setVal_partial` proves it under the decidable side condition `setRulesOk` (on the
members: `Equivalent` symmetric, equivalent members hashed alike — the contract of cty/set/rules.go);
`wf_setVal_counterexample` is the witness, with the hashes the real code computes (harness finding
`set-duplicate:equal-numbers-hash-by-String()-differs`). -/
def SetValWF : Prop :=
  ∀ (ws : List Value) (hs : List Int) (r : Value), setValH ws hs = .ok r →
    (∀ w ∈ ws, w.WF (fun _ => true) = true) → r.WF (fun _ => true) = true

/-- `SetVal`, whenever it returns, given well-formed members on which the set rules are lawful: members
deeply unmarked (their marks hoisted to the one outer layer), in bucket order, no two equivalent. -/
theorem wf_setVal_partial {ws : List Value} {hs : List Int} {r : Value} (h : setValH ws hs = .ok r)
    (hws : ∀ w ∈ ws, w.WF nfc = true)
    (hok : ∀ et, Gocty.elemTypeOf .dyn (ws.map setMember) = .ok et →
      setRulesOk et ((Gocty.payloads (ws.map setMember)).zip hs) = true) : r.WF nfc = true :=
  Value.wf_setVal_partial h hws hok

/-- 5·2⁻⁴ at 4 bits and 19·2⁻⁶ at 5 bits both print as "0.3" (`Equals` true) but as 0.3125 and 0.296875 with
ten digits (hashes 3082649553 and 2741159366 in the real code): the set keeps both. -/
def dupMembers : List Value := [numVal (.fin false 5 (-4) 4), numVal (.fin false 19 (-6) 5)]
def dupHashes : List Int := [3082649553, 2741159366]

theorem wf_setVal_counterexample :
    (∀ w ∈ dupMembers, w.WF (fun _ => true) = true) ∧
    ∃ r, setValH dupMembers dupHashes = .ok r ∧ r.WF (fun _ => true) = false := by
  refine ⟨by decide, ?_⟩
  have hok : (match setValH dupMembers dupHashes with
      | .ok r => !r.WF (fun _ => true)
      | _ => false) = true := by decide
  cases h : setValH dupMembers dupHashes with
  | ok r => rw [h] at hok; exact ⟨r, rfl, by simpa using hok⟩
  | err _ => rw [h] at hok; cases hok
  | panic _ => rw [h] at hok; cases hok
  | unmodelled => rw [h] at hok; cases hok

theorem setValWF_false : ¬ SetValWF := by
  intro h
  obtain ⟨hm, r, hr, hwf⟩ := wf_setVal_counterexample
  have := h dupMembers dupHashes r hr hm
  rw [hwf] at this
  cases this

/-! ## marks (cty/marks.go): "a value carries at most one layer of marks" -/

/-- `Mark` flattens an existing marker: one layer, non-empty mark set. -/
theorem wf_mark {v : Value} (m : String) (h : v.WF nfc = true) : (v.mark1 m).WF nfc = true := Value.wf_mark m h

/-- `WithMarks` (and `WithSameMarks`): merges into the single layer; with nothing to add it returns the value. -/
theorem wf_withMarks {v : Value} (ms : List String) (h : v.WF nfc = true) : (v.withMarks ms).WF nfc = true :=
  Value.wf_withMarks ms h

/-- `Unmark`: the real value below the one layer is well-formed and unmarked. -/
theorem wf_unmark {v : Value} (h : v.WF nfc = true) : v.unmark.WF nfc = true ∧ v.unmark.isMarked = false := by
  refine ⟨Value.wf_unmark h, ?_⟩
  simp only [WF, Bool.and_eq_true] at h
  exact (Payload.wfP_unmark1 h.2).2

/-- `UnmarkDeep`: well-formed, and no marker is left at any depth. -/
theorem wf_unmarkDeep {v : Value} (h : v.WF nfc = true) :
    v.unmarkDeep.WF nfc = true ∧ v.unmarkDeep.containsMarked = false :=
  ⟨Value.wf_unmarkDeep h, Payload.stripMarks_clean _⟩

/-! ## the eighteen operation methods (cty/value_ops.go): `op … = .ok r → r` is well-formed -/

/-- comparison and logic return a bool (known, or unknown carrying a nullness refinement), marks re-applied -/
theorem wf_equals (a b r : Value) (h : a.equals b = .ok r) : r.WF nfc = true :=
  Res.all_iff.mp (all_wf_equals a b) r h
theorem wf_lessThan (a b r : Value) (h : a.lessThan b = .ok r) : r.WF nfc = true :=
  Res.all_iff.mp (all_wf_binPrim _ all_prim_lessThanU a b) r h
theorem wf_greaterThan (a b r : Value) (h : a.greaterThan b = .ok r) : r.WF nfc = true :=
  Res.all_iff.mp (all_wf_binPrim _ all_prim_greaterThanU a b) r h
theorem wf_not (a r : Value) (h : a.not = .ok r) : r.WF nfc = true :=
  Res.all_iff.mp (all_wf_unPrim _ all_prim_notU a) r h
theorem wf_and (a b r : Value) (h : a.and b = .ok r) : r.WF nfc = true :=
  Res.all_iff.mp (all_wf_binPrim _ all_prim_andU a b) r h
theorem wf_or (a b r : Value) (h : a.or b = .ok r) : r.WF nfc = true :=
  Res.all_iff.mp (all_wf_binPrim _ all_prim_orU a b) r h

/-- arithmetic returns a number (known, or unknown carrying a numeric-range refinement), marks re-applied -/
theorem wf_add (a b r : Value) (h : a.add b = .ok r) : r.WF nfc = true :=
  Res.all_iff.mp (all_wf_binPrim _ all_prim_addU a b) r h
theorem wf_sub (a b r : Value) (h : a.sub b = .ok r) : r.WF nfc = true :=
  Res.all_iff.mp (all_wf_binPrim _ all_prim_subU a b) r h
theorem wf_mul (a b r : Value) (h : a.mul b = .ok r) : r.WF nfc = true :=
  Res.all_iff.mp (all_wf_binPrim _ all_prim_mulU a b) r h
theorem wf_div (a b r : Value) (h : a.div b = .ok r) : r.WF nfc = true :=
  Res.all_iff.mp (all_wf_binPrim _ all_prim_divU a b) r h
theorem wf_neg (a r : Value) (h : a.neg = .ok r) : r.WF nfc = true :=
  Res.all_iff.mp (all_wf_unPrim _ all_prim_negU a) r h
theorem wf_abs (a r : Value) (h : a.abs = .ok r) : r.WF nfc = true :=
  Res.all_iff.mp (all_wf_unPrim _ all_prim_absU a) r h
/-- `Modulo` hands back its first operand when the divisor is zero — hence the hypothesis on `a`. -/
theorem wf_mod (a b r : Value) (ha : a.WF nfc = true) (h : a.mod b = .ok r) : r.WF nfc = true :=
  Res.all_iff.mp (all_wf_mod a b ha) r h

/-- `HasIndex`, `Length`, `HasElement`: a bool / number -/
theorem wf_hasIndex (a b r : Value) (h : a.hasIndex b = .ok r) : r.WF nfc = true :=
  Res.all_iff.mp (all_wf_binPrim _ all_prim_hasIndexU a b) r h
theorem wf_length (a r : Value) (h : a.length = .ok r) : r.WF nfc = true :=
  Res.all_iff.mp (all_wf_unPrim _ all_prim_lengthU a) r h
theorem wf_hasElement (a b : Value) (hash : Option Int) (r : Value) (h : a.hasElement b hash = .ok r) :
    r.WF nfc = true := Res.all_iff.mp (all_wf_hasElement a b hash) r h

/-- `GetAttr`: "nested values have exactly the declared … attribute types" — the attribute of a well-formed
object is well-formed for the declared attribute type (an unknown / null of that type where the object is
unknown), with the object's marks re-applied in one layer. -/
theorem wf_getAttr (v : Value) (name : String) (r : Value) (hv : v.WF nfc = true) (h : v.getAttr name = .ok r) :
    r.WF nfc = true := Res.all_iff.mp (all_wf_getAttr v name hv) r h

/-- `Index`: the member of a well-formed list / map / tuple is well-formed for the declared element type. -/
theorem wf_index (v k r : Value) (hv : v.WF nfc = true) (h : v.index k = .ok r) : r.WF nfc = true :=
  Res.all_iff.mp (all_wf_index v k hv) r h

/-! ## refinement builders (cty/unknown_refinement.go) -/

/-- `v.Refine().<any chain of builder calls>.NewValue()`, whenever it returns: the receiver itself (known
values), a null, an unknown whose refinement is of the kind the type calls for, or one of the collapsed known
values (equal bounds, length 0, list of n unknowns, one-member set) — well-formed, marks back in one layer. -/
theorem wf_refine (v : Value) (cs : List Refine.RefineCall) (r : Value) (hv : v.WF nfc = true)
    (h : Refine.refine v cs = .ok r) : r.WF nfc = true :=
  Res.all_iff.mp (Refine.wf_refine v cs hv) r h

/-! ## function calls (cty/function/function.go) -/

/-- `Function.Call`: for ALL specifications, arguments and callbacks that keep their side — the `Type` callback
names a type a value may have, `Impl` returns well-formed values, `RefineResult` only uses the builder — what
`Call` returns (an unknown of the checked type carrying the arguments' marks, or the callback's value with marks
and refinement applied) is well-formed. -/
theorem wf_call (spec : Fn.Spec) (tf : Fn.TypeFn) (impl : Fn.ImplFn) (args : List Value) (r : Value)
    (htf : ∀ as t, tf as = .ok t → t.ok nfc = true)
    (himpl : ∀ as t v, impl as t = .ok v → v.WF nfc = true)
    (href : ∀ rf, spec.refine = some rf → ∀ v p, v.WF nfc = true → rf v = some p →
      (⟨v.ty, p⟩ : Value).WF nfc = true)
    (h : (Fn.call spec tf impl args).1 = .ok r) : r.WF nfc = true :=
  Fn.wf_call spec tf impl args r htf himpl href h

/-! ## "every accessor applicable to that type succeeds" -/

/-- On a well-formed value every applicable accessor returns (never `.panic`):
`Range()` on any unmarked value; on a known, non-null, unmarked value `True()` / `AsBigFloat()` / `AsString()`
for the three primitive types (and the string is NFC), `LengthInt()` and `ElementIterator()` for collections
and structural types — agreeing on the number of members, every member handed out being well-formed for the
declared element / attribute type — `GetAttr` for every declared attribute (also on unknown objects), and
`Index` for every position of a list. -/
theorem accessors_total (v : Value) (hv : v.WF nfc = true) (hm : v.isMarked = false) :
    (∃ r, v.range = .ok r) ∧
    (∀ ns ts os, v.ty = .object ns ts os → v.isNull = false → ∀ name ∈ ns, ∃ r, v.getAttr name = .ok r) ∧
    (v.isKnown = true → v.isNull = false →
      (v.ty.isBool = true → ∃ b, asBool v = .ok b) ∧
      (v.ty.isNumber = true → ∃ n, asNum v = .ok n) ∧
      (v.ty.isString = true → ∃ s, asString v = .ok s ∧ nfc s = true) ∧
      ((isCollection v.ty = true ∨ (∃ es, v.ty = .tuple es) ∨ ∃ ns ts os, v.ty = .object ns ts os) →
        ∃ xs, elements v = .ok xs ∧ lengthInt v = .ok xs.length ∧ ∀ x ∈ xs, x.WF nfc = true)) := by
  refine ⟨range_total v hv hm, ?_, ?_⟩
  · intro ns ts os hty hn name hname
    exact getAttr_total v hv hty hn name hname
  · intro hk hn
    obtain ⟨h1, h2, h3⟩ := prim_accessors_total v hv hm hk hn
    exact ⟨h1, h2, h3, container_accessors_total v hv hm hk hn⟩

/-- … and `Index` succeeds at every position of a well-formed known list, returning a well-formed member. -/
theorem accessors_total_index (e : Ty) (vs : List Payload) (i : Nat) (hi : i < vs.length) (hmax : (i : Int) ≤ maxInt)
    (hv : Value.WF nfc ⟨.list e, .seq vs⟩ = true) :
    ∃ r, Value.index ⟨.list e, .seq vs⟩ (intVal i) = .ok r ∧ r.WF nfc = true := by
  have h := (C02.index_list e vs i hmax).1
  have hs : vs[i]? = some vs[i] := by simp [hi]
  rw [hs] at h
  exact ⟨_, h, wf_index _ _ _ hv h⟩

/-! ## d06 — "strings, attribute names and map keys are NFC-normalized": ESTABLISHED by the constructors

`wf_mapVal` / `wf_objectVal` above are about `Gocty.mapVal` / `Gocty.objectVal`, whose keys "arrive
normalised and strictly ascending" (hypotheses `hasc`, `hk`).  `D06.mapValN` / `D06.objectValN`
(CtyModel/d06Cons.lean, diffed against `cty.MapVal` / `cty.ObjectVal` on raw, non-NFC and colliding keys by
the `c06.mapvaln` / `c06.objectvaln` correspondence) contain the constructors' own `NormalizeString` step:
nothing is assumed of the raw keys.  `norm` is the oracle for `ctystrings.Normalize`; the two laws used —
`nfc (norm s)` and `norm (norm s) = norm s` — are probed on the real library on every run. -/

/-- `MapVal` on RAW keys (any strings, in the order the Go `range` happens to visit them): whenever it returns,
given well-formed members, the result is well-formed — in particular its keys are NFC and distinct. -/
theorem wf_mapVal_normalizing (norm : String → String) (hn : ∀ s, nfc (norm s) = true) {ks : List String}
    {ws : List Value} {r : Value} (h : D06.mapValN norm ks ws = .ok r) (hws : ∀ w ∈ ws, w.WF nfc = true) :
    r.WF nfc = true := D06.wf_mapValN norm hn h hws

/-- `ObjectVal` on RAW attribute names (`cty.Object` inside it normalises the names a second time, hence
`norm_idem`): always well-formed given well-formed attribute values — attribute names NFC, the value's
attribute set equal to the type's. -/
theorem wf_objectVal_normalizing (norm : String → String) (hn : ∀ s, nfc (norm s) = true)
    (hidem : ∀ s, norm (norm s) = norm s) {ks : List String} {ws : List Value}
    (hws : ∀ w ∈ ws, w.WF nfc = true) : (D06.objectValN norm ks ws).WF nfc = true :=
  D06.wf_objectValN norm hn hidem hws

/-- the keys of the result are exactly normal forms of raw keys (none invented) -/
theorem objectVal_names_are_normalized_inputs (norm : String → String) (ks : List String) (ws : List Value)
    (hl : ks.length = ws.length) : ∀ k ∈ (D06.buildMap norm ks ws).1, ∃ s ∈ ks, k = norm s :=
  D06.objectValN_keys norm ks ws hl

/-- keys that are already normal and ascending go through unchanged: on such keys the constructor with the
normalisation step IS the constructor of `wf_mapVal` (`Gocty.mapVal`) -/
theorem mapVal_normalizing_fixed (norm : String → String) (ks : List String) (ws : List Value)
    (hl : ks.length = ws.length) (ha : Ty.strictAsc ks = true) (hfix : ∀ k ∈ ks, norm k = k) :
    D06.mapValN norm ks ws = Gocty.mapVal ks ws := by
  unfold D06.mapValN Gocty.mapVal
  rw [D06.buildMap_fixed norm ks ws hl ha hfix]
  rfl

/-! non-vacuity: a normaliser that really changes a key (the decomposed "\u00e9"), two raw keys that collide -/
def normE (s : String) : String := if s = "e\u0301" then "\u00e9" else s
def nfcE (s : String) : Bool := s != "e\u0301"
theorem normE_nfc : ∀ s, nfcE (normE s) = true := by
  intro s; unfold normE nfcE; split <;> simp_all
theorem normE_idem : ∀ s, normE (normE s) = normE s := by
  intro s; unfold normE; split <;> simp_all
example : (match D06.mapValN normE ["k", "e\u0301", "\u00e9"] [⟨.string, .s "1"⟩, ⟨.string, .s "2"⟩, ⟨.string, .marked ["m"] (.s "3")⟩] with
    | .ok r => r.WF nfcE && (match r.v with
        | .smap ks [.s "1", .marked _ (.s "3")] => ks == ["k", "\u00e9"]   -- the later write to "é" wins
        | _ => false)
    | _ => false) = true := by decide
example : Value.WF nfcE ⟨.map .string, .smap ["e\u0301"] [.s "1"]⟩ = false := by decide
example : (D06.objectValN normE ["e\u0301", "a"] [⟨.string, .s "1"⟩, ⟨.list .bool, .seq [.b true]⟩]).WF nfcE = true := by decide

/-! ## d06 — "sets hold no … duplicate members", stated so that it cannot pass for the wrong reason

`Value.WF`'s clause `noDup` reads a member `Equals` that is not `.ok` (the unmodelled capsule comparison,
a panic) as "not equivalent".  `Value.WFc cid nfc` (CtyModel/d06WF.lean) is `WF` with the clause at full
strength: in every set at every depth, every pair of members has an `Equals` the model evaluates, and the
answer is not "known true"; capsule leaves are compared by the abstract tagging `cid` (any equivalence on
capsule payloads; the harness sends pointer identity, and the `c06.equalsc` correspondence diffs
`Value.Equals` on capsule-bearing operands against the model on the tagged operands).  The driver's `wfc`
verb — the judge of every value the harness sees — evaluates `WFc`. -/

/-- Full-strength reading of the OLD clause: what `Value.WF` accepts holds no duplicate members, whatever the
capsule equality.  FALSE — kept visible; see the counterexample. -/
def WFImpliesDuplicateFree : Prop :=
  ∀ (cid : Nat → Nat) (v : Value), v.WF (fun _ => true) = true → D06.dupFreeC cid v = true

/-- a set holding the SAME capsule twice (also inside one-element tuples): accepted by `WF`, rejected by `WFc`;
the set of two different capsules is accepted by both -/
theorem wfImpliesDuplicateFree_counterexample :
    Value.WF (fun _ => true) ⟨.set (.capsule 1), .sset [5, 5] [.caps, .caps]⟩ = true ∧
    Value.WFc (D06.cidOf [1, 1]) (fun _ => true) ⟨.set (.capsule 1), .sset [5, 5] [.caps, .caps]⟩ = false ∧
    Value.WFc (D06.cidOf [1, 2]) (fun _ => true) ⟨.set (.capsule 1), .sset [5, 5] [.caps, .caps]⟩ = true ∧
    Value.WF (fun _ => true) ⟨.set (.tuple [.capsule 1]), .sset [5, 5] [.seq [.caps], .seq [.caps]]⟩ = true ∧
    Value.WFc (D06.cidOf [7, 7]) (fun _ => true) ⟨.set (.tuple [.capsule 1]), .sset [5, 5] [.seq [.caps], .seq [.caps]]⟩ = false :=
  D06.wrong_reason_witness

theorem wfImpliesDuplicateFree_false : ¬ WFImpliesDuplicateFree := by
  intro h
  have := h (D06.cidOf [1, 1]) ⟨.set (.capsule 1), .sset [5, 5] [.caps, .caps]⟩ (by decide)
  revert this
  decide

/-- … and TRUE where no capsule type is involved: for a value whose type mentions no capsule type, `WF` implies the
strict predicate, whatever the oracle — `Equals` evaluates on every pair of members of every well-formed set
(`equals_total`), nested sets included.  So every `wf_…` theorem of this file is a theorem about `WFc` for capsule-free
result types; the wrong-reason pass was confined to capsule-bearing element types. -/
theorem wfImpliesDuplicateFree_partial (cid : Nat → Nat) {v : Value} (hv : v.WF nfc = true)
    (hc : Ty.hasCapsule v.ty = false) : v.WFc cid nfc = true := D06.WFc_of_WF_noCaps cid hv hc

/-- the tie of the judge: the harness reads `pass` from the `wfc` verb exactly when the tag column fits the value and
the strict predicate holds of the dumped value (the analogue of `verdict_pass_iff`; not a clause of the property) -/
theorem wfc_verdict_pass_iff (cids : List Nat) (v : Value) :
    D06.wfcVerdict cids nfc v = "pass" ↔ (D06.capsCount v.v = cids.length ∧ v.WFc (D06.cidOf cids) nfc = true) := by
  have fail_ne_pass : ∀ x : String, "fail " ++ x ≠ "pass" := by
    intro x he
    have := congrArg String.length he
    simp [String.length_append] at this
    have h5 : "fail ".length = 5 := by decide
    have h4 : "pass".length = 4 := by decide
    omega
  unfold D06.wfcVerdict
  split
  · rename_i h
    constructor
    · intro he; exact absurd he (by decide)
    · intro ⟨h1, _⟩; simp [h1] at h
  · rename_i h
    have hc : D06.capsCount v.v = cids.length := by simpa using h
    split
    · rename_i hw; simp [hc, hw]
    · rename_i hw
      constructor
      · intro he
        split at he
        · exact absurd he (fail_ne_pass _)
        · exact absurd he (fail_ne_pass _)
      · intro ⟨_, h2⟩; exact absurd h2 hw

/-- the strict predicate implies the one all the `wf_…` theorems are about -/
theorem wfc_implies_wf {cid : Nat → Nat} {v : Value} (h : v.WFc cid nfc = true) : v.WF nfc = true :=
  D06.WF_of_WFc h

/-- the strict duplicate clause implies the old one, and is the same wherever `Equals` evaluates on all pairs -/
theorem strict_noDup_implies_noDup (e : Ty) (vs : List Payload) (h : D06.noDupS e vs = true) : noDup e vs = true :=
  D06.noDup_of_noDupS e vs h
theorem strict_noDup_iff_of_pairsOk (e : Ty) (vs : List Payload) (hp : pairsOk e vs = true) :
    D06.noDupS e vs = true ↔ noDup e vs = true :=
  ⟨D06.noDup_of_noDupS e vs, D06.noDupS_of_noDup e vs hp⟩

/-- for a value whose type mentions no capsule type the oracle is irrelevant -/
theorem wfc_oracle_irrelevant_without_capsules (cid cid' : Nat → Nat) {v : Value} (hc : D06.hasCapsTy v.ty = false) :
    v.WFc cid nfc = v.WFc cid' nfc := D06.WFc_of_noCaps cid cid' hc

/-- `SetVal` (hypotheses of `wf_setVal_partial`): below its one mark layer the result is a set whose members are
STRICTLY duplicate-free.  With members relabelled by `D06.decap cid` this is the statement for capsule-bearing
members under the capsule equality `cid`. -/
theorem setVal_strictly_duplicate_free {ws : List Value} {hs : List Int} {r : Value} (h : setValH ws hs = .ok r)
    (hws : ∀ w ∈ ws, w.WF nfc = true)
    (hok : ∀ et, Gocty.elemTypeOf .dyn (ws.map setMember) = .ok et →
      setRulesOk et ((Gocty.payloads (ws.map setMember)).zip hs) = true) :
    ∃ et ids vs, r.unmark = ⟨.set et, .sset ids vs⟩ ∧ D06.noDupS et vs = true :=
  D06.setVal_noDupS h hws hok

/-- non-vacuity: `SetVal` of the same capsule twice and another one (tags 4, 4, 9), relabelled — one member is
dropped, and the result passes the strict judge -/
example : (match setValH [D06.decap (D06.cidOf [4]) ⟨.capsule 1, .caps⟩, D06.decap (D06.cidOf [4]) ⟨.capsule 1, .caps⟩,
      D06.decap (D06.cidOf [9]) ⟨.capsule 1, .marked ["m"] .caps⟩] [5, 5, 5] with
    | .ok r => r.WFc (fun _ => 0) (fun _ => true) && r.isMarked && (lengthInt r.unmark == .ok 2)
    | _ => false) = true := by decide
example : setRulesOk (.tuple [.number]) [(.seq [.n (Num.ofNat 4)], 5), (.seq [.n (Num.ofNat 4)], 5), (.seq [.n (Num.ofNat 9)], 5)] = true := by
  decide

/-! ## d06 — decoders: "any value returned by a … decoder" -/

/-- `json.Unmarshal` (cty/json), the REAL decoder model of C17 (`JsonVal.unmarshalTop`): a value it returns is
well-formed, for every token tree and every requested type with normalised attribute names — relative to the
oracle laws `C17Json.Laws` (norm idempotent; set hash coherent with `Equivalent`).  "NFC" is read as "fixed
point of `norm`". -/
theorem wf_jsonUnmarshal (env : JsonVal.JEnv) (hl : C17Json.Laws env) (j : Json) (ty : Ty) (v : Value)
    (hty : Ty.wf ty = true) (hn : Ty.namesAll (C17Json.nfcOf env.norm) ty = true)
    (h : JsonVal.unmarshalTop env j ty = .ok v) : v.WF (C17Json.nfcOf env.norm) = true :=
  C17.json_ok_wellformed env hl j ty v hty hn h

/-! ## d06 — conversion: "any value returned by a … conversion" (with C08)

About the REAL conversion model `Convert.convert` / `getConv` / `apply` (CtyModel/Convert.lean, diffed against
cty/convert by the C08 correspondence), for every placeholder-free target, sets as results included.  What is
taken from elsewhere is explicit: `UnifyLaws` (C09, as in C08); `D06Conv.SetWFLaws nfc E` — on well-formed,
mark-free members the environment's `Equivalent` is coherent with the `Equals` that `WF` judges duplicates by,
and equivalent members hash alike (what C03 establishes for plain element types); `D06Conv.TextLaws nfc` — the
texts `number → string` and `bool → string` produce are NFC (digits, sign, point; "true"/"false"). -/

/-- `convert.Convert(v, want)`: a well-formed value converts to a well-formed value (of type `want` without its
optional-attribute annotations, C08): payload kinds, lengths, attribute sets, NFC strings and keys, sets
unmarked / ordered / duplicate-free, one mark layer, refinement kinds. -/
theorem wf_convert (E : Convert.Env) (hU : Convert.UnifyLaws E) (hS : D06Conv.SetWFLaws nfc E)
    (hT : D06Conv.TextLaws nfc) (fuel : Nat) (v r : Value) (want : Ty) (hw : want.wf = true)
    (hd : want.hasDyn = false) (hn : want.namesAll nfc = true) (hv : v.WF nfc = true)
    (h : Convert.convert E fuel v want = .ok r) : r.WF nfc = true :=
  D06Conv.convert_wf' E hU hS hT fuel v r want hw hd hn hv h

/-- the same for a conversion obtained from `GetConversion` / `GetConversionUnsafe` and then applied -/
theorem wf_conversion_applied (E : Convert.Env) (hU : Convert.UnifyLaws E) (hS : D06Conv.SetWFLaws nfc E)
    (hT : D06Conv.TextLaws nfc) (fuel : Nat) (uns : Bool) (p : Convert.Plan) (v r : Value) (want : Ty)
    (hw : want.wf = true) (hd : want.hasDyn = false) (hn : want.namesAll nfc = true) (hv : v.WF nfc = true)
    (hg : Convert.getConv E v.ty want uns = some p) (h : Convert.apply E fuel p v = .ok r) : r.WF nfc = true :=
  D06Conv.apply_wf' E hU hS hT fuel uns p v r want hw hd hn hv hg h

/-- the set laws reduce, for the environment the driver runs (`Env.concrete`), to symmetry of "`Equals` is known
true" and coherence of the set hash with it, on well-formed mark-free members -/
theorem convert_setLaws_of_equals_laws (U : Bool → List Ty → Option Ty)
    (hsym : ∀ t a b, D06Conv.SetMem nfc t a → D06Conv.SetMem nfc t b → equivP t a b = false → equivP t b a = false)
    (hcoh : ∀ t a b ha hb, D06Conv.SetMem nfc t a → D06Conv.SetMem nfc t b → Convert.hashC t a = .ok ha →
      Convert.hashC t b = .ok hb → equivP t a b = true → ha = hb) : D06Conv.SetWFLaws nfc (Convert.Env.concrete U) :=
  D06Conv.setWFLaws_concrete U hsym hcoh

/-- non-vacuity: a marked list [1, 1, 2] inside an object converts to the marked set {"1", "2"}, `true` to "true",
the missing optional attribute is filled with null — all hypotheses hold of this instance -/
example : ∃ r, Convert.convert D06Conv.envDedup 8 D06Conv.exVal D06Conv.exWant = .ok r ∧ r.WF (fun _ => true) = true :=
  ⟨_, D06Conv.exConvert,
    wf_convert D06Conv.envDedup D06Conv.unifyLaws_envDedup (D06Conv.setWFLaws_envDedup _) D06Conv.textLaws_true 8
      D06Conv.exVal _ D06Conv.exWant (by decide) (by decide) (by decide) (by decide) D06Conv.exConvert⟩

/-! ## d06 — the remaining producers: gocty, Transform and the mark-path functions, stdlib Impls -/

/-- `gocty.ToCtyValue(g, ty)` (the REAL model `Gocty.toCty` of C18): whenever it returns, the value is well-formed —
given NFC results of `NormalizeString`, a target type acceptable as the type of a value, and a Go value whose
embedded `cty.Value`s are well-formed and whose Go maps have distinct keys (`D06Prod.goOk`). -/
theorem wf_toCtyValue {norm : String → String} (hn : ∀ s, nfc (norm s) = true) (g : GoVal) (ty : Ty) (v : Value)
    (h : Gocty.toCty norm g ty = .ok v) (hg : D06Prod.goOk nfc g = true) (hty : ty.ok nfc = true) :
    v.WF nfc = true := D06Thm.d06_toCtyValue_wf hn g ty v h hg hty

/-- … and for a Go value of a Go type without `cty.Value` fields no hypothesis on the value is needed -/
theorem wf_toCtyValue_typed {norm : String → String} (hn : ∀ s, nfc (norm s) = true) (g : GoVal) (T : GoTy)
    (ty : Ty) (v : Value) (hT : Gocty.hasTy g T = true) (hc : Gocty.hasCval T = false)
    (h : Gocty.toCty norm g ty = .ok v) (hty : ty.ok nfc = true) : v.WF nfc = true :=
  D06Thm.d06_toCtyValue_wf_typed hn g T ty v hT hc h hty

example : D06Prod.goOk D06Thm.d06_nfc D06Thm.d06_g = true ∧ D06Thm.d06_ty.ok D06Thm.d06_nfc = true ∧
    (Gocty.toCty D06Thm.d06_norm D06Thm.d06_g D06Thm.d06_ty).isOk = true := by decide

/-- `cty.Transform` / `TransformWithTransformer` with ANY callback that returns well-formed values (it may change
types): the rebuilt value is well-formed.  Set-free values need nothing of the set oracle … -/
theorem wf_transform_setFree {X : SetOracle} (hX : Walk.IterPerm X) {σ : Walk.Sched} (hσ : Walk.SchedOk σ)
    (cb : Walk.TCb) (hcb : ∀ log p v w, v.WF nfc = true → cb log p v = .ok w → w.WF nfc = true) (v r : Value)
    (hv : v.WF nfc = true) (hs : v.ty.d06_setFree = true) (h : (Walk.transform X σ cb v).2 = .ok r) :
    r.WF nfc = true := D06Thm.d06_transform_wf_setFree hX hσ cb hcb v r hv hs h

/-- … values with sets need the set rules to be lawful on well-formed mark-free members (`D06Prod.SetLaws`:
`Equivalent` symmetric — a theorem for plain element types, `D06Prod.setLaws_plain_of_hash` — and hash-coherent) -/
theorem wf_transform {X : SetOracle} (hX : Walk.IterPerm X) (hlaw : D06Prod.SetLaws X nfc) {σ : Walk.Sched}
    (hσ : Walk.SchedOk σ) (cb : Walk.TCb)
    (hcb : ∀ log p v w, v.WF nfc = true → cb log p v = .ok w → w.WF nfc = true) (v r : Value)
    (hv : v.WF nfc = true) (h : (Walk.transform X σ cb v).2 = .ok r) : r.WF nfc = true :=
  D06Thm.d06_transform_wf hX hlaw hσ cb hcb v r hv h

/-- Full statement without the set laws: FALSE of the code, for the root cause of `setValWF_false` (the set hash of
numbers is not coherent with `Equals`) — a well-formed-value-preserving callback makes `Transform` return a set
holding two `Equals` members.  Witness with the hashes the real code computes. -/
def TransformWF : Prop :=
  ∀ (X : SetOracle) (σ : Walk.Sched) (cb : Walk.TCb) (v r : Value), Walk.IterPerm X → Walk.SchedOk σ →
    (∀ log p v w, v.WF (fun _ => true) = true → cb log p v = .ok w → w.WF (fun _ => true) = true) →
    v.WF (fun _ => true) = true → (Walk.transform X σ cb v).2 = .ok r → r.WF (fun _ => true) = true

theorem wf_transform_counterexample : Walk.IterPerm D06Thm.d06_dupX ∧
    D06Thm.d06_dupSet.WF (fun _ => true) = true ∧
    ∃ r, (Walk.transform D06Thm.d06_dupX Walk.Sched.sorted D06Thm.d06_dupCb D06Thm.d06_dupSet).2 = .ok r ∧
      r.WF (fun _ => true) = false := D06Thm.d06_transform_set_counterexample

/-- `UnmarkDeepWithPaths` and `MarkWithPaths` (cty/marks.go, through `Transform`) -/
theorem wf_unmarkDeepWithPaths {X : SetOracle} (hX : Walk.IterPerm X) (hlaw : D06Prod.SetLaws X nfc)
    {σ : Walk.Sched} (hσ : Walk.SchedOk σ) (v r : Value) (pvm : List Walk.PVM) (hv : v.WF nfc = true)
    (h : Walk.unmarkDeepWithPaths X σ v = .ok (r, pvm)) : r.WF nfc = true :=
  D06Thm.d06_unmarkDeepWithPaths_wf hX hlaw hσ v r pvm hv h
theorem wf_markWithPaths {X : SetOracle} (hX : Walk.IterPerm X) (hlaw : D06Prod.SetLaws X nfc)
    {σ : Walk.Sched} (hσ : Walk.SchedOk σ) (v r : Value) (pvm : List Walk.PVM) (hv : v.WF nfc = true)
    (h : Walk.markWithPaths X σ v pvm = .ok r) : r.WF nfc = true :=
  D06Thm.d06_markWithPaths_wf hX hlaw hσ v r pvm hv h

example : D06Thm.d06_wv.WF D06Thm.d06_wnfc = true ∧ D06Thm.d06_wv.ty.d06_setFree = true ∧
    (Walk.transform (SetOracle.storage) Walk.Sched.sorted D06Thm.d06_wcb D06Thm.d06_wv).2.isOk = true := by decide

/-! ### stdlib: the modelled `Impl`s return well-formed values

`CtyModel.D06StdThm.wf_<f>Impl` (Lemmas/d06Stdlib.lean, one theorem per modelled function: the collection and
sequence functions except the set algebra and `setproduct`, number / bool / comparison functions, the string functions
behind `StdNum.Lib`, `format`, `formatdate`, `timeadd`): `impl args … = .ok r → (arguments well-formed; return type
acceptable; `StringVal`'s normaliser has NFC results; conversions return well-formed values) → r.WF`.  Together with
`wf_call` (whose hypothesis `himpl` they discharge) this is "any value returned by a … function".  They are
re-declared here under the same statements as `C06.wf_stdlib_<f>Impl`, proved by the originals. -/
open Lean Elab Command in
run_cmd do
  let env ← getEnv
  for (n, ci) in env.constants.toList do
    if (`CtyModel.D06StdThm).isPrefixOf n && !n.isInternal && n.getPrefix == `CtyModel.D06StdThm then
      if let .thmInfo ti := ci then
        let s := n.getString!
        if s.startsWith "wf_" && s.endsWith "Impl" then
          let nm : Name := Name.str `CtyModel.C06 ("wf_stdlib_" ++ (s.drop 3).toString)
          let val : Expr := mkConst n (ti.levelParams.map mkLevelParam)
          let d : TheoremVal := { name := nm, levelParams := ti.levelParams, type := ti.type, value := val }
          liftCoreM <| addDecl (Declaration.thmDecl d)

/-! ## d06 — "every accessor applicable to that type succeeds": the remaining accessors, marked values included -/

/-- On a well-formed value — MARKED OR NOT, known or unknown — : `Length` on tuples, objects, non-null collections
and the unknown placeholder; `HasIndex` on non-null lists / maps / tuples with any non-null well-formed key of any
type; `Index` wherever `HasIndex` did not answer a known `False` (and on maps for every string key: an absent key
reads as null); `GetAttr` for every declared attribute; `Equals v v` for capsule-free types (sets included);
`Hash` never panics on a value without marks (it answers `.unmodelled` only for a string with a rune outside the
modelled `strconv.Quote` table); `Range` exactly on unmarked values — each returns, with a well-formed result.
The accessors that reject marks by contract (`True`, `AsBigFloat`, `AsString`, `LengthInt`, `ElementIterator`,
`Range`) stay in `accessors_total` with `isMarked = false`. -/
theorem accessors_total_marked (v : Value) (hv : v.WF nfc = true) :
    (((∃ es, v.ty = .tuple es) ∨ (∃ ns ts os, v.ty = .object ns ts os) ∨ (isCollection v.ty = true ∧ v.isNull = false) ∨
        (v.ty = .dyn ∧ v.isKnown = false)) → ∃ r, Value.length v = .ok r ∧ r.WF nfc = true) ∧
    (v.isNull = false → ((∃ e, v.ty = .list e) ∨ (∃ e, v.ty = .map e) ∨ ∃ es, v.ty = .tuple es) →
      ∀ k : Value, k.WF nfc = true → k.isNull = false → ∃ r, hasIndex v k = .ok r ∧ r.WF nfc = true) ∧
    (v.isNull = false → ∀ k h : Value, hasIndex v k = .ok h → Value.isFalse h.unmark = false →
      ∃ r, index v k = .ok r ∧ r.WF nfc = true) ∧
    (v.isNull = false → ∀ e, v.ty = .map e → ∀ k : Value, k.WF nfc = true → k.isNull = false → k.ty = .string →
      ∃ r, index v k = .ok r ∧ r.WF nfc = true) ∧
    (∀ ns ts os, v.ty = .object ns ts os → v.isNull = false → ∀ name ∈ ns, ∃ r, v.getAttr name = .ok r) ∧
    (Ty.hasCapsule v.ty = false → ∃ r, equals v v = .ok r ∧ r.WF nfc = true) ∧
    (v.containsMarked = false → D06Acc.OkOrUn (Value.hash v)) ∧
    (v.isMarked = false → ∃ r, v.range = .ok r) ∧
    (v.isMarked = true → v.range = .panic "Range on marked value") :=
  D06Acc.accessors_total_ext v hv

/-- `Index` at every position of a (possibly marked, possibly unknown) non-null tuple, and present keys of a map -/
theorem accessors_total_index_tuple (es : List Ty) (p : Payload) (i : Nat) (hi : i < es.length)
    (hmax : (i : Int) ≤ maxInt) (hv : Value.WF nfc ⟨.tuple es, p⟩ = true) (hn : p.isNull = false) :
    ∃ r, index ⟨.tuple es, p⟩ (intVal i) = .ok r ∧ r.WF nfc = true :=
  D06Acc.index_tuple_total es p i hi hmax hv hn
theorem accessors_total_index_map (e : Ty) (p : Payload) (ks : List String) (vs : List Payload) (k : String)
    (hp : p.unmark1 = .smap ks vs) (hv : Value.WF nfc ⟨.map e, p⟩ = true) (hk : k ∈ ks) :
    ∃ r, index ⟨.map e, p⟩ ⟨.string, .s k⟩ = .ok r ∧ r.WF nfc = true :=
  D06Acc.index_map_present e p ks vs k hp hv hk

/-- `Equals` on two well-formed values of one capsule-free type (sets at any depth, marks at any depth, unknowns):
returns a well-formed bool -/
theorem equals_total (a b : Value) (ha : a.WF nfc = true) (hb : b.WF nfc = true) (hty : a.ty = b.ty)
    (hc : Ty.hasCapsule a.ty = false) : ∃ r, equals a b = .ok r ∧ r.WF nfc = true :=
  D06Acc.equals_total a b ha hb hty hc

/-- `RawEquals v v` is `true` (never a panic) for a well-formed capsule-free value -/
theorem rawEquals_self_total {X : SetOracle} (hX : Walk.IterPerm X) (v : Value) (hv : v.WF nfc = true)
    (hz : D06Acc.sizesOk v.v = true) (hc : Ty.hasCapsule v.ty = false) : Value.rawEquals X v v = .ok true :=
  D06Acc.rawEquals_self_total hX v hv hz hc

/-- `Hash` never panics on a well-formed value that contains no mark (marks are its one documented precondition) -/
theorem hash_total (v : Value) (hv : v.WF nfc = true) (hm : v.containsMarked = false) :
    D06Acc.OkOrUn (Value.hash v) ∧ ∀ w, Value.hash v ≠ .panic w := D06Acc.hash_total_all v hv hm

/-- where applicability ends: a NULL tuple answers `HasIndex` with `True` (only the type is consulted) but `Index`
panics on it; `HasIndex` panics on a null key although any other key of a wrong type gets `False`; `Length` panics on
a null list but not on a null tuple (replayed on the real code; see the report) -/
theorem accessors_null_receiver_witnesses :
    (D06Acc.nullTuple.WF (fun _ => true) = true ∧
      D06Acc.isOkTrue (hasIndex D06Acc.nullTuple (intVal 0)) = true ∧
      Res.isPanic (index D06Acc.nullTuple (intVal 0)) = true) ∧
    (Value.WF (fun _ => true) ⟨.number, .null⟩ = true ∧
      Res.isPanic (hasIndex ⟨.list .string, .seq [.s "a"]⟩ ⟨.number, .null⟩) = true) ∧
    (Res.isPanic (Value.length ⟨.list .string, .null⟩) = true ∧ (Value.length D06Acc.nullTuple).isOk = true) :=
  ⟨D06Acc.index_null_tuple_witness, D06Acc.hasIndex_null_key_witness, D06Acc.length_null_witness⟩

example : D06Acc.sample.WF (fun _ => true) = true ∧ D06Acc.sample.isMarked = true ∧
    (Value.length D06Acc.sample).isOk = true ∧ (equals D06Acc.sample D06Acc.sample).isOk = true ∧
    (index D06Acc.sampleMap D06Acc.sampleKey).isOk = true ∧ (hasIndex D06Acc.sampleTuple (intVal 5)).isOk = true := by
  decide
example : D06Acc.sampleSet.WF (fun _ => true) = true ∧ Ty.hasCapsule D06Acc.sampleSet.ty = false ∧
    (equals D06Acc.sampleSet D06Acc.sampleSet).isOk = true := by decide

/-! ## non-vacuity: the hypotheses are met by a nested, marked, partly unknown value, and the
conclusions are not trivially true (neighbouring ill-formed values are rejected by `WF`) -/

def sample : Value :=
  ⟨.object ["a", "b"] [.list .string, .tuple [.number, .set .bool]] [false, false],
   .smap ["a", "b"] [.seq [.s "x", .marked ["m"] (.unk (.str .f "p")), .null],
                     .marked ["k", "m"] (.seq [.n (.fin false 3 0 64), .sset [1, 2] [.b true, .b false]])]⟩

example : sample.WF (fun _ => true) = true := by decide
example : (sample.getAttr "b").isOk = true := by decide
example : (Value.index ⟨.list .string, .seq [.s "x", .marked ["m"] (.s "y")]⟩ (intVal 1)).isOk = true := by decide
example : Value.WF (fun _ => true) ⟨.tuple [.string], .seq []⟩ = false := by decide
example : Value.WF (fun _ => true) ⟨.string, .marked ["a"] (.marked ["b"] (.s "x"))⟩ = false := by decide
example : Value.WF (fun _ => true) ⟨.object ["a"] [.string] [true], .smap ["a"] [.s "x"]⟩ = false := by decide
example : Value.WF (fun s => s != "é") ⟨.map .string, .smap ["é"] [.s "x"]⟩ = false := by decide
example : Value.WF (fun _ => true) ⟨.set .string, .sset [5, 5] [.s "x", .s "x"]⟩ = false := by decide
-- `setRulesOk` holds of ordinary members (and a marked member is hoisted)
example : setRulesOk .string [(.s "a", 1), (.s "b", 2), (.s "a", 1)] = true := by decide
example : (setValH [⟨.string, .s "a"⟩, ⟨.string, .marked ["m"] (.s "b")⟩, ⟨.string, .s "a"⟩] [1, 2, 1]).isOk = true := by
  decide
example : (match setValH [⟨.string, .s "a"⟩, ⟨.string, .marked ["m"] (.s "b")⟩, ⟨.string, .s "a"⟩] [1, 2, 1] with
    | .ok r => r.WF (fun _ => true) && r.isMarked | _ => false) = true := by decide
example : (match Refine.refine ⟨.list .string, .marked ["m"] (.unk .unref)⟩ [.notNull, .collectionLength 2] with
    | .ok r => r.WF (fun _ => true) && r.isMarked && r.isKnown | _ => false) = true := by decide
example : sample.isMarked = false ∧ sample.isKnown = true ∧ sample.isNull = false := by decide

/-! ## tr06 — the constructors as REGENERATED from the source

`Generated/ConsFns.lean` is rewritten from cty/value_init.go, cty/null.go, cty/unknown.go by `extract/translate_cons.go` on
every check; `Lemmas/ConsFnsTie.lean` proves every generated constructor equal to the hand-written one of the theorems
above (for all arguments; for the constructors over a Go map, for every order `mapOrder` in which `range` may visit the
entries).  The theorems below restate the constructor clauses about the generated definitions, so that an edit of the Go
text inside the translated functions either leaves them provable or breaks this file's build. -/

section generated
open Generated.ConsFns ConsTie

/-- `StringVal` as translated: the stored string is the normalised one -/
theorem wf_stringVal_generated (norm : String → String) (hn : ∀ s, nfc (norm s) = true) (s : String) :
    ∃ r, StringVal norm s = .ok r ∧ r.WF nfc = true :=
  ⟨_, StringVal_eq norm s, wf_stringVal norm hn s⟩

/-- `NullVal`, `UnknownVal` as translated -/
theorem wf_nullVal_generated {t : Ty} (h : t.ok nfc = true) : ∃ r, NullVal t = .ok r ∧ r.WF nfc = true :=
  ⟨_, NullVal_eq t, wf_nullVal h⟩
theorem wf_unknownVal_generated {t : Ty} (h : t.ok nfc = true) : ∃ r, UnknownVal t = .ok r ∧ r.WF nfc = true :=
  ⟨_, UnknownVal_eq t, wf_unknownVal h⟩

/-- `ListValEmpty`, `MapValEmpty`, `SetValEmpty` as translated (the set one through the translated `set.NewSet`) -/
theorem wf_emptyCollections_generated {e : Ty} (h : e.ok nfc = true) (hashOf : Ty → Payload → Int) :
    (∃ r, ListValEmpty e = .ok r ∧ r.WF nfc = true) ∧ (∃ r, MapValEmpty e = .ok r ∧ r.WF nfc = true) ∧
    (∃ r, SetValEmpty hashOf e = .ok r ∧ r.WF nfc = true) :=
  ⟨⟨_, ListValEmpty_eq e, wf_listValEmpty h⟩, ⟨_, MapValEmpty_eq e, wf_mapValEmpty h⟩,
    ⟨_, SetValEmpty_eq hashOf e, wf_setValEmpty h⟩⟩

/-- `ListVal` as translated: whenever it returns, given well-formed members, the list is well-formed -/
theorem wf_listVal_generated {ws : List Value} {r : Value} (h : ListVal ws = .ok r)
    (hws : ∀ w ∈ ws, w.WF nfc = true) : r.WF nfc = true :=
  wf_listVal (ok_of_cls (ListVal_eq ws) h) hws

/-- … and it panics exactly on the documented misuse: the empty slice, or element types that are not consistent
(`CanListVal`, as translated, is the test for the latter) -/
theorem listVal_panics_iff_generated (ws : List Value) :
    (ListVal ws).isPanic = true ↔ (ws = [] ∨ CanListVal ws = .ok false) := by
  rw [isPanic_of_cls (ListVal_eq ws), isPanic_listVal, CanListVal_eq]
  cases ws <;> simp

/-- `TupleVal` as translated never panics, and the tuple is well-formed given well-formed members -/
theorem wf_tupleVal_generated {ws : List Value} (hws : ∀ w ∈ ws, w.WF nfc = true) :
    ∃ r, TupleVal ws = .ok r ∧ r.WF nfc = true :=
  ⟨_, TupleVal_eq ws, wf_tupleVal hws⟩

/-- `MapVal` as translated, on RAW keys, for EVERY order in which `range` visits the map: whenever it returns, given
well-formed members, the map is well-formed — its keys NFC and distinct -/
theorem wf_mapVal_generated (ord : List (String × Value) → List (String × Value)) (ho : ConsOrder ord)
    (norm : String → String) (hn : ∀ s, nfc (norm s) = true) {vals : List (String × Value)} {r : Value}
    (h : MapVal ord norm vals = .ok r) (hws : ∀ kv ∈ vals, kv.2.WF nfc = true) : r.WF nfc = true := by
  refine wf_mapVal_normalizing norm hn (ok_of_cls (MapVal_eq ord ho norm vals) h) ?_
  intro w hw
  simp only [valsOf, List.mem_map] at hw
  obtain ⟨kv, hkv, rfl⟩ := hw
  exact hws kv ((ho vals).mem_iff.mp hkv)

/-- … and it panics exactly on the empty map or inconsistent element types -/
theorem mapVal_panics_iff_generated (ord : List (String × Value) → List (String × Value)) (ho : ConsOrder ord)
    (norm : String → String) (vals : List (String × Value)) :
    (MapVal ord norm vals).isPanic = true ↔ (vals = [] ∨ CanMapVal ord vals = .ok false) := by
  rw [isPanic_of_cls (MapVal_eq ord ho norm vals), isPanic_mapValN, CanMapVal_eq]
  have hl : (ord vals).length = vals.length := (ho vals).length_eq
  have : (valsOf (ord vals)).isEmpty = vals.isEmpty := by
    cases h1 : ord vals <;> cases h2 : vals <;> simp_all [valsOf]
  rw [this]
  cases vals <;> simp

/-- `ObjectVal` as translated, on RAW attribute names, for EVERY visiting order (no hypothesis on `mapOrder` at all):
never panics; given well-formed attribute values the object is well-formed — names NFC, the value's attribute set
equal to the type's -/
theorem wf_objectVal_generated (ord : List (String × Value) → List (String × Value)) (norm : String → String)
    (hn : ∀ s, nfc (norm s) = true) (hidem : ∀ s, norm (norm s) = norm s) {attrs : List (String × Value)}
    (hws : ∀ kv ∈ ord attrs, kv.2.WF nfc = true) : ∃ r, ObjectVal ord norm attrs = .ok r ∧ r.WF nfc = true := by
  refine ⟨_, ObjectVal_eq ord norm attrs, wf_objectVal_normalizing norm hn hidem ?_⟩
  intro w hw
  simp only [valsOf, List.mem_map] at hw
  obtain ⟨kv, hkv, rfl⟩ := hw
  exact hws kv hkv

/-- Go's map order is immaterial to `ObjectVal` when no two attribute names collide after normalisation … -/
theorem objectVal_map_order_immaterial_generated (ord ord' : List (String × Value) → List (String × Value))
    (ho : ConsOrder ord) (ho' : ConsOrder ord') (norm : String → String) (attrs : List (String × Value))
    (hd : NormDistinct norm attrs) : ObjectVal ord norm attrs = ObjectVal ord' norm attrs := by
  rw [ObjectVal_order_immaterial ord ho norm attrs hd, ObjectVal_order_immaterial ord' ho' norm attrs hd]

/-- Go's map order is immaterial to `MapVal` too — value, element type and the inconsistent-types panic — when no two
keys collide after normalisation (element types that are representable types); `ObjectVal_order_counterexample` in
`Lemmas/ConsFnsTie.lean` has the colliding-keys witness for `MapVal` as well -/
theorem mapVal_map_order_immaterial_generated (ord ord' : List (String × Value) → List (String × Value))
    (ho : ConsOrder ord) (ho' : ConsOrder ord') (norm : String → String) (vals : List (String × Value))
    (hd : NormDistinct norm vals) (hw : ∀ kv ∈ vals, kv.2.ty.wf = true) :
    ConsGo.cls (MapVal ord norm vals) = ConsGo.cls (MapVal ord' norm vals) :=
  MapVal_order_immaterial ord ord' ho ho' norm vals hd hw

/-- … the full statement (for all attribute maps) is FALSE of the code: kept as a `def`, with the witness (the
recorded finding `constructor-key-normalization-collision`: two names with one normal form) -/
def ObjectValOrderImmaterial : Prop :=
  ∀ (ord ord' : List (String × Value) → List (String × Value)) (norm : String → String) (attrs : List (String × Value)),
    ConsOrder ord → ConsOrder ord' → ObjectVal ord norm attrs = ObjectVal ord' norm attrs

theorem objectVal_map_order_counterexample_generated : ¬ ObjectValOrderImmaterial := by
  intro h
  have h1 := h (fun m => m) (fun m => m.reverse) collideNorm collideAttrs consOrder_id consOrder_reverse
  have h2 := ObjectVal_order_counterexample.1
  rw [h1] at h2
  revert h2
  decide

/-- `SetVal` as translated (with the translated `set.NewSetFromSlice`; `hashOf` = the implementation's member hash):
whenever it returns, given well-formed members on which the set rules are lawful and `Equals` evaluates, the set is
well-formed — members deeply unmarked, their marks hoisted to the one outer layer, no two equivalent -/
theorem wf_setVal_generated (hashOf : Ty → Payload → Int) {ws : List Value} {r : Value}
    (h : SetVal hashOf ws = .ok r) (hws : ∀ w ∈ ws, w.WF nfc = true)
    (hp : ∀ et, Gocty.elemTypeOf .dyn (ws.map setMember) = .ok et →
      pairsOk et (Gocty.payloads (ws.map setMember)) = true)
    (hok : ∀ et, Gocty.elemTypeOf .dyn (ws.map setMember) = .ok et →
      setRulesOk et ((Gocty.payloads (ws.map setMember)).zip ((Gocty.payloads (ws.map setMember)).map (hashOf et))) = true) :
    r.WF nfc = true := by
  have hm : ∀ w ∈ ws, MarksFaithful w := fun w hw => marksFaithful_of_WF (hws w hw)
  have he := ok_of_cls (SetVal_eq hashOf ws hm hp) h
  cases het : Gocty.elemTypeOf .dyn (ws.map setMember) with
  | ok et =>
    rw [het] at he
    exact wf_setVal_partial he hws (fun et' h' => by rw [het] at h'; cases h'; exact hok et het)
  | err c => rw [het] at he; simp [setValH, het] at he; split at he <;> cases he
  | panic w => rw [het] at he; simp [setValH, het] at he; split at he <;> cases he
  | unmodelled => rw [het] at he; simp [setValH, het] at he; split at he <;> cases he

/-- `SetVal` as translated panics on the empty slice (the documented misuse) -/
theorem setVal_empty_panics_generated (hashOf : Ty → Payload → Int) : (SetVal hashOf []).isPanic = true := rfl

/-- non-vacuity: the generated constructors run on concrete arguments — a marked member is hoisted by `SetVal`, a
decomposed key is normalised by `MapVal`, inconsistent element types panic -/
example : (match SetVal (fun _ p => match p with | .s "a" => 1 | _ => 2)
      [⟨.string, .s "a"⟩, ⟨.string, .marked ["m"] (.s "b")⟩, ⟨.string, .s "a"⟩] with
    | .ok r => r.WF (fun _ => true) && r.isMarked && (lengthInt r.unmark == .ok 2) | _ => false) = true := by decide
example : (match MapVal (fun m => m) normE [("k", ⟨.string, .s "1"⟩), ("é", ⟨.string, .s "2"⟩)] with
    | .ok r => r.WF nfcE | _ => false) = true := by decide
example : (ListVal [⟨.string, .s "a"⟩, ⟨.number, .null⟩]).isPanic = true ∧ (ListVal []).isPanic = true ∧
    (ListVal [⟨.dyn, .null⟩, ⟨.string, .s "a"⟩]).isOk = true := by decide
end generated

end C06
end CtyModel
