/-
C06 — Every value the library returns is well-formed for its type.

`Value.WF nfc v` (CtyModel/WF.lean) is the executable predicate the driver's `wf`
verb evaluates on every value the REAL code produces (harness/c06.go); it reads
the property clause by clause.  `nfc` stands for `norm.NFC.IsNormalString`
(an oracle column in the harness, a parameter here).  The theorems below say
that the MODEL's constructors, operation methods and mark functions — the
transliterations the correspondence harness diffs against /repo — return
well-formed values whenever they return at all, given well-formed operands.

`Ty.ok nfc t` is the type-level part of WF: representation invariant, no
optional-attribute annotation anywhere, attribute names normalised.
-/
import CtyModel.Lemmas.WFCons
namespace CtyModel
namespace C06
open Value
variable {nfc : String → Bool}

/-! ## constructors (cty/value_init.go) -/

/-- `BoolVal`, `True`, `False`: a bool payload under the bool type. -/
theorem wf_boolVal (b : Bool) : (boolVal b).WF nfc = true := Value.wf_boolVal b

/-- `NumberVal`, `NumberIntVal`, `NumberUIntVal`, `NumberFloatVal`, `ParseNumberVal`, `Zero`, the infinities:
a number payload under the number type. -/
theorem wf_numberVal (n : Num) : (numVal n).WF nfc = true := Value.wf_numVal n
theorem wf_numberIntVal (i : Int) : (intVal i).WF nfc = true := Value.wf_intVal i

/-- `StringVal`: the stored string is the normalised one ("strings … are NFC-normalized"), for any
normaliser whose results the NFC test accepts. -/
theorem wf_stringVal (norm : String → String) (hn : ∀ s, nfc (norm s) = true) (s : String) :
    (stringVal norm s).WF nfc = true := Value.wf_stringVal norm hn s

/-- `NullVal(t)`, `UnknownVal(t)`, `DynamicVal`: well-formed for every type that is itself acceptable as the
type of a value (no optional-attribute annotation, normalised attribute names). -/
theorem wf_nullVal {t : Ty} (h : t.ok nfc = true) : (Value.null t).WF nfc = true := Value.wf_nullOf h
theorem wf_unknownVal {t : Ty} (h : t.ok nfc = true) : (Value.unknown t).WF nfc = true := Value.wf_unknown h
theorem wf_dynamicVal : Value.dynVal.WF nfc = true := Value.wf_dynVal

/-- `ListVal`: whenever it returns, given well-formed members.  Members of the placeholder type
(`DynamicVal`, untyped nulls) are stored under the element type the others fix — "the dynamic placeholder being
allowed only for the documented cases". -/
theorem wf_listVal {ws : List Value} {r : Value} (h : Gocty.listVal ws = .ok r)
    (hws : ∀ w ∈ ws, w.WF nfc = true) : r.WF nfc = true := Value.wf_listVal h hws

/-- `MapVal`: as `ListVal`; the keys arrive normalised (`NormalizeString` in the constructor) and, a Go map
having distinct keys, strictly ascending in the model. -/
theorem wf_mapVal {ks : List String} {ws : List Value} {r : Value} (h : Gocty.mapVal ks ws = .ok r)
    (hws : ∀ w ∈ ws, w.WF nfc = true) (hlen : ks.length = ws.length) (hasc : Ty.strictAsc ks = true)
    (hk : ks.all nfc = true) : r.WF nfc = true := Value.wf_mapVal h hws hlen hasc hk

/-- `TupleVal`: "tuple lengths … match the type" — the type is assembled from the members' own types. -/
theorem wf_tupleVal {ws : List Value} (hws : ∀ w ∈ ws, w.WF nfc = true) : (Gocty.tupleVal ws).WF nfc = true :=
  Value.wf_tupleVal hws

/-- `ObjectVal`: "object attribute sets match the type"; attribute names arrive normalised. -/
theorem wf_objectVal {names : List String} {ws : List Value} (hws : ∀ w ∈ ws, w.WF nfc = true)
    (hlen : names.length = ws.length) (hasc : Ty.strictAsc names = true) (hk : names.all nfc = true) :
    (Gocty.objectVal names ws).WF nfc = true := Value.wf_objectVal hws hlen hasc hk

/-- `ListValEmpty`, `MapValEmpty`, `SetValEmpty`, `EmptyTupleVal`, `EmptyObjectVal`, `CapsuleVal`. -/
theorem wf_listValEmpty {e : Ty} (h : e.ok nfc = true) : (listValEmpty e).WF nfc = true := Value.wf_listValEmpty h
theorem wf_mapValEmpty {e : Ty} (h : e.ok nfc = true) : (mapValEmpty e).WF nfc = true := Value.wf_mapValEmpty h
theorem wf_setValEmpty {e : Ty} (h : e.ok nfc = true) : (setValEmpty e).WF nfc = true := Value.wf_setValEmpty h
theorem wf_emptyTupleVal : emptyTupleVal.WF nfc = true := Value.wf_emptyTupleVal
theorem wf_emptyObjectVal : emptyObjectVal.WF nfc = true := Value.wf_emptyObjectVal
theorem wf_capsuleVal (id : Nat) : (capsuleVal id).WF nfc = true := Value.wf_capsuleVal id

/-! ## marks (cty/marks.go): "a value carries at most one layer of marks" -/

/-- `Mark` flattens an existing marker: one layer, non-empty mark set. -/
theorem wf_mark {v : Value} (m : String) (h : v.WF nfc = true) : (v.mark m).WF nfc = true := Value.wf_mark m h

/-- `WithMarks` (and `WithSameMarks`): merges into the single layer; with nothing to add it returns the value. -/
theorem wf_withMarks {v : Value} (ms : List String) (h : v.WF nfc = true) : (v.withMarks ms).WF nfc = true :=
  Value.wf_withMarks ms h

/-- `Unmark`: the real value below the one layer is well-formed and unmarked. -/
theorem wf_unmark {v : Value} (h : v.WF nfc = true) : v.unmark.WF nfc = true ∧ v.unmark.isMarked = false := by
  refine ⟨Value.wf_unmark h, ?_⟩
  simp only [WF, Bool.and_eq_true] at h
  exact (Payload.wfP_unmark1 h.2).2

/-- `UnmarkDeep`: well-formed, and no marker is left at any depth. -/
theorem wf_unmarkDeep {v : Value} (h : v.WF nfc = true) :
    v.unmarkDeep.WF nfc = true ∧ v.unmarkDeep.containsMarked = false :=
  ⟨Value.wf_unmarkDeep h, Payload.stripMarks_clean _⟩

/-! ## the eighteen operation methods (cty/value_ops.go): `op … = .ok r → r` is well-formed -/

/-- comparison and logic return a bool (known, or unknown carrying a nullness refinement), marks re-applied -/
theorem wf_equals (a b r : Value) (h : a.equals b = .ok r) : r.WF nfc = true :=
  Res.all_iff.mp (all_wf_equals a b) r h
theorem wf_lessThan (a b r : Value) (h : a.lessThan b = .ok r) : r.WF nfc = true :=
  Res.all_iff.mp (all_wf_binPrim _ all_prim_lessThanU a b) r h
theorem wf_greaterThan (a b r : Value) (h : a.greaterThan b = .ok r) : r.WF nfc = true :=
  Res.all_iff.mp (all_wf_binPrim _ all_prim_greaterThanU a b) r h
theorem wf_not (a r : Value) (h : a.not = .ok r) : r.WF nfc = true :=
  Res.all_iff.mp (all_wf_unPrim _ all_prim_notU a) r h
theorem wf_and (a b r : Value) (h : a.and b = .ok r) : r.WF nfc = true :=
  Res.all_iff.mp (all_wf_binPrim _ all_prim_andU a b) r h
theorem wf_or (a b r : Value) (h : a.or b = .ok r) : r.WF nfc = true :=
  Res.all_iff.mp (all_wf_binPrim _ all_prim_orU a b) r h

/-- arithmetic returns a number (known, or unknown carrying a numeric-range refinement), marks re-applied -/
theorem wf_add (a b r : Value) (h : a.add b = .ok r) : r.WF nfc = true :=
  Res.all_iff.mp (all_wf_binPrim _ all_prim_addU a b) r h
theorem wf_sub (a b r : Value) (h : a.sub b = .ok r) : r.WF nfc = true :=
  Res.all_iff.mp (all_wf_binPrim _ all_prim_subU a b) r h
theorem wf_mul (a b r : Value) (h : a.mul b = .ok r) : r.WF nfc = true :=
  Res.all_iff.mp (all_wf_binPrim _ all_prim_mulU a b) r h
theorem wf_div (a b r : Value) (h : a.div b = .ok r) : r.WF nfc = true :=
  Res.all_iff.mp (all_wf_binPrim _ all_prim_divU a b) r h
theorem wf_neg (a r : Value) (h : a.neg = .ok r) : r.WF nfc = true :=
  Res.all_iff.mp (all_wf_unPrim _ all_prim_negU a) r h
theorem wf_abs (a r : Value) (h : a.abs = .ok r) : r.WF nfc = true :=
  Res.all_iff.mp (all_wf_unPrim _ all_prim_absU a) r h
/-- `Modulo` hands back its first operand when the divisor is zero — hence the hypothesis on `a`. -/
theorem wf_mod (a b r : Value) (ha : a.WF nfc = true) (h : a.mod b = .ok r) : r.WF nfc = true :=
  Res.all_iff.mp (all_wf_mod a b ha) r h

/-- `HasIndex`, `Length`, `HasElement`: a bool / number -/
theorem wf_hasIndex (a b r : Value) (h : a.hasIndex b = .ok r) : r.WF nfc = true :=
  Res.all_iff.mp (all_wf_binPrim _ all_prim_hasIndexU a b) r h
theorem wf_length (a r : Value) (h : a.length = .ok r) : r.WF nfc = true :=
  Res.all_iff.mp (all_wf_unPrim _ all_prim_lengthU a) r h
theorem wf_hasElement (a b : Value) (hash : Option Int) (r : Value) (h : a.hasElement b hash = .ok r) :
    r.WF nfc = true := Res.all_iff.mp (all_wf_hasElement a b hash) r h

/-- `GetAttr`: "nested values have exactly the declared … attribute types" — the attribute of a well-formed
object is well-formed for the declared attribute type (an unknown / null of that type where the object is
unknown), with the object's marks re-applied in one layer. -/
theorem wf_getAttr (v : Value) (name : String) (r : Value) (hv : v.WF nfc = true) (h : v.getAttr name = .ok r) :
    r.WF nfc = true := Res.all_iff.mp (all_wf_getAttr v name hv) r h

/-- `Index`: the member of a well-formed list / map / tuple is well-formed for the declared element type. -/
theorem wf_index (v k r : Value) (hv : v.WF nfc = true) (h : v.index k = .ok r) : r.WF nfc = true :=
  Res.all_iff.mp (all_wf_index v k hv) r h

/-! ## non-vacuity: the hypotheses are met by a nested, marked, partly unknown value, and the
conclusions are not trivially true (neighbouring ill-formed values are rejected by `WF`) -/

def sample : Value :=
  ⟨.object ["a", "b"] [.list .string, .tuple [.number, .set .bool]] [false, false],
   .smap ["a", "b"] [.seq [.s "x", .marked ["m"] (.unk (.str .f "p")), .null],
                     .marked ["k", "m"] (.seq [.n (.fin false 3 0 64), .sset [1, 2] [.b true, .b false]])]⟩

example : sample.WF (fun _ => true) = true := by decide
example : (sample.getAttr "b").isOk = true := by decide
example : (Value.index ⟨.list .string, .seq [.s "x", .marked ["m"] (.s "y")]⟩ (intVal 1)).isOk = true := by decide
example : Value.WF (fun _ => true) ⟨.tuple [.string], .seq []⟩ = false := by decide
example : Value.WF (fun _ => true) ⟨.string, .marked ["a"] (.marked ["b"] (.s "x"))⟩ = false := by decide
example : Value.WF (fun _ => true) ⟨.object ["a"] [.string] [true], .smap ["a"] [.s "x"]⟩ = false := by decide
example : Value.WF (fun s => s != "é") ⟨.map .string, .smap ["é"] [.s "x"]⟩ = false := by decide
example : Value.WF (fun _ => true) ⟨.set .string, .sset [5, 5] [.s "x", .s "x"]⟩ = false := by decide

end C06
end CtyModel
