/-
C07 — Type equality, conformance and type serialization obey their algebra.

Property theorems only; helper lemmas live in `CtyModel/Lemmas`.  Every
statement is about `Ty.equals`, `Ty.conformErrs`, `Ty.hasDyn`, `Ty.stripOpt`,
`Ty.toJson`/`Ty.ofJson` — the transliterations of the Go methods that the
correspondence harness diffs against /repo on every run.  `Ty.wf` is what a
Go `cty.Type` always satisfies by construction (a Go map has distinct keys; the
harness prints them sorted).
-/
import CtyModel.Lemmas.TyJsonRT
import CtyModel.Lemmas.TyFnsTie
import CtyModel.Lemmas.d07TyJson
namespace CtyModel
namespace C07
open Ty

/-- `Type.Equals` distinguishes every structurally different type: it holds
exactly for identical kind, element types, attribute names/types, optional sets,
tuple order and length, capsule identity. -/
theorem equals_iff_eq (a b : Ty) (ha : wf a = true) (hb : wf b = true) :
    equals a b = true ↔ a = b := Ty.equals_iff_eq a b ha hb

theorem equals_refl (a : Ty) (ha : wf a = true) : equals a a = true :=
  (equals_iff_eq a a ha ha).mpr rfl

theorem equals_symm (a b : Ty) (ha : wf a = true) (hb : wf b = true) :
    equals a b = equals b a := by
  rw [Bool.eq_iff_iff, equals_iff_eq a b ha hb, equals_iff_eq b a hb ha]
  exact eq_comm

theorem equals_trans (a b c : Ty) (ha : wf a = true) (hb : wf b = true) (hc : wf c = true)
    (hab : equals a b = true) (hbc : equals b c = true) : equals a c = true := by
  rw [equals_iff_eq a b ha hb] at hab
  rw [equals_iff_eq b c hb hc] at hbc
  rw [equals_iff_eq a c ha hc]
  exact hab.trans hbc

/-- A type conforms to a constraint (no conformance error is reported) exactly
when the two are equal, disregarding optional-attribute annotations, after each
placeholder of the constraint is replaced by the corresponding part of the type. -/
theorem conform_iff (c t : Ty) (hc : wf c = true) (ht : wf t = true) :
    conformErrs c t = 0 ↔ stripOpt (fill c t) = stripOpt t := by
  rw [Ty.conform_iff c t hc ht, matches_iff_fill c t hc ht]

/-- Non-conformance always reports at least one error (the other reading of the
same equivalence, stated separately because the property does). -/
theorem conform_errs_nonempty (c t : Ty) (hc : wf c = true) (ht : wf t = true)
    (h : stripOpt (fill c t) ≠ stripOpt t) : 0 < conformErrs c t := by
  have : conformErrs c t ≠ 0 := fun h0 => h ((conform_iff c t hc ht).mp h0)
  omega

/-- "has dynamic types" is true exactly when a placeholder occurs somewhere inside. -/
theorem hasDyn_iff_occurs (t : Ty) : hasDyn t = true ↔ Occurs t :=
  ⟨hasDyn_occurs t, occurs_hasDyn⟩

/-- stripping optional-attribute annotations is idempotent … -/
theorem stripOpt_idem (t : Ty) : stripOpt (stripOpt t) = stripOpt t := Ty.stripOpt_idem t

/-- … removes every annotation … -/
theorem stripOpt_removes_all (t : Ty) : hasOpt (stripOpt t) = false := stripOpt_noOpt t

/-- … and changes nothing else: a type without annotations is returned as is, and
in general the result has the same shape (in both directions) and placeholders. -/
theorem stripOpt_only_opt (t : Ty) :
    (hasOpt t = false → stripOpt t = t) ∧
    «matches» (stripOpt t) t = true ∧ «matches» t (stripOpt t) = true ∧
    hasDyn (stripOpt t) = hasDyn t :=
  ⟨stripOpt_id_of_noOpt t, (stripOpt_matches t).1, (stripOpt_matches t).2, stripOpt_hasDyn t⟩

/-- Capsule-free types survive JSON serialization unchanged (token-tree level;
`norm` is Unicode NFC, under which attribute names of a real type are fixed). -/
theorem typeJSON_roundtrip (norm : String → String) (t : Ty) (hw : wf t = true)
    (hc : hasCapsule t = false) (hn : namesFixed norm t = true) :
    ∃ j, toJson t = .ok j ∧ ofJson norm j = .ok t := json_roundtrip norm t hw hc hn

/-- … and capsule types are refused by the encoder rather than mis-encoded. -/
theorem typeJSON_capsule_rejected (i : Nat) : toJson (.capsule i) = .err "capsule" := rfl

/-- … at ANY depth: the encoder answers the ordinary error exactly for the types that hold a capsule
type somewhere (inside collections, tuples, object attributes), succeeds on every other type, … -/
theorem typeJSON_error_iff_capsule (t : Ty) : toJson t = .err "capsule" ↔ hasCapsule t = true :=
  D07.toJson_err_iff t

theorem typeJSON_ok_iff_no_capsule (t : Ty) : (∃ j, toJson t = .ok j) ↔ hasCapsule t = false :=
  D07.toJson_ok_iff t

/-- … and never panics, whatever the type. -/
theorem typeJSON_encoder_never_panics (t : Ty) (w : String) : toJson t ≠ .panic w := D07.toJson_never_panics t w

/-- The decoder never makes a capsule type up, whatever the token tree. -/
theorem typeJSON_decoder_no_capsule (norm : String → String) (j : Json) (t : Ty) (h : ofJson norm j = .ok t) :
    hasCapsule t = false := D07.ofJson_noCapsule norm j t h

/-- **Decoder strictness**, as strict as the decoder is: EVERY type the decoder returns — from any token
tree it accepts, including the spellings the encoder never emits (`null` for an empty attribute, element or
optional list; duplicate, unsorted or non-normalised keys; repeated optional names) — is a type on which encoder and decoder are
mutually inverse: it encodes, and its encoding decodes to the same type.  (`norm` = NFC; idempotence is
the one law of it that is used, probed against the real library by the C05/C06 harness.) -/
theorem typeJSON_decoded_reencodes (norm : String → String) (hn : ∀ s, norm (norm s) = norm s) (j : Json) (t : Ty)
    (h : ofJson norm j = .ok t) : ∃ j', toJson t = .ok j' ∧ ofJson norm j' = .ok t :=
  D07.ofJson_reencodes norm hn j t h

/-- the lenient spellings are real: token trees that are not in the image of the encoder and decode to
the same type as the canonical one; a capsule below a list and a tuple is refused -/
example :
    (match ofJson id (.arr [.str "object", .obj ["b", "a", "b"] [.str "bool", .str "string", .str "number"], .arr [.str "a", .str "a"]]) with
      | .ok t => t.equals (.object ["a", "b"] [.string, .number] [true, false]) | _ => false) = true ∧
    (match toJson (.object ["a", "b"] [.string, .number] [true, false]) with
      | .ok (.arr [.str "object", .obj ["a", "b"] [.str "string", .str "number"], .arr [.str "a"]]) => true | _ => false) = true ∧
    (match ofJson id (.arr [.str "tuple", .null]) with | .ok t => t.equals (.tuple []) | _ => false) = true ∧
    (match ofJson id (.arr [.str "object", .null, .null]) with | .ok t => t.equals (.object [] [] []) | _ => false) = true ∧
    (match toJson (.list (.tuple [.string, .capsule 3])) with | .err _ => true | _ => false) = true := by decide +kernel

/-! ### The regenerated-model tie

`Generated.TyFns.*` are NOT hand-written: `extract/translate.go` translates the bodies of `Type.Equals` (and
the eight per-kind `Equals` methods), `testConformance`/`Type.TestConformance`, `Type.HasDynamicTypes` and
`Type.WithoutOptionalAttributesDeep` from go-cty's source into Lean on every check.  The four `generated_*_eq`
theorems say that what the source text computes (on the model's reading of a `cty.Type`) is what the
hand-written model computes — with no panic and no exhausted recursion fuel — so every theorem above holds of
the translated source; the `*_generated` corollaries state the property clauses directly about it.  A source
edit that changes the meaning makes these proofs fail; an edit that leaves the translated fragment makes the
extractor fail. -/

/-- `Type.Equals` as written in the source is the model's `equals` (in particular: it does not panic on the
tuple index, and exchanging receiver and argument at every level, as the Go methods do, changes nothing). -/
theorem generated_equals_eq (a b : Ty) (ha : wf a = true) (hb : wf b = true) :
    Generated.TyFns.equals a b = .ok (equals a b) := TyFnsTie.equals_eq a b ha hb

/-- the number of errors `TestConformance` appends, as written in the source, is the model's count -/
theorem generated_conformErrs_eq (c t : Ty) (hc : wf c = true) (ht : wf t = true) :
    Generated.TyFns.conformErrs c t = .ok (conformErrs c t) := TyFnsTie.conformErrs_eq c t hc ht

/-- `HasDynamicTypes` as written in the source is the model's `hasDyn` (its `default: panic` arm is dead) -/
theorem generated_hasDynamicTypes_eq (t : Ty) : Generated.TyFns.hasDynamicTypes t = .ok (hasDyn t) :=
  TyFnsTie.hasDynamicTypes_eq t

/-- `WithoutOptionalAttributesDeep` as written in the source is the model's `stripOpt`: rebuilding the
attribute map key by key and the element slice index by index gives back the same keys/positions, every slot
of the fresh slice is assigned, the `default: panic` arm is dead -/
theorem generated_withoutOptionalAttributesDeep_eq (t : Ty) (ht : wf t = true) :
    Generated.TyFns.withoutOptionalAttributesDeep t = .ok (stripOpt t) :=
  TyFnsTie.withoutOptionalAttributesDeep_eq t ht

/-- equality clause, about the translated source -/
theorem equals_iff_eq_generated (a b : Ty) (ha : wf a = true) (hb : wf b = true) :
    Generated.TyFns.equals a b = .ok true ↔ a = b := by
  rw [generated_equals_eq a b ha hb, ← equals_iff_eq a b ha hb]
  exact ⟨fun h => by injection h, fun h => by rw [h]⟩

theorem equals_symm_generated (a b : Ty) (ha : wf a = true) (hb : wf b = true) :
    Generated.TyFns.equals a b = Generated.TyFns.equals b a := by
  rw [generated_equals_eq a b ha hb, generated_equals_eq b a hb ha, equals_symm a b ha hb]

/-- conformance clause, about the translated source: no error is reported exactly when … -/
theorem conform_iff_generated (c t : Ty) (hc : wf c = true) (ht : wf t = true) :
    Generated.TyFns.conformErrs c t = .ok 0 ↔ stripOpt (fill c t) = stripOpt t := by
  rw [generated_conformErrs_eq c t hc ht, ← conform_iff c t hc ht]
  exact ⟨fun h => by injection h, fun h => by rw [h]⟩

/-- … and otherwise at least one error is reported (never a panic) -/
theorem conform_errs_nonempty_generated (c t : Ty) (hc : wf c = true) (ht : wf t = true)
    (h : stripOpt (fill c t) ≠ stripOpt t) : ∃ n, Generated.TyFns.conformErrs c t = .ok n ∧ 0 < n :=
  ⟨_, generated_conformErrs_eq c t hc ht, conform_errs_nonempty c t hc ht h⟩

theorem hasDyn_iff_occurs_generated (t : Ty) : Generated.TyFns.hasDynamicTypes t = .ok true ↔ Occurs t := by
  rw [generated_hasDynamicTypes_eq t, ← hasDyn_iff_occurs t]
  exact ⟨fun h => by injection h, fun h => by rw [h]⟩

/-- stripping, about the translated source: the result carries no annotation and stripping it again returns it -/
theorem stripOpt_idem_generated (t : Ty) (ht : wf t = true) :
    ∃ u, Generated.TyFns.withoutOptionalAttributesDeep t = .ok u ∧ hasOpt u = false ∧
      Generated.TyFns.withoutOptionalAttributesDeep u = .ok u :=
  ⟨stripOpt t, generated_withoutOptionalAttributesDeep_eq t ht, stripOpt_removes_all t, by
    rw [generated_withoutOptionalAttributesDeep_eq _ (TyFnsTie.stripOpt_wf t ht), stripOpt_idem]⟩

/-! Non-vacuity: a non-trivial type meets every hypothesis used above. -/
def sample : Ty :=
  .object ["a", "b"] [.list .dyn, .tuple [.string, .object ["k"] [.number] [true]]] [false, true]

example : wf sample = true ∧ hasCapsule sample = false ∧ namesFixed id sample = true ∧
    hasDyn sample = true ∧ hasOpt sample = true := by decide
example : conformErrs (.object ["a", "b"] [.dyn, .tuple [.string, .dyn]] [true, false]) sample = 0 := by
  decide
example : 0 < conformErrs (.object ["a"] [.dyn] [false]) sample := by decide
example : Generated.TyFns.equals sample sample = .ok true ∧
    Generated.TyFns.conformErrs (.object ["a"] [.dyn] [false]) sample = .ok 1 ∧
    Generated.TyFns.hasDynamicTypes sample = .ok true ∧
    (Generated.TyFns.withoutOptionalAttributesDeep sample).isOk = true := by decide

end C07
end CtyModel
