/-
C07 — Type equality, conformance and type serialization obey their algebra.

Property theorems only; helper lemmas live in `CtyModel/Lemmas`.  Every
statement is about `Ty.equals`, `Ty.conformErrs`, `Ty.hasDyn`, `Ty.stripOpt`,
`Ty.toJson`/`Ty.ofJson` — the transliterations of the Go methods that the
correspondence harness diffs against /repo on every run.  `Ty.wf` is what a
Go `cty.Type` always satisfies by construction (a Go map has distinct keys; the
harness prints them sorted).
-/
import CtyModel.Lemmas.TyJsonRT
namespace CtyModel
namespace C07
open Ty

/-- `Type.Equals` distinguishes every structurally different type: it holds
exactly for identical kind, element types, attribute names/types, optional sets,
tuple order and length, capsule identity. -/
theorem equals_iff_eq (a b : Ty) (ha : wf a = true) (hb : wf b = true) :
    equals a b = true ↔ a = b := Ty.equals_iff_eq a b ha hb

theorem equals_refl (a : Ty) (ha : wf a = true) : equals a a = true :=
  (equals_iff_eq a a ha ha).mpr rfl

theorem equals_symm (a b : Ty) (ha : wf a = true) (hb : wf b = true) :
    equals a b = equals b a := by
  rw [Bool.eq_iff_iff, equals_iff_eq a b ha hb, equals_iff_eq b a hb ha]
  exact eq_comm

theorem equals_trans (a b c : Ty) (ha : wf a = true) (hb : wf b = true) (hc : wf c = true)
    (hab : equals a b = true) (hbc : equals b c = true) : equals a c = true := by
  rw [equals_iff_eq a b ha hb] at hab
  rw [equals_iff_eq b c hb hc] at hbc
  rw [equals_iff_eq a c ha hc]
  exact hab.trans hbc

/-- A type conforms to a constraint (no conformance error is reported) exactly
when the two are equal, disregarding optional-attribute annotations, after each
placeholder of the constraint is replaced by the corresponding part of the type. -/
theorem conform_iff (c t : Ty) (hc : wf c = true) (ht : wf t = true) :
    conformErrs c t = 0 ↔ stripOpt (fill c t) = stripOpt t := by
  rw [Ty.conform_iff c t hc ht, matches_iff_fill c t hc ht]

/-- Non-conformance always reports at least one error (the other reading of the
same equivalence, stated separately because the property does). -/
theorem conform_errs_nonempty (c t : Ty) (hc : wf c = true) (ht : wf t = true)
    (h : stripOpt (fill c t) ≠ stripOpt t) : 0 < conformErrs c t := by
  have : conformErrs c t ≠ 0 := fun h0 => h ((conform_iff c t hc ht).mp h0)
  omega

/-- "has dynamic types" is true exactly when a placeholder occurs somewhere inside. -/
theorem hasDyn_iff_occurs (t : Ty) : hasDyn t = true ↔ Occurs t :=
  ⟨hasDyn_occurs t, occurs_hasDyn⟩

/-- stripping optional-attribute annotations is idempotent … -/
theorem stripOpt_idem (t : Ty) : stripOpt (stripOpt t) = stripOpt t := Ty.stripOpt_idem t

/-- … removes every annotation … -/
theorem stripOpt_removes_all (t : Ty) : hasOpt (stripOpt t) = false := stripOpt_noOpt t

/-- … and changes nothing else: a type without annotations is returned as is, and
in general the result has the same shape (in both directions) and placeholders. -/
theorem stripOpt_only_opt (t : Ty) :
    (hasOpt t = false → stripOpt t = t) ∧
    «matches» (stripOpt t) t = true ∧ «matches» t (stripOpt t) = true ∧
    hasDyn (stripOpt t) = hasDyn t :=
  ⟨stripOpt_id_of_noOpt t, (stripOpt_matches t).1, (stripOpt_matches t).2, stripOpt_hasDyn t⟩

/-- Capsule-free types survive JSON serialization unchanged (token-tree level;
`norm` is Unicode NFC, under which attribute names of a real type are fixed). -/
theorem typeJSON_roundtrip (norm : String → String) (t : Ty) (hw : wf t = true)
    (hc : hasCapsule t = false) (hn : namesFixed norm t = true) :
    ∃ j, toJson t = .ok j ∧ ofJson norm j = .ok t := json_roundtrip norm t hw hc hn

/-- … and capsule types are refused by the encoder rather than mis-encoded. -/
theorem typeJSON_capsule_rejected (i : Nat) : toJson (.capsule i) = .err "capsule" := rfl

/-! Non-vacuity: a non-trivial type meets every hypothesis used above. -/
def sample : Ty :=
  .object ["a", "b"] [.list .dyn, .tuple [.string, .object ["k"] [.number] [true]]] [false, true]

example : wf sample = true ∧ hasCapsule sample = false ∧ namesFixed id sample = true ∧
    hasDyn sample = true ∧ hasOpt sample = true := by decide
example : conformErrs (.object ["a", "b"] [.dyn, .tuple [.string, .dyn]] [true, false]) sample = 0 := by
  decide
example : 0 < conformErrs (.object ["a"] [.dyn] [false]) sample := by decide

end C07
end CtyModel
