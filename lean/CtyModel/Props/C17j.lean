/-
Stand-alone id `C17j` (`./check C17j`, harness/c17json.go): the check audits the theorems of namespace
`CtyModel.<id>`, so every `json_…`/`typejson_…` theorem of `CtyModel.C17` (Props/C17Json.lean) is
re-declared here under the same statement, proved by the original.  Development aid only; the
property is claimed under `C17`.
-/
import Lean
import CtyModel.Props.C17Json
open Lean Elab Command in
run_cmd do
  let env ← getEnv
  for (n, ci) in env.constants.toList do
    if (`CtyModel.C17).isPrefixOf n && !n.isInternal then
      if let .thmInfo ti := ci then
        let s := n.getString!
        if s.startsWith "json_" || s.startsWith "typejson_" then
          let nm : Name := Name.str `CtyModel.C17j s
          let val : Expr := mkConst n (ti.levelParams.map mkLevelParam)
          let d : TheoremVal := { name := nm, levelParams := ti.levelParams, type := ti.type, value := val }
          liftCoreM <| addDecl (Declaration.thmDecl d)
