/-
C20 — values are immutable, operations are pure, values are safe to share.

Property theorems only; lemmas live in `CtyModel/Lemmas/Heap*.lean`, the model in
`CtyModel/Heap.lean` (heap, Go slices/maps/`append`, fingerprints) and
`CtyModel/HeapOps.lean` (the API entry points as programs over the heap; histories
of API calls and caller mutations).  The correspondence harness (`harness/c20*.go`)
replays the same histories on the real code and diffs, after every step, which
fingerprints changed, and at the end the bucket/slice layout (len, cap, sharing of
backing arrays).

Sharing between goroutines (§6 generic, §7 for `Heap.step`): the generic interleaving
theorem is instantiated with the step function the driver runs — every goroutine's
step is `Heap.step` on the shared heap followed by its own allocations — and its
footprint hypothesis is discharged from `step_writes_only` (`Lemmas/d20Conc.lean`).
The driver op `heap.conc` runs the same semantics against REAL goroutines
(`harness/c20_dconc.go`).

Reading (§8, slice d20b): `Set.Values` and what is built on it (`ValueSet.Values`,
`AsValueSlice` of a set, `PathSet.List`), `convert.Unify` through `unifyTuplesAsList`,
`UnmarkDeepWithPaths`, `PathSet.Union/Subtract` are modelled cell by cell in
`CtyModel/HeapD20b.lean` (Go's `append`, the in-place sort, `make` + `copy`) and run by
the driver op `heapx.run` inside the ordinary histories (`harness/c20_d2.go`).  NOT extended
to them: the state invariant behind `values_frozen` (that the values THEY create are
library-owned is shown for the witness histories only) and the goroutine semantics of §7.

What is NOT proved here, and cannot be in this model: anything about the Go memory
model or scheduler; that goroutines allocate disjoint objects (the arenas of §7 — the
one-heap variant `shared_heap_untouched` does without, but only for the shared part;
that the two variants print the same is CHECKED by the driver on every `heap.conc`
case, not proved); that the footprint of each real API call is the model's (`wset`,
"allocates, never writes what exists") — supported by the correspondence runs and by
the `-race` worker (short run in the quick tier, long in the thorough tier):
evidence, not proof.
-/
import CtyModel.Lemmas.HeapInvF
import CtyModel.Lemmas.HeapEscape
import CtyModel.Lemmas.HeapPure
import CtyModel.Lemmas.HeapInterleave
import CtyModel.Lemmas.d20Conc
import CtyModel.Lemmas.d20Strict
import CtyModel.Lemmas.d20Pure
import CtyModel.Lemmas.d20Marks
import CtyModel.Lemmas.d20Fuel
import CtyModel.Lemmas.d20bStep
import CtyModel.Lemmas.d20bOwn
namespace CtyModel
namespace C20
open Heap

/-! ## 1. No API call writes what a value is made of -/

/-- **Every step writes only its write set.**  `wset st op` names the objects of the
current heap a step may write in place or take ownership of: the target of a caller
action; the `*big.Float` / slice a documented transfer hands over; the bucket map and
bucket arrays of the receiver of `ValueSet.Add/Remove`, `PathSet.Add`; the path
buffers of running walks.  EVERY other object that exists before the step is the
same object after it (same body, same owner); whatever else the step touches it
allocated itself.  For all other API entry points `wset` is empty: constructors,
accessors, operation methods, `Copy`, `Values`, path helpers only allocate. -/
theorem step_writes_only {st st' : St} {op : HeapOp} (hr : respectful st op = true)
    (h : step st op = some st') :
    st.mem.length ≤ st'.mem.length ∧
      ∀ a, a < st.mem.length → wset st op a = false → st'.mem[a]? = st.mem[a]? := by
  obtain ⟨h1, h2⟩ := step_writes hr h
  exact ⟨h1, fun a ha hw => h2 a ha (by simp [hw])⟩

/-- **No API step writes an address reachable from an existing value.**  Everything
a value's fingerprint reads is library-owned (`frozen`, §3); and whatever API entry
point runs, every library-owned object of the heap is exactly the same object
afterwards — not even spare capacity of a backing array is written. -/
theorem no_write_to_reachable {st st' : St} {c : Api} (hr : respectful st (.api c) = true)
    (h : step st (.api c) = some st') :
    st.mem.length ≤ st'.mem.length ∧ ∀ a, frozenObj st.mem a = true → st'.mem[a]? = st.mem[a]? :=
  step_preserves hr h

/-- …in terms of fingerprints: an API call leaves the fingerprint of every word whose
storage is library-owned unchanged, to every depth. -/
theorem api_call_keeps_fingerprints {st st' : St} {c : Api} (hr : respectful st (.api c) = true)
    (h : step st (.api c) = some st') (f : Nat) (w : Word) (hw : frozen f st.mem w = true) :
    fp f st'.mem w = fp f st.mem w ∧ frozen f st'.mem w = true :=
  ⟨fp_stable (step_preserves hr h) f w hw, frozen_stable (step_preserves hr h) f w hw⟩

/-! ## 2. Fingerprints are stable under all histories -/

/-- **Fingerprints are stable.**  Take ANY state, any word `w` in it whose storage is
library-owned to depth `f`, and any later history of API calls and caller mutations
that respects the documented ownership rules (`respectfulRun`: the caller writes
only objects it still owns — i.e. not a `*big.Float` given to `NumberVal`, not a
slice given to `cty.Tuple` or `PathSet.Add`, not what `TupleElementTypes`,
`AttributeTypes`, `PathSet.List` or a `Walk` callback handed out).  Then `w` reports
exactly the same deep content after the history as before it.

`_partial`: the side condition is decidable and each excluded transfer is shown
necessary by a `_counterexample` below (replayed on the real code by the harness,
where they print as KNOWN-FINDING lines: all are documented). -/
theorem fingerprints_stable_partial (st : St) (ops : List HeapOp) (f : Nat) (w : Word)
    (hw : frozen f st.mem w = true) (hr : respectfulRun st ops = true) :
    fp f (run st ops).mem w = fp f st.mem w :=
  fp_stable (run_preserves ops st hr) f w hw

/-- **Every value the library builds is made of library-owned storage** — so the
hypothesis `frozen f st.mem w` of `fingerprints_stable_partial` holds for every
value register of every state a history reaches from the empty state, as long as
the history respects the DOCUMENTED ownership rules (`docRespectfulRun`: the caller
writes only objects it still owns, and gives `NumberVal` / `cty.Tuple` /
`PathSet.Add` only objects it owns).  This is the defensive copying on the way in
(`ListVal`, `TupleVal`, `ObjectVal`, `MapVal`, `SetVal`, `SetValFromValueSet` copy the
caller's container) and the sharing of payloads between derived values (`Index`,
`GetAttr`, element iteration, `Mark`, `Unmark` share library-owned payloads only),
proved for all histories by an invariant over the whole heap. -/
theorem values_frozen (ops : List HeapOp) (hd : docRespectfulRun {} ops = true) :
    ∀ w ∈ (run {} ops).vals, ∀ f, frozen f (run {} ops).mem w = true :=
  fun w hw f => (run_inv ops {} inv_empty hd).1.vals w hw f

/-- **The receivers are in order.**  The part of `respectful` that is not about the
caller's behaviour — the receiver of `ValueSet.Add/Remove`, `PathSet.Add` is a helper
set whose storage is its own; a walk's path buffers are still the walk's — holds by
itself along every history from the empty state that respects the documented rules. -/
theorem receivers_in_order (ops : List HeapOp) (hd : docRespectfulRun {} ops = true) :
    respectfulRun {} ops = true :=
  (run_inv ops {} inv_empty hd).2

/-- **Fingerprints are stable — all histories.**  Run any history `pre`, then any
history `post`, the whole respecting the documented ownership rules.  Every value
that exists after `pre` reports exactly the same deep content after `post`:
no later API call on it, on values derived from it, on helper sets or their copies,
and no mutation of Go data the caller passed to a constructor or got from an
accessor changes it. -/
theorem fingerprints_stable (pre post : List HeapOp) (hd : docRespectfulRun {} (pre ++ post) = true)
    (w : Word) (hw : w ∈ (run {} pre).vals) (f : Nat) :
    fp f (run {} (pre ++ post)).mem w = fp f (run {} pre).mem w := by
  rw [docRespectfulRun_append, Bool.and_eq_true] at hd
  obtain ⟨hi, _⟩ := run_inv pre {} inv_empty hd.1
  obtain ⟨_, hr⟩ := run_inv post _ hi hd.2
  rw [run_append]
  exact fingerprints_stable_partial _ post f w (hi.vals w hw f) hr

/-- the statement WITHOUT the ownership side condition — false of go-cty, by design -/
def FingerprintsStableUnconditionally : Prop :=
  ∀ (st : St) (ops : List HeapOp) (f : Nat) (w : Word), frozen f st.mem w = true →
    fp f (run st ops).mem w = fp f st.mem w

/-- value register `i` of the state reached by `pre` reads differently after `op` -/
def valChanges (pre : List HeapOp) (i : Nat) (op : HeapOp) : Bool :=
  let st := run {} pre
  fp 8 (run st [op]).mem st.vals[i]! != fp 8 st.mem st.vals[i]!

/-- Go-data register `i` of the state reached by `pre` reads differently after `op` -/
def goChanges (pre : List HeapOp) (i : Nat) (op : HeapOp) : Bool :=
  let st := run {} pre
  fp 8 (run st [op]).mem st.gos[i]! != fp 8 st.mem st.gos[i]!

/-- `bf := big.NewFloat(3); v := cty.NumberVal(bf)` -/
def numberValPre : List HeapOp := [.caller (.newFloat 3), .api (.numberVal 0)]

/-- **NumberVal retains the `*big.Float`** (documented): after `bf.SetInt64(7)` the
value reads 7.  The history up to the mutation is respectful, the value is frozen,
the mutation is the one step that is not respectful. -/
theorem numberVal_counterexample :
    respectfulRun {} numberValPre = true ∧
    frozen 8 (run {} numberValPre).mem (run {} numberValPre).vals[0]! = true ∧
    respectful (run {} numberValPre) (.caller (.setFloat 0 7)) = false ∧
    valChanges numberValPre 0 (.caller (.setFloat 0 7)) = true := by decide

theorem fingerprints_stable_counterexample : ¬ FingerprintsStableUnconditionally := by
  intro h
  have := h (run {} numberValPre) [.caller (.setFloat 0 7)] 8 (run {} numberValPre).vals[0]! (by decide)
  revert this
  decide

/-- `tys := []cty.Type{String, Number}; t := cty.Tuple(tys)` -/
def tupleTypePre : List HeapOp :=
  [.caller (.newTypes [.prim "string", .prim "number"]), .api (.tupleType 0)]

/-- **cty.Tuple retains the `[]Type`** (documented): `tys[0] = cty.Bool` changes the type. -/
theorem tupleType_counterexample :
    respectfulRun {} tupleTypePre = true ∧
    frozen 8 (run {} tupleTypePre).mem (run {} tupleTypePre).vals[0]! = true ∧
    respectful (run {} tupleTypePre) (.caller (.setElemType 0 0 (.prim "bool"))) = false ∧
    valChanges tupleTypePre 0 (.caller (.setElemType 0 0 (.prim "bool"))) = true := by decide

/-- `v := TupleVal([1, "x"]); tys := v.Type().TupleElementTypes()` -/
def tupleElementTypesPre : List HeapOp :=
  [.api (.numberIntVal 1), .api (.stringVal "x"), .caller (.newSlice [0, 1] 0), .api (.tupleVal 0),
   .api (.tupleElementTypes 2)]

/-- **TupleElementTypes returns internal state** (documented read-only). -/
theorem tupleElementTypes_counterexample :
    respectfulRun {} tupleElementTypesPre = true ∧
    frozen 8 (run {} tupleElementTypesPre).mem (run {} tupleElementTypesPre).vals[2]! = true ∧
    respectful (run {} tupleElementTypesPre) (.caller (.setElemType 1 0 (.prim "bool"))) = false ∧
    valChanges tupleElementTypesPre 2 (.caller (.setElemType 1 0 (.prim "bool"))) = true := by decide

/-- `v := ObjectVal({"a": 1}); atys := v.Type().AttributeTypes()` -/
def attributeTypesPre : List HeapOp :=
  [.api (.numberIntVal 1), .caller (.newMap [("a", 0)]), .api (.objectVal 0), .api (.attributeTypes 1)]

/-- **AttributeTypes returns internal state** (documented read-only). -/
theorem attributeTypes_counterexample :
    respectfulRun {} attributeTypesPre = true ∧
    frozen 8 (run {} attributeTypesPre).mem (run {} attributeTypesPre).vals[1]! = true ∧
    respectful (run {} attributeTypesPre) (.caller (.mapPutType 1 "a" (.prim "bool"))) = false ∧
    valChanges attributeTypesPre 1 (.caller (.mapPutType 1 "a" (.prim "bool"))) = true := by decide

/-- `p := Path{}.GetAttr("a"); s := NewPathSet(); s.Add(p)` -/
def pathSetAddPre : List HeapOp :=
  [.caller .nilPath, .api (.pathGetAttr 0 "a"), .api .newPathSet, .api (.psAdd 2 1 7)]

/-- **PathSet.Add retains the path** (documented): `p[0] = …` changes the member. -/
theorem pathSetAdd_counterexample :
    respectfulRun {} pathSetAddPre = true ∧
    respectful (run {} pathSetAddPre) (.caller (.setStep 1 0 "zz")) = false ∧
    goChanges pathSetAddPre 2 (.caller (.setStep 1 0 "zz")) = true := by decide

/-- `s.Add(p.Copy()); l := s.List(); q := l[0]` -/
def pathSetListPre : List HeapOp :=
  [.caller .nilPath, .api (.pathGetAttr 0 "a"), .api (.pathCopy 1), .api .newPathSet, .api (.psAdd 3 2 7),
   .api (.psList 3 [0]), .caller (.elemPath 4 0)]

/-- **PathSet.List hands out the member paths themselves** (paths are immutable by
convention): `q[0] = …` changes the member. -/
theorem pathSetList_counterexample :
    respectfulRun {} pathSetListPre = true ∧
    respectful (run {} pathSetListPre) (.caller (.setStep 5 0 "zz")) = false ∧
    goChanges pathSetListPre 3 (.caller (.setStep 5 0 "zz")) = true := by decide

/-- `p := Path{}.GetAttr("a").GetAttr("b"); s := NewPathSet(); s.AddAllSteps(p);
l := s.List(); q := l[0]` — `q` is the member `p[:1:1]`: `len 1, cap 1`, over `p`'s array -/
def pathSetAddAllStepsPre : List HeapOp :=
  [.caller .nilPath, .api (.pathGetAttr 0 "a"), .api (.pathGetAttr 1 "b"), .api .newPathSet,
   .api (.psAddAllSteps 3 2 [1, 2]), .api (.psList 3 [0, 1]), .caller (.elemPath 4 0)]

/-- **REGRESSION (repaired by /repo 776b476): `AddAllSteps` files every prefix without spare
capacity.**  Before the repair the prefixes were `path[:i]` — slices over the caller's array WITH
the room of the longer ones — and `append(q, step)` on the listed member `a` wrote no cell of `a`
itself, yet turned the member `a.b` into `a.zz` (this theorem was
`pathSetAddAllSteps_counterexample`).  Now the listed member has `cap = len`, so the append
allocates: it is a respectful caller step and leaves the set as it was.  (The path itself is still
retained, as by `Add`: documented.) -/
theorem pathSetAddAllSteps_append_safe :
    respectfulRun {} pathSetAddAllStepsPre = true ∧
    (run {} pathSetAddAllStepsPre).gos[5]! = .slice 1 0 1 1 ∧
    respectful (run {} pathSetAddAllStepsPre) (.caller (.appendStep 5 "zz")) = true ∧
    goChanges pathSetAddAllStepsPre 3 (.caller (.appendStep 5 "zz")) = false := by decide

/-- Walk over `list(list(list(list("x","y"))))`, four callback invocations deep: the
path of `[0][0][0][0]` is register 9 and has `len 4, cap 4`, sharing its array with
its parent's `len 3, cap 4` slice -/
def walkPre : List HeapOp :=
  [.api (.stringVal "x"), .api (.stringVal "y"), .caller (.newSlice [0, 1] 0), .api (.listVal 0),
   .caller (.newSlice [2] 0), .api (.listVal 1), .caller (.newSlice [3] 0), .api (.listVal 2),
   .caller (.newSlice [4] 0), .api (.listVal 3),
   .api .newPathSet, .api (.walkBegin 5), .api (.walkNext 0), .api (.walkNext 0), .api (.walkNext 0),
   .api (.walkNext 0)]

/-- **The walk path buffer is re-used** (documented: copy the path to keep it).  The
callback puts the path it was given into a PathSet WITHOUT copying (the one step
that is not respectful); the next callback invocation — an API step — overwrites
the member: the sibling's path is appended in place. -/
theorem walk_retained_path_counterexample :
    respectfulRun {} walkPre = true ∧
    respectful (run {} walkPre) (.api (.psAdd 4 9 0)) = false ∧
    respectful (run {} (walkPre ++ [.api (.psAdd 4 9 0)])) (.api (.walkNext 0)) = true ∧
    goChanges (walkPre ++ [.api (.psAdd 4 9 0)]) 4 (.api (.walkNext 0)) = true := by decide

/-- the documented remedy: `ps.Add(path.Copy())` is respectful and the member stays -/
theorem walk_copied_path_stays :
    respectfulRun {} (walkPre ++ [.api (.pathCopy 9), .api (.psAdd 4 10 0), .api (.walkNext 0)]) = true ∧
    goChanges (walkPre ++ [.api (.pathCopy 9), .api (.psAdd 4 10 0)]) 4 (.api (.walkNext 0)) = false := by
  decide


/-! ## 2b. Histories in which every call applies

`run` skips a step the model does not apply, so the theorems above also speak of
histories padded with no-ops.  The histories the correspondence harness replays on
the real code are STRICT: every step applies on both sides (a step the model skips
prints `!`, which never equals what the real call printed). -/

/-- **Fingerprints are stable — strict histories.**  `pre`, then `post`, every single
step of both applying (`runStrict … = some _`), the whole respecting the documented
ownership rules: every value that exists after `pre` reports exactly the same deep
content after `post`.  No skipped step carries the statement. -/
theorem fingerprints_stable_strict (pre post : List HeapOp) (st1 st2 : St)
    (h1 : runStrict {} pre = some st1) (h2 : runStrict st1 post = some st2)
    (hd : docRespectfulRun {} (pre ++ post) = true)
    (w : Word) (hw : w ∈ st1.vals) (f : Nat) : fp f st2.mem w = fp f st1.mem w := by
  have e1 := runStrict_run pre {} st1 h1
  have e2 : run {} (pre ++ post) = st2 :=
    runStrict_run (pre ++ post) {} st2 (by rw [runStrict_append, h1]; exact h2)
  have := fingerprints_stable pre post hd w (by rw [e1]; exact hw) f
  rwa [e1, e2] at this

/-- a history is strict exactly when the model applies each of its steps -/
theorem strict_iff_all_applied (st : St) (ops : List HeapOp) :
    (runStrict st ops).isSome = true ↔ applied st ops = ops.length :=
  runStrict_isSome_iff ops st

/-- **Calls on value registers of the right kind apply** — in every state a history
from the empty state reaches (documented ownership rules respected): `AsBigFloat`,
`Negate`, `Add` on number values; `Marks`, `Unmark`, `Mark`, `WithSameMarks` on any
value.  The storage they read exists and has the right kind because every value is
made of library-owned storage (`values_frozen`): for these entry points no history is
carried by a skipped step.  (For the other entry points applicability also depends on
oracle columns — hashes, orders — and is observed, not proved: a call the real code
executes and the model skips prints `!` and is a correspondence mismatch.) -/
theorem value_calls_apply (ops : List HeapOp) (hd : docRespectfulRun {} ops = true) :
    (∀ v w t t' a b, (run {} ops).val v = some (t, .num a) → (run {} ops).val w = some (t', .num b) →
      (step (run {} ops) (.api (.asBigFloat v))).isSome = true ∧
      (step (run {} ops) (.api (.opNegate v))).isSome = true ∧
      (step (run {} ops) (.api (.opAdd v w))).isSome = true) ∧
    (∀ v w t p t' q mk, (run {} ops).val v = some (t, p) → (run {} ops).val w = some (t', q) →
      (step (run {} ops) (.api (.marks v))).isSome = true ∧
      (step (run {} ops) (.api (.unmark v))).isSome = true ∧
      (step (run {} ops) (.api (.mark v mk))).isSome = true ∧
      (step (run {} ops) (.api (.withSameMarks v w))).isSome = true) :=
  have hi := (run_inv ops {} inv_empty hd).1
  ⟨fun _ _ _ _ _ _ hv hw => number_calls_apply hi hv hw,
   fun _ _ _ _ _ _ mk hv hw => mark_calls_apply hi mk hv hw⟩

/-- the hypotheses are satisfiable by non-trivial histories: the witnesses of the
`_counterexample`s below are strict up to the offending mutation -/
example : (runStrict {} walkPre).isSome = true ∧ (runStrict {} tupleElementTypesPre).isSome = true ∧
    (runStrict {} pathSetListPre).isSome = true ∧ docRespectfulRun {} walkPre = true := by decide

/-! ## 2c. Fuel

`fp`, `frozen` recurse on a fuel argument (`fp 0 = [.cut]`, `frozen 0 = true`).  The
theorems above hold for EVERY fuel, and a fingerprint without `.cut` is final: -/

/-- **A complete fingerprint is the fingerprint for every larger fuel** — so an
equation between complete fingerprints is an equation between the deep contents, not
an artefact of the fuel running out on both sides; and `Equivalent` of the set model
(`equivW`, fuel `eqFuel = 12`) answers the same with any larger fuel on members whose
fingerprints are complete.  (The driver prints fingerprints with fuel 24; a `#cut` in
its output can never equal what the real code printed.) -/
theorem fingerprint_fuel_irrelevant {f f' : Nat} (hle : f ≤ f') (m : Mem) (w : Word)
    (h : Tok.cut ∉ fp f m w) :
    fp f' m w = fp f m w ∧
    ∀ y, eqFuel ≤ f → Tok.cut ∉ fp eqFuel m w → Tok.cut ∉ fp eqFuel m y →
      equivWf f m w y = equivW m w y :=
  ⟨fp_fuel_le hle m w h, fun y hf hw hy => equivW_fuel hf m w y hw hy⟩

/-- every value and Go object of the deepest witness history (four nested lists, a
walk four levels deep) has a complete fingerprint at fuel 8 -/
example : ((run {} walkPre).vals ++ (run {} walkPre).gos).all
    (fun w => !(fp 8 (run {} walkPre).mem w).contains .cut) = true := by decide

/-! ## 3. Accessors do not let internals escape -/

/-- **Accessors return fresh objects.**  Whatever `AsBigFloat`, `AsValueSlice`,
`AsValueMap`, `Marks`, `Unmark`, `ValueSet.Values`, `Path.Index/GetAttr/Copy`,
`PathSet.List` hand to the caller, the Go object directly behind it — the
`*big.Float`, the backing array, the map, the mark set — was allocated by that very
call and belongs to the caller; for `AsValueSet`, `ValueSet.Copy`, `NewValueSet`,
`NewPathSet` the bucket map of the set returned was allocated by that call.
None of it is an object that existed before, let alone one a value is made of:
the caller may write it at will (`fingerprints_stable`). -/
theorem no_escape {st st' : St} {c : Api} (h : step st (.api c) = some st') :
    (isPlainAccessor c = true → ∀ g ∈ st'.gos.drop st.gos.length, ∀ a, goRoot g = some a →
      st.mem.length ≤ a ∧ ownerOf st'.mem a = some .caller) ∧
    (isSetAccessor c = true → ∀ g ∈ st'.gos.drop st.gos.length, ∀ a, goRoot g = some a →
      st.mem.length ≤ a) :=
  ⟨fun hc => plain_accessor_fresh hc h, fun hc => set_accessor_fresh hc h⟩

/-- **Ownership never moves towards the caller.**  Whatever step runs — any API call,
any caller action, respectful or not — an object that existed before it is
caller-owned afterwards only if it was caller-owned before.  In particular no API
call ever makes an object a value is made of (library-owned) writable by the
caller: the accessors that do return internal state (`TupleElementTypes`,
`AttributeTypes`, `PathSet.List`'s member paths, a `Walk` callback's path) return it
library-owned, which is exactly what their documentation says ("read access only"). -/
theorem ownership_never_returns {st st' : St} {op : HeapOp} (h : step st op = some st') :
    ∀ a, a < st.mem.length → ownerOf st'.mem a = some .caller → ownerOf st.mem a = some .caller :=
  (step_noGain h).2

/-- what a value is made of is not the caller's -/
theorem frozen_not_callers {m : Mem} {a : Addr} (h : frozenObj m a = true) : ownerOf m a ≠ some .caller := by
  intro hc
  simp [frozenObj, hc] at h

/-! ## 4. Mutable helper sets: `Copy` gives an independent set -/

/-- **A helper set changes only through its own mutating methods.**  A ValueSet /
PathSet in order (`helperOK`: its bucket map is a helper's, every bucket array is
tagged as this set's and holds library-owned members) keeps its fingerprint — and
stays in order — through every respectful history in which no step is
`Add`/`Remove` on this very set; whatever is done to other sets, copies included. -/
theorem helper_set_stable (st : St) (ops : List HeapOp) (f : Nat) (a : Addr)
    (hok : helperOK f st.mem (.set a) = true) (hr : respectfulRun st ops = true)
    (hn : notReceiver a st ops = true) :
    fp (f + 1) (run st ops).mem (.set a) = fp (f + 1) st.mem (.set a) ∧
      helperOK f (run st ops).mem (.set a) = true :=
  let r := helper_stable_run ops st f a hok hr hn
  ⟨r.2, r.1⟩

/-- **`ValueSet.Copy` then `Add`** (holds since /repo 877dbc3 "Set.Copy gives every
bucket its own backing array").  `c := s.Copy()` yields a NEW set in order at a
fresh address, writes nothing that existed, and from then on the two sets are
independent: no history of respectful steps without a mutating call on `s` changes
what `s` reports — so no `c.Add`, however often, whatever bucket capacity was
spare — and symmetrically for `c`. -/
theorem valueset_copy_add {st st1 : St} {g : Nat} {ety : Word} {a : Addr} {f : Nat}
    (hg : st.go g = some (.pair ety (.set a))) (hok : helperOK f st.mem (.set a) = true)
    (hc : step st (.api (.vsCopy g)) = some st1) :
    ∃ a', a' ≠ a ∧ st1.gos = st.gos ++ [.pair ety (.set a')] ∧
      helperOK f st1.mem (.set a) = true ∧ helperOK f st1.mem (.set a') = true ∧
      fp (f + 1) st1.mem (.set a) = fp (f + 1) st.mem (.set a) ∧
      ∀ ops, respectfulRun st1 ops = true →
        (notReceiver a st1 ops = true →
          fp (f + 1) (run st1 ops).mem (.set a) = fp (f + 1) st1.mem (.set a)) ∧
        (notReceiver a' st1 ops = true →
          fp (f + 1) (run st1 ops).mem (.set a') = fp (f + 1) st1.mem (.set a')) := by
  simp only [step, stepApi, hg, Option.bind_eq_bind, Option.bind_eq_some_iff, Option.pure_def,
    Option.some.injEq] at hc
  obtain ⟨w, hw, e⟩ := hc
  subst hw
  simp only [Option.bind_eq_some_iff, Option.some.injEq] at e
  obtain ⟨r, hcopy, e⟩ := e
  subst e
  obtain ⟨ha', hext, hok'⟩ := setCopy_helper hok (a' := r.2) hcopy
  obtain ⟨kvs, hm, _⟩ := helperOK_iff.mp hok
  have halt := (List.getElem?_eq_some_iff.mp hm).1
  have hsrc := helper_stable hext (fun _ hx => hx.elim) hok
  refine ⟨r.2, by rw [ha']; exact Nat.ne_of_gt halt, rfl, hsrc.1, hok', hsrc.2, fun ops hr => ⟨fun hn => ?_, fun hn => ?_⟩⟩
  · exact (helper_stable_run ops _ f a hsrc.1 hr hn).2
  · exact (helper_stable_run ops _ f r.2 hok' hr hn).2

/-- …for every ValueSet of every state a history reaches from the empty state (the
hypothesis "in order" of `valueset_copy_add` holds by itself). -/
theorem valueset_copy_add_all_histories (pre : List HeapOp) (hd : docRespectfulRun {} pre = true)
    {g : Nat} {ety : Word} {a : Addr} (hg : (run {} pre).go g = some (.pair ety (.set a))) (f : Nat) :
    helperOK f (run {} pre).mem (.set a) = true := by
  have hi := (run_inv pre {} inv_empty hd).1
  obtain ⟨_, kvs, hm⟩ := go_ok hi hg
  exact helperOK_of_inv hi hm f

/-- `Copy` as it was before 877dbc3 (`setCopyOld`: the copy's buckets are the
receiver's slice headers) as a step on a register -/
def vsCopyOld (st : St) (g : Nat) : Option St :=
  match st.go g with
  | some (.pair ety (.set a)) =>
    (setCopyOld st.mem .helper a).map fun r => (st.withMem r.1).pushGo (.pair ety (.set r.2))
  | _ => none

/-- three unknown strings (all unknowns hash alike: one bucket, `len 3, cap 4`) in a ValueSet -/
def copyOldPre : List HeapOp :=
  [.api (.unknownVal "string" "u0"), .api (.unknownVal "string" "u1"), .api (.unknownVal "string" "u2"),
   .api (.unknownVal "string" "u3"), .api (.unknownVal "string" "u4"),
   .api (.newValueSet (.prim "string")), .api (.vsAdd 0 0 9), .api (.vsAdd 0 1 9), .api (.vsAdd 0 2 9)]

/-- **Regression witness for the old `Copy`.**  With the old code, `c1 := s.Copy();
c2 := s.Copy(); c1.Add(u3); c2.Add(u4)` makes `c1` report `u4` in place of `u3`:
both appends found spare capacity in the one shared backing array.  With the
current code (`valueset_copy_add`) the same history leaves `c1` alone. -/
theorem valueset_copy_add_old_counterexample :
    let st := run {} copyOldPre
    let st2 := ((vsCopyOld st 0).bind (vsCopyOld · 0)).getD st
    let st3 := run st2 [.api (.vsAdd 1 3 9)]
    let st4 := run st3 [.api (.vsAdd 2 4 9)]
    respectful st3 (.api (.vsAdd 2 4 9)) = false ∧           -- the old copy is not a set in order…
    fp 8 st4.mem st3.gos[1]! ≠ fp 8 st3.mem st3.gos[1]! ∧    -- …and c2.Add changed c1
    (let n2 := run st [.api (.vsCopy 0), .api (.vsCopy 0)]
     let n3 := run n2 [.api (.vsAdd 1 3 9)]
     let n4 := run n3 [.api (.vsAdd 2 4 9)]
     respectful n3 (.api (.vsAdd 2 4 9)) = true ∧ fp 8 n4.mem n3.gos[1]! = fp 8 n3.mem n3.gos[1]!) := by
  decide

/-! ## 5. Purity: results do not depend on Go's map iteration order -/

open Purity Value in
/-- **`Equals` on objects is pure** (holds since /repo c1eb320).  `σ`, `σ'` are two
orders in which Go's `range` may visit the attributes: any two permutations of the
attribute comparisons.  When every member comparison returns, the result is the
same; and the model function the harness diffs against the code (`Value.equalsObj`,
key order) is this loop. -/
theorem pure_equals_object (rec : EqRec) (ts : List Ty) (xs ys : List Payload)
    (σ σ' : List (Res EqAcc)) (hσ : σ.Perm (objOuts rec ts xs ys)) (hσ' : σ'.Perm (objOuts rec ts xs ys))
    (hok : ∀ r ∈ objOuts rec ts xs ys, r.isOk = true) :
    eqLoop σ false = eqLoop σ' false ∧ eqLoop σ false = equalsObj rec ts xs ys false := by
  have h1 := eqLoop_perm hσ (fun r hr => hok r (hσ.mem_iff.mp hr)) false
  have h2 := eqLoop_perm hσ' (fun r hr => hok r (hσ'.mem_iff.mp hr)) false
  exact ⟨h1.trans h2.symm, h1.trans (equalsObj_eq_loop rec ts xs ys false).symm⟩

open Purity Value in
/-- **`Equals` on maps is pure**: the same for the map branch (a key missing from the
other map counts as a known-unequal member). -/
theorem pure_equals_map (rec : EqRec) (e : Ty) (ks : List String) (xs : List Payload)
    (ky : List String) (ys : List Payload) (σ σ' : List (Res EqAcc))
    (hσ : σ.Perm (mapOuts rec e ks xs ky ys)) (hσ' : σ'.Perm (mapOuts rec e ks xs ky ys))
    (hok : ∀ r ∈ mapOuts rec e ks xs ky ys, r.isOk = true) :
    eqLoop σ false = eqLoop σ' false ∧ eqLoop σ false = equalsMap rec e ks xs ky ys false := by
  have h1 := eqLoop_perm hσ (fun r hr => hok r (hσ.mem_iff.mp hr)) false
  have h2 := eqLoop_perm hσ' (fun r hr => hok r (hσ'.mem_iff.mp hr)) false
  exact ⟨h1.trans h2.symm, h1.trans (equalsMap_eq_loop rec e ky ys ks xs false).symm⟩

open Purity Value in
/-- **Regression witness for the old `Equals` loop** (before c1eb320: the first
comparison that was not known-true decided): one unknown and one known-unequal
member give unknown or `False` depending on the visiting order. -/
theorem equals_order_old_counterexample :
    [Res.ok EqAcc.u, Res.ok EqAcc.f].Perm [Res.ok EqAcc.f, Res.ok EqAcc.u] ∧
    eqLoopOld [.ok .u, .ok .f] ≠ eqLoopOld [.ok .f, .ok .u] ∧
    eqLoop [.ok .u, .ok .f] false = eqLoop [.ok .f, .ok .u] false :=
  ⟨List.Perm.swap _ _ _, by decide, by decide⟩

open Purity Value in
/-- the full statement for the constructors that range over the caller's map
(`ObjectVal`, `MapVal`, `cty.Object`): the map built does not depend on the order
`σ` in which `range` visits the entries -/
def ConstructorMapPure (norm : String → String) : Prop :=
  ∀ l l' : List (String × Word), l.Perm l' → SameMap (buildMap norm l) (buildMap norm l')

open Purity Value in
/-- **`ObjectVal`/`MapVal`/`cty.Object` are pure — when no two keys of the caller's
map normalise to the same string.**  `norm` is `NormalizeString` (NFC, a parameter). -/
theorem pure_constructor_map_partial (norm : String → String) (l l' : List (String × Word))
    (hp : l.Perm l') (hd : NormDistinct norm l) : SameMap (buildMap norm l) (buildMap norm l') :=
  buildMap_perm hp hd

open Purity Value in
/-- **…and the side condition is necessary** (candidate finding, reproduced on the
real code by the harness: `ObjectVal({"\u00e9": a, "e\u0301": b})` — the same letter é
composed and decomposed — is `{"\u00e9": a}` or `{"\u00e9": b}` from call to call).  With ANY normalisation that identifies two different
keys, the two visiting orders of a two-entry map give different maps. -/
theorem constructor_map_collision_counterexample :
    ¬ ConstructorMapPure (fun s => if s = "e\u0301" then "\u00e9" else s) := by
  intro h
  have := h [("\u00e9", .str "a"), ("e\u0301", .str "b")] [("e\u0301", .str "b"), ("\u00e9", .str "a")]
    (List.Perm.swap _ _ _) (.s "\u00e9")
  revert this
  decide


open Purity Value in
/-- the full statement for the `Equals` loop with member comparisons that may fail:
every visiting order gives the same outcome -/
def EqualsLoopPure : Prop :=
  ∀ σ σ' : List (Res EqAcc), σ.Perm σ' → eqLoop σ false = eqLoop σ' false

open Purity Value in
/-- **`Equals` on objects/maps when a member comparison does not return.**  `σ`, `σ'`
two visiting orders.  (1) The loop never invents a failure: it reports `False`, or a
failure one of the member comparisons produced, or all comparisons returned (then
`pure_equals_object`).  (2) Without a known-unequal member, all orders agree on
whether the call returns at all. -/
theorem pure_equals_outcome_partial (σ σ' : List (Res EqAcc)) (hp : σ.Perm σ') :
    (eqLoop σ false = .ok .f ∨ ((eqLoop σ false).isOk = false ∧ eqLoop σ false ∈ σ) ∨
      ∀ r ∈ σ, r.isOk = true) ∧
    (Res.ok EqAcc.f ∉ σ → (eqLoop σ false).isOk = (eqLoop σ' false).isOk) :=
  ⟨eqLoop_result σ false, fun hf => eqLoop_perm_class hp hf false⟩

open Purity Value in
/-- **…and the side condition is necessary**: a known-unequal member and a member
whose comparison panics give `False` or the panic depending on the visiting order.
NOT a finding: no member comparison of well-formed mark-free values panics (only a
capsule type whose user-supplied `Equals` panics does; replayed on the real code by
`harness/c20_d1.go`, tag `pure:equals-capsule-panic-order`, it is the caller's own
panic that surfaces or not). -/
theorem equals_loop_pure_counterexample : ¬ EqualsLoopPure := by
  intro h
  have := h [.ok .f, .panic "x"] [.panic "x", .ok .f] (List.Perm.swap _ _ _)
  revert this
  decide

open Purity in
/-- **`MapVal` infers its element type independently of Go's map order.**  `σ`, `σ'`:
the types of the caller's entries in two visiting orders; `eq` is `Type.Equals`, an
equivalence (C07).  Both orders panic ("inconsistent map element types"), or both
answer a type, and the two types are `Equals` (they may be different Go objects). -/
theorem pure_mapval_element_type {T : Type} [DecidableEq T] (dyn : T) (eq : T → T → Bool)
    (hrefl : ∀ a, eq a a = true) (hsymm : ∀ a b, eq a b = true → eq b a = true)
    (htrans : ∀ a b c, eq a b = true → eq b c = true → eq a c = true)
    (σ σ' : List T) (hp : σ.Perm σ') :
    match mapValTy dyn eq σ dyn, mapValTy dyn eq σ' dyn with
    | some a, some b => eq a b = true
    | none, none => True
    | _, _ => False :=
  mapValTy_perm dyn eq hrefl hsymm htrans hp

open Purity in
/-- non-trivial instances: three entries `string, dyn, string` in two orders give
`string`; `string, number` panics in both orders; and the loop of the heap model
(`elemType`: first non-dynamic type in key order) is this loop -/
example : mapValTy "dyn" (· == ·) ["string", "dyn", "string"] "dyn" = some "string" ∧
    mapValTy "dyn" (· == ·) ["dyn", "string", "string"] "dyn" = some "string" ∧
    mapValTy "dyn" (· == ·) ["string", "number"] "dyn" = none ∧
    mapValTy "dyn" (· == ·) ["number", "string"] "dyn" = none ∧
    mapValTy tDyn (· == ·) [tString, tDyn, tString] tDyn = some (elemType [tString, tDyn, tString]) := by
  decide

/-! ## 5b. Mark sets are heap objects of their own -/

/-- **`WithMarks` and `Mark` build a new mark set.**  The marker of the value they
return points at a mark set the call itself allocated, library-owned, at a fresh
address — never at the `ValueMarks` map the caller passed (or, when there is no mark
at all, the call returns the receiver as it is). -/
theorem withMarks_builds_new_mark_set {st st' : St} {v g : Nat}
    (h : step st (.api (.withMarks v g)) = some st') :
    ∃ t p, st.val v = some (t, p) ∧
      (st'.vals = st.vals ++ [.pair t p] ∧ st'.mem = st.mem ∨
       ∃ l, st'.vals = st.vals ++ [.pair t (.marked st.mem.length (unwrap p))] ∧
         st'.mem = st.mem ++ [⟨.lib, .markset l⟩]) :=
  withMarks_markset h

/-- `m := cty.NewValueMarks("p"); v := cty.StringVal("a").WithMarks(m)` -/
def withMarksPre : List HeapOp := [.api (.stringVal "a"), .caller (.newMarks ["p"])]

/-- **Regression witness for the seeded fast path** (`seeded/C20-withmarks-fast-path-
retains-caller-map`: unmarked receiver, one set → the caller's map goes into the
marker).  With it, `m["q"] = struct{}{}` — a respectful caller action: the map is the
caller's — changes the value; with the current code (`stepApi`) it does not, and the
mutation stays respectful. -/
theorem withMarks_fast_path_counterexample :
    let st := run {} withMarksPre
    (let bad := (withMarksFast st 0 0).getD st
     respectful bad (.caller (.marksAdd 0 "q")) = true ∧
     fp 8 (run bad [.caller (.marksAdd 0 "q")]).mem bad.vals[1]! ≠ fp 8 bad.mem bad.vals[1]!) ∧
    (let good := run st [.api (.withMarks 0 0)]
     respectful good (.caller (.marksAdd 0 "q")) = true ∧
     fp 8 (run good [.caller (.marksAdd 0 "q")]).mem good.vals[1]! = fp 8 good.mem good.vals[1]!) := by
  decide

/-! ## 6. Sharing between goroutines -/

open Interleave in
/-- **Interleavings are equivalent to sequential runs** (generic over the step
semantics).  Threads `0, 1, 2, …` run lists of steps over one memory.  If every step
of thread `i` depends only on `shared ∪ own i` and changes only `own i` (the sets
`own i` pairwise disjoint and disjoint from `shared`), then for EVERY schedule
that runs all threads to completion, each thread gets back exactly the results
of running alone from the initial memory, finds its own addresses exactly as if it
had run alone, and the shared addresses are untouched.

For cty: `shared` = the objects of the values the goroutines share (library-owned,
`frozen`); `own i` = what goroutine `i` allocates.  By `step_writes_only` every API
entry point other than the mutating methods of helper sets has an EMPTY write set
in the model — it writes only what it allocated — so read-only use of shared values
by 2…n goroutines meets the hypothesis *provided each real call's footprint is the
model's*.  That proviso, and the Go memory model underneath it, are not proved. -/
theorem interleaving_equiv_sequential {V R : Type} (prog : Nat → List (Act V R))
    (shared : Nat → Prop) (own : Nat → Nat → Prop) (hp : Partitioned prog shared own)
    (m0 : Memory V) (sched : List Nat)
    (hdone : ∀ i, (exec (start prog m0) sched).todo i = []) :
    (∀ i, (exec (start prog m0) sched).out i = (solo m0 (prog i)).2) ∧
    (∀ i x, own i x → (exec (start prog m0) sched).mem x = (solo m0 (prog i)).1 x) ∧
    (∀ x, shared x → (exec (start prog m0) sched).mem x = m0 x) := by
  have hinv := inv_exec hp sched (inv_start prog shared own m0)
  refine ⟨fun i => ?_, fun i x hx => ?_, hinv.sharedSame⟩
  · obtain ⟨done, hpr, hout, _⟩ := hinv.thread i
    rw [hdone i, List.append_nil] at hpr
    rw [hout, hpr]
  · obtain ⟨done, hpr, _, hown⟩ := hinv.thread i
    rw [hdone i, List.append_nil] at hpr
    rw [hown x hx, hpr]

open Interleave in
/-- …and at every moment of every schedule (complete or not) each thread has got
back a prefix of its sequential results. -/
theorem interleaving_prefix {V R : Type} (prog : Nat → List (Act V R))
    (shared : Nat → Prop) (own : Nat → Nat → Prop) (hp : Partitioned prog shared own)
    (m0 : Memory V) (sched : List Nat) (i : Nat) :
    ∃ done, prog i = done ++ (exec (start prog m0) sched).todo i ∧
      (exec (start prog m0) sched).out i = (solo m0 done).2 := by
  obtain ⟨done, hpr, hout, _⟩ := (inv_exec hp sched (inv_start prog shared own m0)).thread i
  exact ⟨done, hpr, hout⟩

/-! ## 7. Sharing between goroutines — the heap model the driver runs

§6 is generic.  Here its hypothesis is DISCHARGED for `Heap.step`, the step function the
correspondence harness diffs against go-cty (`Lemmas/d20Conc.lean`). -/

open Conc in
/-- **Every API entry point of the model but eight has an empty write set** — in every
state, whatever its arguments: constructors, accessors, operation methods, `Copy`,
`Values`, `Has`, `Length`, path helpers, `PathSet.List/Has`, the first callback
invocation of `Walk`.  The eight: `NumberVal(*big.Float)` and `cty.Tuple([]Type)` (take
ownership of the caller's object — documented), `ValueSet.Add/Remove`,
`PathSet.Add/AddAllSteps/Remove` (mutating methods of helper sets, documented as not
concurrency-safe) and the continuation of a running `Walk` (appends to that walk's
own path buffer). -/
theorem api_write_set_empty (c : Api) :
    (readOnlyApi c = true ∧ ∀ st x, wset st (.api c) x = false) ∨
    (∃ g, c = .numberVal g) ∨ (∃ g, c = .tupleType g) ∨ (∃ g v h, c = .vsAdd g v h) ∨
    (∃ g v h, c = .vsRemove g v h) ∨ (∃ g p h, c = .psAdd g p h) ∨ (∃ g p h, c = .psRemove g p h) ∨
    (∃ g p hs, c = .psAddAllSteps g p hs) ∨ (∃ w, c = .walkNext w) := by
  cases hc : readOnlyApi c with
  | true => exact .inl ⟨rfl, wset_readOnly hc⟩
  | false =>
    right
    cases c <;> simp [readOnlyApi] at hc
    all_goals simp

open Conc in
/-- **Read-only footprint.**  A call of any of those entry points performs NO write to
any object that existed before it, shared or not, reachable or not: the heap it
leaves is the heap it found plus what it allocated.  (No ownership hypothesis.) -/
theorem api_read_only_footprint {c : Api} (hc : readOnlyApi c = true) {st st' : St}
    (h : step st (.api c) = some st') :
    st.mem <+: st'.mem ∧
      ∀ f w, frozen f st.mem w = true → fp f st'.mem w = fp f st.mem w :=
  ⟨readOnly_prefix hc h,
   fun f w hw => fp_stable (step_preserves (respectful_readOnly hc st) h) f w hw⟩

open Conc Interleave in
/-- **Any interleaving of goroutines equals their sequential runs — for `Heap.step`.**
`st0` is the state when the goroutines start: every value and Go object of it is
shared.  Goroutine `i` runs the history `progs i` (API calls and caller actions), each
step being the model's `step` on the shared heap followed by the goroutine's own
allocations.  A step is admitted when it respects the ownership rules and its write
set holds no object of the shared heap (`sharedSafe`, decidable; a goroutine may
mutate Go data it made itself, `Add` to a `ValueSet` it made itself, `Walk`).
Then for EVERY schedule that runs all goroutines to completion, every goroutine gets
back, step for step, exactly the states (values, Go data, answers) of running alone
from `st0` — hence the same as under any other schedule, the sequential ones
included — and the shared state is untouched.

This instantiates `interleaving_equiv_sequential`: the footprint hypothesis
(`Partitioned`) is `Arena.partitioned`, whose frame half is `step_writes_only`.
ASSUMED, not proved: goroutines allocate in disjoint arenas (Go's allocator gives
different goroutines different objects); the Go memory model; and that each real
call's footprint is the model's (correspondence runs, `-race` worker). -/
theorem goroutines_equiv_sequential (st0 : St) (progs : Nat → List HeapOp) (sched : List Nat)
    (hdone : ∀ i, (exec (start (Arena.prog progs) (Arena.cells0 st0)) sched).todo i = []) :
    (∀ i, (exec (start (Arena.prog progs) (Arena.cells0 st0)) sched).out i =
        soloTrace st0.mem.length st0 (progs i)) ∧
    (exec (start (Arena.prog progs) (Arena.cells0 st0)) sched).mem 0 = st0 := by
  obtain ⟨hout, _, hsh⟩ := interleaving_equiv_sequential (Arena.prog progs) (fun x => x = 0)
    (fun i x => x = i + 1) (Arena.partitioned progs) (Arena.cells0 st0) sched hdone
  refine ⟨fun i => ?_, by simpa [Arena.cells0] using hsh 0 rfl⟩
  rw [hout i]
  have := (Arena.solo_act i (progs i) (Arena.cells0 st0)).1
  simpa [Arena.view_cells0, Arena.cells0, Arena.prog] using this

open Conc Interleave in
/-- **…for goroutines that only USE shared values** (read-only API calls, fresh Go
data): no side condition is left — the results are those of the model's unguarded
`step`, whatever the schedule. -/
theorem goroutines_read_only (st0 : St) (progs : Nat → List HeapOp) (sched : List Nat)
    (hro : ∀ i, (progs i).all readOnlyOp = true)
    (hdone : ∀ i, (exec (start (Arena.prog progs) (Arena.cells0 st0)) sched).todo i = []) (i : Nat) :
    (exec (start (Arena.prog progs) (Arena.cells0 st0)) sched).out i = stepTrace st0 (progs i) := by
  rw [(goroutines_equiv_sequential st0 progs sched hdone).1 i, soloTrace_readOnly _ _ _ (hro i)]

open Conc Interleave in
/-- **…and two schedules never disagree**: what a goroutine gets back does not depend
on the schedule. -/
theorem goroutines_schedule_independent (st0 : St) (progs : Nat → List HeapOp) (s s' : List Nat)
    (h : ∀ i, (exec (start (Arena.prog progs) (Arena.cells0 st0)) s).todo i = [])
    (h' : ∀ i, (exec (start (Arena.prog progs) (Arena.cells0 st0)) s').todo i = []) (i : Nat) :
    (exec (start (Arena.prog progs) (Arena.cells0 st0)) s).out i =
      (exec (start (Arena.prog progs) (Arena.cells0 st0)) s').out i := by
  rw [(goroutines_equiv_sequential st0 progs s h).1 i, (goroutines_equiv_sequential st0 progs s' h').1 i]

open Conc Interleave in
/-- …at every moment of every schedule (complete or not) each goroutine has got back a
prefix of its sequential results. -/
theorem goroutines_prefix (st0 : St) (progs : Nat → List HeapOp) (sched : List Nat) (i : Nat) :
    ∃ done rest, progs i = done ++ rest ∧
      (exec (start (Arena.prog progs) (Arena.cells0 st0)) sched).out i =
        soloTrace st0.mem.length st0 done := by
  obtain ⟨done, hpr, hout⟩ := interleaving_prefix (Arena.prog progs) (fun x => x = 0)
    (fun i x => x = i + 1) (Arena.partitioned progs) (Arena.cells0 st0) sched i
  simp only [Arena.prog] at hpr
  obtain ⟨d, r, hd, hdd, _⟩ := List.map_eq_append_iff.mp hpr
  refine ⟨d, r, hd, ?_⟩
  rw [hout, ← hdd]
  have := (Arena.solo_act i d (Arena.cells0 st0)).1
  simpa [Arena.view_cells0, Arena.cells0] using this


/-- a state to fork from: `v0 = 3`, `v3 = ["x","y"]`, `v4 = v3.Mark("secret")` -/
def forkState : St :=
  run {} [.api (.numberIntVal 3), .api (.stringVal "x"), .api (.stringVal "y"), .caller (.newSlice [1, 2] 0),
    .api (.listVal 0), .api (.mark 3 "secret")]

/-- goroutine 0 copies the list out and overwrites its copy, adds, copies the number
out and overwrites the copy; goroutine 1 indexes, unmarks and writes into the mark set
it got, and walks the list -/
def forkProgs : Nat → List HeapOp
  | 0 => [.api (.asValueSlice 3 []), .caller (.setElem 1 0 2), .api (.opAdd 0 0), .api (.asBigFloat 0),
          .caller (.setFloat 2 9)]
  | 1 => [.api (.index 3 (.i 1)), .api (.unmark 4), .caller (.marksAdd 1 "m"), .api (.walkBegin 3),
          .api (.walkNext 0), .api (.walkNext 0)]
  | _ => []

/-- the hypotheses of `goroutines_equiv_sequential` are jointly satisfiable by a
non-trivial instance: a schedule that interleaves the two goroutines step by step runs
both to completion, and every step of both is admitted and applies (no `none`) -/
example :
    (∀ i, (Interleave.exec (Interleave.start (Conc.Arena.prog forkProgs) (Conc.Arena.cells0 forkState))
        [0, 1, 1, 0, 1, 0, 0, 1, 1, 0, 1]).todo i = []) ∧
    (∀ i, (Conc.soloTrace forkState.mem.length forkState (forkProgs i)).all Option.isSome = true) ∧
    forkState.mem.length = 4 := by
  refine ⟨fun i => ?_, fun i => ?_, by decide⟩
  · match i with
    | 0 => rfl
    | 1 => rfl
    | n + 2 => exact Conc.Arena.todo_nil_of_prog_nil forkProgs forkState _ (n + 2) rfl
  · match i with
    | 0 => decide
    | 1 => decide
    | n + 2 => rfl

open Conc in
/-- the statement WITHOUT the guard `sharedSafe` — `k` goroutines run the model's
unguarded `step` over one heap and get back the answers (`outs`) of running alone —
is false of go-cty, by design: helper sets are mutable and not concurrency-safe -/
def GoroutinesUnconditionally : Prop :=
  ∀ (st0 : St) (progs : Nat → List HeapOp) (k : Nat) (sched : List Nat) (i : Nat), i < k →
    ((List.range k).all fun j => ((Global.execWith step (Global.start st0 progs) sched).todo j).isEmpty) = true →
    Global.answers ((Global.execWith step (Global.start st0 progs) sched).out i) = Global.answers (stepTrace st0 (progs i))

/-- `a, b := "a", "b"; s := cty.NewValueSet(cty.String)` -/
def sharedSetState : St :=
  run {} [.api (.stringVal "a"), .api (.stringVal "b"), .api (.newValueSet (.prim "string"))]

/-- each goroutine: `s.Add(own string); s.Length()` on the SHARED set -/
def sharedSetProgs : Nat → List HeapOp
  | 0 => [.api (.vsAdd 0 0 1), .api (.vsLength 0)]
  | 1 => [.api (.vsAdd 0 1 2), .api (.vsLength 0)]
  | _ => []

open Conc in
/-- **Two goroutines that `Add` to one shared `ValueSet`** (documented: "Set mutations
are not concurrency-safe"; in the model each `Add` is atomic, so this is the mildest
form of the misuse): under the schedule `0,1,0,1` goroutine 0 reads length 2, alone it
reads 1 — and `sharedSafe` rejects exactly these two steps.  The race worker shows the
real thing: `-race` reports the concurrent `Add`s (probe
`race-detector-reports-concurrent-ValueSet.Add`). -/
theorem goroutines_shared_set_counterexample :
    ¬ GoroutinesUnconditionally ∧
    sharedSafe sharedSetState.mem.length sharedSetState (.api (.vsAdd 0 0 1)) = false ∧
    sharedSafe sharedSetState.mem.length sharedSetState (.api (.vsLength 0)) = true := by
  refine ⟨fun h => ?_, by decide, by decide⟩
  have := h sharedSetState sharedSetProgs 2 [0, 1, 0, 1] 0 (by decide) (by decide)
  revert this
  decide

open Conc in
/-- **One heap, the model's own allocator: no schedule ever writes the shared heap.**
All goroutines allocate from the one bump allocator of `Heap.alloc` (so addresses do
depend on the schedule).  Whatever the schedule, complete or not, the heap the
goroutines started from is a prefix of the current heap, and every value made of
library-owned storage reports what it reported at the start. -/
theorem shared_heap_untouched (st0 : St) (progs : Nat → List HeapOp) (sched : List Nat) :
    st0.mem <+: (Global.exec st0.mem.length (Global.start st0 progs) sched).mem ∧
    ∀ f w, frozen f st0.mem w = true →
      fp f (Global.exec st0.mem.length (Global.start st0 progs) sched).mem w = fp f st0.mem w := by
  obtain ⟨hl, ht⟩ := Global.exec_keeps (n := st0.mem.length) sched (Global.start st0 progs) (Nat.le_refl _)
  have ht' : (Global.exec st0.mem.length (Global.start st0 progs) sched).mem.take st0.mem.length = st0.mem := by
    rw [ht]; simp [Global.start]
  refine ⟨?_, fun f w hw => fp_stable (Global.preserves_of_prefix ht' hl) f w hw⟩
  have hp := List.take_prefix st0.mem.length (Global.exec st0.mem.length (Global.start st0 progs) sched).mem
  rw [ht'] at hp
  exact hp


/-! ## 8. Reading does not write: `Values`, `Unify`, `UnmarkDeepWithPaths`, `PathSet.Union/Subtract`

The entry points of `CtyModel/HeapD20b.lean` follow the Go code cell by cell (`append` with
len/cap/backing array, `sort.SliceStable` in place, `make` + `copy`).  The driver op
`heapx.run` diffs histories that mix them with the steps of §1–§4 against the real code
(`harness/c20_d2.go`): fingerprints after every step, and len/cap/backing-array identity of
every slice and bucket at the end.  Each `_seeded_counterexample` is the shape of a seeded
change that survived the earlier check (`/verif/seeded/C20-…`): the theorem about the current
shape is false of it. -/

/-- **`Set[T].Values()` writes no cell of the heap it finds** — none reachable from the set,
none of any other object, not even spare capacity of a bucket's backing array: the heap
after the call is the heap before it plus what the call allocated, and the slice it returns
is over an array of its own.  (`ret` starts as the nil slice, so the first `append`
allocates; every later `append` and the ordering sort write that array or a grown copy.) -/
theorem set_values_writes_nothing {m m' : Mem} {own : Owner} {a : Addr} {ordered : Bool} {perm : List Nat}
    {r : Word} (h : setValuesGo m own a ordered perm = some (m', r)) :
    m <+: m' ∧ ∀ arr off len cap, r = .slice arr off len cap → m.length ≤ arr :=
  ⟨ext_prefix (pres_setValuesGo (Ext.refl NoW m) h).1, setValuesGo_fresh h⟩

/-- `v := cty.SetVal({unk u0, unk u1, unk u2, "a"})`: the three unknowns share bucket 1
(`len 3, cap 4`), `"a"` is alone in bucket 2 -/
def setReadPre : List HeapOp :=
  [.api (.unknownVal "string" "u0"), .api (.unknownVal "string" "u1"), .api (.unknownVal "string" "u2"),
   .api (.stringVal "a"), .caller (.newSlice [0, 1, 2, 3] 0), .api (.setVal 0 [1, 1, 1, 2])]

/-- **the seeded `Values` (`ret := s.vals[bucketIDs[0]]`) is caught.**  `v.AsValueSlice()` on the
set above: the append of bucket 2 finds room in bucket 1's array and the ordering sort (`"a"`
first) permutes that array — the heap is no extension of the old one and the SET VALUE reads
differently (`u2` gone, `"a"` twice).  The current code on the same history: an extension, the
value as it was. -/
theorem set_values_seeded_counterexample :
    let st := run {} setReadPre
    ((valValuesSeeded st 4 [3, 0, 1, 2]).map fun bad =>
      !st.mem.isPrefixOf bad.mem && fp 8 bad.mem st.vals[4]! != fp 8 st.mem st.vals[4]!) = some true ∧
    ((stepXApi st (.valValues 4 [3, 0, 1, 2])).map fun good =>
      st.mem.isPrefixOf good.mem && fp 8 good.mem st.vals[4]! == fp 8 st.mem st.vals[4]!) = some true := by
  decide

/-- **Every added entry point writes nothing that existed** — `ValueSet.Values`,
`Value.AsValueSlice` of a set, `PathSet.List`, the inner `Values()`, `convert.Unify` through
`unifyTuplesAsList`, `UnmarkDeepWithPaths`, `PathSet.Union`, `PathSet.Subtract`: in every
state, whatever the arguments, no ownership hypothesis.  In particular the `[]cty.Type`
handed to `Unify` — the caller's, or the `ElemTypes` of an existing tuple type when
`Convert` / `setproduct` pass `Type.TupleElementTypes()` — is in no write set. -/
theorem read_entry_points_write_nothing {st st' : St} {c : XApi} (h : stepXApi st c = some st') :
    st.mem <+: st'.mem ∧
      ∀ f w, frozen f st.mem w = true → fp f st'.mem w = fp f st.mem w ∧ frozen f st'.mem w = true :=
  ⟨stepXApi_prefix h, fun f w hw =>
    ⟨fp_stable (ext_noW_preserves (stepXApi_ext h)) f w hw,
     frozen_stable (ext_noW_preserves (stepXApi_ext h)) f w hw⟩⟩

/-- **`unifyTuplesAsList` substitutes in a copy**: the heap after it extends the heap before
it (`listed := make; copy; listed[idx] = ty` writes an array of its own). -/
theorem unify_keeps_callers_slice {m m' : Mem} {types ty : Word}
    (h : unifyTuplesAsListGo m types = some (m', ty)) : m <+: m' :=
  ext_prefix (pres_unifyGo h)

/-- `v := TupleVal{TupleVal{"a","b"}, ListVal{"a","b"}}; tys := v.Type().TupleElementTypes()` -/
def unifyPre : List HeapOp :=
  [.api (.stringVal "a"), .api (.stringVal "b"), .caller (.newSlice [0, 1] 0), .api (.tupleVal 0), .api (.listVal 0),
   .caller (.newSlice [2, 3] 0), .api (.tupleVal 1), .api (.tupleElementTypes 4)]

/-- **the seeded `unifyTuplesAsList` (`types[idx] = ty`) is caught**: `Unify(tys)` answers
`list(string)` in both shapes, but the seeded one turns the TYPE of the existing value `v`
from `tuple(tuple(string,string), list(string))` into `tuple(list(string), list(string))`. -/
theorem unify_seeded_counterexample :
    let st := run {} unifyPre
    frozen 8 st.mem st.vals[4]! = true ∧
    ((unifySeeded st 2).map fun bad =>
      bad.vals.drop 5 == [.pair (.tlist (.tprim "string")) .null] &&
      fp 8 bad.mem st.vals[4]! != fp 8 st.mem st.vals[4]!) = some true ∧
    ((stepXApi st (.unify 2)).map fun good =>
      good.vals.drop 5 == [.pair (.tlist (.tprim "string")) .null] &&
      fp 8 good.mem st.vals[4]! == fp 8 st.mem st.vals[4]!) = some true := by
  decide

/-- **What the added entry points hand out is their own**: the Go object directly behind
every Go-data register they create — the `[]Value` / `[]Path` of `Values` / `List`, every
path and every MARK SET in the `[]PathValueMarks` of `UnmarkDeepWithPaths`, the set
`Union` / `Subtract` answer (also for an empty operand) — was allocated by that very call:
no object that existed before, let alone one a value or an operand is made of.  The
caller may write it at will. -/
theorem read_entry_points_return_fresh {st st' : St} {c : XApi} (h : stepXApi st c = some st') :
    ∀ g ∈ st'.gos.drop st.gos.length, ∀ a, goRoot g = some a → st.mem.length ≤ a :=
  stepXApi_fresh h

/-- **The slice `ValueSet.Values`, `Value.AsValueSlice` of a set and `PathSet.List` answer is
the caller's**: one new Go-data register, nil or a slice over an array allocated by this call
and caller-owned in the heap the call leaves — writing its cells is a respectful caller
action; the set that was read is in no write set (`read_entry_points_write_nothing`). -/
theorem values_results_are_callers {st st' : St} {c : XApi}
    (hc : (∃ g p, c = .vsValues g p) ∨ (∃ v p, c = .valValues v p) ∨ (∃ g, c = .psList g))
    (h : stepXApi st c = some st') :
    ∃ g, st'.gos = st.gos ++ [g] ∧
      ∀ x, goRoot g = some x → st.mem.length ≤ x ∧ ownerOf st'.mem x = some .caller := by
  have key : ∀ {a ordered perm wrap}, collectValues st a ordered perm wrap = some st' →
      ∃ g, st'.gos = st.gos ++ [g] ∧
        ∀ x, goRoot g = some x → st.mem.length ≤ x ∧ ownerOf st'.mem x = some .caller := by
    intro a ordered perm wrap he
    obtain ⟨g, hg, ho⟩ := collectValues_owned he
    obtain ⟨_, g', hg', hf⟩ := collectValues_fresh he
    have : g' = g := by rw [hg] at hg'; simpa using hg'.symm
    subst this
    exact ⟨g', hg, fun x hx => ⟨hf x hx, ho x hx⟩⟩
  rcases hc with ⟨g, p, rfl⟩ | ⟨v, p, rfl⟩ | ⟨g, rfl⟩ <;> simp only [stepXApi] at h <;> split at h
  all_goals first | exact key h | cases h

/-- **`UnmarkDeepWithPaths` returns COPIES**: every Go-data register the call creates is a
path or a mark set whose object was allocated by the call AND belongs to the caller in the
heap the call leaves — so `pvm[i].Marks[k] = …` and `pvm[i].Path[j] = …` on them are
respectful caller actions (no side condition of `fingerprints_stable_ext_partial` is
touched), whatever the value was and wherever its marks sat. -/
theorem unmarkDeepWithPaths_returns_copies {st st' : St} {v : Nat}
    (h : stepXApi st (.unmarkDeepWithPaths v) = some st') :
    (∀ g ∈ st'.gos.drop st.gos.length, ∃ a, goRoot g = some a ∧ st.mem.length ≤ a ∧
      ownerOf st'.mem a = some .caller) ∧
    ∀ i w, st.gos.length ≤ i → st'.gos[i]? = some w → ∀ mk j name,
      respectful st' (.caller (.marksAdd i mk)) = true ∧ respectful st' (.caller (.setStep i j name)) = true := by
  have hown := unmarkDeepWithPaths_owned h
  refine ⟨fun g hg => ?_, fun i w hi hw mk j name => ?_⟩
  · obtain ⟨a, ha, ho⟩ := hown g hg
    exact ⟨a, ha, stepXApi_fresh h g hg a ha, ho⟩
  · have hmem : w ∈ st'.gos.drop st.gos.length := by
      rw [List.mem_iff_getElem?]
      exact ⟨i - st.gos.length, by rw [List.getElem?_drop]; rw [Nat.add_sub_cancel' hi]; exact hw⟩
    obtain ⟨a, ha, ho⟩ := hown w hmem
    cases w <;> simp [goRoot] at ha <;> simp [respectful, callerTarget, St.go, hw] <;> (subst ha; exact ho)

/-- `v := TupleVal{"x".Mark("m"), 1}.Mark("top")` -/
def unmarkPre : List HeapOp :=
  [.api (.stringVal "x"), .api (.mark 0 "m"), .api (.numberIntVal 1), .caller (.newSlice [1, 2] 0),
   .api (.tupleVal 0), .api (.mark 3 "top")]

/-- **the seeded `unmarkTransformer.Enter` (records `mr.marks` itself) is caught**:
`_, pvm := v.UnmarkDeepWithPaths()` hands out the mark set of `"x".Mark("m")` (object 0 of
the heap, library-owned), and `pvm[1].Marks["zz"] = struct{}{}` changes the existing value.
The current code hands out copies: the same write is a respectful caller action and the
value stays. -/
theorem unmark_seeded_counterexample :
    let st := run {} unmarkPre
    ((unmarkDeepWithPathsSeeded st 4).map fun bad =>
      bad.gos[4]! == .marks 0 && ownerOf bad.mem 0 == some .lib &&
      fp 8 (run bad [.caller (.marksAdd 4 "zz")]).mem st.vals[1]! != fp 8 st.mem st.vals[1]!) = some true ∧
    ((stepXApi st (.unmarkDeepWithPaths 4)).map fun good =>
      respectful good (.caller (.marksAdd 4 "zz")) && respectful good (.caller (.setStep 3 0 "zz")) &&
      fp 8 (run good [.caller (.marksAdd 4 "zz"), .caller (.setStep 3 0 "zz")]).mem st.vals[1]! ==
        fp 8 st.mem st.vals[1]!) = some true := by
  decide

/-- `s := NewPathSet(a, a.b); e := NewPathSet()` -/
def unionPre : List HeapOp :=
  [.caller .nilPath, .api (.pathGetAttr 0 "a"), .api (.pathGetAttr 1 "b"), .api .newPathSet, .api .newPathSet,
   .api (.psAdd 3 1 7), .api (.psAdd 3 2 7), .api (.pathGetAttr 0 "c")]

/-- **the seeded `PathSet.Union` (an empty operand answers the other operand) is caught**:
`r := s.Union(e); r.Add(c)` changes `s`.  With the current code `r` is a set of its own
(`read_entry_points_return_fresh`) and `s` stays. -/
theorem pathset_union_seeded_counterexample :
    let st := run {} unionPre
    ((psUnionSeeded st 3 4 [7, 7]).map fun bad =>
      bad.gos[6]! == st.gos[3]! &&
      fp 8 (run bad [.api (.psAdd 6 5 9)]).mem st.gos[3]! != fp 8 st.mem st.gos[3]!) = some true ∧
    ((stepXApi st (.psUnion 3 4 [7, 7])).map fun good =>
      good.gos[6]! != st.gos[3]! && fp 8 good.mem good.gos[6]! == fp 8 st.mem st.gos[3]! &&
      fp 8 (run good [.api (.psAdd 6 5 9)]).mem st.gos[3]! == fp 8 st.mem st.gos[3]!) = some true ∧
    ((stepXApi st (.psSubtract 3 4 [7, 7])).map fun good =>
      good.gos[6]! != st.gos[3]! && fp 8 good.mem good.gos[6]! == fp 8 st.mem st.gos[3]! &&
      fp 8 (run good [.api (.psAdd 6 5 9)]).mem st.gos[3]! == fp 8 st.mem st.gos[3]!) = some true := by
  decide

/-- **Fingerprints are stable — histories with the added entry points.**  From ANY state,
any word whose storage is library-owned, any history of the 49 + 18 steps of §1–§4 and the
eight added entry points that respects the ownership rules (`respectfulRunX`: the added
entry points ask for nothing): the word reports the same deep content afterwards.
`_partial` as `fingerprints_stable_partial` is: the excluded caller writes are the documented
transfers.  (That the values the added entry points CREATE are library-owned is shown for
the witness histories below, not for all histories: `values_frozen` is not extended.) -/
theorem fingerprints_stable_ext_partial (st : St) (ops : List XOp) (f : Nat) (w : Word)
    (hw : frozen f st.mem w = true) (hr : respectfulRunX st ops = true) :
    fp f (runX st ops).mem w = fp f st.mem w :=
  fp_stable (runX_preserves ops st hr) f w hw

/-- …in strict form: every step applies (`runXStrict … = some _`), no skipped step carries it -/
theorem fingerprints_stable_ext_strict (st st' : St) (ops : List XOp) (f : Nat) (w : Word)
    (hw : frozen f st.mem w = true) (hs : runXStrict st ops = some st') (hr : respectfulRunX st ops = true) :
    fp f st'.mem w = fp f st.mem w := by
  have := fingerprints_stable_ext_partial st ops f w hw hr
  rwa [runXStrict_runX ops st st' hs] at this

/-- a history through all of it: build the set value of `setReadPre`, read it three ways, put
it into a ValueSet and take `Values`, then caller writes to everything handed out -/
def readHistory : List XOp :=
  setReadPre.map .base ++
  [.x (.valValues 4 [3, 0, 1, 2]), .base (.api (.asValueSet 4 [1, 1, 1, 2])), .x (.vsValues 2 [3, 0, 1, 2]),
   .base (.caller (.setElem 1 0 3)), .base (.caller (.setElem 3 1 3)), .x (.valValues 4 [3, 0, 1, 2])]

/-- the hypotheses are jointly satisfiable by non-trivial instances: the history above and the
witness histories of the counterexamples followed by the current entry point are strict and
respectful, the set value is library-owned, and what `UnmarkDeepWithPaths` builds is too -/
example :
    (runXStrict {} readHistory).isSome = true ∧ respectfulRunX {} readHistory = true ∧
    frozen 8 (run {} setReadPre).mem (run {} setReadPre).vals[4]! = true ∧
    (runXStrict {} (unifyPre.map .base ++ [.x (.unify 2)])).isSome = true ∧
    (runXStrict {} (unmarkPre.map .base ++ [.x (.unmarkDeepWithPaths 4), .base (.caller (.marksAdd 4 "zz"))])).isSome = true ∧
    respectfulRunX {} (unmarkPre.map .base ++ [.x (.unmarkDeepWithPaths 4), .base (.caller (.marksAdd 4 "zz"))]) = true ∧
    (let st := runX {} (unmarkPre.map .base ++ [.x (.unmarkDeepWithPaths 4)])
     frozen 8 st.mem st.vals[5]! = true) ∧
    (runXStrict {} (unionPre.map .base ++ [.x (.psUnion 3 4 [7, 7]), .x (.psSubtract 3 4 [7, 7]), .x (.psList 6),
      .x (.psValues 3)])).isSome = true := by
  decide


end C20
end CtyModel
