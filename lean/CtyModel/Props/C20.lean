/-
C20 — values are immutable, operations are pure, values are safe to share.

Property theorems only; lemmas live in `CtyModel/Lemmas/Heap*.lean`, the model in
`CtyModel/Heap.lean` (heap, fingerprints) and `CtyModel/HeapOps.lean` (the API
entry points as programs over the heap, histories).
-/
import CtyModel.Lemmas.HeapStep
namespace CtyModel
namespace C20
open Heap

/-- **No API step writes an address reachable from an existing value.**
Whatever API entry point runs (in a state where the receiver of a mutating
helper-set method is a helper set — `respectful`, see `receivers_writable`), every
library-owned object of the heap — and everything a value's fingerprint reads is
library-owned, `frozen` — is exactly the same object afterwards: same body, same
owner.  New objects may appear; nothing existing that belongs to a value is
written, not even in spare capacity. -/
theorem no_write_to_reachable {st st' : St} {c : Api} (hr : respectful st (.api c) = true)
    (h : step st (.api c) = some st') :
    st.mem.length ≤ st'.mem.length ∧ ∀ a, frozenObj st.mem a = true → st'.mem[a]? = st.mem[a]? :=
  stepApi_preserves hr h

/-- **Fingerprints are stable.**  Take ANY state, any word `w` in it whose storage is
library-owned to depth `f` (every value the library builds is: `values_frozen`), and
any later history of API calls and caller mutations that respects the documented
ownership rules (`respectfulRun`: the caller writes only objects it still owns).
Then `w` reports exactly the same deep content after the history as before. -/
theorem fingerprints_stable_partial (st : St) (ops : List HeapOp) (f : Nat) (w : Word)
    (hw : frozen f st.mem w = true) (hr : respectfulRun st ops = true) :
    fp f (run st ops).mem w = fp f st.mem w :=
  fp_stable (run_preserves ops st hr) f w hw

end C20
end CtyModel
