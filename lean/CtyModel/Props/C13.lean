/-
C13 — Collection, set and sequence functions match reference semantics.

Property theorems only; helper lemmas live in `CtyModel/Lemmas/Stdlib*.lean` and
`CtyModel/Lemmas/d13*.lean`.

Every statement is about the `Type` / `Impl` callbacks of `CtyModel.Stdlib`
(`Stdlib/Collection.lean`, `Sequence.lean`, `SetFns.lean`) — transliterations of
cty/function/stdlib/{collection,sequence,set}.go which the correspondence
harness (`harness/c13.go`, op `std.call`) diffs against the real
`XFunc.Call` on every run — and relates them to the SPECIFICATIONS of
`Stdlib/CollectionSpec.lean` (plain `List` vocabulary: Euclidean remainder,
`drop`/`take`, `reverse`, first occurrences, sorted permutation, "last binding
wins" maps with ascending keys, row-major Cartesian product, arithmetic
progression).

Conventions.  Arguments are wholly known values written out as
`⟨type, payload⟩`; `numVal x` is a known number.  `Gocty.int64Exact x = some i`
reads "x is the whole number i and fits Go's int" (what
`gocty.FromCtyValue(x, &int)` accepts).  `Fails r` reads "the call returns an
ordinary error" (never a panic).  `e.equals e = true` is reflexivity of
`Type.Equals` on the element type, which holds for every well-formed type
(C07 `equals_refl`).  `(vs.length : Int) ≤ maxInt`: a Go slice length is an
`int`.  `Env` carries what the callbacks obtain from package `convert` and from
the set hash function; the theorems hold for every `Env` unless they name
`modelEnv` (Stdlib/d13Env.lean): the environment in which unify, convert, hash and
the hash-byte order are the Lean models of those packages.  The correspondence
runs every call twice — `std.call` with oracle columns from the real library,
`std.callm` under `modelEnv` with no oracle — so a `modelEnv` theorem speaks about
an instance that is diffed against /repo.

Deepening pass (lemmas in `Lemmas/d13*.lean`): set algebra, `sethaselement` and
`setproduct` of sets are stated on a CARRIER — members admitted by
`Payload.member ety ns` (well-formed for the element type, wholly known, mark-free,
numbers from a list `ns` that is `HashCoherentNums`, a decidable check) whose hash
the environment answers as the hash model does (`Env.hashAgrees`) — on which
`setRules` is PROVED lawful (`setrules_lawful_on_members`); `Payload.plainMember e p`
is the same without the condition on numbers (enough where no hash is involved:
`distinct`, `contains`).  `NoPanic r` reads "`r` is not a Go panic".
-/
import CtyModel.Lemmas.StdlibCall
import CtyModel.Lemmas.Asc
import CtyModel.Lemmas.d13Model
import CtyModel.Lemmas.d13Seq
import CtyModel.Lemmas.d13Index
import CtyModel.Lemmas.d13Map
import CtyModel.Lemmas.d13Misc
import CtyModel.Lemmas.d13Product
import CtyModel.Lemmas.d13NoPanic
import CtyModel.Lemmas.d13SetN
namespace CtyModel
namespace C13
open Stdlib Value

/-! ## element -/

/-- **element(list, i) = list[i mod len]** with the Euclidean remainder, for
every whole index, negative ones included; the call fails exactly when the
index is not a whole number that fits an `int` or the list is empty; the result
has the list's element type. -/
theorem element_list (e : Ty) (vs : List Payload) (x : Num) (retTy : Ty)
    (hlen : (vs.length : Int) ≤ maxInt) (hm : ∀ p ∈ vs, p.isMarked = false) :
    elementImpl [⟨.list e, .seq vs⟩, numVal x] retTy =
      match Gocty.int64Exact x with
      | none => .err "invalid index"
      | some i =>
        match Spec.element? vs i with
        | none => .err "cannot use element function with an empty list"
        | some p => .ok ⟨e, p⟩ :=
  elementImpl_list e vs x retTy hlen hm

/-- the same for a tuple: the value and its type are both taken at `i mod len` -/
theorem element_tuple (ts : List Ty) (vs : List Payload) (x : Num) (retTy : Ty)
    (hl : ts.length = vs.length) (hlen : (vs.length : Int) ≤ maxInt) (hm : ∀ p ∈ vs, p.isMarked = false) :
    elementImpl [⟨.tuple ts, .seq vs⟩, numVal x] retTy =
      match Gocty.int64Exact x with
      | none => .err "invalid index"
      | some i =>
        match Spec.element? ts i, Spec.element? vs i with
        | some t, some p => .ok ⟨t, p⟩
        | _, _ => .err "cannot use element function with an empty list" :=
  elementImpl_tuple ts vs x retTy hl hlen hm

/-- result type of `element`: the element type of a list; for a tuple the type at
`i mod len`, predicted under exactly the conditions under which the call succeeds -/
theorem element_type (e : Ty) (ts : List Ty) (p : Payload) (idx : Value) (x : Num) :
    elementType [⟨.list e, p⟩, idx] = .ok e ∧
    elementType [⟨.tuple ts, p⟩, numVal x] =
      (match Gocty.int64Exact x with
       | none => .err "invalid index"
       | some i =>
         match Spec.element? ts i with
         | none => .err "cannot use element function with an empty list"
         | some t => .ok t) :=
  ⟨rfl, elementType_tuple ts p x⟩

/-- the index arithmetic itself: Go's `%` (truncated) plus the fix-up for negative
results is the Euclidean remainder, which always lies in `0 … len-1` -/
theorem element_index_wraps (i : Int) (l : Nat) (hl : 0 < l) :
    wrapIndex i l = i % (l : Int) ∧ 0 ≤ i % (l : Int) ∧ i % (l : Int) < l :=
  ⟨wrapIndex_eq i l hl, Int.emod_nonneg i (by omega), Int.emod_lt_of_pos i (by omega)⟩

/-! ## slice -/

/-- **slice(list, a, b) = (list.drop a).take (b − a)** for whole `0 ≤ a ≤ b ≤ len`;
the result is a list of the same type. -/
theorem slice_list (E : Env) (e : Ty) (he : e.equals e = true) (vs : List Payload) (a b : Num)
    (s t : Int) (h : SliceArgs vs.length a b s t) :
    sliceImpl E [⟨.list e, .seq vs⟩, numVal a, numVal b] (.list e) =
        .ok (mkList e (Spec.slice vs s.toNat t.toNat)) ∧
      sliceType [⟨.list e, .seq vs⟩, numVal a, numVal b] = .ok (.list e) :=
  ⟨sliceImpl_list_ok E e he vs a b s t h, sliceType_list_ok e vs a b s t h⟩

/-- **…and it fails on everything else**: an index that is not a whole number, is
negative, lies beyond the length, or `a > b`. -/
theorem slice_list_fails_outside_domain (E : Env) (e : Ty) (vs : List Payload) (a b : Num)
    (h : ¬ ∃ s t, SliceArgs vs.length a b s t) :
    Fails (sliceImpl E [⟨.list e, .seq vs⟩, numVal a, numVal b] (.list e)) :=
  sliceImpl_list_err E e vs a b h

/-- `sliceIndexes`, the shared index check, spelled out (exact error conditions, in
the order the code tests them) -/
theorem slice_indexes (e : Ty) (vs : List Payload) (a b : Num) :
    sliceIndexes [⟨.list e, .seq vs⟩, numVal a, numVal b] =
      match Gocty.int64Exact a with
      | none => .err "invalid start index"
      | some s =>
        if s < 0 then .err "start index must not be less than zero"
        else if s > vs.length then .err "start index must not be greater than the length of the list"
        else
          match Gocty.int64Exact b with
          | none => .err "invalid end index"
          | some t =>
            if t < 0 then .err "end index must not be less than zero"
            else if t > vs.length then .err "end index must not be greater than the length of the list"
            else if s > t then .err "start index must not be greater than end index"
            else .ok ⟨s, t, true⟩ :=
  sliceIndexes_list e vs a b

/-! ## chunklist -/

/-- **chunklist(list, n)** for a whole `n > 0`: a list of lists whose
concatenation is the input, every chunk non-empty, every chunk but the last of
length exactly `n`, the last of length at most `n`. -/
theorem chunklist_pos (E : Env) (e : Ty) (he : e.equals e = true) (vs : List Payload) (x : Num) (n : Nat)
    (hx : Gocty.int64Exact x = some (n : Int)) (hn : 0 < n) (retTy : Ty) :
    ∃ cs : List (List Payload),
      chunklistImpl E [⟨.list e, .seq vs⟩, numVal x] retTy = .ok ⟨.list (.list e), .seq (cs.map Payload.seq)⟩ ∧
      Spec.IsChunking n vs cs :=
  chunklistImpl_pos E e he vs x n hx hn retTy

/-- `n = 0`: the whole non-empty list as a single chunk; the empty list gives an
empty list of lists for every valid size -/
theorem chunklist_zero_and_empty (E : Env) (e : Ty) (he : e.equals e = true) (vs : List Payload) (x : Num)
    (retTy : Ty) :
    (Gocty.int64Exact x = some 0 → vs ≠ [] →
      chunklistImpl E [⟨.list e, .seq vs⟩, numVal x] retTy = .ok ⟨.list (.list e), .seq [.seq vs]⟩) ∧
    (∀ i, Gocty.int64Exact x = some i → 0 ≤ i →
      chunklistImpl E [⟨.list e, .seq []⟩, numVal x] retTy = .ok ⟨.list (.list e), .seq []⟩) :=
  ⟨fun hx hne => chunklistImpl_zero E e he vs x hx hne retTy,
   fun i hx hi => chunklistImpl_empty E e x i hx hi retTy⟩

/-- a size that is not a whole number, or is negative, is rejected -/
theorem chunklist_fails_outside_domain (E : Env) (l : Value) (x : Num) (retTy : Ty)
    (h : ∀ i, Gocty.int64Exact x = some i → i < 0) :
    Fails (chunklistImpl E [l, numVal x] retTy) :=
  chunklistImpl_err E l x retTy h

/-- result type of `chunklist`: list of the argument's type -/
theorem chunklist_type (l sz : Value) : chunklistType [l, sz] = .ok (.list l.ty) := rfl

/-! ## reverse -/

/-- **reverse** of a list is the list of the same members in reverse order (same
type); of a tuple, the tuple of the reversed members with the reversed type. -/
theorem reverse_eq (E : Env) (e : Ty) (he : e.equals e = true) (ts : List Ty) (vs : List Payload) :
    reverseImpl E [⟨.list e, .seq vs⟩] (.list e) = .ok (mkList e vs.reverse) ∧
    (ts.length = vs.length →
      reverseImpl E [⟨.tuple ts, .seq vs⟩] (.tuple ts.reverse) = .ok ⟨.tuple ts.reverse, .seq vs.reverse⟩) :=
  ⟨reverseImpl_list E e he vs, reverseImpl_tuple E ts vs⟩

/-- **reverse of a set**: a wholly known set gives the list of its members in reversed
iteration order; a set holding a member that is not wholly known gives an unknown
of the result type carrying the argument's marks (neither the order nor the
number of members is settled yet) -/
theorem reverse_set (E : Env) (e : Ty) (he : e.equals e = true) (ids : List Int) (vs : List Payload)
    (arg : Value) (retTy : Ty) :
    (Payload.whollyKnownL vs = true →
      reverseImpl E [⟨.set e, .sset ids vs⟩] (.list e) = .ok (mkList e (setIter E e vs).reverse)) ∧
    (arg.ty = .set e → arg.unmark.whollyKnown = false →
      reverseImpl E [arg] retTy = .ok (withMarkSets (Value.unknown retTy) [arg.marks])) :=
  ⟨reverseImpl_set_known E e he ids vs, reverseImpl_set_unknown E arg e retTy⟩

/-- result type of `reverse`: a list for a list or a set, the reversed tuple type for a tuple -/
theorem reverse_type (e : Ty) (ts : List Ty) (p : Payload) :
    reverseType [⟨.list e, p⟩] = .ok (.list e) ∧ reverseType [⟨.set e, p⟩] = .ok (.list e) ∧
    reverseType [⟨.tuple ts, p⟩] = .ok (.tuple ts.reverse) := ⟨rfl, rfl, rfl⟩

/-! ## distinct, compact, sort -/

/-- **distinct** keeps exactly the first occurrences, order preserved: an element
is kept iff no EARLIER element of the input is equal to it (`eqT` is "`Equals`
answers known true").  What is asked of `Equals` — every comparison decided, and
transitivity — is asked only of the MEMBERS of the list (`EqOn`), not of all values. -/
theorem distinct_first_occurrences (E : Env) (e : Ty) (he : e.equals e = true) (vs : List Payload)
    (hk : Payload.whollyKnownL vs = true) (hE : EqOn (vs.map (⟨e, ·⟩))) :
    ∃ kept, distinctImpl E [⟨.list e, .seq vs⟩] (.list e) = .ok (mkList e kept) ∧
      kept.map (⟨e, ·⟩) = Spec.firstOccs eqT (vs.map (⟨e, ·⟩)) :=
  distinctImpl_eq_on E e he vs hk hE

/-- **…and for a list of a plain element type nothing is assumed**: the members being
well-formed, wholly known and mark-free, `Equals` IS the structural `RawEquals` (C03
`equals_of_members`), which is decided and transitive, and `distinct` returns the first
occurrences up to `RawEquals` — in payload vocabulary -/
theorem distinct_plain (E : Env) (e : Ty) (hw : e.wf = true) (hp : e.plain = true) (vs : List Payload)
    (hm : ∀ p ∈ vs, Payload.plainMember e p = true) :
    distinctImpl E [⟨.list e, .seq vs⟩] (.list e) = .ok (mkList e (Spec.firstOccs (rawB e) vs)) ∧
    EqOn (vs.map (⟨e, ·⟩)) :=
  ⟨distinctImpl_plain E e hw hp vs hm, eqOn_plain hw hp vs hm⟩

/-- **compact** returns the non-null, non-empty strings in their original order, as
a list of strings -/
theorem compact_eq (E : Env) (vs : List Payload) (h : ∀ p ∈ vs, isStrOrNull p = true) (retTy : Ty) :
    compactImpl E [⟨.list .string, .seq vs⟩] retTy = .ok (mkList .string (vs.filter keepsCompact)) :=
  compactImpl_eq E vs h retTy

/-- **sort** returns the same strings (a permutation) in ascending byte order -/
theorem sort_sorted_permutation (E : Env) (ss : List String) (retTy : Ty) :
    sortImpl E [⟨.list .string, .seq (ss.map Payload.s)⟩] retTy =
      .ok (mkList .string ((sortStrings ss).map Payload.s)) ∧
    Spec.IsSortOf (· ≤ ·) ss (sortStrings ss) :=
  ⟨sortImpl_eq E ss retTy, sortStrings_isSort ss⟩

/-- a null member makes `sort` fail (documented: "a null string cannot be sorted") -/
theorem sort_null_rejected (pre : List String) (rest : List Payload) :
    Fails (sortCollect ((pre.map fun s => (⟨.string, .s s⟩ : Value)) ++ ⟨.string, .null⟩ :: rest.map (⟨.string, ·⟩))) :=
  sortCollect_null pre rest

/-! ## coalescelist -/

/-- **coalescelist** returns the first argument that is neither null nor empty,
as it is; it fails exactly when there is none -/
theorem coalescelist_first_nonempty (retTy : Ty) (args : List Value)
    (hk : ∀ a ∈ args, a.isKnown = true ∧ a.isMarked = false)
    (hl : ∀ a ∈ args, a.isNull = false → ∃ n, lengthInt a = .ok n) :
    coalesceListImpl args retTy =
      match args.find? (fun a => !a.isNull && (match lengthInt a with | .ok n => decide (n > 0) | _ => false)) with
      | some a => .ok a
      | none => .err "no non-null arguments" :=
  coalesceListLoop_eq retTy args hk hl

/-! ## zipmap, merge: last binding wins, keys ascending -/

/-- **zipmap(keys, list)**: the map that binds every key to the value at its
position, the LAST binding of a repeated key winning, keys strictly ascending
(so each once); element type = the list's. -/
theorem zipmap_list (E : Env) (e : Ty) (he : e.equals e = true) (ks : List String) (vs : List Payload)
    (hl : ks.length = vs.length) (hlen : (vs.length : Int) ≤ maxInt) :
    ∃ out, zipmapImpl E [⟨.list .string, .seq (ks.map Payload.s)⟩, ⟨.list e, .seq vs⟩] (.map e) =
        .ok ⟨.map e, .smap (out.map (·.1)) (Gocty.payloads (out.map (·.2)))⟩ ∧
      Spec.IsMapOf (ks.zip (vs.map (⟨e, ·⟩))) out :=
  zipmapImpl_list E e he ks vs hl hlen

/-- keys and values of different lengths are rejected; the result type for list
values is `map(element type)` -/
theorem zipmap_domain_and_type (E : Env) (e : Ty) (ks : List String) (vs : List Payload) (retTy : Ty)
    (keys : Value) (p : Payload) :
    (ks.length ≠ vs.length →
      Fails (zipmapImpl E [⟨.list .string, .seq (ks.map Payload.s)⟩, ⟨.list e, .seq vs⟩] retTy)) ∧
    zipmapType E [keys, ⟨.list e, p⟩] = .ok (.map e) :=
  ⟨fun h => zipmapImpl_length_err E e ks vs h retTy, rfl⟩

/-- **merge** into a map type: the map of all bindings of the non-null arguments in
argument order, last binding wins, keys ascending -/
theorem merge_map (E : Env) (e : Ty) (he : e.equals e = true) (args : List Value)
    (h : ∀ a ∈ args, a.isNull = false → Iterable E a)
    (hm : ∀ a ∈ args, a.v.isMarked = false)
    (hty : ∀ kv ∈ allBindings E args, kv.2.ty = e) :
    ∃ out, mergeImpl E args (.map e) =
        .ok ⟨.map e, .smap (out.map (·.1)) (Gocty.payloads (out.map (·.2)))⟩ ∧
      Spec.IsMapOf (allBindings E args) out :=
  mergeImpl_map E e he args h hm hty

/-- **merge** into an object type: the object built from the same merged bindings
(attribute types are the types of the winning values) -/
theorem merge_object (E : Env) (ns : List String) (ts : List Ty) (os : List Bool) (args : List Value)
    (h : ∀ a ∈ args, a.isNull = false → Iterable E a)
    (hm : ∀ a ∈ args, a.v.isMarked = false) :
    ∃ out, mergeImpl E args (.object ns ts os) = .ok (Gocty.objectVal (out.map (·.1)) (out.map (·.2))) ∧
      Spec.IsMapOf (allBindings E args) out :=
  mergeImpl_object E ns ts os args h hm

/-- the Go-map assignment the two functions are built from: `m[k] = v` on the
ascending association list keeps the keys ascending and answers lookups with
"the new value for `k`, the old one for every other key" -/
theorem map_assignment (k k' : String) (v : Value) (m : List (String × Value))
    (h : (m.map (·.1)).Pairwise (· < ·)) :
    ((amInsert k' v m).map (·.1)).Pairwise (· < ·) ∧
    Spec.assoc k (amInsert k' v m) = if k = k' then some v else Spec.assoc k m :=
  ⟨keys_asc_amInsert k' v m h, assoc_amInsert k k' v m⟩

/-! ## keys, values, lookup -/

/-- **keys** of a map: its keys in the map's own (ascending) order as a list of
strings; of an object: the attribute names as a tuple of strings -/
theorem keys_eq (e : Ty) (ks : List String) (vs : List Payload) (ns : List String) (ts : List Ty)
    (os : List Bool) (p : Payload) (retTy : Ty) (hp : p.isMarked = false) :
    keysImpl [⟨.map e, .smap ks vs⟩] retTy = .ok (mkList .string (ks.map Payload.s)) ∧
    keysImpl [⟨.object ns ts os, p⟩] retTy = .ok ⟨.tuple (ns.map fun _ => .string), .seq (ns.map Payload.s)⟩ ∧
    keysType [⟨.map e, p⟩] = .ok (.list .string) ∧
    keysType [⟨.object ns ts os, p⟩] = .ok (.tuple (ns.map fun _ => .string)) :=
  ⟨keysImpl_map e ks vs retTy, keysImpl_object ns ts os p retTy hp, rfl, rfl⟩

/-- **values** of a map: its elements in key order as a list; of an object: the
attribute values in name order as a tuple of the attribute types -/
theorem values_eq (E : Env) (e : Ty) (he : e.equals e = true) (ks : List String) (vs : List Payload)
    (ns : List String) (ts : List Ty) (os : List Bool) (h : ts.length = vs.length) (p : Payload) :
    valuesImpl E [⟨.map e, .smap ks vs⟩] (.list e) = .ok (mkList e vs) ∧
    valuesImpl E [⟨.object ns ts os, .smap ks vs⟩] (.tuple ts) = .ok ⟨.tuple ts, .seq vs⟩ ∧
    valuesType [⟨.map e, p⟩] = .ok (.list e) ∧ valuesType [⟨.object ns ts os, p⟩] = .ok (.tuple ts) :=
  ⟨valuesImpl_map E e he ks vs, valuesImpl_object E ns ts os ks vs h, rfl, rfl⟩

/-- keys of a well-formed map value are ascending, so `keys` is ascending and
`values` is in ascending key order -/
theorem keys_ascending (ks : List String) (h : Ty.strictAsc ks = true) : ks.Pairwise (· < ·) := by
  induction ks with
  | nil => simp
  | cons k ks ih =>
    have := Ty.strictAsc_cons h
    exact List.pairwise_cons.mpr ⟨this.2, ih this.1⟩

/-- **lookup** in a map: the element under the key when the key is present,
otherwise the default (converted to the element type) -/
theorem lookup_map (E : Env) (e : Ty) (ks : List String) (vs : List Payload) (k : String) (d : Value)
    (hl : ks.length = vs.length) (hk : Payload.whollyKnownL vs = true)
    (hm : ∀ p ∈ vs, p.isMarked = false) :
    lookupImpl E [⟨.map e, .smap ks vs⟩, strVal k, d] e =
      match lookupKey k ks vs with
      | some p => .ok ⟨e, p⟩
      | none => (convertTo E d e).map (withMarkSets · [[]]) :=
  lookupImpl_map E e ks vs k d hl hk hm

/-! ## setproduct -/

/-- **The odometer enumerates the product**: started from all zeros, with every
digit range non-empty, `setproduct`'s index vector visits the row-major
Cartesian product of the index ranges, in order, and carries out of the leftmost
digit exactly after the last one. -/
theorem setproduct_odometer (lens : List Nat) (h : ∀ l ∈ lens, 0 < l) :
    FullRun lens (Spec.cartesian (lens.map List.range)) := trace_zeros lens h

/-- **setproduct of known non-empty lists** is the list of all tuples in row-major
order (first argument varies slowest), of type `list(tuple(element types))`. -/
theorem setproduct_lists (E : Env) (lists : List (Ty × List Payload)) (h2 : 2 ≤ lists.length)
    (hne : ∀ l ∈ lists, l.2 ≠ []) (he : ∀ l ∈ lists, l.1.equals l.1 = true) :
    setProductImpl E (listArgs lists) (.list (.tuple (lists.map (·.1)))) =
      .ok ⟨.list (.tuple (lists.map (·.1))), .seq ((Spec.cartesian (lists.map (·.2))).map Payload.seq)⟩ ∧
    setProductType E (listArgs lists) = .ok (.list (.tuple (lists.map (·.1)))) :=
  ⟨setProductImpl_lists E lists hne he, setProductType_lists E lists h2⟩

/-- an empty argument gives the empty product; fewer than two arguments are rejected -/
theorem setproduct_empty_and_arity (E : Env) (lists : List (Ty × List Payload)) (args : List Value) :
    ((∃ l ∈ lists, l.2 = []) →
      setProductImpl E (listArgs lists) (.list (.tuple (lists.map (·.1)))) =
        .ok ⟨.list (.tuple (lists.map (·.1))), .seq []⟩) ∧
    (args.length < 2 → Fails (setProductType E args)) :=
  ⟨setProductImpl_lists_empty E lists, setProductType_few E args⟩

/-- **setproduct of known non-empty SETS**: `cty.SetVal` of the rows of the row-major
Cartesian product of the members in iteration order — a set of tuples of the element
types, which is also the type the `Type` callback predicts -/
theorem setproduct_sets (E : Env) (sets : List SetArg) (h2 : 2 ≤ sets.length)
    (hne : ∀ s ∈ sets, s.2.2 ≠ []) (he : ∀ s ∈ sets, s.1.equals s.1 = true)
    (hk : ∀ s ∈ sets, Payload.whollyKnownL s.2.2 = true)
    (hm : ∀ s ∈ sets, ∀ p ∈ s.2.2, p.containsMarked = false)
    (hh : ∀ row ∈ productRows E sets, (E.hash (.tuple (sets.map (·.1))) row).isSome = true) :
    setProductImpl E (setArgs3 sets) (.set (.tuple (sets.map (·.1)))) =
      .ok (ofSetImpl (.tuple (sets.map (·.1)))
        (SetImpl.fromList (setRules E (.tuple (sets.map (·.1)))) (productRows E sets))) ∧
    setProductType E (setArgs3 sets) = .ok (.set (.tuple (sets.map (·.1)))) :=
  ⟨setProductImpl_sets E sets hne he hk hm hh, setProductType_sets E sets h2⟩

/-- **…against the reference**: for admitted members (plain tuple type, hash-coherent
numbers, rows hashed as the hash model hashes them) the result is laid out under the
representation invariant, its members are rows of the product, every row is
represented up to `RawEquals`, and — the members of each argument being pairwise
different, as the members of a set are — it has exactly `∏ lengths` members -/
theorem setproduct_sets_reference (E : Env) (ns : List Num) (sets : List SetArg)
    (hw : (Ty.tuple (sets.map (·.1))).wf = true) (hp : (Ty.tuple (sets.map (·.1))).plain = true)
    (hc : HashCoherentNums ns = true)
    (hne : ∀ s ∈ sets, s.2.2 ≠ []) (he : ∀ s ∈ sets, s.1.equals s.1 = true)
    (hm : ∀ s ∈ sets, ∀ p ∈ s.2.2, p.member s.1 ns = true)
    (hh : ∀ row ∈ productRows E sets, E.hashAgrees (.tuple (sets.map (·.1))) row) :
    ∃ s : SetImpl Payload,
      setProductImpl E (setArgs3 sets) (.set (.tuple (sets.map (·.1)))) = .ok (ofSetImpl (.tuple (sets.map (·.1))) s) ∧
      SetImpl.Inv (setRules E (.tuple (sets.map (·.1)))) s ∧
      (∀ m ∈ SetImpl.values s, m ∈ productRows E sets) ∧
      (∀ row ∈ productRows E sets, Spec.memBy (rawB (.tuple (sets.map (·.1)))) (SetImpl.values s) row) ∧
      ((∀ s ∈ sets, s.2.2.Pairwise (BothFalse s.1)) →
        SetImpl.length s = (sets.map (·.2.2.length)).foldr (· * ·) 1) :=
  setProduct_sets_spec E ns sets hw hp hc hne he hm hh

/-! ## range -/

/-- **range(start, end, step)** inside its domain (finite non-zero step, end on the
side of start the step points to, at most 1024 terms) is the arithmetic
progression from `start` by `step` (big-float addition as `Value.Add` performs
it) up to but excluding the first term at or beyond `end`, as a list of numbers. -/
theorem range_progression (E : Env) (a b s : Num) (hz : isZeroStep s = false) (retTy : Ty)
    (hf : isFin s = true) (hdir : dirOk (stepDown s) a b = true) (vals : List Num)
    (hp : Spec.IsProgression (nextNum s) (reached (stepDown s) b) a vals) (hlen : vals.length ≤ 1024) :
    rangeImpl E [numVal a, numVal b, numVal s] retTy = .ok (mkList .number (vals.map Payload.n)) :=
  rangeImpl_three_ok E a b s hz retTy hf hdir vals hp hlen

/-- **…and fails outside it**: when 1024 terms do not reach the end, when the end
lies on the wrong side of the start for the direction of the step, and when the
step is infinite. -/
theorem range_fails_outside_domain (E : Env) (a b s : Num) (hz : isZeroStep s = false) (retTy : Ty)
    (va vb : Value) (n : Bool) :
    (isFin s = true →
      (∀ k, k ≤ 1024 → reached (stepDown s) b (Spec.iterNth (nextNum s) k a) = false) →
      Fails (rangeImpl E [numVal a, numVal b, numVal s] retTy)) ∧
    (isFin s = true → dirOk (stepDown s) a b = false →
      Fails (rangeImpl E [numVal a, numVal b, numVal s] retTy)) ∧
    Fails (rangeImpl E [va, vb, numVal (.inf n)] retTy) :=
  ⟨fun hf h => rangeImpl_three_limit E a b s hz retTy hf h,
   fun hf h => rangeImpl_three_dir E a b s hz retTy hf h,
   rangeImpl_three_inf E va vb n retTy⟩

/-- one and two arguments are the three-argument form with `start = 0` and step
`-1` when the end is below the start, `1` otherwise; no or more than three
arguments are an error -/
theorem range_defaults (E : Env) (a b : Num) (retTy : Ty) (args : List Value) :
    rangeImpl E [numVal a, numVal b] retTy =
      rangeImpl {} [numVal a, numVal b, if Num.cmp b a < 0 then intVal (-1) else intVal 1] retTy ∧
    rangeImpl E [numVal a] retTy =
      rangeImpl {} [zero, numVal a, if Num.cmp a (.fin false 0 0 53) < 0 then intVal (-1) else intVal 1] retTy ∧
    (args.length = 0 ∨ 3 < args.length → Fails (rangeImpl E args retTy)) :=
  ⟨rangeImpl_two E a b retTy, rangeImpl_one E a retTy, rangeImpl_arity E args retTy⟩

/-- **A zero step is always rejected** — every zero, of either sign and any
precision, not only the package singleton `cty.Zero` (the test is
`step.RawEquals(cty.Zero)` since /repo 43466b5; before that it compared
`*big.Float` pointers and `range(1, 1, 0)` returned the empty list). -/
theorem RangeZeroStepRejected (E : Env) (a b : Value) (n : Bool) (p : Nat) (retTy : Ty) :
    rangeImpl E [a, b, numVal (.fin n 0 0 p)] retTy = .err "step must not be zero" :=
  rangeImpl_three_zero E a b _ (isZeroStep_zero n p) retTy

/-- the former witness, as a regression case -/
theorem range_zero_step_regression :
    rangeImpl {} [intVal 1, intVal 1, intVal 0] (.list .number) = .err "step must not be zero" := by rfl

/-! ## merge of null objects -/

/-- **FULL STATEMENT (false of the code)**: "`merge` accepts null arguments
(they are skipped): a call whose arguments are all of map or object type never
ends in a panic". -/
def MergeTotalOnNulls : Prop :=
  ∀ (E : Env) (f : Func) (args : List Value), byName "merge" = some f →
    (∀ a ∈ args, (isMapTy a.ty || isObjectTy a.ty) = true ∧ a.whollyKnown = true ∧ a.containsMarked = false) →
    ∀ w, f.call E args ≠ .err (.panicError w)

/-- …what holds: for arguments that all have one MAP type, nulls included (they
contribute nothing), the `Type` callback answers that map type and the `Impl`
returns a map of exactly that type holding the merged bindings; for objects see
`merge_object` (the result is the object of the merged bindings of the non-null
arguments, whose type lacks the attributes that only null arguments declare). -/
theorem mergeTotalOnNulls_partial (E : Env) (e : Ty) (he : e.equals e = true)
    (args : List Value) (hne : args ≠ [])
    (hty : ∀ a ∈ args, a.ty = .map e)
    (h : ∀ a ∈ args, a.isNull = false → Iterable E a)
    (hm : ∀ a ∈ args, a.v.isMarked = false)
    (hb : ∀ kv ∈ allBindings E args, kv.2.ty = e) :
    mergeType args = .ok (.map e) ∧
    ∃ out, mergeImpl E args (.map e) =
        .ok ⟨.map e, .smap (out.map (·.1)) (Gocty.payloads (out.map (·.2)))⟩ ∧
      Spec.IsMapOf (allBindings E args) out := by
  refine ⟨?_, mergeImpl_map E e he args h hm hb⟩
  apply mergeType_same (.map e) rfl (by simpa [Ty.equals] using he) (by simp [Ty.equals]) args hne
  intro a ha
  refine ⟨hty a ha, ?_⟩
  have hu : a.unmark = a := unmark_of_unmarked a (hm a ha)
  rw [hu]
  by_cases hn : a.isNull = true
  · exact Or.inl hn
  · obtain ⟨_, ks, vs, hk, _⟩ := h a ha (by simpa using hn)
    exact Or.inr ⟨ks, hk⟩

/-- witness: a single null of an object type with an attribute.  The `Type`
callback answers the argument's own object type (all types "match"), the `Impl`
skips the null and returns the empty object, and `Call` reports that the result
does not conform: a `PanicError`. -/
theorem merge_null_object_counterexample :
    (byName "merge").map (fun f => f.call {} [⟨.object ["a"] [.string] [false], .null⟩]) =
      some (.err (.panicError "result does not conform")) := by rfl

theorem mergeTotalOnNulls_false : ¬ MergeTotalOnNulls := by
  intro h
  refine h {} _ [⟨.object ["a"] [.string] [false], .null⟩] rfl ?_ "result does not conform" ?_
  · intro a ha
    simp only [List.mem_singleton] at ha
    subst ha
    decide
  · have := merge_null_object_counterexample
    simpa [byName] using this

/-! ## element, end to end -/

/-- **`ElementFunc.Call(list, index)`** — the `Type` callback, the call protocol of
C10 (argument checks, conformance assertion on the result) and the `Impl`
callback together: the same answer, errors being the callbacks' own errors -/
theorem element_call (e : Ty) (vs : List Payload) (x : Num)
    (hc : Ty.conformErrs e e = 0)
    (hlen : (vs.length : Int) ≤ maxInt) (hm : ∀ p ∈ vs, p.isMarked = false) :
    (Fn.call elementSpec elementType elementImpl [⟨.list e, .seq vs⟩, numVal x]).1 =
      match Gocty.int64Exact x with
      | none => .err (.callback "invalid index")
      | some i =>
        match Spec.element? vs i with
        | none => .err (.callback "cannot use element function with an empty list")
        | some p => .ok ⟨e, p⟩ :=
  element_call_list e vs x hc hlen hm

/-! ## concat, flatten -/

/-- **concat** of lists of one type is the list of all their members in order; of
tuples, the tuple of all members with the concatenated type -/
theorem concat_eq (E : Env) (e : Ty) (he : e.equals e = true) (hs : e.equals e.stripOpt = true)
    (ls : List (List Payload)) (tups : List (List Ty × List Payload))
    (hl : ∀ t ∈ tups, t.1.length = t.2.length) :
    concatImpl E (sameLists e ls) (.list e) = .ok (mkList e ls.flatten) ∧
    concatImpl E (tups.map fun t => ⟨.tuple t.1, .seq t.2⟩) (.tuple (tups.flatMap (·.1))) =
      .ok ⟨.tuple (tups.flatMap (·.1)), .seq (tups.flatMap (·.2))⟩ :=
  ⟨concatImpl_lists E e he hs ls, concatImpl_tuples E tups hl⟩

/-- result type of `concat` for lists of one type (given that unifying equal types
answers that type — C09), and no arguments are an error -/
theorem concat_type (E : Env) (e : Ty) (ls : List (List Payload)) (hne : ls ≠ [])
    (hu : E.unify (ls.map fun _ => .list e) = .ok (some (.list e))) :
    concatType E (sameLists e ls) = .ok (.list e) ∧ Fails (concatType E []) :=
  ⟨concatType_lists E e ls hne hu, concatType_empty E⟩

/-- **flatten** of a non-empty list or tuple (wholly known, mark-free, no sets
inside): the tuple of the leaves in order — every non-null list or tuple at any
depth replaced by its members, null sequences kept — typed leaf by leaf, and the
`Type` callback predicts exactly that type -/
theorem flatten_eq (E : Env) (t : Ty) (p : Payload) (hn : isNest t p = true) (hok : flatOK t p = true)
    (hne : ∀ n, lengthInt ⟨t, p⟩ = .ok n → n ≠ 0) (hwk : (⟨t, p⟩ : Value).whollyKnown = true) (retTy : Ty) :
    flattenImpl E [⟨t, p⟩] retTy = .ok (Gocty.tupleVal (flatElem t p)) ∧
    flattenType E [⟨t, p⟩] = .ok (.tuple ((flatElem t p).map (·.ty))) ∧
    (Gocty.tupleVal (flatElem t p)).ty = .tuple ((flatElem t p).map (·.ty)) :=
  ⟨flattenImpl_spec E t p hn hok hne retTy, flattenType_spec E t p hn hok hwk, flatten_result_type t p⟩

/-- an empty list or tuple flattens to the empty tuple -/
theorem flatten_empty (E : Env) (e : Ty) (retTy : Ty) :
    flattenImpl E [⟨.list e, .seq []⟩] retTy = .ok emptyTuple ∧
    flattenImpl E [⟨.tuple [], .seq []⟩] retTy = .ok emptyTuple := flattenImpl_empty E e retTy

/-! ## contains, coalesce -/

/-- **contains** on a known list: `true` iff some member `Equals` the value -/
theorem contains_eq (E : Env) (e : Ty) (vs : List Payload) (x : Value) (retTy : Ty)
    (hx : x.isKnown = true) (hne : vs ≠ [])
    (hd : ∀ p ∈ vs, ∃ bv, Value.equals x ⟨e, p⟩ = .ok (boolVal bv)) :
    containsImpl E [⟨.list e, .seq vs⟩, x] retTy = .ok (boolVal (vs.any fun p => eqT x ⟨e, p⟩)) ∧
    containsImpl E [⟨.list e, .seq []⟩, x] retTy = .ok (boolVal false) :=
  ⟨containsImpl_list E e vs x retTy hx hne hd, containsImpl_empty E e x retTy⟩

/-- **contains on its whole domain** — any known non-null, non-empty list, tuple or set
(`elems` is what the iterator yields: list members, tuple members each with its own
type, set members in iteration order): `true` iff `Equals` answers true for one of them -/
theorem contains_any_sequence (E : Env) (c x : Value) (retTy : Ty) (es : List Value) (n : Nat)
    (hty : (isListTy c.ty || isTupleTy c.ty || isSetTy c.ty) = true) (hnull : c.isNull = false)
    (hk : c.isKnown = true) (hx : x.isKnown = true) (hlen : lengthInt c = .ok n) (hn : n ≠ 0)
    (hel : elems E c = .ok es) (hd : ∀ v ∈ es, ∃ bv, Value.equals x v = .ok (boolVal bv)) :
    containsImpl E [c, x] retTy = .ok (boolVal (es.any fun v => eqT x v)) :=
  containsImpl_elems E c x retTy es n hty hnull hk hx hlen hn hel hd

/-- **…with nothing assumed about `Equals` for plain element types**: on a non-empty list
or set of well-formed, wholly known, mark-free members and such a needle, `true` iff
some member is `RawEquals` to the needle (for the set: whatever its iteration order) -/
theorem contains_plain (E : Env) (e : Ty) (hw : e.wf = true) (hp : e.plain = true) (ids : List Int)
    (vs : List Payload) (q : Payload) (retTy : Ty) (hne : vs ≠ [])
    (hm : ∀ p ∈ vs, Payload.plainMember e p = true) (hq : Payload.plainMember e q = true) :
    containsImpl E [⟨.list e, .seq vs⟩, ⟨e, q⟩] retTy = .ok (boolVal (vs.any fun p => rawB e q p)) ∧
    containsImpl E [⟨.set e, .sset ids vs⟩, ⟨e, q⟩] retTy = .ok (boolVal (vs.any fun p => rawB e q p)) :=
  containsImpl_plain E e hw hp ids vs q retTy hne hm hq

/-- **contains fails outside its domain**: a first argument that is not a list, tuple or
set, or a null one (inside the domain the three theorems above give the `ok` answer) -/
theorem contains_fails_outside_domain (E : Env) (c x : Value) (retTy : Ty)
    (h : (isListTy c.ty || isTupleTy c.ty || isSetTy c.ty) = false ∨ c.isNull = true) :
    Fails (containsImpl E [c, x] retTy) :=
  containsImpl_outside E c x retTy h

/-- **coalesce** on known arguments: the first non-null one, converted to the
unified type; an error when all are null -/
theorem coalesce_first_non_null (E : Env) (retTy : Ty) (args : List Value) (hk : ∀ a ∈ args, a.isKnown = true) :
    coalesceImpl E args retTy =
      match args.find? (fun a => !a.isNull) with
      | some a => convertTo E a retTy
      | none => .err "no non-null arguments" :=
  coalesceLoop_eq E retTy args hk

/-! ## length, hasindex, sethaselement: the C02 operations -/

/-- `length`, `hasindex`, `sethaselement` are `Value.Length`, `Value.HasIndex`,
`Value.HasElement` (C02), and their `Type` callbacks accept exactly lists, maps,
tuples (and sets for `length`) -/
theorem wrappers (E : Env) (c k : Value) (retTy : Ty) :
    lengthImpl [c] retTy = Value.length c ∧
    hasIndexImpl [c, k] retTy = Value.hasIndex c k ∧
    setHasElementImpl E [c, k] retTy = Value.hasElement c k (E.hash k.ty k.v) ∧
    (lengthType [c] = .ok .number ↔
      (isTupleTy c.ty || isListTy c.ty || isMapTy c.ty || isSetTy c.ty || c.ty.isDyn) = true) ∧
    (hasIndexType [c, k] = .ok .bool ↔
      (isTupleTy c.ty || isListTy c.ty || isMapTy c.ty || c.ty.isDyn) = true) :=
  ⟨rfl, rfl, rfl, lengthType_ok_iff c, hasIndexType_ok_iff c k⟩

/-- `length` of a known list is the number of its members -/
theorem length_list (e : Ty) (vs : List Payload) (retTy : Ty) :
    lengthImpl [⟨.list e, .seq vs⟩] retTy = .ok (intVal vs.length) := C02.length_list e vs

/-! ## set union, intersection, subtraction, symmetric difference -/

/-- what each function computes on two known sets of one element type: the
`cty/set` operation of C03 on the two value sets, copied into a set value -/
theorem setop_is_set_operation (E : Env) (ety : Ty) (k : SetOpKind) (ida idb : List Int) (va vb : List Payload)
    (hs : ety.equals ety.stripOpt = true) (he : ety.equals ety = true)
    (hha : ∀ p ∈ va, (E.hash ety p).isSome = true) (hhb : ∀ p ∈ vb, (E.hash ety p).isSome = true)
    (hka : Payload.whollyKnownL va = true) (hkb : Payload.whollyKnownL vb = true) :
    setOpImpl E k [⟨.set ety, .sset ida va⟩, ⟨.set ety, .sset idb vb⟩] (.set ety) =
      .ok (ofSetImpl ety (SetImpl.copy (k.run (setRules E ety)
        (SetImpl.fromList (setRules E ety) (setIter E ety va))
        (SetImpl.fromList (setRules E ety) (setIter E ety vb))))) :=
  setOpImpl_two E ety k ida idb va vb hs he hha hhb hka hkb

/-! ### lawfulness of `setRules`, relative to a carrier

`Rules.Lawful` (the contract of `cty/set/rules.go` as C03 states it for a generic
`Rules α`) asks the laws of EVERY `a : α`.  Over raw payloads that is false of
cty's `setRules` — an unknown member is not `Equals`-true to itself, an ill-typed
payload makes `Equals` panic — so a theorem assuming `(setRules E ety).Lawful`
holds of nothing (audit C13 #1).  The laws are therefore asked on a CARRIER
(`Rules.LawfulOn`, Lemmas/d13Carrier) and proved there (`setrules_lawful_on_members`). -/

/-- **FULL STATEMENT (false)**: `setRules` meets the `cty/set` contract on all payloads. -/
def SetRulesLawful : Prop := ∀ (E : Env) (ety : Ty), (setRules E ety).Lawful

/-- an unknown string is not `Equivalent` to itself (`Equals` answers unknown, not true) -/
theorem setRulesLawful_counterexample (E : Env) :
    (setRules E .string).equiv (.unk .unref) (.unk .unref) = false := by
  simp only [setRules]; decide

theorem setRulesLawful_false : ¬ SetRulesLawful := fun h =>
  absurd ((h {} .string).refl (.unk .unref)) (by rw [setRulesLawful_counterexample]; decide)

/-- **…what holds: `setRules E ety` is lawful on admitted members.**  For a well-formed
plain element type (no set, no capsule inside), `Equivalent` — "`Equals` answers
known true" — is reflexive, symmetric and transitive, and equivalent members hash
alike, on the members that are well-formed, wholly known, mark-free, whose numbers
come from a hash-coherent list (`HashCoherentNums`, a decidable check; C03) and whose
hash the environment answers as the hash model computes it. -/
theorem setrules_lawful_on_members (E : Env) (ety : Ty) (ns : List Num) (hw : ety.wf = true)
    (hp : ety.plain = true) (hc : HashCoherentNums ns = true) :
    (setRules E ety).LawfulOn (fun p => p.member ety ns = true ∧ E.hashAgrees ety p) :=
  setRules_lawfulOn E ety ns hw hp hc

/-- on admitted members `Equivalent` is the structural `RawEquals` (`rawB`, the L2
specification of C03) -/
theorem setrules_equiv_is_rawEquals (E : Env) (ety : Ty) (ns : List Num) (hw : ety.wf = true)
    (hp : ety.plain = true) (a b : Payload) (ha : a.member ety ns = true) (hb : b.member ety ns = true) :
    (setRules E ety).equiv a b = rawB ety a b :=
  setRules_equiv_eq E hw hp ha hb

/-- `modelEnv` — the environment the correspondence op `std.callm` runs, whose hash is the
hash model — answers the hash of every member the hash model can hash -/
theorem modelEnv_hash_agrees (ety : Ty) (p : Payload) (h : (Value.hash ⟨ety, p⟩).isOk = true) :
    modelEnv.hashAgrees ety p := modelEnv_hashAgrees ety p h

/-- **set algebra = list-set algebra** (clause "set union / intersection / subtraction /
symmetric difference return what the reference returns").  For two known sets of one
well-formed plain element type without optional attributes whose members are admitted
and hashed by the environment as the hash model hashes them, the call succeeds with a
set of that type
* laid out under the representation invariant of `cty/set` (ascending buckets, every
  member in the bucket of its hash, no two `Equals` members),
* whose members are, literally, members of the arguments,
* in which EVERY admitted probe `y` (hashed or not) is represented iff it is
  represented in the union / intersection / difference / symmetric difference of the
  arguments. -/
theorem setop_members (E : Env) (ety : Ty) (ns : List Num) (k : SetOpKind) (ida idb : List Int)
    (va vb : List Payload)
    (hw : ety.wf = true) (hp : ety.plain = true) (ho : ety.hasOpt = false) (hc : HashCoherentNums ns = true)
    (hma : ∀ p ∈ va, p.member ety ns = true) (hmb : ∀ p ∈ vb, p.member ety ns = true)
    (hha : ∀ p ∈ va, E.hashAgrees ety p) (hhb : ∀ p ∈ vb, E.hashAgrees ety p) :
    ∃ s : SetImpl Payload,
      setOpImpl E k [⟨.set ety, .sset ida va⟩, ⟨.set ety, .sset idb vb⟩] (.set ety) = .ok (ofSetImpl ety s) ∧
      SetImpl.Inv (setRules E ety) s ∧
      (∀ m ∈ SetImpl.values s, m ∈ va ∨ m ∈ vb) ∧
      ∀ y, y.member ety ns = true →
        (Spec.memBy (setRules E ety).equiv (SetImpl.values s) y ↔
          k.spec (Spec.memBy (setRules E ety).equiv va y) (Spec.memBy (setRules E ety).equiv vb y)) :=
  setOp_members_carrier E ety ns k ida idb va vb hw hp ho hc hma hmb hha hhb

/-- **…for ANY number of arguments** (`setunion`, `setintersection`,
`setsymmetricdifference` are variadic): the result represents the LEFT FOLD of the
binary operation over the arguments' membership predicates
(`k.specN eqv first rest y = rest.foldl (fun acc l => k.spec acc (y ∈ l)) (y ∈ first)`),
under the same invariant, its members drawn from the arguments -/
theorem setop_members_variadic (E : Env) (ety : Ty) (ns : List Num) (k : SetOpKind)
    (first : List Int × List Payload) (rest : List (List Int × List Payload))
    (hw : ety.wf = true) (hp : ety.plain = true) (ho : ety.hasOpt = false) (hc : HashCoherentNums ns = true)
    (hm : ∀ st ∈ first :: rest, ∀ p ∈ st.2, p.member ety ns = true)
    (hh : ∀ st ∈ first :: rest, ∀ p ∈ st.2, E.hashAgrees ety p) :
    ∃ s : SetImpl Payload,
      setOpImpl E k (setArgs ety (first :: rest)) (.set ety) = .ok (ofSetImpl ety s) ∧
      SetImpl.Inv (setRules E ety) s ∧
      (∀ m ∈ SetImpl.values s, ∃ st ∈ first :: rest, m ∈ st.2) ∧
      ∀ y, y.member ety ns = true →
        (Spec.memBy (setRules E ety).equiv (SetImpl.values s) y ↔
          k.specN (setRules E ety).equiv first.2 (rest.map (·.2)) y) :=
  setOp_members_n E ety ns k first rest hw hp ho hc hm hh

/-- **…at the instance the correspondence runs** (`std.callm`): under `modelEnv` the only
thing asked of the hash is that the hash model answers (a decidable check per member) -/
theorem setop_members_model (ety : Ty) (ns : List Num) (k : SetOpKind) (ida idb : List Int)
    (va vb : List Payload)
    (hw : ety.wf = true) (hp : ety.plain = true) (ho : ety.hasOpt = false) (hc : HashCoherentNums ns = true)
    (hma : ∀ p ∈ va, p.member ety ns = true) (hmb : ∀ p ∈ vb, p.member ety ns = true)
    (hha : ∀ p ∈ va, (Value.hash ⟨ety, p⟩).isOk = true) (hhb : ∀ p ∈ vb, (Value.hash ⟨ety, p⟩).isOk = true) :
    ∃ s : SetImpl Payload,
      setOpImpl modelEnv k [⟨.set ety, .sset ida va⟩, ⟨.set ety, .sset idb vb⟩] (.set ety) = .ok (ofSetImpl ety s) ∧
      SetImpl.Inv (setRules modelEnv ety) s ∧
      (∀ m ∈ SetImpl.values s, m ∈ va ∨ m ∈ vb) ∧
      ∀ y, y.member ety ns = true →
        (Spec.memBy (rawB ety) (SetImpl.values s) y ↔
          k.spec (Spec.memBy (rawB ety) va y) (Spec.memBy (rawB ety) vb y)) := by
  obtain ⟨s, h1, h2, h3, h4⟩ := setOp_members_carrier modelEnv ety ns k ida idb va vb hw hp ho hc hma hmb
    (fun p h => modelEnv_hashAgrees ety p (hha p h)) (fun p h => modelEnv_hashAgrees ety p (hhb p h))
  refine ⟨s, h1, h2, h3, fun y hy => ?_⟩
  have hms : ∀ m ∈ SetImpl.values s, m.member ety ns = true := fun m hm => by
    rcases h3 m hm with h | h
    · exact hma m h
    · exact hmb m h
  have conv : ∀ l : List Payload, (∀ z ∈ l, z.member ety ns = true) →
      (Spec.memBy (setRules modelEnv ety).equiv l y ↔ Spec.memBy (rawB ety) l y) := by
    intro l hl
    constructor
    · rintro ⟨z, hz, he⟩; exact ⟨z, hz, by rw [← setRules_equiv_eq modelEnv hw hp hy (hl z hz)]; exact he⟩
    · rintro ⟨z, hz, he⟩; exact ⟨z, hz, by rw [setRules_equiv_eq modelEnv hw hp hy (hl z hz)]; exact he⟩
  rw [← conv _ hms, h4 y hy]
  exact k.spec_congr (conv va hma) (conv vb hmb)

/-- **FULL STATEMENT (false of the code)**: the same for ALL wholly known well-formed
members, without the hash-coherence side condition on their numbers. -/
def SetAlgebraOnAllKnownMembers : Prop :=
  ∀ (ety : Ty) (k : SetOpKind) (ida idb : List Int) (va vb : List Payload) (s : SetImpl Payload),
    ety.wf = true → ety.plain = true → ety.hasOpt = false →
    (∀ p ∈ va ++ vb, p.shaped ety = true ∧ p.whollyKnown = true ∧ p.containsMarked = false ∧
      (Value.hash ⟨ety, p⟩).isOk = true) →
    setOpImpl modelEnv k [⟨.set ety, .sset ida va⟩, ⟨.set ety, .sset idb vb⟩] (.set ety) = .ok (ofSetImpl ety s) →
    ∀ y ∈ va ++ vb, (Spec.memBy (setRules modelEnv ety).equiv (SetImpl.values s) y ↔
      k.spec (Spec.memBy (setRules modelEnv ety).equiv va y) (Spec.memBy (setRules modelEnv ety).equiv vb y))

/-- witness (replayed on /repo: `stdlib.SetIntersection(SetVal{float64 3.9477794105},
SetVal{parse "3.9477794105"})` is the empty set although the two numbers are `Equals`):
the two members are `Equivalent` but live in different hash buckets, so `Has` misses.
Root cause: the C03 hash-coherence finding (`C03.hash_incoherent_counterexample`). -/
theorem setAlgebraOnAllKnownMembers_counterexample :
    setOpImpl modelEnv .intersection
      [⟨.set .number, .sset [1243578146] [.n C03.w4f]⟩, ⟨.set .number, .sset [1459007788] [.n C03.w4p]⟩]
      (.set .number) = .ok (ofSetImpl .number ⟨[]⟩) ∧
    (setRules modelEnv .number).equiv (.n C03.w4f) (.n C03.w4p) = true ∧
    (setRules modelEnv .number).equiv (.n C03.w4f) (.n C03.w4f) = true ∧
    (Value.hash ⟨.number, .n C03.w4f⟩).isOk = true ∧ (Value.hash ⟨.number, .n C03.w4p⟩).isOk = true := by
  decide +kernel

theorem setAlgebraOnAllKnownMembers_false : ¬ SetAlgebraOnAllKnownMembers := by
  intro h
  obtain ⟨h1, h2, h2', h3, h4⟩ := setAlgebraOnAllKnownMembers_counterexample
  have hiff := h .number .intersection [1243578146] [1459007788] [.n C03.w4f] [.n C03.w4p] ⟨[]⟩ rfl rfl rfl
    (by
      intro p hp
      simp only [List.cons_append, List.nil_append, List.mem_cons, List.not_mem_nil, or_false] at hp
      rcases hp with rfl | rfl
      · exact ⟨rfl, rfl, rfl, h3⟩
      · exact ⟨rfl, rfl, rfl, h4⟩)
    h1 (.n C03.w4f) (by simp)
  have hr : SetOpKind.intersection.spec
      (Spec.memBy (setRules modelEnv .number).equiv [.n C03.w4f] (.n C03.w4f))
      (Spec.memBy (setRules modelEnv .number).equiv [.n C03.w4p] (.n C03.w4f)) :=
    ⟨⟨.n C03.w4f, by simp, h2'⟩, ⟨.n C03.w4p, by simp, h2⟩⟩
  obtain ⟨z, hz, _⟩ := hiff.mpr hr
  simp [SetImpl.values] at hz

/-- **sethaselement = membership** (clause "set membership"): for a known set of
admitted members filed under their hashes (the layout `cty.SetVal` and the set
algebra produce — `setop_result_is_filed`) and an admitted needle of the element
type, the answer is `true` iff some member is `RawEquals` to the needle. -/
theorem sethaselement_membership (E : Env) (ety : Ty) (ns : List Num) (hw : ety.wf = true) (hp : ety.plain = true)
    (hc : HashCoherentNums ns = true) (ids : List Int) (vs : List Payload) (q : Payload) (retTy : Ty)
    (hf : FiledUnder E ety ids vs)
    (hm : ∀ p ∈ vs, p.member ety ns = true) (hh : ∀ p ∈ vs, E.hashAgrees ety p)
    (hq : q.member ety ns = true) (hhq : E.hashAgrees ety q) :
    setHasElementImpl E [⟨.set ety, .sset ids vs⟩, ⟨ety, q⟩] retTy =
      .ok (boolVal (vs.any fun m => rawB ety q m)) :=
  setHasElementImpl_member E ety ns hw hp hc ids vs q retTy hf hm hh hq hhq

/-- a set value flattened from a representation under the invariant files every member
under its hash -/
theorem setop_result_is_filed (E : Env) (ety : Ty) (s : SetImpl Payload) (hinv : SetImpl.Inv (setRules E ety) s)
    (hs : ∀ m ∈ SetImpl.values s, (E.hash ety m).isSome = true) :
    FiledUnder E ety (bucketIds s.buckets) (bucketVals s.buckets) ∧
    ofSetImpl ety s = ⟨.set ety, .sset (bucketIds s.buckets) (bucketVals s.buckets)⟩ :=
  ⟨filedUnder_ofSetImpl E ety s hinv hs, rfl⟩

/-- **the set functions compose**: `sethaselement(setop(a, b), q)` is the union /
intersection / difference / symmetric difference of what a plain `RawEquals` scan of
the two member lists answers for `q`. -/
theorem sethaselement_of_setop (E : Env) (ety : Ty) (ns : List Num) (k : SetOpKind) (ida idb : List Int)
    (va vb : List Payload)
    (hw : ety.wf = true) (hp : ety.plain = true) (ho : ety.hasOpt = false) (hc : HashCoherentNums ns = true)
    (hma : ∀ p ∈ va, p.member ety ns = true) (hmb : ∀ p ∈ vb, p.member ety ns = true)
    (hha : ∀ p ∈ va, E.hashAgrees ety p) (hhb : ∀ p ∈ vb, E.hashAgrees ety p)
    (q : Payload) (hq : q.member ety ns = true) (hhq : E.hashAgrees ety q) (retTy : Ty) :
    ∃ r b, setOpImpl E k [⟨.set ety, .sset ida va⟩, ⟨.set ety, .sset idb vb⟩] (.set ety) = .ok r ∧
      setHasElementImpl E [r, ⟨ety, q⟩] retTy = .ok (boolVal b) ∧
      (b = true ↔ k.spec ((va.any fun m => rawB ety q m) = true) ((vb.any fun m => rawB ety q m) = true)) :=
  setHasElement_of_setOp E ety ns k ida idb va vb hw hp ho hc hma hmb hha hhb q hq hhq retTy

/-- result type of the set algebra: `set(ety)` when all arguments are sets of `ety` —
for any environment whose `UnifyUnsafe` answers `ety` for copies of `ety` (C09
`unify_equal_types`), and outright for `modelEnv`, whose `unify` is the unification
model (nesting depth of `ety` below its fuel, 48) -/
theorem setop_result_wellformed (E : Env) (ety : Ty) (hd : ety.equals .dyn = false)
    (sets : List (List Int × List Payload)) (hne : sets ≠ []) :
    (E.unify (sets.map fun _ => ety) = .ok (some ety) → setOpType E (setArgs ety sets) = .ok (.set ety)) ∧
    (ety.wf = true → ety.hasOpt = false → Unify.tyDepth ety < 48 →
      setOpType modelEnv (setArgs ety sets) = .ok (.set ety)) := by
  refine ⟨fun hu => setOpType_same E ety hd sets hne hu, fun hw ho hdp => ?_⟩
  apply setOpType_same modelEnv ety hd sets hne
  have : (sets.map fun _ => ety) = List.replicate sets.length ety := by
    clear hne; induction sets with
    | nil => rfl
    | cons _ _ ih => simp [List.replicate_succ, ih]
  rw [this]
  exact modelEnv_unify_same ety sets.length (by cases sets <;> simp_all) hw ho hdp

/-- **a dynamically-typed argument gives `cty.DynamicVal`** (the parameters declare
`AllowDynamicType`, so `cty.DynamicVal` reaches the callbacks): `setOperationReturnType`
answers the dynamic pseudo-type at the first such argument, whatever follows it, and
`Impl` handed that return type answers `cty.DynamicVal` before it looks at any argument
(since /repo 8027069; before that `ElementType()` panicked on the pseudo-type and the
call came back as a `PanicError`). -/
theorem setop_dynamic_argument (E : Env) (ety : Ty) (k : SetOpKind) (sets : List (List Int × List Payload))
    (d : Value) (rest args : List Value) (hd : d.ty = .dyn) :
    setOpType E (setArgs ety sets ++ d :: rest) = .ok .dyn ∧
    setOpImpl E k args .dyn = .ok Value.dynVal :=
  ⟨setOpType_dyn E ety sets d rest hd, setOpImpl_dyn E k args⟩

/-- the former witnesses, as regression cases through the whole call protocol: each
of the four functions called with `cty.DynamicVal` (alone, before and after a known
set) returns `cty.DynamicVal`, not a `PanicError` -/
theorem setop_dynamic_argument_regression :
    (["setunion", "setintersection", "setsymmetricdifference"].map fun n =>
      (byName n).map fun f => f.call {} [Value.dynVal]) =
      [some (.ok Value.dynVal), some (.ok Value.dynVal), some (.ok Value.dynVal)] ∧
    (["setunion", "setintersection", "setsubtract", "setsymmetricdifference"].map fun n =>
      (byName n).map fun f => f.call {} [Value.dynVal, ⟨.set .string, .sset [] []⟩]) =
      [some (.ok Value.dynVal), some (.ok Value.dynVal), some (.ok Value.dynVal), some (.ok Value.dynVal)] ∧
    (["setunion", "setintersection", "setsubtract", "setsymmetricdifference"].map fun n =>
      (byName n).map fun f => f.call {} [⟨.set .string, .sset [] []⟩, Value.dynVal]) =
      [some (.ok Value.dynVal), some (.ok Value.dynVal), some (.ok Value.dynVal), some (.ok Value.dynVal)] :=
  ⟨by rfl, by rfl, by rfl⟩

/-! ## index; slice of a tuple; zipmap and merge result types -/

/-- **index(list, i)**: the member at `i` when `0 ≤ i < len`, otherwise the error
"invalid index" — decided by the nested `hasindex` call, which goes through the
whole call protocol -/
theorem index_list (e : Ty) (vs : List Payload) (i : Nat) (hi : (i : Int) ≤ maxInt)
    (hm : Payload.containsMarkedL vs = false) (retTy : Ty) :
    indexImpl [⟨.list e, .seq vs⟩, intVal i] retTy =
      (match vs[i]? with
       | some p => .ok ⟨e, p⟩
       | none => .err "invalid index") ∧
    (Fn.call hasIndexSpec hasIndexType hasIndexImpl [⟨.list e, .seq vs⟩, intVal i]).1 =
      .ok (boolVal (decide (i < vs.length))) :=
  ⟨indexImpl_list e vs i hi hm retTy, hasIndex_call_list e vs i hi hm⟩

/-- the key rules of `index`'s `Type` callback: number keys for lists and tuples,
string keys for maps (a key of unknown type is let through); the result type is
the element type, for a tuple the type at the (whole, in-range) key -/
theorem index_type_rules (e : Ty) (ts : List Ty) (p : Payload) (key : Value) (x : Num) :
    indexType [⟨.list e, p⟩, key] =
      (if !key.ty.isNumber && !key.ty.isDyn then .err "key for list must be number" else .ok e) ∧
    indexType [⟨.map e, p⟩, key] =
      (if !key.ty.isString && !key.ty.isDyn then .err "key for map must be string" else .ok e) ∧
    indexType [⟨.tuple ts, p⟩, numVal x] =
      (match Gocty.int64Exact x with
       | none => .err "invalid key for tuple"
       | some i =>
         if i ≥ ts.length || i < 0 then .err "key must be between 0 and len inclusive"
         else (match ts[i.toNat]? with
           | some t => .ok t
           | none => oob)) :=
  indexType_rules e ts p key x

/-- **index(list, x) for ANY known number**: the member at position `i` when `x` is the
whole number `i` with `0 ≤ i < len`; for a negative, fractional, out-of-`int`, infinite
or out-of-range key the ordinary error "invalid index" — never a panic
(`Spec.natIndex? x = some i` reads "`x` is the whole number `i`, `0 ≤ i ≤ maxInt`") -/
theorem index_list_any_number (e : Ty) (vs : List Payload) (x : Num)
    (hm : Payload.containsMarkedL vs = false) (retTy : Ty) :
    indexImpl [⟨.list e, .seq vs⟩, numVal x] retTy =
      match (Spec.natIndex? x).bind (vs[·]?) with
      | some p => .ok ⟨e, p⟩
      | none => .err "invalid index" :=
  indexImpl_list_num e vs x hm retTy

/-- **index(tuple, x)**: the member together with ITS type at position `i`; the same
error everywhere else -/
theorem index_tuple (ts : List Ty) (vs : List Payload) (x : Num) (hl : ts.length = vs.length)
    (hm : Payload.containsMarkedL vs = false) (retTy : Ty) :
    indexImpl [⟨.tuple ts, .seq vs⟩, numVal x] retTy =
      match (Spec.natIndex? x).bind (fun i => (ts[i]?).bind fun t => (vs[i]?).map fun p => (⟨t, p⟩ : Value)) with
      | some v => .ok v
      | none => .err "invalid index" :=
  indexImpl_tuple_num ts vs x hl hm retTy

/-- **index(map, key)**: the element under the key when the map has the key, the error
"invalid index" when it has not (unlike `Value.Index`, which answers null there: C02
`index_map_missing_counterexample`) -/
theorem index_map (e : Ty) (ks : List String) (vs : List Payload) (k : String)
    (hm : Payload.containsMarkedL vs = false) (retTy : Ty) :
    indexImpl [⟨.map e, .smap ks vs⟩, strVal k] retTy =
      if ks.contains k then .ok ⟨e, (lookupKey k ks vs).getD .null⟩ else .err "invalid index" :=
  indexImpl_map_str e ks vs k hm retTy

/-- **index fails outside its domain** already in the `Type` callback: a collection that
is not a list, tuple or map; a key that is not a number for a list or tuple; a key that
is not a string for a map -/
theorem index_fails_outside_domain (c key : Value) :
    (isListTy c.ty = false → isTupleTy c.ty = false → isMapTy c.ty = false → Fails (indexType [c, key])) ∧
    (isListTy c.ty = true → key.ty.isNumber = false → key.ty.isDyn = false → Fails (indexType [c, key])) ∧
    (isTupleTy c.ty = true → key.ty.isNumber = false → key.ty.isDyn = false → Fails (indexType [c, key])) ∧
    (isMapTy c.ty = true → key.ty.isString = false → key.ty.isDyn = false → Fails (indexType [c, key])) :=
  indexType_domain c key

/-- **lookup in an object**: the attribute's value with the attribute's own type when
the object type declares the attribute, otherwise the default converted to the result type -/
theorem lookup_object (E : Env) (ns : List String) (ts : List Ty) (os : List Bool) (vs : List Payload)
    (k : String) (d : Value) (retTy : Ty)
    (h1 : ns.length = ts.length) (h2 : ns.length = os.length) (h3 : ns.length = vs.length)
    (hk : Payload.whollyKnownL vs = true) (hm : ∀ p ∈ vs, p.isMarked = false) :
    lookupImpl E [⟨.object ns ts os, .smap ns vs⟩, strVal k, d] retTy =
      match Spec.attr? k ns ts vs with
      | some v => .ok v
      | none => (convertTo E d retTy).map (withMarkSets · [[]]) :=
  lookupImpl_object E ns ts os vs k d retTy h1 h2 h3 hk hm

/-- **lookup fails outside its domain** (in the `Type` callback): a first argument that is
neither a map nor an object; a map whose default does not convert to the element type -/
theorem lookup_fails_outside_domain (E : Env) (m key d : Value) :
    (isMapTy m.ty = false → isObjectTy m.ty = false → Fails (lookupType E [m, key, d])) ∧
    (∀ e, m.ty = .map e → (∃ c, convertTo E d e = .err c) → Fails (lookupType E [m, key, d])) :=
  lookupType_outside E m key d

/-- **slice(tuple, a, b)**: the tuple of the members at positions `a ≤ p < b`, typed
by the same slice of the element types, which is the type the `Type` callback
predicts; outside `0 ≤ a ≤ b ≤ len` both callbacks fail -/
theorem slice_tuple (E : Env) (ts : List Ty) (vs : List Payload) (a b : Num) (hl : ts.length = vs.length)
    (retTy : Ty) (hnd : retTy.isDyn = false) :
    (∀ s t, SliceArgs ts.length a b s t →
      sliceImpl E [⟨.tuple ts, .seq vs⟩, numVal a, numVal b] (.tuple (Spec.slice ts s.toNat t.toNat)) =
          .ok ⟨.tuple (Spec.slice ts s.toNat t.toNat), .seq (Spec.slice vs s.toNat t.toNat)⟩ ∧
      sliceType [⟨.tuple ts, .seq vs⟩, numVal a, numVal b] = .ok (.tuple (Spec.slice ts s.toNat t.toNat))) ∧
    ((¬ ∃ s t, SliceArgs ts.length a b s t) →
      Fails (sliceImpl E [⟨.tuple ts, .seq vs⟩, numVal a, numVal b] retTy) ∧
      Fails (sliceType [⟨.tuple ts, .seq vs⟩, numVal a, numVal b])) :=
  ⟨fun s t h => sliceImpl_tuple_ok E ts vs a b s t hl h, fun h => sliceImpl_tuple_err E ts vs a b retTy hnd h⟩

/-- **zipmap(keys, tuple)**: the object binding every key to the value at its
position (last binding wins), and the `Type` callback predicts the object type
binding every key to the TYPE at its position -/
theorem zipmap_tuple (E : Env) (ks : List String) (ts : List Ty) (vs : List Payload)
    (hl : ks.length = vs.length) (htv : ts.length = vs.length) (hlen : (vs.length : Int) ≤ maxInt)
    (ns : List String) (ats : List Ty) (os : List Bool) :
    (∃ out, zipmapImpl E [⟨.list .string, .seq (ks.map Payload.s)⟩, ⟨.tuple ts, .seq vs⟩] (.object ns ats os) =
        .ok (Gocty.objectVal (out.map (·.1)) (out.map (·.2))) ∧
      Spec.IsMapOf (ks.zip (zipTV ts vs)) out) ∧
    (∃ atys, zipmapType E [⟨.list .string, .seq (ks.map Payload.s)⟩, ⟨.tuple ts, .seq vs⟩] =
        .ok (.object (atys.map (·.1)) (atys.map (·.2)) (atys.map fun _ => false)) ∧
      Spec.IsMapOf (ks.zip ts) atys) :=
  ⟨zipmapImpl_tuple E ks ts vs hl htv hlen ns ats os, zipmapType_tuple E ks ts (.seq vs) (by omega)⟩

/-- **result type of `merge`**: when all arguments have one map or object type, that
type; with no arguments the empty object type -/
theorem merge_type (T : Ty) (hT : (isMapTy T || isObjectTy T) = true) (heq : T.equals T = true)
    (hnd : T.equals .dyn = false) (args : List Value) (hne : args ≠ [])
    (hargs : ∀ a ∈ args, a.ty = T ∧ (a.unmark.isNull = true ∨ ∃ ks, elemKeys a.unmark = .ok ks)) :
    mergeType args = .ok T ∧ mergeType [] = .ok (.object [] [] []) :=
  ⟨mergeType_same T hT heq hnd args hne hargs, rfl⟩

/-! ## domain and environment: what was left to a hypothesis -/

/-- **coalesce of arguments of ONE type** under `modelEnv` (the environment `std.callm`
runs): the `Type` callback answers that type — unification of equal types is computed,
not assumed — and the result is the first non-null argument itself; an error when all
are null.  (Arguments of DIFFERENT types are converted to the unified type by package
`convert`: that reference is C08/C09's, `coalesce_first_non_null` says which argument.) -/
theorem coalesce_same_type (t : Ty) (args : List Value) (hne : args ≠ [])
    (hty : ∀ a ∈ args, a.ty = t) (hk : ∀ a ∈ args, a.isKnown = true)
    (hw : t.wf = true) (ho : t.hasOpt = false) (hd : Unify.tyDepth t < 48) :
    coalesceType modelEnv args = .ok t ∧
    coalesceImpl modelEnv args t =
      match args.find? (fun a => !a.isNull) with
      | some a => .ok a
      | none => .err "no non-null arguments" :=
  coalesce_same_type_model t args hne hty hk hw ho hd

/-- result type of `concat` for lists of one type under `modelEnv`, with no hypothesis
about unification -/
theorem concat_type_model (e : Ty) (ls : List (List Payload)) (hne : ls ≠ [])
    (hw : e.wf = true) (ho : e.hasOpt = false) (hd : Unify.tyDepth (.list e) < 48) :
    concatType modelEnv (sameLists e ls) = .ok (.list e) :=
  concatType_lists_model e ls hne hw ho hd

/-- **flatten fails outside its domain**: a wholly known argument that is not a list, set
or tuple is refused by the `Type` callback (inside: `flatten_eq`, `flatten_empty`) -/
theorem flatten_fails_outside_domain (E : Env) (arg : Value) (hwk : arg.whollyKnown = true)
    (hs : isSeqTy arg.ty = false) : Fails (flattenType E [arg]) :=
  flattenType_outside E arg hwk hs

/-- **merge fails outside its domain**: an argument that is neither a map nor an object
(nor of the dynamic pseudo-type, which defers the decision) is refused by the `Type`
callback wherever it stands, the arguments before it being maps or objects — null,
unknown or readable (inside the domain: `merge_map`, `merge_object`, `merge_type`) -/
theorem merge_fails_outside_domain (pre : List Value) (bad : Value) (rest : List Value)
    (hp : ∀ a ∈ pre, a.ty.equals .dyn = false ∧ (isMapTy a.ty || isObjectTy a.ty) = true ∧
      (a.unmark.isNull = true ∨ a.unmark.isKnown = false ∨ ∃ ks, elemKeys a.unmark = .ok ks))
    (hb : notMapOrObject bad = true) :
    Fails (mergeType (pre ++ bad :: rest)) :=
  mergeType_outside pre bad rest hp hb

/-- **zipmap rejects a null key** (with `zipmap_domain_and_type`: for a list of values the
call fails exactly when the lengths differ or some key is null — `zipmap_list` is the
`ok` answer for string keys of the same length) -/
theorem zipmap_null_key_rejected (E : Env) (e : Ty) (pre : List String) (post : List Payload) (vs : List Payload)
    (hpost : ∀ p ∈ post, isStrOrNull p = true)
    (hl : pre.length + 1 + post.length = vs.length) (hlen : (vs.length : Int) ≤ maxInt) (retTy : Ty) :
    Fails (zipmapImpl E [⟨.list .string, .seq (pre.map Payload.s ++ .null :: post)⟩, ⟨.list e, .seq vs⟩] retTy) :=
  zipmapImpl_null_key E e pre post vs hpost hl hlen retTy

/-! ## length and hasindex against a reference; never a panic -/

/-- **length** = number of members of a known list, tuple, map, or wholly known set (the
statement the `wrappers` unfolding leaves to C02, in plain vocabulary) -/
theorem length_reference (e : Ty) (ts : List Ty) (vs : List Payload) (ks : List String) (ids : List Int)
    (retTy : Ty) :
    lengthImpl [⟨.list e, .seq vs⟩] retTy = .ok (intVal vs.length) ∧
    lengthImpl [⟨.tuple ts, .seq vs⟩] retTy = .ok (intVal ts.length) ∧
    lengthImpl [⟨.map e, .smap ks vs⟩] retTy = .ok (intVal vs.length) ∧
    (Payload.whollyKnownL vs = true → lengthImpl [⟨.set e, .sset ids vs⟩] retTy = .ok (intVal vs.length)) :=
  lengthImpl_reference e ts vs ks ids retTy

/-- **hasindex** through the whole call protocol: for a list or tuple and ANY known number
`true` iff the number is a whole position inside the sequence; for a map and a string
`true` iff the map has the key -/
theorem hasindex_reference (e : Ty) (ts : List Ty) (vs : List Payload) (ks : List String) (x : Num) (k : String)
    (hm : Payload.containsMarkedL vs = false) :
    (Fn.call hasIndexSpec hasIndexType hasIndexImpl [⟨.list e, .seq vs⟩, numVal x]).1 =
      .ok (boolVal (match Spec.natIndex? x with | some i => decide (i < vs.length) | none => false)) ∧
    (Fn.call hasIndexSpec hasIndexType hasIndexImpl [⟨.tuple ts, .seq vs⟩, numVal x]).1 =
      .ok (boolVal (match Spec.natIndex? x with | some i => decide (i < ts.length) | none => false)) ∧
    (Fn.call hasIndexSpec hasIndexType hasIndexImpl [⟨.map e, .smap ks vs⟩, strVal k]).1 =
      .ok (boolVal (ks.contains k)) :=
  hasIndex_call_reference e ts vs ks x k hm

/-- the iteration hypotheses of `merge_map` / `merge_object` hold of every known unmarked
map or object value -/
theorem merge_arguments_iterable (E : Env) (e : Ty) (ns : List String) (ts : List Ty) (os : List Bool)
    (ks : List String) (vs : List Payload) :
    Iterable E ⟨.map e, .smap ks vs⟩ ∧ Iterable E ⟨.object ns ts os, .smap ks vs⟩ :=
  iterable_map_object E e ns ts os ks vs

/-- the homogeneity hypothesis of `merge_map` holds when every argument has the map type -/
theorem merge_map_bindings_typed (E : Env) (e : Ty) (args : List Value) (hty : ∀ a ∈ args, a.ty = .map e) :
    ∀ kv ∈ allBindings E args, kv.2.ty = e :=
  allBindings_map_ty E e args hty

/-- **keys, values and the set algebra fail outside their domains**: `keys` / `values` of a
value that is neither a map nor an object; set functions on sets whose element types do
not unify -/
theorem keys_values_setop_fail_outside_domain (E : Env) (m : Value) (args : List Value) (etys : List Ty) :
    (isMapTy m.ty = false → isObjectTy m.ty = false → Fails (keysType [m]) ∧ Fails (valuesType [m])) ∧
    (setOpElemTypes args = .ok (some etys) → etys ≠ [] → E.unify etys = .ok none → Fails (setOpType E args)) :=
  keys_values_setop_outside E m args etys

/-- **never a Go panic**: `element`, `index`, `slice`, `chunklist` on a known mark-free list,
whatever known numbers they are given (whole or fractional, of either sign, beyond
`int`, infinite) -/
theorem index_arithmetic_never_panics (E : Env) (e : Ty) (he : e.equals e = true) (vs : List Payload) (x y : Num)
    (retTy : Ty) (hlen : (vs.length : Int) ≤ maxInt) (hm : Payload.containsMarkedL vs = false)
    (hm' : ∀ p ∈ vs, p.isMarked = false) :
    NoPanic (elementImpl [⟨.list e, .seq vs⟩, numVal x] retTy) ∧
    NoPanic (indexImpl [⟨.list e, .seq vs⟩, numVal x] retTy) ∧
    NoPanic (sliceImpl E [⟨.list e, .seq vs⟩, numVal x, numVal y] (.list e)) ∧
    NoPanic (chunklistImpl E [⟨.list e, .seq vs⟩, numVal x] retTy) :=
  index_arithmetic_no_panic E e he vs x y retTy hlen hm hm'

/-- …`index` on tuples and maps and `lookup` on objects (the default's conversion being the
environment's business) -/
theorem index_lookup_never_panic (E : Env) (e : Ty) (ts : List Ty) (vs : List Payload) (ks ns : List String)
    (os : List Bool) (x : Num) (k : String) (d : Value) (retTy : Ty)
    (hl : ts.length = vs.length) (hm : Payload.containsMarkedL vs = false)
    (hd : NoPanic (convertTo E d retTy)) :
    NoPanic (indexImpl [⟨.tuple ts, .seq vs⟩, numVal x] retTy) ∧
    NoPanic (indexImpl [⟨.map e, .smap ks vs⟩, strVal k] retTy) ∧
    (ns.length = ts.length → ns.length = os.length → ns.length = vs.length →
      Payload.whollyKnownL vs = true → (∀ p ∈ vs, p.isMarked = false) →
      NoPanic (lookupImpl E [⟨.object ns ts os, .smap ns vs⟩, strVal k, d] retTy)) :=
  index_lookup_no_panic E e ts vs ks ns os x k d retTy hl hm hd

/-- …and `distinct`, `contains` on lists of a plain element type -/
theorem equality_functions_never_panic (E : Env) (e : Ty) (hw : e.wf = true) (hp : e.plain = true)
    (vs : List Payload) (q : Payload) (retTy : Ty)
    (hm : ∀ p ∈ vs, Payload.plainMember e p = true) (hq : Payload.plainMember e q = true) :
    NoPanic (distinctImpl E [⟨.list e, .seq vs⟩] (.list e)) ∧
    NoPanic (containsImpl E [⟨.list e, .seq vs⟩, ⟨e, q⟩] retTy) :=
  equality_functions_no_panic E e hw hp vs q retTy hm hq

/-! ## Non-vacuity: the hypotheses above are satisfiable by non-trivial values -/

example : Gocty.int64Exact (Num.ofInt (-7)) = some (-7) := by decide
example : Spec.element? ["a", "b", "c"] (-7) = some "c" := by decide
example : elementImpl [⟨.list .string, .seq [.s "a", .s "b", .s "c"]⟩, intVal (-7)] .string =
    .ok ⟨.string, .s "c"⟩ := by rfl
example : SliceArgs 3 (Num.ofInt 1) (Num.ofInt 3) 1 3 := ⟨by decide, by decide, by decide, by decide, by decide⟩
example : Spec.IsChunking 2 [1, 2, 3, 4, 5] [[1, 2], [3, 4], [5]] := by
  refine ⟨by decide, by decide, by decide, by decide⟩
example : Spec.cartesian [[1, 2], [3, 4]] = [[1, 3], [1, 4], [2, 3], [2, 4]] := by decide
example : Spec.IsProgression (nextNum (Num.ofInt 2)) (reached false (Num.ofInt 5)) (Num.ofInt 1)
    [Num.ofInt 1, Num.ofInt 3] := by
  refine ⟨by decide, ?_, by decide⟩
  intro k hk
  match k, hk with
  | 0, _ => decide
  | 1, _ => decide
example : isFin (Num.ofInt 2) = true ∧ dirOk (stepDown (Num.ofInt 2)) (Num.ofInt 1) (Num.ofInt 5) = true ∧
    isZeroStep (Num.ofInt 2) = false := by decide
example : Spec.IsMapOf [("b", 1), ("a", 2), ("b", 3)] [("a", 2), ("b", 3)] := by
  refine ⟨by decide, ?_⟩
  intro k
  by_cases h1 : k = "a"
  · subst h1; decide
  · by_cases h2 : k = "b"
    · subst h2; decide
    · have e1 : ("a" == k) = false := by simpa using fun h => h1 h.symm
      have e2 : ("b" == k) = false := by simpa using fun h => h2 h.symm
      simp [Spec.assoc, Spec.lastBinding, e1, e2]
example : Spec.firstOccs (fun a b : Nat => a == b) [1, 2, 1, 3, 2] = [1, 2, 3] := by decide
example : isNest (.tuple [.list .string, .number]) (.seq [.seq [.s "a", .s "b"], .n (Num.ofInt 1)]) = true ∧
    flatOK (.tuple [.list .string, .number]) (.seq [.seq [.s "a", .s "b"], .n (Num.ofInt 1)]) = true := by decide
example : (flatElem (.tuple [.list .string, .number]) (.seq [.seq [.s "a", .s "b"], .n (Num.ofInt 1)])).length = 3 := by
  decide
example : Ty.conformErrs (.list .string) (.list .string) = 0 := by decide
example : (⟨.set .number, .marked ["m"] (.sset [1, 2] [.n (Num.ofInt 1), .unk .unref])⟩ : Value).unmark.whollyKnown = false := by
  decide

/-- the hypotheses of the set theorems hold together for a non-trivial instance: the
sets {2, 3, 1} and {2, 5} of 64-bit integers under `modelEnv`; likewise sets of tuples -/
example : ∃ s : SetImpl Payload,
    setOpImpl modelEnv .symmetricDifference
      [⟨.set .number, .sset [450215437, 1842515611, 2212294583]
          [.n (Num.ofInt 2 64), .n (Num.ofInt 3 64), .n (Num.ofInt 1 64)]⟩,
       ⟨.set .number, .sset [450215437, 2226203566] [.n (Num.ofInt 2 64), .n (Num.ofInt 5 64)]⟩]
      (.set .number) = .ok (ofSetImpl .number s) ∧ SetImpl.Inv (setRules modelEnv .number) s :=
  have ⟨s, h1, h2, _⟩ := setop_members_model .number
    [Num.ofInt 1 64, Num.ofInt 2 64, Num.ofInt 3 64, Num.ofInt 5 64] .symmetricDifference
    [450215437, 1842515611, 2212294583] [450215437, 2226203566]
    [.n (Num.ofInt 2 64), .n (Num.ofInt 3 64), .n (Num.ofInt 1 64)] [.n (Num.ofInt 2 64), .n (Num.ofInt 5 64)]
    rfl rfl rfl (by decide +kernel) (by decide +kernel) (by decide +kernel) (by decide +kernel) (by decide +kernel)
  ⟨s, h1, h2⟩
example : HashCoherentNums [Num.ofInt 1 64, Num.ofInt 2 64, .fin false 1 (-1) 53, .fin false 3 (-2) 512] = true := by
  decide +kernel
example : Payload.member (.tuple [.number, .string]) [Num.ofInt 1 64]
    (.seq [.n (Num.ofInt 1 64), .s "a"]) = true ∧
    (Value.hash ⟨.tuple [.number, .string], .seq [.n (Num.ofInt 1 64), .s "a"]⟩).isOk = true := by decide +kernel
example : FiledUnder modelEnv .number [450215437, 2226203566] [.n (Num.ofInt 2 64), .n (Num.ofInt 5 64)] :=
  .cons (by decide +kernel) (.cons (by decide +kernel) .nil)
example : (setHasElementImpl modelEnv
    [⟨.set .number, .sset [450215437, 2226203566] [.n (Num.ofInt 2 64), .n (Num.ofInt 5 64)]⟩,
     ⟨.number, .n (Num.ofInt 5 64)⟩] .bool) = .ok (boolVal true) := by decide +kernel
example : Spec.natIndex? (Num.ofInt 2 64) = some 2 ∧ Spec.natIndex? (Num.ofInt (-1) 64) = none ∧
    Spec.natIndex? (.fin false 1 (-1) 53) = none ∧ Spec.natIndex? (.inf false) = none := by decide
example : indexImpl [⟨.list .string, .seq [.s "a", .s "b", .s "c"]⟩, intVal 2] .string = .ok ⟨.string, .s "c"⟩ ∧
    indexImpl [⟨.list .string, .seq [.s "a", .s "b", .s "c"]⟩, intVal (-1)] .string = .err "invalid index" := by
  constructor <;> rfl
example : Spec.attr? "b" ["a", "b"] [.string, .number] [.s "x", .n (Num.ofInt 1 64)] =
    some ⟨.number, .n (Num.ofInt 1 64)⟩ := by decide
example : Payload.plainMember (.tuple [.number, .string]) (.seq [.n (Num.ofInt 1 64), .s "a"]) = true := by decide
example : Spec.firstOccs (rawB .string) [.s "a", .s "b", .s "a", .null, .null] = [.s "a", .s "b", .null] := by
  simp [Spec.firstOccs, Spec.firstOccsFrom, rawB]
example : notMapOrObject ⟨.list .string, .seq []⟩ = true ∧ notMapOrObject ⟨.map .string, .smap [] []⟩ = false := by decide
example : Unify.tyDepth (.list (.tuple [.number, .string])) < 48 := by decide
example : ∃ s : SetImpl Payload,
    setProductImpl modelEnv (setArgs3 [(.string, [1829654686], [.s "a"]), (.number, [450215437], [.n (Num.ofInt 2 64)])])
      (.set (.tuple [.string, .number])) = .ok (ofSetImpl (.tuple [.string, .number]) s) ∧ SetImpl.length s = 1 :=
  have ⟨s, h1, _, _, _, h5⟩ := setproduct_sets_reference modelEnv [Num.ofInt 2 64]
    [(.string, [1829654686], [.s "a"]), (.number, [450215437], [.n (Num.ofInt 2 64)])]
    rfl rfl (by decide +kernel) (by decide) (by decide +kernel) (by decide +kernel)
    (fun row hr => modelEnv_hashAgrees _ row
      ((by decide +kernel : ∀ row ∈ productRows modelEnv
        [(.string, [1829654686], [.s "a"]), (.number, [450215437], [.n (Num.ofInt 2 64)])],
        (Value.hash ⟨.tuple [.string, .number], row⟩).isOk = true) row hr))
  ⟨s, h1, h5 (by simp)⟩
example : SetOpKind.union.specN (rawB .string) [.s "a"] [[.s "b"], [.s "c"]] (.s "c") := by
  simp [SetOpKind.specN, SetOpKind.spec, Spec.memBy, rawB]

end C13
end CtyModel
