/-
C16 — MessagePack encoding round-trips values, including unknown ones.

Property theorems only; the induction lives in `CtyModel/Lemmas/Msgpack*.lean`.
Every statement is about `Msgpack.marshal`, `Msgpack.unmarshal`, `Msgpack.encNum`,
`Msgpack.unmarshalNumber` — the item-level transliterations of cty/msgpack that
the correspondence harness diffs against /repo on every run (real bytes are
split into items by the harness' own MessagePack reader).  The vocabulary of the
conclusions (`Approx`, `RawEq`, `Weaker`, `numBack`) and of the hypotheses (`Fits`,
`wfValue`, `SetsRebuild`) is in `CtyModel/MsgpackSpec.lean`.

The refinement builder's `Value.Equals` on numbers is a parameter of `Refine.lean`
(`EqOracle`); `unmarshal` here is instantiated with the exact oracle (`partialOracle`:
exact comparison, `.unmodelled` where the code's answer could depend on the decimal
text) — the driver also runs it with `textOracle`, what the code does (`mp.unmarshal` /
`mp.unmarshalx`).

External functions are the fields of `Msgpack.Ext` (Unicode normalisation,
`ctystrings.SafeKnownPrefix`, `cty.SetVal`); nothing is assumed of them except
what a hypothesis states: `Fits` checks, for the given `E`, that strings and keys
are fixed points of `E.norm` and that the safe prefix of a byte-cut prefix is a
normalised byte-prefix of it (decidable per value, evaluated by the driver on
the harness' inputs); `SetsRebuild` is the law assumed of `cty.SetVal` at the set
nodes of the value (vacuous without sets).

The full-strength statement `RoundtripCovers` is FALSE of the code as it exists;
it is kept as a `def`, with three counterexamples (each the replay of a recorded
finding) and the strongest partial theorem `roundtrip_covers_partial` (side condition `Fits`).
-/
import CtyModel.Lemmas.MsgpackKnown
import CtyModel.Lemmas.MsgpackMarks
import CtyModel.Generated.Limits
namespace CtyModel
namespace C16
open Msgpack Refine

/-! ## Limits -/

/-- The two limits the model uses (`maxPrefixLength := 256` in marshalUnknownValue, the
`extLen > 1024` test in unmarshalUnknownValue) are the ones regenerated from the Go
source on every check: a change of either in /repo breaks this theorem. -/
theorem limits_are_source :
    maxPrefixLength = Generated.msgpackMaxPrefixLength ∧ maxExtLen = Generated.msgpackMaxExtLen := by decide

/-! ## Numbers -/

/-- FULL statement (false): every whole number in the int64 ∪ uint64 range is
written as an integer item and decodes to the same number. -/
def IntsExact : Prop :=
  ∀ (x : Num) (i : Int), x.toInt? = some i → minI64 ≤ i → i ≤ maxU64 →
    isIntItem (encNum x) = true ∧ ∃ y, unmarshalNumber (encNum x) = .ok y ∧ y.toInt? = some i

/-- Whole numbers in the int64 range are written as an integer item (whatever the
precision of the big.Float that holds them) and decode to the same number. -/
theorem ints_exact_partial (x : Num) (i : Int) (hx : x.toInt? = some i) (h1 : minI64 ≤ i) (h2 : i ≤ maxI64) :
    isIntItem (encNum x) = true ∧
      ∃ y, unmarshalNumber (encNum x) = .ok y ∧ y.toInt? = some i ∧ Num.cmp y x = 0 := by
  have hr : route x = .int i := route_of_toInt? hx ⟨h1, h2⟩
  obtain ⟨y, hy1, hy2, _⟩ := unmarshalNumber_encInt i
  refine ⟨?_, y, by simpa [encNum, hr] using hy1, hy2, cmp_of_toInt? hx hy2⟩
  simp only [encNum, hr, encInt]
  split <;> rfl

/-- The decoder reads every integer item of either family exactly — the whole
uint64 range included. -/
theorem ints_decode_exact (i : Int) (u : Nat) :
    (∃ y, unmarshalNumber (.int i) = .ok y ∧ y.toInt? = some i) ∧
    (∃ y, unmarshalNumber (.uint u) = .ok y ∧ y.toInt? = some (u : Int)) :=
  ⟨(unmarshalNumber_int i).imp fun _ h => ⟨h.1, h.2.1⟩, (unmarshalNumber_uint u).imp fun _ h => ⟨h.1, h.2.1⟩⟩

/-- … but a whole number above the int64 range is NOT written as an integer item
(`bf.Int64()` is the only integer test in marshal.go): 2^63 travels as decimal text. -/
theorem ints_exact_counterexample : ¬ IntsExact := by
  intro h
  have hx : (Num.fin false 1 63 64).toInt? = some 9223372036854775808 := by decide
  have := (h (.fin false 1 63 64) 9223372036854775808 hx (by decide) (by decide)).1
  rw [show encNum (.fin false 1 63 64) = .str (Num.textF (.fin false 1 63 64)) from by
    simp [encNum, route_of_toInt?_out hx (by decide)]] at this
  simp [isIntItem] at this

/-- A number that is exactly a float64 and not whole is written as a float64 item and
decodes to numerically the same number. -/
theorem float64_exact (x : Num) (hf : x.isInf = false) (hi : x.toInt? = none) (he : (Num.toF64 x).2 = true) :
    encNum x = .f64 (Num.toF64 x).1 ∧ unmarshalNumber (encNum x) = .ok (Num.toF64 x).1 ∧
      Num.cmp (Num.toF64 x).1 x = 0 := by
  have hr : route x = .f64 (Num.toF64 x).1 := by
    cases x with
    | inf _ => simp [Num.isInf] at hf
    | fin n m e p => simp [route, hi, he]
  exact ⟨by simp [encNum, hr], by simp [encNum, hr, unmarshalNumber], toF64_exact_cmp x he⟩

/-- Every other finite number — whole but outside int64, or not exactly a float64 —
goes through its decimal text `Text('f', -1)`. -/
theorem float64_exact_otherwise (x : Num) (hf : x.isInf = false)
    (h : (∃ i, x.toInt? = some i ∧ ¬ (minI64 ≤ i ∧ i ≤ maxI64)) ∨ (x.toInt? = none ∧ (Num.toF64 x).2 = false)) :
    encNum x = .str (Num.textF x) := by
  cases x with
  | inf _ => simp [Num.isInf] at hf
  | fin n m e p =>
    rcases h with ⟨i, hi, hr⟩ | ⟨hi, he⟩
    · simp [encNum, route_of_toInt?_out hi hr]
    · simp [encNum, route, hi, he]

/-- The infinities are written as float64 ±Inf and come back as infinities (infinity.go). -/
theorem infinity_exact (n : Bool) :
    encNum (.inf n) = .f64 (.inf n) ∧ unmarshalNumber (encNum (.inf n)) = .ok (.inf n) := by
  simp [encNum, route, unmarshalNumber]

/-- Every known number whose decimal text parses back (`numFits`; automatically true on
the integer and float paths) decodes to an acceptable number: numerically identical
if whole or an exact float64, Equal otherwise. -/
theorem number_roundtrip (x : Num) (h : numFits x = true) :
    ∃ y, unmarshalNumber (encNum x) = .ok y ∧ numBack y x := encNum_back x h

/-- FULL statement (false): whole numbers of any size come back numerically identical. -/
def WholeNumbersExact : Prop :=
  ∀ x : Num, x.isInt = true → ∃ y, unmarshalNumber (encNum x) = .ok y ∧ Num.cmp y x = 0

/-- float64(2^63) is written as "9223372036854776000" — the shortest text that
identifies it at 53 bits — and decodes to that other number. -/
theorem whole_numbers_exact_counterexample : ¬ WholeNumbersExact := by
  intro h
  obtain ⟨y, hy, hc⟩ := h (.fin false 1 63 53) (by decide)
  have h1 : unmarshalNumber (encNum (.fin false 1 63 53)) = .ok (.fin false 144115188075855875 6 512) := by
    have hr : route (.fin false 1 63 53) = .str "9223372036854776000" := by decide
    simp only [encNum, hr]
    decide
  rw [h1] at hy
  cases hy
  revert hc
  decide

/-! ## The round trip -/

/-- FULL statement (false): every well-formed, unmarked, capsule-free value that
conforms to the constraint survives `Marshal` then `Unmarshal` with the same
constraint as a value of the same type that is an acceptable decoding of it. -/
def RoundtripCovers : Prop :=
  ∀ (E : Ext) (v : Value) (t : Ty), t.wf = true → wfValue E v = true → Ty.conformErrs t v.ty = 0 →
    SetsRebuild E v →
    ∃ it v', marshal E v t = .ok it ∧ unmarshal E it t = .ok v' ∧ ApproxV v' v

/-- The round trip, with unknown values and refinements at any depth and placeholders
anywhere in the constraint.  Under `Fits` (and the set law): `Marshal` succeeds,
`Unmarshal` of its output with the same constraint succeeds, the result has the
original's type, is unknown exactly where the original is, with a refinement there
that admits every concrete value the original's admitted (`Weaker`: the prefix is
cut on a boundary `SafeKnownPrefix` accepts, bounds are kept), and is equal in
every known part. -/
theorem roundtrip_covers_partial (E : Ext) (v : Value) (t : Ty) (hfit : Fits E t v = true) (hset : SetsRebuild E v)
    (hconf : Ty.conformErrs t v.ty = 0) :
    ∃ it v', marshal E v t = .ok it ∧ unmarshal E it t = .ok v' ∧ ApproxV v' v :=
  roundtrip E v t hfit hset hconf

/-- For a wholly known value the result is wholly equal: `RawEq` holds part for part
(numbers: numerically identical when whole or an exact float64, Equal otherwise). -/
theorem roundtrip_known_partial (E : Ext) (v : Value) (t : Ty) (hfit : Fits E t v = true) (hset : SetsRebuild E v)
    (hconf : Ty.conformErrs t v.ty = 0) (hk : v.whollyKnown = true) :
    ∃ it v', marshal E v t = .ok it ∧ unmarshal E it t = .ok v' ∧ v'.ty = v.ty ∧ RawEq v.ty v'.v v.v := by
  obtain ⟨it, v', hm, hu, hty, ha⟩ := roundtrip E v t hfit hset hconf
  exact ⟨it, v', hm, hu, hty, approx_rawEq v'.v v.ty v.v hk ha⟩

/-- An unknown value comes back unknown, of the same type — the refinement possibly
approximated, never narrowed or invented. -/
theorem unknown_type_preserved_partial (E : Ext) (vt t : Ty) (r : Rfn) (hfit : Fits E t ⟨vt, .unk r⟩ = true)
    (hconf : Ty.conformErrs t vt = 0) :
    ∃ it r', marshal E ⟨vt, .unk r⟩ t = .ok it ∧ unmarshal E it t = .ok ⟨vt, .unk r'⟩ ∧ Weaker vt r' r := by
  obtain ⟨it, v', hm, hu, hty, ha⟩ := roundtrip E ⟨vt, .unk r⟩ t hfit
    (by intro n hn; cases vt <;> simp [setNodes] at hn) hconf
  obtain ⟨ty', p'⟩ := v'
  simp only at hty ha
  subst hty
  cases p' <;> simp only [Approx] at ha <;> try exact ha.elim
  exact ⟨it, _, hm, hu, ha⟩

/-- Marked values are rejected with an error (not a panic), whatever the constraint. -/
theorem marked_rejected (E : Ext) (t vt : Ty) (ms : List String) (p : Payload) :
    marshal E ⟨vt, .marked ms p⟩ t = .err "value has marks" := by
  simp [marshal, Payload.isMarked]

/-- A mark at any depth: `Marshal` does not succeed, and it does not panic either (what is
left is an error — or, in the model, an input shape outside the modelled fragment). -/
theorem marked_nested_rejected (E : Ext) (v : Value) (t : Ty) (h : v.containsMarked = true) :
    (∀ it, marshal E v t ≠ .ok it) ∧ (∀ w, marshal E v t ≠ .panic w) :=
  ⟨fun it hm => by simp [marshal_ok_unmarked E v t it hm] at h, marshal_no_panic E v t⟩

/-- `Marshal` never panics, whatever the value and the constraint. -/
theorem marshal_never_panics (E : Ext) (v : Value) (t : Ty) (w : String) : marshal E v t ≠ .panic w :=
  marshal_no_panic E v t w

/-! ## Counterexamples to the full statement (replays of recorded findings) -/

/-- (1) float64(2^63), a whole number beyond int64 held at 53 bits, comes back as
9223372036854776000 (finding `roundtrip-number / whole-beyond-int64-shortest-text-inexact`). -/
theorem roundtrip_covers_counterexample_whole : ¬ RoundtripCovers := by
  intro h
  have := rtCheck_of (h E0 ⟨.number, .n (.fin false 1 63 53)⟩ .number (by decide) (by decide) (by decide) (noSets rfl))
    (chk := fun v' => match v'.v with | .n y => Num.cmp y (.fin false 1 63 53) == 0 | _ => false)
    (by
      rintro ⟨ty', p'⟩ ⟨_, ha⟩
      cases p' <;> simp only [Approx] at ha <;> try exact ha.elim
      simpa [numBack, wholeOrF64, Num.isInt] using ha)
  revert this
  decide

/-- (2) `Unmarshal` refuses what `Marshal` wrote for an unknown number whose bound has a
long decimal text (2^3500: 1054 digits): the refinement body exceeds the decoder's
1024-byte limit (finding `decode-own-output / oversize-refinement-from-long-bound-text`). -/
theorem roundtrip_covers_counterexample_oversize : ¬ RoundtripCovers := by
  intro h
  have := rtCheck_of (h E0 ⟨.number, .unk (.num .u (some ⟨.fin false 1 3500 1, true⟩) none)⟩ .number
    (by decide) (by decide) (by decide) (noSets rfl)) (chk := fun _ => true) (fun _ _ => rfl)
  revert this
  decide +kernel

/-- (3) an empty list of strings, encoded and decoded with the constraint
list(dynamic), comes back as an empty list of type list(dynamic): the decoder takes
the type of a null, unknown or empty collection from the constraint
(finding `type-preserved / null-unknown-or-empty-under-partly-dynamic-constraint`). -/
theorem roundtrip_covers_counterexample_type : ¬ RoundtripCovers := by
  intro h
  have := rtCheck_of (h E0 ⟨.list .string, .seq []⟩ (.list .dyn) (by decide) (by decide) (by decide) (noSets rfl))
    (chk := fun v' => v'.ty.equals (.list .string))
    (by rintro v' ⟨hty, _⟩; rw [hty]; decide)
  revert this
  decide

/-- FULL statement (false): an unmarked unknown value of a capsule-free type that conforms
to the constraint comes back as an unknown value of the same type. -/
def UnknownTypePreserved : Prop :=
  ∀ (E : Ext) (vt t : Ty) (r : Rfn), t.wf = true → wfValue E ⟨vt, .unk r⟩ = true → Ty.conformErrs t vt = 0 →
    ∃ it r', marshal E ⟨vt, .unk r⟩ t = .ok it ∧ unmarshal E it t = .ok ⟨vt, .unk r'⟩

/-- an unknown list of strings under the constraint list(dynamic) comes back as an unknown
list(dynamic) (same finding as (3)) -/
theorem unknown_type_preserved_counterexample : ¬ UnknownTypePreserved := by
  intro h
  have := rtCheck_of (P := fun v' => v'.ty = .list .string)
    (by
      obtain ⟨it, r', hm, hu⟩ := h E0 (.list .string) (.list .dyn) .unref (by decide) (by decide) (by decide)
      exact ⟨it, _, hm, hu, rfl⟩)
    (chk := fun v' => v'.ty.equals (.list .string)) (by intro v' hty; rw [hty]; decide)
  revert this
  decide

/-! ## Non-vacuity: the hypotheses are satisfiable by non-trivial values -/

/-- an object holding a list with a refined unknown number, a tuple under a placeholder,
a map with a null member and an unknown collection with length bounds -/
def sampleTy : Ty :=
  .object ["a", "b", "c", "d"]
    [.list .number, .tuple [.string, .bool], .map .string, .list .bool] [false, false, false, false]

def sample : Value :=
  ⟨sampleTy, .smap ["a", "b", "c", "d"]
    [.seq [.n (.fin false 5 0 64), .unk (.num .f (some ⟨.fin false 1 (-1) 53, true⟩) (some ⟨.fin false 1 40 512, false⟩)),
           .n (.fin true 3 (-2) 53), .null],
     .seq [.s "x", .unk (.nullable .f)],
     .smap ["k", "l"] [.s "v", .null],
     .unk (.coll .u 1 7)]⟩

/-- the constraint: placeholders at a tuple position and as a whole attribute -/
def sampleConstraint : Ty :=
  .object ["a", "b", "c", "d"]
    [.list .number, .dyn, .map .string, .list .bool] [false, false, false, false]

example : Fits E0 sampleConstraint sample = true ∧ Ty.conformErrs sampleConstraint sampleTy = 0 ∧
    wfValue E0 sample = true ∧ sample.whollyKnown = false := by decide
example : SetsRebuild E0 sample := noSets rfl
-- a value with a set: the set law holds of `E0` (whose `setOf` keeps the members as they come)
example : Fits E0 (.set .number) ⟨.set .number, .sset [1, 2] [.n (.fin false 1 0 64), .unk (.num .f none none)]⟩ = true ∧
    SetsRebuild E0 ⟨.set .number, .sset [1, 2] [.n (.fin false 1 0 64), .unk (.num .f none none)]⟩ :=
  ⟨by decide, fun _ _ ps' h => ⟨[], ps', rfl, h⟩⟩
example : (Num.fin false 5 0 512).toInt? = some 5 ∧ minI64 ≤ (5 : Int) ∧ (5 : Int) ≤ maxI64 := by decide
example : (⟨.list .string, .seq [.s "a", .marked ["m"] (.s "b")]⟩ : Value).containsMarked = true := by decide
example : Fits E0 .dyn ⟨.list .number, .seq [.n (.fin false 1 63 64), .n (.fin false 1 (-1) 512)]⟩ = true := by decide
example : numFits (.fin false 1 63 64) = true ∧ numFits (.fin false 3 (-1) 20) = true ∧
    numFits (.fin false 1 63 53) = false := by decide
example : (Num.fin false 1 63 64).toInt? = some 9223372036854775808 := by decide
example : (Num.toF64 (.fin false 3 (-1) 512)).2 = true ∧ (Num.fin false 3 (-1) 512).toInt? = none := by decide

end C16
end CtyModel
