/-
C16 — MessagePack encoding round-trips values, including unknown ones.

Property theorems only; the induction lives in `CtyModel/Lemmas/Msgpack*.lean`.
Every statement is about `Msgpack.marshal`, `Msgpack.Unmarshal` (the exported function:
`Msgpack.unmarshal` after the optional-attribute annotations have been taken off the
requested type), `Msgpack.encNum`, `Msgpack.unmarshalNumber` — the item-level transliterations of cty/msgpack that
the correspondence harness diffs against /repo on every run (real bytes are
split into items by the harness' own MessagePack reader).  The vocabulary of the
conclusions (`Approx`, `RawEq`, `Weaker`, `numBack`) and of the hypotheses (`Fits`,
`wfValue`, `SetsRebuild`) is in `CtyModel/MsgpackSpec.lean`.

The refinement builder's `Value.Equals` on numbers is a parameter of `Refine.lean`
(`EqOracle`); `Unmarshal` here is instantiated with the exact oracle (`partialOracle`:
exact comparison, `.unmodelled` where the code's answer could depend on the decimal
text) — the driver also runs it with `textOracle`, what the code does (`mp.unmarshal` /
`mp.unmarshalx`).

External functions are the fields of `Msgpack.Ext` (Unicode normalisation,
`ctystrings.SafeKnownPrefix`, `cty.SetVal`); nothing is assumed of them except
what a hypothesis states: `Fits` checks, for the given `E`, that strings and keys
are fixed points of `E.norm` and that the safe prefix of a byte-cut prefix is a
normalised byte-prefix of it (decidable per value, evaluated by the driver on
the harness' inputs); `SetsRebuild` is the law assumed of `cty.SetVal` at the set
nodes of the value (vacuous without sets) — and a THEOREM for the set constructor the
driver runs under the decidable condition `setsApart` (`roundtrip_covers_sets_partial`).

Added by slice d16 (audit of C16): the `Text('f', -1)` route under hypotheses on digit lists
(`text_route_exact_partial`, `number_roundtrip_digits`, `bound_text_exact`; `TextRouteExact` false);
what the codec KEEPS of a refinement (`RfnKept` inside `Approx` at every unknown leaf,
`unknown_refinement_kept_partial`); `Marshal` is total on well-shaped conforming values and a mark
at any depth is an ERROR (`marshal_total_partial`, `marked_nested_rejected_err`); the
`convert.Convert` path of `Marshal` (`marshalC…`, with `marked_rejected_on_conversion_path` — once false: a
recorded finding); /repo bb6ac26 (`known_length_list_refused`).

Added by slice d16b (second deepening): the regenerated DECODER of unknown values (`unmarshalUnknownValue`, translated from
cty/msgpack/unknown.go on every check) is tied to the model by a THEOREM for every extension item and every type — an
induction over the refinement-entry loop, no side condition, errors up to their text (`unmarshal_unknown_generated`;
`unmarshal_unknown_generated_plain` for this file's `unmarshal`, on streams without an extension item in the place of a
numeric bound, which is every stream the encoder writes) — instead of a kernel-evaluated battery; "refinements are never
narrowed or invented" holds of the regenerated encoder and decoder COMPOSED (`unknown_roundtrip_generated`); the known-length
refusal and the absence of panics are stated of the regenerated decoder too.

The full-strength statement `RoundtripCovers` is FALSE of the code as it exists;
it is kept as a `def`, with three counterexamples (each the replay of a recorded
finding) and the strongest partial theorem `roundtrip_covers_partial` (side condition `Fits`).

History: until /repo 986ad55 a whole number beyond the int64 range travelled as its SHORTEST
decimal text and came back as another number (float64(2^63) as 9223372036854776000); the
theorems `ints_exact_counterexample`, `whole_numbers_exact_counterexample` (witness 2^63 at 53
bits) and `roundtrip_covers_counterexample_whole` recorded that.  The code now writes all the
digits; the model follows (`Msgpack.textF0`), `IntsExact` is a theorem (`ints_exact`), whole
numbers of any magnitude come back exactly as long as their mantissa fits the 512 bits the
decoder parses at (`whole_numbers_exact_partial` — every number cty itself makes), and the old
witness is a positive regression theorem (`whole_beyond_int64_regression`).
-/
import CtyModel.Lemmas.MsgpackKnown
import CtyModel.Lemmas.MsgpackMarks
import CtyModel.Lemmas.d16Text
import CtyModel.Lemmas.d16SetLemmas
import CtyModel.Lemmas.d16MarshalLemmas
import CtyModel.Lemmas.d16KnownLen
import CtyModel.Props.C08
import CtyModel.Generated.Limits
import CtyModel.Lemmas.MpUnknownFnsTie
import CtyModel.Lemmas.d16bBridge
namespace CtyModel
namespace C16
open Msgpack Refine

/-! ## Limits -/

/-- The two limits the model uses (`maxPrefixLength := 256` in marshalUnknownValue, the
`extLen > 1024` test in unmarshalUnknownValue) are the ones regenerated from the Go
source on every check: a change of either in /repo breaks this theorem. -/
theorem limits_are_source :
    maxPrefixLength = Generated.msgpackMaxPrefixLength ∧ maxExtLen = Generated.msgpackMaxExtLen := by decide

/-! ## Numbers -/

/-- Every whole number in the int64 ∪ uint64 range — whatever the precision of the big.Float
that holds it — decodes to the same number. -/
def IntsExact : Prop :=
  ∀ (x : Num) (i : Int), x.toInt? = some i → minI64 ≤ i → i ≤ maxU64 →
    ∃ y, unmarshalNumber (encNum x) = .ok y ∧ y.toInt? = some i ∧ Num.cmp y x = 0

/-- Whole numbers in the int64 range are written as an integer item (whatever the
precision of the big.Float that holds them) and decode to the same number. -/
theorem ints_int64_integer_item (x : Num) (i : Int) (hx : x.toInt? = some i) (h1 : minI64 ≤ i) (h2 : i ≤ maxI64) :
    isIntItem (encNum x) = true ∧
      ∃ y, unmarshalNumber (encNum x) = .ok y ∧ y.toInt? = some i ∧ Num.cmp y x = 0 := by
  have hr : route x = .int i := route_of_toInt? hx ⟨h1, h2⟩
  obtain ⟨y, hy1, hy2, _⟩ := unmarshalNumber_encInt i
  refine ⟨?_, y, by simpa [encNum, hr] using hy1, hy2, cmp_of_toInt? hx hy2⟩
  simp only [encNum, hr, encInt]
  split <;> rfl

/-- `IntsExact` holds (since /repo 986ad55: before, a uint64 above the int64 range held at
fewer bits than it needs came back as another number). -/
theorem ints_exact : IntsExact := by
  intro x i hx h1 h2
  by_cases hr : i ≤ maxI64
  · exact (ints_int64_integer_item x i hx h1 hr).2
  · cases x with
    | inf n => simp [Num.toInt?, Num.isInt] at hx
    | fin n m e p =>
      have hout : ¬ (minI64 ≤ i ∧ i ≤ maxI64) := fun h => hr h.2
      have hfit : wholeFits (.fin n m e p) = true := by
        have hx' := hx
        rw [toInt?_fin] at hx'
        simp only [maxI64] at hr
        simp only [maxU64] at h2
        by_cases he : e ≥ 0
        · simp only [he, if_true, Option.some.injEq] at hx'
          have hle : m ≤ m * 2 ^ e.toNat := Nat.le_mul_of_pos_right m (Nat.two_pow_pos _)
          have hle' : (m : Int) ≤ (m : Int) * 2 ^ e.toNat := by
            have := Int.ofNat_le.mpr hle
            simpa [Int.natCast_mul, Int.natCast_pow] using this
          have hm : (m : Int) ≤ i := by
            cases n
            · simp only [Bool.false_eq_true, if_false] at hx'
              omega
            · simp only [if_true] at hx'
              omega
          have hm' : m < 2 ^ 64 := by omega
          have hb := (Num.bitlen_le_iff m 64).mpr hm'
          simp only [wholeFits, Num.minPrec]
          exact decide_eq_true (Nat.le_trans hb (by decide))
        · simp [he] at hx'
      obtain ⟨y, hy, hyi, hc, _⟩ := whole_out_back hx hout hfit
      exact ⟨y, hy, hyi, hc⟩

/-- The decoder reads every integer item of either family exactly — the whole
uint64 range included. -/
theorem ints_decode_exact (i : Int) (u : Nat) :
    (∃ y, unmarshalNumber (.int i) = .ok y ∧ y.toInt? = some i) ∧
    (∃ y, unmarshalNumber (.uint u) = .ok y ∧ y.toInt? = some (u : Int)) :=
  ⟨(unmarshalNumber_int i).imp fun _ h => ⟨h.1, h.2.1⟩, (unmarshalNumber_uint u).imp fun _ h => ⟨h.1, h.2.1⟩⟩

/-- A wire-format fact, not a defect: a whole number above the int64 range is NOT written as an
integer item (`bf.Int64()` is the only integer test in marshal.go) — 2^63 travels as the
decimal text of all its digits (and comes back exactly: `ints_exact`). -/
theorem uint64_above_int64_travels_as_text :
    encNum (.fin false 1 63 64) = .str "9223372036854775808" ∧ isIntItem (encNum (.fin false 1 63 64)) = false := by
  have hr : route (.fin false 1 63 64) = .str "9223372036854775808" := by decide
  simp [encNum, hr, isIntItem]

/-- A number that is exactly a float64 and not whole is written as a float64 item and
decodes to numerically the same number. -/
theorem float64_exact (x : Num) (hf : x.isInf = false) (hi : x.toInt? = none) (he : (Num.toF64 x).2 = true) :
    encNum x = .f64 (Num.toF64 x).1 ∧ unmarshalNumber (encNum x) = .ok (Num.toF64 x).1 ∧
      Num.cmp (Num.toF64 x).1 x = 0 := by
  have hr : route x = .f64 (Num.toF64 x).1 := by
    cases x with
    | inf _ => simp [Num.isInf] at hf
    | fin n m e p => simp [route, hi, he]
  exact ⟨by simp [encNum, hr], by simp [encNum, hr, unmarshalNumber], toF64_exact_cmp x he⟩

/-- Every other finite number goes through a decimal text: a whole number outside int64
through ALL of its digits (`Text('f', 0)`), a number that is not whole and not exactly a
float64 through the shortest text that identifies it at its own precision (`Text('f', -1)`). -/
theorem float64_exact_otherwise (x : Num) (hf : x.isInf = false) :
    ((∃ i, x.toInt? = some i ∧ ¬ (minI64 ≤ i ∧ i ≤ maxI64)) → encNum x = .str (textF0 x)) ∧
    (x.toInt? = none ∧ (Num.toF64 x).2 = false → encNum x = .str (Num.textF x)) := by
  cases x with
  | inf _ => simp [Num.isInf] at hf
  | fin n m e p =>
    refine ⟨?_, ?_⟩
    · rintro ⟨i, hi, hr⟩
      simp [encNum, route_of_toInt?_out hi hr]
    · rintro ⟨hi, he⟩
      simp [encNum, route, hi, he]

/-- The infinities are written as float64 ±Inf and come back as infinities (infinity.go). -/
theorem infinity_exact (n : Bool) :
    encNum (.inf n) = .f64 (.inf n) ∧ unmarshalNumber (encNum (.inf n)) = .ok (.inf n) := by
  simp [encNum, route, unmarshalNumber]

/-- Every known number that satisfies `numFits` decodes to an acceptable number: numerically
identical if whole or an exact float64, Equal otherwise.  `numFits` is automatically true on the
integer and float paths and for every whole number whose mantissa fits 512 bits; for a number on
the `Text('f', -1)` route it IS the conclusion ("the shortest decimal text parses back to an Equal
number": decided per number, circular as a hypothesis).  The genuine theorems for that route are
`text_route_exact_partial` and `number_roundtrip_digits` below (hypothesis on digit lists only). -/
theorem number_roundtrip (x : Num) (h : numFits x = true) :
    ∃ y, unmarshalNumber (encNum x) = .ok y ∧ numBack y x := encNum_back x h

/-! ### The `Text('f', -1)` route (clause "every other number comes back equal")

A number that is not whole and not exactly a float64 is a dyadic rational m·2^e, e < 0, whose
exact decimal expansion is finite (exactly -e fractional digits).  When the shortest text that
math/big's `roundShortest` picks IS that expansion (`digitsExactOwn`: a comparison of digit lists,
nothing is parsed), the decoder — `big.ParseFloat` at 512 bits, an exact division by 5^k·2^k for
k ≤ 248 fractional digits — gives back the very same mantissa and exponent.  Which numbers are
NOT covered is named by `Msgpack.textRouteClass` and counted by the harness on every run. -/

/-- Numbers on the text route whose shortest text is exact come back as the SAME mantissa and
exponent held at 512 bits — numerically identical, not merely Equal — whatever their precision. -/
theorem text_route_exact_partial (n : Bool) (m : Nat) (e : Int) (p : Nat)
    (h : digitsExactOwn (.fin n m e p) = true) (hf : (Num.toF64 (.fin n m e p)).2 = false) :
    encNum (.fin n m e p) = .str (Num.textF (.fin n m e p)) ∧
    unmarshalNumber (encNum (.fin n m e p)) = .ok (.fin n m e 512) ∧
    Num.cmp (.fin n m e 512) (.fin n m e p) = 0 := by
  obtain ⟨h1, h2⟩ := encNum_text_exact n m e p h hf
  exact ⟨h1, h2, cmp_fin_self n m e 512 p⟩

/-- `number_roundtrip` without a hypothesis that parses anything: if the shortest text of `x` is
its exact expansion both at its own precision and at 512 bits (`digitsExact`), `x` decodes to an
acceptable number (Equal in cty's sense: both print the same digits). -/
theorem number_roundtrip_digits (x : Num) (h : digitsExact x = true) :
    ∃ y, unmarshalNumber (encNum x) = .ok y ∧ numBack y x := encNum_back x (numFits_of_digits x h)

/-- … and the side condition `boundFits` of the round-trip theorems (a bound of an unknown number
must come back NUMERICALLY identical) follows from the digit-level condition too. -/
theorem bound_text_exact (b : Bound) (h : digitsExactOwn b.v = true) : boundFits (some b) = true :=
  boundFits_of_digits b h

/-- FULL statement for the text route (false): every finite number whose mantissa fits 512 bits
comes back numerically identical. -/
def TextRouteExact : Prop :=
  ∀ x : Num, x.isInf = false → x.minPrec ≤ 512 → ∃ y, unmarshalNumber (encNum x) = .ok y ∧ Num.cmp y x = 0

/-- (2^60+1)·2^-70 held at 61 bits (only reachable through `cty.NumberVal` with a caller-made
big.Float): not whole, not a float64; its shortest text at 61 bits, "0.000976562500000000001", is
not its exact expansion (70 digits), and parses at 512 bits to another number.  As a known number
it still comes back Equal in cty's sense (`numFits` holds: both print the same text); as a BOUND
of an unknown number it moves (findings `roundtrip-refinement / …-bound-narrowed:
decimal-nonstandard-precision`).  The same number held at 512 bits satisfies `digitsExact`. -/
theorem text_route_exact_counterexample : ¬ TextRouteExact := by
  intro h
  obtain ⟨y, hy, hc⟩ := h (.fin false (2 ^ 60 + 1) (-70) 61) rfl (by decide)
  have : (match unmarshalNumber (encNum (.fin false (2 ^ 60 + 1) (-70) 61)) with
          | .ok y => Num.cmp y (.fin false (2 ^ 60 + 1) (-70) 61) != 0
          | _ => false) = true := by decide +kernel
  rw [hy] at this
  simp [hc] at this

/-- FULL statement (false, but only beyond 512 bits of mantissa): whole numbers of any size
come back numerically identical. -/
def WholeNumbersExact : Prop :=
  ∀ x : Num, x.isInt = true → ∃ y, unmarshalNumber (encNum x) = .ok y ∧ Num.cmp y x = 0

/-- Whole numbers of ANY magnitude come back numerically identical, as long as the mantissa
fits the 512 bits `cty.ParseNumberVal` parses at (`wholeFits`): every number that
`ParseNumberVal`, `NumberIntVal`, `NumberUIntVal`, `NumberFloatVal` or cty's arithmetic
produces, at whatever precision it is held (2^63 at 53 bits, 10^200 at 20 bits, …). -/
theorem whole_numbers_exact_partial (x : Num) (hx : x.isInt = true) (hfit : wholeFits x = true) :
    ∃ y, unmarshalNumber (encNum x) = .ok y ∧ Num.cmp y x = 0 := by
  have hn : numFits x = true := by
    unfold numFits
    split
    · simp [hx, hfit]
    · rfl
  obtain ⟨y, hy, hb⟩ := encNum_back x hn
  refine ⟨y, hy, ?_⟩
  have hw : wholeOrF64 x = true := by
    cases x with
    | inf _ => rfl
    | fin n m e p => simp [wholeOrF64, hx]
  simpa [numBack, hw] using hb

/-- … and not beyond: 2^512 + 1 held at 513 bits (only reachable through `cty.NumberVal` with a
caller-made big.Float) is written with all its 155 digits, parsed at 512 bits, and comes back
as 2^512 (finding `roundtrip-number / whole-wider-than-512-bits`). -/
theorem whole_numbers_exact_counterexample : ¬ WholeNumbersExact := by
  intro h
  obtain ⟨y, hy, hc⟩ := h (.fin false (2 ^ 512 + 1) 0 513) (by decide)
  have h1 : unmarshalNumber (encNum (.fin false (2 ^ 512 + 1) 0 513)) = .ok (.fin false 1 512 512) := by
    have hr : route (.fin false (2 ^ 512 + 1) 0 513) = .str (textF0 (.fin false (2 ^ 512 + 1) 0 513)) := by
      decide +kernel
    simp only [encNum, hr]
    decide +kernel
  rw [h1] at hy
  cases hy
  revert hc
  decide +kernel

/-- Regression (the witness of the repaired finding `roundtrip-number /
whole-beyond-int64-shortest-text-inexact`): float64(2^63), a whole number beyond int64 held
at 53 bits, is written as "9223372036854775808" — no longer "9223372036854776000" — and comes
back as 2^63. -/
theorem whole_beyond_int64_regression :
    encNum (.fin false 1 63 53) = .str "9223372036854775808" ∧
    unmarshalNumber (encNum (.fin false 1 63 53)) = .ok (.fin false 1 63 512) ∧
    Num.cmp (.fin false 1 63 512) (.fin false 1 63 53) = 0 := by
  have hr : route (.fin false 1 63 53) = .str "9223372036854775808" := by decide
  refine ⟨by simp [encNum, hr], ?_, by decide⟩
  simp only [encNum, hr]
  decide

/-! ## The round trip -/

/-- FULL statement (false): every well-formed, unmarked, capsule-free value that
conforms to the constraint survives `Marshal` then `Unmarshal` with the same
constraint as a value of the same type that is an acceptable decoding of it. -/
def RoundtripCovers : Prop :=
  ∀ (E : Ext) (v : Value) (t : Ty), t.wf = true → wfValue E v = true → Ty.conformErrs t v.ty = 0 →
    SetsRebuild E v →
    ∃ it v', marshal E v t = .ok it ∧ Unmarshal E it t = .ok v' ∧ ApproxV v' v

/-- The round trip, with unknown values and refinements at any depth and placeholders
anywhere in the constraint.  Under `Fits` (and the set law): `Marshal` succeeds,
`Unmarshal` of its output with the same constraint succeeds, the result has the
original's type, is unknown exactly where the original is, with a refinement there
that admits every concrete value the original's admitted (`Weaker`) AND is the original one as
the wire format keeps it (`RfnKept`, inside `Approx`: nullness, numeric bounds and length bounds
unchanged, a prefix unchanged unless longer than 256 bytes, then a byte-prefix of it — so a
decoder that dropped refinements would not satisfy this), and is equal in every known part. -/
theorem roundtrip_covers_partial (E : Ext) (v : Value) (t : Ty) (hfit : Fits E t v = true) (hset : SetsRebuild E v)
    (hconf : Ty.conformErrs t v.ty = 0) :
    ∃ it v', marshal E v t = .ok it ∧ Unmarshal E it t = .ok v' ∧ ApproxV v' v :=
  roundtrip E v t hfit hset hconf

/-- The round trip for values WITH SETS, without an assumed law: for the set constructor the
correspondence driver runs (`Msgpack.setOfDedup`: keeps the first of members that are Equal, in the
order they come; the harness compares sets up to order, bucket order is property C03's) the law
`SetsRebuild` is a THEOREM for every value whose set members are pairwise `apart` (`setsApart`, a
decidable syntactic condition evaluated by the driver on every generated case: one of the two
members is unknown, or they differ in a bool, a string, a whole number, a length or a key, or in a
constructor, at some position).  Not covered: sets whose members differ only in numbers that are not
whole, and sets of sets of equal sizes. -/
theorem roundtrip_covers_sets_partial (E : Ext) (hE : E.setOf = setOfDedup) (v : Value) (t : Ty)
    (hfit : Fits E t v = true) (hsets : setsApart v.ty v.v = true) (hconf : Ty.conformErrs t v.ty = 0) :
    ∃ it v', marshal E v t = .ok it ∧ Unmarshal E it t = .ok v' ∧ ApproxV v' v :=
  roundtrip E v t hfit (setsRebuild_of_apart E hE v hsets) hconf

/-! ### Marks on the conversion path -/

/-- **a value that contains a mark ANYWHERE is never accepted by `Marshal`**, also when its type does
not conform to the constraint (`marshalC`: the mark test comes before `convert.Convert`) — for every
library environment, conversion environment, fuel, value and constraint.  This statement was FALSE of
the code as found (the conversion dropped the marked part and `Marshal` accepted the rest: witness
below); the defect was repaired in /repo (Marshal of cty/msgpack and cty/json test `ContainsMarked`
first) and the model follows. -/
theorem marked_rejected_on_conversion_path (E : Ext) (C : Convert.Env) (fuel : Nat) (v : Value) (t : Ty)
    (hm : v.containsMarked = true) : ∃ e, marshalC E C fuel v t = .err e :=
  ⟨_, marshalC_marked_err E C fuel v t hm⟩

/-- `{zz = {b = false (marked), zz = true}}`, an object whose only attribute holds a map with a marked member -/
def markDroppedWitness : Value :=
  ⟨.object ["zz"] [.map .bool] [false], .smap ["zz"] [.smap ["b", "zz"] [.marked ["m1"] (.b false), .b true]]⟩

/-- the former counterexample — marshalled against the EMPTY object type, where `convert.Convert`
drops the attribute that the target type does not have, and the mark with it — is refused -/
theorem marked_rejected_conversion_former_counterexample :
    (match marshalC E0 Convert.driverEnv 64 markDroppedWitness (.object [] [] []) with
     | .err _ => true | _ => false) = true ∧ markDroppedWitness.containsMarked = true := by decide +kernel

/-- in particular a mark that survives the conversion makes `Marshal` refuse (the older, weaker statement) -/
theorem marked_rejected_conversion_partial (E : Ext) (C : Convert.Env) (fuel : Nat) (v : Value) (t : Ty)
    (hm : v.containsMarked = true) (it : Item) : marshalC E C fuel v t ≠ .ok it := by
  rw [marshalC_marked_err E C fuel v t hm]; intro h; cases h

/-- For a wholly known value the result is wholly equal: `RawEq` holds part for part
(numbers: numerically identical when whole or an exact float64, Equal otherwise). -/
theorem roundtrip_known_partial (E : Ext) (v : Value) (t : Ty) (hfit : Fits E t v = true) (hset : SetsRebuild E v)
    (hconf : Ty.conformErrs t v.ty = 0) (hk : v.whollyKnown = true) :
    ∃ it v', marshal E v t = .ok it ∧ Unmarshal E it t = .ok v' ∧ v'.ty = v.ty ∧ RawEq v.ty v'.v v.v := by
  obtain ⟨it, v', hm, hu, hty, ha⟩ := roundtrip E v t hfit hset hconf
  exact ⟨it, v', hm, hu, hty, approx_rawEq v'.v v.ty v.v hk ha⟩

/-- An unknown value comes back unknown, of the same type — the refinement possibly
approximated, never narrowed or invented. -/
theorem unknown_type_preserved_partial (E : Ext) (vt t : Ty) (r : Rfn) (hfit : Fits E t ⟨vt, .unk r⟩ = true)
    (hconf : Ty.conformErrs t vt = 0) :
    ∃ it r', marshal E ⟨vt, .unk r⟩ t = .ok it ∧ Unmarshal E it t = .ok ⟨vt, .unk r'⟩ ∧ Weaker vt r' r ∧
      (vt.isDyn = true ∨ RfnKept r' r) := by
  obtain ⟨it, v', hm, hu, hty, ha⟩ := roundtrip E ⟨vt, .unk r⟩ t hfit
    (by intro n hn; cases vt <;> simp [setNodes] at hn) hconf
  obtain ⟨ty', p'⟩ := v'
  simp only at hty ha
  subst hty
  cases p' <;> simp only [Approx] at ha <;> try exact ha.elim
  exact ⟨it, _, hm, hu, ha⟩

/-- What `marshalUnknownValue` writes for an unknown value of a type other than the placeholder
decodes (`unmarshalUnknownValue`) to an unknown value of the same type whose refinement is the
ORIGINAL one as the wire format keeps it (`RfnKeptE`): nullness, numeric bounds (numerically
identical, same inclusiveness) and length bounds unchanged; a string prefix unchanged byte for
byte, unless it is longer than 256 bytes: then it is `ctystrings.SafeKnownPrefix` of its first
255 bytes.  (Strictly stronger than `Weaker`, which a decoder dropping every refinement would
satisfy; `Approx` carries the `E`-free form `RfnKept` at every unknown leaf, so
`roundtrip_covers_partial` states it at any depth.) -/
theorem unknown_refinement_kept_partial (E : Ext) (vt : Ty) (r : Rfn) (hd : vt.isDyn = false)
    (h : rfnOK E vt r = true) :
    ∃ it r', marshalUnknown E vt r = .ok it ∧ unmarshal E it vt = .ok ⟨vt, .unk r'⟩ ∧
      Weaker vt r' r ∧ RfnKeptE E r' r := by
  obtain ⟨it, hm, r', hu, hw, hk⟩ := unknown_rt E vt r hd h
  exact ⟨it, r', hm, hu, hw, hk⟩

/-- `RfnKept` is not satisfied by dropping a refinement: an unknown number with a lower bound does
not come back unrefined, nor with another bound. -/
theorem refinement_kept_not_dropped :
    ¬ RfnKept .unref (.num .u (some ⟨.fin false 1 0 64, true⟩) none) ∧
    ¬ RfnKept (.num .u (some ⟨.fin false 1 1 64, true⟩) none) (.num .u (some ⟨.fin false 1 0 64, true⟩) none) := by
  constructor
  · simp [RfnKept, trivialRfn, Rfn.nullness, keptBody]
  · simp only [RfnKept, trivialRfn, Rfn.nullness, keptBody]
    simp only [Option.isNone, Bool.and_false, Bool.false_eq_true, if_false]
    rintro ⟨lo', hi', heq, hb, _⟩
    cases heq
    exact absurd hb.1 (by decide)

/-- /repo bb6ac26: a refinement map that describes a LIST OF KNOWN LENGTH — "not null" and two equal
positive length bounds, which the refinement builder would turn into a known list of that many
unknown elements, allocated on the word of the input — is never decoded to a value, whatever else
the map holds (`knownLenList` follows the three variables the Go loop keeps).  `Marshal` never writes
such a map: a value refined that way is already known. -/
theorem known_length_list_refused (E : Ext) (e : Ty) (len n : Nat) (stream : List Item) (h1 : 1 < len)
    (h2 : len ≤ maxExtLen) (hk : knownLenList (.list e) n stream = true) (v : Value) :
    unmarshal E (.ext unknownWithRefinementsExt len (.map n) stream) (.list e) ≠ .ok v :=
  knownLen_refused E e len n stream h1 h2 hk v

/-- Regression (the witness of the repaired finding of C17, 2^22 announced elements in 18 bytes, and
its neighbours): refused with an error; equal bounds WITHOUT "not null", or different bounds, still
decode to an unknown list. -/
theorem known_length_list_regression :
    resIsErr (Unmarshal E0 (.ext 12 7 (.map 3) [.int 1, .bool false, .int 5, .int 2, .int 6, .int 2]) (.list .string)) = true ∧
    resIsErr (Unmarshal E0 (.ext 12 13 (.map 3) [.int 1, .bool false, .int 5, .uint 4194304, .int 6, .uint 4194304])
      (.list .string)) = true ∧
    resIsUnknown (Unmarshal E0 (.ext 12 5 (.map 2) [.int 5, .int 2, .int 6, .int 2]) (.list .string)) = true ∧
    resIsUnknown (Unmarshal E0 (.ext 12 7 (.map 3) [.int 1, .bool false, .int 5, .int 2, .int 6, .int 3]) (.list .string)) = true ∧
    resIsUnknown (Unmarshal E0 (.ext 12 7 (.map 3) [.int 1, .bool false, .int 5, .int 2, .int 6, .int 2]) (.set .string)) = true := by
  decide

/-- Marked values are rejected with an error (not a panic), whatever the constraint. -/
theorem marked_rejected (E : Ext) (t vt : Ty) (ms : List String) (p : Payload) :
    marshal E ⟨vt, .marked ms p⟩ t = .err "value has marks" := by
  simp [marshal, Payload.isMarked]

/-- A mark at any depth, for ANY value and constraint (also ill-shaped or non-conforming ones, where
the model `marshal` answers `.unmodelled`): `Marshal` does not succeed and does not panic.  That what
is left IS an error is `marked_nested_rejected_err` below. -/
theorem marked_nested_rejected (E : Ext) (v : Value) (t : Ty) (h : v.containsMarked = true) :
    (∀ it, marshal E v t ≠ .ok it) ∧ (∀ w, marshal E v t ≠ .panic w) :=
  ⟨fun it hm => by simp [marshal_ok_unmarked E v t it hm] at h, marshal_no_panic E v t⟩

/-- The model `marshal` never answers `.panic`, whatever the value and the constraint.  By itself
this is weak: `marshal` answers `.unmodelled` on a payload that does not fit its type and on a
value whose type does not conform (there the real code calls `convert.Convert` first).  The two
theorems that close the gap are `marshal_total_partial` (conforming, well-shaped values: the answer
is a value or an error) and `marshalC_never_panics_partial` (the conversion path, `marshalC`). -/
theorem marshal_never_panics (E : Ext) (v : Value) (t : Ty) (w : String) : marshal E v t ≠ .panic w :=
  marshal_no_panic E v t w

/-- Clause "… rejected with an error", at any depth: for a value whose payload has the shape its
type dictates (`shapeP`: marks allowed ANYWHERE, capsules allowed, nothing is said about what is
inside a marked node) and whose type conforms to the constraint, with `SafeKnownPrefix` answering on
every input, a mark at any depth makes `Marshal` answer an ERROR — not `.unmodelled`, not a panic. -/
theorem marked_nested_rejected_err (E : Ext) (hs : SafeTotal E) (v : Value) (t : Ty) (ht : t.wf = true)
    (hv : v.ty.wf = true) (hconf : Ty.conformErrs t v.ty = 0) (hp : shapeP v.ty v.v = true)
    (hm : v.containsMarked = true) : ∃ e, marshal E v t = .err e :=
  marked_nested_err E hs v t hconf (confShape_of_conform t v.ty ht hv hconf) hp hm

/-- `Marshal` on a well-shaped value of a conforming type answers a value or an error: never a
panic, and never outside the modelled fragment (audit of C16, missing theorem (c)). -/
theorem marshal_total_partial (E : Ext) (hs : SafeTotal E) (v : Value) (t : Ty) (ht : t.wf = true)
    (hv : v.ty.wf = true) (hconf : Ty.conformErrs t v.ty = 0) (hp : shapeP v.ty v.v = true) :
    (∃ it, marshal E v t = .ok it) ∨ (∃ e, marshal E v t = .err e) :=
  marshal_total E hs v t hconf (confShape_of_conform t v.ty ht hv hconf) hp

/-- `Msgpack.marshalC` is `Marshal` WITH its non-conforming path (`convert.Convert` first — the model
of property C08, in any environment `C`); on a conforming value it is `marshal`. -/
theorem marshalC_conforming_eq (E : Ext) (C : Convert.Env) (fuel : Nat) (v : Value) (t : Ty)
    (h : Ty.conformErrs t v.ty = 0) (hm : v.containsMarked = false) : marshalC E C fuel v t = marshal E v t :=
  marshalC_conforming E C fuel v t h hm

/-- `Marshal` adds no panic of its own on the conversion path: `marshalC` panics only where
`convert.Convert` does … -/
theorem marshalC_panics_only_in_convert (E : Ext) (C : Convert.Env) (fuel : Nat) (v : Value) (t : Ty) (w : String)
    (h : marshalC E C fuel v t = .panic w) : Convert.convert C fuel v t = .panic w :=
  marshalC_panic_only_from_convert E C fuel v t w h

/-- … and in the environment the drivers run (`Convert.driverEnv`, diffed against /repo by `cv.convert`
and `d16.marshalc`), for a well-typed wholly-known value and a placeholder-free constraint
(`Convert.RegularPair`, C08's side condition), conforming or not: no panic at all. -/
theorem marshalC_never_panics_partial (E : Ext) (fuel : Nat) (v : Value) (t : Ty)
    (hp : Convert.RegularPair v t) (hk : Payload.whollyKnown v.v = true) (w : String) :
    marshalC E Convert.driverEnv fuel v t ≠ .panic w := by
  intro h
  have := C08.no_panic_driver fuel v t hp hk
  rw [marshalC_panic_only_from_convert E _ fuel v t w h] at this
  simp [Res.isPanic] at this

/-- … and when the conversion answers a well-shaped value, `Marshal` answers a value or an error. -/
theorem marshalC_total_partial (E : Ext) (hs : SafeTotal E) (C : Convert.Env) (fuel : Nat) (v v' : Value) (t : Ty)
    (hn : Ty.conformErrs t v.ty ≠ 0) (hcv : Convert.convert C fuel v t = .ok v')
    (hc : confShape t v'.ty = true) (hp : shapeP v'.ty v'.v = true) :
    (∃ it, marshalC E C fuel v t = .ok it) ∨ (∃ e, marshalC E C fuel v t = .err e) :=
  marshalC_total_of_convert E hs C fuel v v' t hn hcv hc hp

/-! ## Counterexamples to the full statement (replays of recorded findings) -/

/-- (1) 2^512 + 1 held at 513 bits, a whole number whose mantissa does not fit the 512 bits
the decoder parses at, comes back as 2^512 (finding `roundtrip-number /
whole-wider-than-512-bits`; the earlier witness of this clause, float64(2^63), round-trips
since /repo 986ad55: `roundtrip_whole_beyond_int64_regression`). -/
theorem roundtrip_covers_counterexample_wide : ¬ RoundtripCovers := by
  intro h
  have := rtCheck_of (h E0 ⟨.number, .n (.fin false (2 ^ 512 + 1) 0 513)⟩ .number (by decide) (by decide) (by decide) (noSets rfl))
    (chk := fun v' => match v'.v with | .n y => Num.cmp y (.fin false (2 ^ 512 + 1) 0 513) == 0 | _ => false)
    (by
      rintro ⟨ty', p'⟩ ⟨_, ha⟩
      cases p' <;> simp only [Approx] at ha <;> try exact ha.elim
      simpa [numBack, wholeOrF64, Num.isInt] using ha)
  revert this
  decide +kernel

/-- Regression: the witnesses of the four repaired findings with root cause
`whole-beyond-int64-shortest-text-inexact` satisfy `Fits`, so they round-trip by
`roundtrip_covers_partial`: float64(2^63) as a known number and as an inclusive lower bound,
float64(2^64 - 2^11) as an upper bound, and float64(2^63) below another whole bound (a pair
that `Unmarshal` refused when both bounds moved). -/
theorem roundtrip_whole_beyond_int64_regression :
    Fits E0 .number ⟨.number, .n (.fin false 1 63 53)⟩ = true ∧
    Fits E0 .number ⟨.number, .unk (.num .u (some ⟨.fin false 1 63 53, true⟩) none)⟩ = true ∧
    Fits E0 .number ⟨.number, .unk (.num .f none (some ⟨.fin false 9007199254740991 11 53, true⟩))⟩ = true ∧
    Fits E0 .number ⟨.number, .unk (.num .u (some ⟨.fin false 1 63 53, true⟩) (some ⟨.fin false 1 64 53, true⟩))⟩ = true := by
  decide +kernel

/-- (2) `Unmarshal` refuses what `Marshal` wrote for an unknown number whose bound has a
long decimal text (2^3500: 1054 digits): the refinement body exceeds the decoder's
1024-byte limit (finding `decode-own-output / oversize-refinement-from-long-bound-text`). -/
theorem roundtrip_covers_counterexample_oversize : ¬ RoundtripCovers := by
  intro h
  have := rtCheck_of (h E0 ⟨.number, .unk (.num .u (some ⟨.fin false 1 3500 1, true⟩) none)⟩ .number
    (by decide) (by decide) (by decide) (noSets rfl)) (chk := fun _ => true) (fun _ _ => rfl)
  revert this
  decide +kernel

/-- (3) an empty list of strings, encoded and decoded with the constraint
list(dynamic), comes back as an empty list of type list(dynamic): the decoder takes
the type of a null, unknown or empty collection from the constraint
(finding `type-preserved / null-unknown-or-empty-under-partly-dynamic-constraint`). -/
theorem roundtrip_covers_counterexample_type : ¬ RoundtripCovers := by
  intro h
  have := rtCheck_of (h E0 ⟨.list .string, .seq []⟩ (.list .dyn) (by decide) (by decide) (by decide) (noSets rfl))
    (chk := fun v' => v'.ty.equals (.list .string))
    (by rintro v' ⟨hty, _⟩; rw [hty]; decide)
  revert this
  decide

/-- FULL statement (false): an unmarked unknown value of a capsule-free type that conforms
to the constraint comes back as an unknown value of the same type. -/
def UnknownTypePreserved : Prop :=
  ∀ (E : Ext) (vt t : Ty) (r : Rfn), t.wf = true → wfValue E ⟨vt, .unk r⟩ = true → Ty.conformErrs t vt = 0 →
    ∃ it r', marshal E ⟨vt, .unk r⟩ t = .ok it ∧ Unmarshal E it t = .ok ⟨vt, .unk r'⟩

/-- an unknown list of strings under the constraint list(dynamic) comes back as an unknown
list(dynamic) (same finding as (3)) -/
theorem unknown_type_preserved_counterexample : ¬ UnknownTypePreserved := by
  intro h
  have := rtCheck_of (P := fun v' => v'.ty = .list .string)
    (by
      obtain ⟨it, r', hm, hu⟩ := h E0 (.list .string) (.list .dyn) .unref (by decide) (by decide) (by decide)
      exact ⟨it, _, hm, hu, rfl⟩)
    (chk := fun v' => v'.ty.equals (.list .string)) (by intro v' hty; rw [hty]; decide)
  revert this
  decide

/-! ## Non-vacuity: the hypotheses are satisfiable by non-trivial values -/

/-- an object holding a list with a refined unknown number, a tuple under a placeholder,
a map with a null member and an unknown collection with length bounds -/
def sampleTy : Ty :=
  .object ["a", "b", "c", "d"]
    [.list .number, .tuple [.string, .bool], .map .string, .list .bool] [false, false, false, false]

def sample : Value :=
  ⟨sampleTy, .smap ["a", "b", "c", "d"]
    [.seq [.n (.fin false 5 0 64), .unk (.num .f (some ⟨.fin false 1 (-1) 53, true⟩) (some ⟨.fin false 1 40 512, false⟩)),
           .n (.fin true 3 (-2) 53), .null],
     .seq [.s "x", .unk (.nullable .f)],
     .smap ["k", "l"] [.s "v", .null],
     .unk (.coll .u 1 7)]⟩

/-- the constraint: placeholders at a tuple position and as a whole attribute -/
def sampleConstraint : Ty :=
  .object ["a", "b", "c", "d"]
    [.list .number, .dyn, .map .string, .list .bool] [false, false, false, false]

example : Fits E0 sampleConstraint sample = true ∧ Ty.conformErrs sampleConstraint sampleTy = 0 ∧
    wfValue E0 sample = true ∧ sample.whollyKnown = false := by decide
example : SetsRebuild E0 sample := noSets rfl
-- a value with a set: the set law holds of `E0` (whose `setOf` keeps the members as they come)
example : Fits E0 (.set .number) ⟨.set .number, .sset [1, 2] [.n (.fin false 1 0 64), .unk (.num .f none none)]⟩ = true ∧
    SetsRebuild E0 ⟨.set .number, .sset [1, 2] [.n (.fin false 1 0 64), .unk (.num .f none none)]⟩ :=
  ⟨by decide, fun _ _ ps' h => ⟨[], ps', rfl, h⟩⟩
-- the same with the de-duplicating constructor of the driver: every hypothesis of `roundtrip_covers_sets_partial`
example : Fits ⟨id, fun _ => none, setOfDedup⟩ (.set .number)
      ⟨.set .number, .sset [1, 2, 3] [.n (.fin false 1 0 64), .n (.fin false 3 0 64), .unk (.num .f none none)]⟩ = true ∧
    setsApart (.set .number) (.sset [1, 2, 3] [.n (.fin false 1 0 64), .n (.fin false 3 0 64), .unk (.num .f none none)]) = true := by
  decide
-- marks at depth, a capsule-free conforming shape: the hypotheses of `marked_nested_rejected_err`
example : shapeP (.list .string) (.seq [.s "a", .marked ["m"] (.s "b")]) = true ∧
    Ty.conformErrs (.list .dyn) (.list .string) = 0 ∧
    (⟨.list .string, .seq [.s "a", .marked ["m"] (.s "b")]⟩ : Value).containsMarked = true := by decide
-- numbers on the text route covered by the digit-level hypothesis (1/8 + 2^-70 at 512 bits; 5/8 at 20 bits is a float64)
example : digitsExact (.fin false (2 ^ 60 + 1) (-70) 512) = true ∧ digitsExactOwn (.fin false (2 ^ 60 + 1) (-70) 61) = false ∧
    (Num.toF64 (.fin false (2 ^ 60 + 1) (-70) 512)).2 = false := by decide +kernel
example : (Num.fin false 5 0 512).toInt? = some 5 ∧ minI64 ≤ (5 : Int) ∧ (5 : Int) ≤ maxI64 := by decide
example : (⟨.list .string, .seq [.s "a", .marked ["m"] (.s "b")]⟩ : Value).containsMarked = true := by decide
example : Fits E0 .dyn ⟨.list .number, .seq [.n (.fin false 1 63 64), .n (.fin false 1 (-1) 512)]⟩ = true := by decide
example : numFits (.fin false 1 63 64) = true ∧ numFits (.fin false 3 (-1) 20) = true ∧
    numFits (.fin false 1 63 53) = true ∧ numFits (.fin false (2 ^ 512 + 1) 0 513) = false := by decide +kernel
-- a constraint with optional-attribute annotations: `Unmarshal` takes them off, the value's type has none
example : Fits E0 (.object ["a", "b"] [.string, .number] [true, false])
    ⟨.object ["a", "b"] [.string, .number] [false, false], .smap ["a", "b"] [.null, .n (.fin false 1 70 53)]⟩ = true := by decide
example : (Num.fin false 1 200 8).isInt = true ∧ wholeFits (.fin false 1 200 8) = true := by decide
example : (Num.fin false 1 63 64).toInt? = some 9223372036854775808 := by decide
example : (Num.toF64 (.fin false 3 (-1) 512)).2 = true ∧ (Num.fin false 3 (-1) 512).toInt? = none := by decide

/-! ## The regenerated model (cty/msgpack/unknown.go, translated on every check)

`Generated.MpUnknownFns.marshalUnknownValue` is the Lean text that `extract/translate_mpunknown.go`
derives from the SOURCE of `marshalUnknownValue` on every run of `./check` (statement by statement;
given API: `CtyModel/MpGo.lean`).  `Lemmas/MpUnknownFnsTie.lean` proves it equal to the hand-written
`Msgpack.marshalUnknown`, so the refinement theorems above hold of what the source says now; an edit
of the Go function that changes which key is written under which guard breaks these theorems. -/

/-- What the translated `marshalUnknownValue` writes into an empty encoder, read back as one item, is
what the hand-written `marshalUnknown` answers — for every type and every refinement record. -/
theorem marshal_unknown_generated (E : Ext) (vt : Ty) (r : Rfn) :
    (Generated.MpUnknownFns.marshalUnknownValue E ⟨vt, r⟩ []).bind MpGo.assemble = marshalUnknown E vt r :=
  MpUnknownFnsTie.marshalUnknownValue_eq E vt r

/-- `unknown_refinement_kept_partial`, about the regenerated encoder: the tokens the translated
`marshalUnknownValue` writes form one extension item, which decodes to an unknown value of the same
type carrying the original refinement as the wire format keeps it. -/
theorem unknown_refinement_kept_partial_generated (E : Ext) (vt : Ty) (r : Rfn) (hd : vt.isDyn = false)
    (h : rfnOK E vt r = true) :
    ∃ toks it r', Generated.MpUnknownFns.marshalUnknownValue E ⟨vt, r⟩ [] = .ok toks ∧ MpGo.assemble toks = .ok it ∧
      unmarshal E it vt = .ok ⟨vt, .unk r'⟩ ∧ Weaker vt r' r ∧ RfnKeptE E r' r := by
  obtain ⟨it, r', hm, hu, hw, hk⟩ := unknown_refinement_kept_partial E vt r hd h
  have ht := marshal_unknown_generated E vt r
  rw [hm] at ht
  cases hg : Generated.MpUnknownFns.marshalUnknownValue E ⟨vt, r⟩ [] with
  | ok toks => rw [hg] at ht; exact ⟨toks, it, r', rfl, ht, hu, hw, hk⟩
  | err c => rw [hg] at ht; cases ht
  | panic w => rw [hg] at ht; cases ht
  | unmodelled => rw [hg] at ht; cases ht

/-- The regenerated encoder never panics and never fails on its own: with a `SafeKnownPrefix` oracle that
answers, it writes either the 3-byte plain unknown or one extension item of type 12
(`marshal_never_panics`, about the regenerated definition). -/
theorem marshal_unknown_never_panics_generated (E : Ext) (vt : Ty) (r : Rfn) (w : String) :
    (Generated.MpUnknownFns.marshalUnknownValue E ⟨vt, r⟩ []).bind MpGo.assemble ≠ .panic w := by
  rw [marshal_unknown_generated]
  exact marshalUnknown_no_panic E vt r w

/-! ### the regenerated DECODER (`unmarshalUnknownValue`, translated on every check)

`Lemmas/d16bDecTie.lean` proves by induction over the refinement-entry loop that the translated decoder
answers what the hand-written loop-carrying decoder (`D17.unmarshal`) answers — for EVERY extension item and EVERY
requested type, no side condition, up to the TEXT of an error (`MpUnknownFnsTie.er`; `D16b.toV` reads the Go
value answered as a model value).  `Lemmas/d16bBridge.lean` ties that decoder to the one the theorems above are
about (`Msgpack.unmarshal`, whose known-length test is the separate scan `knownLenList`) on every refinement
stream that holds no extension item where a numeric bound is read (`D16b.boundPlain`, decidable) — which is
every stream `marshalUnknownValue` writes.  So the decoder-side clauses hold of what the source says now. -/

/-- The decoder of unknown values as the source has it now (`unmarshalUnknownValue`, regenerated) computes
what the model decoder computes: every type code, length word, body header, entry count, item stream and
requested type; errors compared as errors (text erased), values and "not modelled" exactly. -/
theorem unmarshal_unknown_generated [Refine.EqOracle] (E : Ext) (code : Int) (len : Nat) (hdr : ExtHdr) (stream : List Item)
    (ty : Ty) :
    MpUnknownFnsTie.er (D16b.toV (Generated.MpUnknownFns.unmarshalUnknownValue E (.atItem (.ext code len hdr stream)) ty)) =
      MpUnknownFnsTie.er (D17.unmarshal E (.ext code len hdr stream) ty) :=
  D16b.unmarshalUnknownValue_eq E code len hdr stream ty

/-- … and what the decoder of THIS property's theorems (`unmarshal`) computes, on every stream without an
extension item in the place of a numeric bound. -/
theorem unmarshal_unknown_generated_plain [Refine.EqOracle] (E : Ext) (code : Int) (len : Nat) (hdr : ExtHdr)
    (stream : List Item) (ty : Ty) (hp : ∀ v ∈ stream, D16b.boundPlain v = true) :
    MpUnknownFnsTie.er (D16b.toV (Generated.MpUnknownFns.unmarshalUnknownValue E (.atItem (.ext code len hdr stream)) ty)) =
      MpUnknownFnsTie.er (unmarshal E (.ext code len hdr stream) ty) := by
  rw [D16b.unmarshalUnknownValue_eq, D16b.ext_bridge E code len hdr stream ty hp]

/-- The regenerated decoder never panics, whatever it is positioned at (the deferred `recover`). -/
theorem unmarshal_unknown_never_panics_generated [Refine.EqOracle] (E : Ext) (d : MpGo.Dec) (ty : Ty) (w : String) :
    Generated.MpUnknownFns.unmarshalUnknownValue E d ty ≠ .panic w :=
  MpUnknownFnsTie.dec_never_panics E d ty w

/-- **"refinements may be approximated but are never narrowed or invented", for the encoder and the decoder
COMPOSED, both as regenerated from the source**: what the translated `marshalUnknownValue` writes for an
unknown value of a type other than the placeholder is one extension item, and the translated
`unmarshalUnknownValue` decodes it to an unknown value of the same type whose refinement admits everything the
original admitted (`Weaker`) and IS the original one as the wire format keeps it (`RfnKeptE`: nullness, numeric
bounds and length bounds unchanged, the prefix unchanged or `SafeKnownPrefix` of its first 255 bytes). -/
theorem unknown_roundtrip_generated (E : Ext) (vt : Ty) (r : Rfn) (hd : vt.isDyn = false) (h : rfnOK E vt r = true) :
    ∃ toks it r', Generated.MpUnknownFns.marshalUnknownValue E ⟨vt, r⟩ [] = .ok toks ∧ MpGo.assemble toks = .ok it ∧
      D16b.toV (Generated.MpUnknownFns.unmarshalUnknownValue E (.atItem it) vt) = .ok ⟨vt, .unk r'⟩ ∧
      Weaker vt r' r ∧ RfnKeptE E r' r := by
  obtain ⟨toks, it, r', hg, ha, hu, hw, hk⟩ := unknown_refinement_kept_partial_generated E vt r hd h
  have hm : marshalUnknown E vt r = .ok it := by
    have ht := marshal_unknown_generated E vt r
    rw [hg] at ht; exact ht.symm.trans ha
  exact ⟨toks, it, r', hg, ha, D16b.generated_decodes E vt vt r it _ hm hu, hw, hk⟩

/-- `known_length_list_refused`, about the regenerated decoder: a refinement map describing a list of known
length is never decoded to a value. -/
theorem known_length_list_refused_generated (E : Ext) (e : Ty) (len n : Nat) (stream : List Item) (h1 : 1 < len)
    (h2 : len ≤ maxExtLen) (hk : knownLenList (.list e) n stream = true) (hp : ∀ v ∈ stream, D16b.boundPlain v = true)
    (v : Value) :
    D16b.toV (Generated.MpUnknownFns.unmarshalUnknownValue E
      (.atItem (.ext unknownWithRefinementsExt len (.map n) stream)) (.list e)) ≠ .ok v := by
  intro hv
  have h := unmarshal_unknown_generated_plain E unknownWithRefinementsExt len (.map n) stream (.list e) hp
  rw [hv] at h
  exact known_length_list_refused E e len n stream h1 h2 hk v (D16b.er_ok_inv h.symm)

example : rfnOK E0 (.list .string) (.coll .f 1 5) = true ∧ Ty.isDyn (.list .string) = false := by decide
example : rfnOK E0 .number (.num .f (some ⟨.fin false 1 0 64, true⟩) none) = true := by decide
example : (∀ v ∈ [Item.int 1, .bool false, .int 5, .int 2, .int 6, .int 2], D16b.boundPlain v = true) ∧
    knownLenList (.list .string) 3 [.int 1, .bool false, .int 5, .int 2, .int 6, .int 2] = true := by decide

end C16
end CtyModel
