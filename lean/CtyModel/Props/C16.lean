/-
C16 — MessagePack encoding round-trips values, including unknown ones.
(work in progress: theorems are added below)
-/
import CtyModel.Msgpack
namespace CtyModel
namespace C16
open Msgpack

/-- Marked values are rejected with an error (not a panic), whatever the constraint. -/
theorem marked_rejected (E : Ext) (t vt : Ty) (ms : List String) (p : Payload) :
    marshal E ⟨vt, .marked ms p⟩ t = .err "value has marks" := by
  simp [marshal, Payload.isMarked]

end C16
end CtyModel
